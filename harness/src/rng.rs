//! SplitMix64: every random choice of the harness derives from one state seeded by VERIF_SEED.
#[derive(Clone)]
pub struct Rng(pub u64);

impl Rng {
    pub fn new(seed: u64) -> Self {
        Rng(seed ^ 0x9E37_79B9_7F4A_7C15)
    }
    pub fn next(&mut self) -> u64 {
        self.0 = self.0.wrapping_add(0x9E37_79B9_7F4A_7C15);
        let mut z = self.0;
        z = (z ^ (z >> 30)).wrapping_mul(0xBF58_476D_1CE4_E5B9);
        z = (z ^ (z >> 27)).wrapping_mul(0x94D0_49BB_1331_11EB);
        z ^ (z >> 31)
    }
    /// uniform in 0..n (n > 0)
    pub fn below(&mut self, n: usize) -> usize {
        (self.next() % (n as u64)) as usize
    }
    /// uniform in lo..=hi
    pub fn range(&mut self, lo: usize, hi: usize) -> usize {
        lo + self.below(hi - lo + 1)
    }
    pub fn chance(&mut self, num: u64, den: u64) -> bool {
        self.next() % den < num
    }
    pub fn pick<'a, T>(&mut self, xs: &'a [T]) -> &'a T {
        &xs[self.below(xs.len())]
    }
    pub fn f64(&mut self) -> f64 {
        (self.next() >> 11) as f64 / (1u64 << 53) as f64
    }
}
