//! C12 — TFM-PVALUE p-value ranges are consistent with the exact score distribution.
//! (Also hosts the machinery shared with C13: inputs, the exact oracle, matrix generators.)
//!
//! case:   c12pv <M> <5·M f32 bits, row major, original row order> <5 counts> <5 bg f32 bits>
//!               <query score, f64 bits> <maxit>
//!               | <perm, M> <n> <panic 0|1> { <g f64 bits> <pmin bits> <pmax bits> <conv 0|1> }*n
//!         Everything after `|` is what the implementation did (the row permutation read through the
//!         `Debug` impl of `TfmPvalue`, every `Iteration` of `approximate_pvalue(score).take(maxit)`).
//!         The model checks the permutation for admissibility (sorted by non-increasing row range),
//!         runs the IEEE-f64 mirror with it and compares probabilities within 1e-9 relative.
//! answer: adm-ok n=<n> panic=<0|1> g=<bits,…> conv=<flags>       (exact parts, compared as text)
//!         adm-bad <why>                                          (model only)
//!
//! The background is rebuilt from the 5 counts with `Background::from_counts` (the only public
//! constructor that accepts every frequency vector used here); the bits are what the model reads.
//!
//! Alternative entry points (`alt`, shared with C13; oracle only, case lines and answers unchanged):
//! on the cases whose input hash is 0 mod 3 the object is also built through `TfmPvalue::from(&pssm)`,
//! `(&pssm).into()` and `TfmPvalue::new(pssm)` by value (same permutation, same iterations bit for
//! bit); `as_inner()` / `into_inner()` give the matrix back, before and after queries; the
//! convenience methods `pvalue(s)` / `score(p)` answer like the last element of
//! `approximate_pvalue(s)` / `approximate_score(p)` (asked only when the main run converged within
//! `maxit`); ONE object answering a sequence of queries of both kinds (the query of the case, the
//! other direction, the query again, far below / above the attainable range) answers each like a
//! fresh object (exact parts equal, probabilities within 1e-9 relative: the hash maps of a reused
//! object keep their capacity, hence another summation order).
use crate::out::*;
use crate::rng::Rng;
use crate::Cfg;
use generic_array::GenericArray;
use lightmotif::abc::Background;
use lightmotif::abc::Dna;
use lightmotif::dense::DenseMatrix;
use lightmotif::pwm::CountMatrix;
use lightmotif::pwm::ScoringMatrix;
use lightmotif_tfmpvalue::TfmPvalue;
use std::cmp::Ordering;

pub const K: usize = 5;

// ------------------------------------------------------------------------------------------
// inputs
// ------------------------------------------------------------------------------------------

#[derive(Clone, Debug)]
pub struct Input {
    pub m: usize,
    pub mat: Vec<[u32; K]>,
    pub counts: [usize; K],
    pub bg: [u32; K],
    /// query: a score (C12) or a p-value (C13), f64 bits
    pub q: u64,
    pub maxit: usize,
}

impl Input {
    pub fn line(&self, op: &str) -> String {
        format!(
            "{} {} {} {} {} {} {}",
            op,
            self.m,
            join(self.mat.iter().flat_map(|r| r.iter())),
            join(self.counts.iter()),
            join(self.bg.iter()),
            self.q,
            self.maxit
        )
    }

    /// parse the input part of a case line (everything before `|`)
    pub fn parse(line: &str) -> (String, Input) {
        let head = line.split('|').next().unwrap();
        let t: Vec<&str> = head.split_whitespace().collect();
        let m: usize = t[1].parse().unwrap();
        let mut p = 2;
        let mut mat = Vec::new();
        for _ in 0..m {
            let mut r = [0u32; K];
            for x in r.iter_mut() {
                *x = t[p].parse().unwrap();
                p += 1;
            }
            mat.push(r);
        }
        let mut counts = [0usize; K];
        for x in counts.iter_mut() {
            *x = t[p].parse().unwrap();
            p += 1;
        }
        let mut bg = [0u32; K];
        for x in bg.iter_mut() {
            *x = t[p].parse().unwrap();
            p += 1;
        }
        let q: u64 = t[p].parse().unwrap();
        let maxit: usize = t[p + 1].parse().unwrap();
        (t[0].to_string(), Input { m, mat, counts, bg, q, maxit })
    }

    pub fn background(&self) -> Background<Dna> {
        let c: GenericArray<usize, <Dna as lightmotif::abc::Alphabet>::K> = GenericArray::from(self.counts);
        Background::<Dna>::from_counts(&c).unwrap()
    }

    pub fn pssm(&self) -> ScoringMatrix<Dna> {
        let rows: Vec<[f32; K]> = self
            .mat
            .iter()
            .map(|r| {
                let mut o = [0f32; K];
                for j in 0..K {
                    o[j] = f32::from_bits(r[j]);
                }
                o
            })
            .collect();
        ScoringMatrix::new(self.background(), DenseMatrix::from_rows(rows))
    }
}

pub fn bg_bits(counts: [usize; K]) -> [u32; K] {
    let c: GenericArray<usize, <Dna as lightmotif::abc::Alphabet>::K> = GenericArray::from(counts);
    let b = Background::<Dna>::from_counts(&c).unwrap();
    let mut o = [0u32; K];
    for j in 0..K {
        o[j] = b.frequencies()[j].to_bits();
    }
    o
}

// ------------------------------------------------------------------------------------------
// running the implementation
// ------------------------------------------------------------------------------------------

#[derive(Clone, Debug)]
pub struct It {
    pub g: f64,
    pub score: f64,
    pub start: f64,
    pub end: f64,
    pub conv: bool,
}

#[derive(Clone, Debug)]
pub struct Obs {
    pub perm: Vec<usize>,
    pub its: Vec<It>,
    pub panicked: bool,
}

/// the row permutation, read through the derived `Debug` impl (the only public view of it)
pub fn perm_of_debug(s: &str) -> Vec<usize> {
    let k = s.find("permutation: [").expect("no permutation field in Debug output") + "permutation: [".len();
    let e = k + s[k..].find(']').unwrap();
    s[k..e]
        .split(',')
        .map(|x| x.trim())
        .filter(|x| !x.is_empty())
        .map(|x| x.parse().unwrap())
        .collect()
}

/// `pvalue = true`: `approximate_pvalue(q)`; otherwise `approximate_score(q)`; at most `maxit` steps,
/// each step under `catch_unwind`.
pub fn run_impl(inp: &Input, pvalue: bool) -> Obs {
    let pssm = inp.pssm();
    let q = f64::from_bits(inp.q);
    let mut its: Vec<It> = Vec::new();
    let mut perm: Vec<usize> = Vec::new();
    let r = guarded(|| {
        let mut t = TfmPvalue::new(&pssm);
        perm = perm_of_debug(&format!("{:?}", t));
        let push = |x: lightmotif_tfmpvalue::Iteration, its: &mut Vec<It>| {
            its.push(It {
                g: x.granularity,
                score: x.score,
                start: *x.range.start(),
                end: *x.range.end(),
                conv: x.converged,
            })
        };
        if pvalue {
            let mut it = t.approximate_pvalue(q);
            for _ in 0..inp.maxit {
                match it.next() {
                    Some(x) => push(x, &mut its),
                    None => break,
                }
            }
        } else {
            let mut it = t.approximate_score(q);
            for _ in 0..inp.maxit {
                match it.next() {
                    Some(x) => push(x, &mut its),
                    None => break,
                }
            }
        }
    });
    Obs { perm, its, panicked: r.is_err() }
}

// ------------------------------------------------------------------------------------------
// exact arithmetic: dyadic rationals m·2^e in i128, and a small unsigned big integer
// ------------------------------------------------------------------------------------------

/// m · 2^e, exact.  Operations return `None` instead of overflowing.
#[derive(Clone, Copy, Debug)]
pub struct Dy {
    pub m: i128,
    pub e: i32,
}

impl Dy {
    pub fn of_f64(x: f64) -> Option<Dy> {
        if !x.is_finite() {
            return None;
        }
        let b = x.to_bits();
        let neg = (b >> 63) != 0;
        let ex = ((b >> 52) & 0x7ff) as i32;
        let fr = (b & ((1u64 << 52) - 1)) as i128;
        let (mut m, mut e) = if ex == 0 { (fr, -1074) } else { (fr | (1i128 << 52), ex - 1075) };
        if m == 0 {
            return Some(Dy { m: 0, e: 0 });
        }
        while m & 1 == 0 {
            m >>= 1;
            e += 1;
        }
        Some(Dy { m: if neg { -m } else { m }, e })
    }
    fn at(self, e: i32) -> Option<i128> {
        // self.e >= e
        let sh = (self.e - e) as u32;
        if self.m == 0 {
            return Some(0);
        }
        if sh >= 120 {
            return None;
        }
        let r = self.m.checked_mul(1i128 << sh)?;
        if r.unsigned_abs() >> 124 != 0 {
            return None;
        }
        Some(r)
    }
    pub fn add(self, o: Dy) -> Option<Dy> {
        if self.m == 0 {
            return Some(o);
        }
        if o.m == 0 {
            return Some(self);
        }
        let e = self.e.min(o.e);
        Some(Dy { m: self.at(e)?.checked_add(o.at(e)?)?, e })
    }
    pub fn scale(self, k: i128) -> Option<Dy> {
        Some(Dy { m: self.m.checked_mul(k)?, e: self.e })
    }
    pub fn cmp(self, o: Dy) -> Option<Ordering> {
        if self.m == 0 || o.m == 0 {
            return Some(self.m.cmp(&o.m));
        }
        let e = self.e.min(o.e);
        Some(self.at(e)?.cmp(&o.at(e)?))
    }
    /// exact conversion if representable
    pub fn to_f64_exact(self) -> Option<f64> {
        let x = (self.m as f64) * 2f64.powi(self.e);
        match Dy::of_f64(x) {
            Some(d) if d.cmp(self) == Some(Ordering::Equal) => Some(x),
            _ => None,
        }
    }
}

const LIMBS: usize = 7;

#[derive(Clone, Copy, PartialEq, Eq, Debug)]
pub struct Big(pub [u64; LIMBS]);

impl Big {
    pub fn zero() -> Big {
        Big([0; LIMBS])
    }
    pub fn one() -> Big {
        let mut b = Big::zero();
        b.0[0] = 1;
        b
    }
    pub fn mul_small(&self, k: u64) -> Big {
        let mut r = Big::zero();
        let mut c: u128 = 0;
        for i in 0..LIMBS {
            let t = (self.0[i] as u128) * (k as u128) + c;
            r.0[i] = t as u64;
            c = t >> 64;
        }
        assert!(c == 0, "Big overflow");
        r
    }
    pub fn add(&self, o: &Big) -> Big {
        let mut r = Big::zero();
        let mut c: u128 = 0;
        for i in 0..LIMBS {
            let t = (self.0[i] as u128) + (o.0[i] as u128) + c;
            r.0[i] = t as u64;
            c = t >> 64;
        }
        assert!(c == 0, "Big overflow");
        r
    }
    pub fn is_zero(&self) -> bool {
        self.0.iter().all(|&x| x == 0)
    }
    /// (value · 2^e as f64 rounded down to 64 significant bits then to f64, exactly representable?)
    pub fn to_f64(&self, e: i32) -> (f64, bool) {
        let mut top = LIMBS;
        while top > 0 && self.0[top - 1] == 0 {
            top -= 1;
        }
        if top == 0 {
            return (0.0, true);
        }
        let hi = self.0[top - 1];
        let lz = hi.leading_zeros();
        // collect the top 64 bits
        let mut w: u64 = hi << lz;
        let mut rest_zero = true;
        if top >= 2 {
            if lz > 0 {
                w |= self.0[top - 2] >> (64 - lz);
                if (self.0[top - 2] << lz) != 0 {
                    rest_zero = false;
                }
            } else if self.0[top - 2] != 0 {
                rest_zero = false;
            }
            for i in 0..top.saturating_sub(2) {
                if self.0[i] != 0 {
                    rest_zero = false;
                }
            }
        }
        let exact = rest_zero && (w & 0x7ff) == 0;
        let shift = (64 * (top as i32 - 1)) - lz as i32; // value = w · 2^shift (+ rest)
        let x = (w as f64) * 2f64.powi(shift + e);
        (x, exact)
    }
}

// ------------------------------------------------------------------------------------------
// the exact score distribution of a background-distributed word (all K^M words enumerated)
// ------------------------------------------------------------------------------------------

pub struct Exact {
    pub m: usize,
    /// distinct scores of words of positive probability, DESCENDING, with the exact tail
    /// P(S >= score) converted to f64 (relative error <= 2^-52) and an "exactly representable" flag
    pub levels: Vec<(Dy, f64, bool)>,
    /// |sum of all five background frequencies - 1|
    pub delta: f64,
    /// total mass of the words with a finite score
    pub total: f64,
}

impl Exact {
    /// `None` when a value is not finite where it must be, or the exact arithmetic would overflow
    pub fn new(inp: &Input) -> Option<Exact> {
        let m = inp.m;
        // background: common exponent
        let bgd: Vec<Dy> = inp.bg.iter().map(|&b| Dy::of_f64(f32::from_bits(b) as f64)).collect::<Option<Vec<_>>>()?;
        let mut eb = 0i32;
        for d in &bgd {
            if d.m != 0 {
                eb = eb.min(d.e);
            }
        }
        let mut num = [0u64; K];
        for j in 0..K {
            if bgd[j].m < 0 {
                return None;
            }
            let v = bgd[j].at(eb)?;
            if v >= (1i128 << 62) {
                return None;
            }
            num[j] = v as u64;
        }
        let mut sum = Dy { m: 0, e: 0 };
        for d in &bgd {
            sum = sum.add(*d)?;
        }
        let delta = {
            let d = sum.add(Dy { m: -1, e: 0 })?;
            ((d.m as f64) * 2f64.powi(d.e)).abs()
        };
        // symbols that can occur in a word with a finite score and positive probability
        let mut cell: Vec<[Option<Dy>; K]> = Vec::new();
        for r in &inp.mat {
            let mut o = [None; K];
            for j in 0..K {
                let x = f32::from_bits(r[j]);
                if x.is_finite() {
                    o[j] = Some(Dy::of_f64(x as f64)?);
                } else if x == f32::NEG_INFINITY {
                    o[j] = None;
                } else {
                    return None;
                }
            }
            cell.push(o);
        }
        let syms: Vec<usize> = (0..K).filter(|&j| num[j] != 0).collect();
        let mut words: Vec<(Dy, Big)> = Vec::new();
        let mut idx = vec![0usize; m];
        'outer: loop {
            let mut s = Dy { m: 0, e: 0 };
            let mut p = Big::one();
            let mut ok = true;
            for i in 0..m {
                let j = syms[idx[i]];
                match cell[i][j] {
                    Some(d) => {
                        s = s.add(d)?;
                        p = p.mul_small(num[j]);
                    }
                    None => {
                        ok = false;
                        break;
                    }
                }
            }
            if ok {
                words.push((s, p));
            }
            let mut i = 0;
            loop {
                if i == m {
                    break 'outer;
                }
                idx[i] += 1;
                if idx[i] < syms.len() {
                    break;
                }
                idx[i] = 0;
                i += 1;
            }
        }
        let mut bad = false;
        words.sort_by(|a, b| match b.0.cmp(a.0) {
            Some(o) => o,
            None => {
                bad = true;
                Ordering::Equal
            }
        });
        if bad {
            return None;
        }
        let mut levels: Vec<(Dy, f64, bool)> = Vec::new();
        let mut cum = Big::zero();
        let e = eb * m as i32;
        let mut i = 0;
        while i < words.len() {
            let s = words[i].0;
            while i < words.len() && words[i].0.cmp(s) == Some(Ordering::Equal) {
                cum = cum.add(&words[i].1);
                i += 1;
            }
            let (x, ex) = cum.to_f64(e);
            levels.push((s, x, ex));
        }
        let total = cum.to_f64(e).0;
        Some(Exact { m, levels, delta, total })
    }

    /// exact P(S >= x)
    pub fn tail(&self, x: Dy) -> Option<f64> {
        // levels descending: find the last level with score >= x
        let mut lo = 0usize; // number of levels known to be >= x
        let mut hi = self.levels.len();
        while lo < hi {
            let mid = (lo + hi) / 2;
            match self.levels[mid].0.cmp(x)? {
                Ordering::Less => hi = mid,
                _ => lo = mid + 1,
            }
        }
        Some(if lo == 0 { 0.0 } else { self.levels[lo - 1].1 })
    }

    /// the largest attainable score strictly below x
    pub fn below(&self, x: Dy) -> Option<Option<Dy>> {
        for l in &self.levels {
            if l.0.cmp(x)? == Ordering::Less {
                return Some(Some(l.0));
            }
        }
        Some(None)
    }

    pub fn min(&self) -> Dy {
        self.levels.last().unwrap().0
    }
    pub fn max(&self) -> Dy {
        self.levels[0].0
    }

    /// relative tolerance of a probability comparison: 1e-9, for the f64 rounding of the
    /// implementation's sums (their order depends on the hash map).  Nothing else: the tails are
    /// those of the measure the f32 background actually defines, also when its frequencies sum to
    /// 1 only up to f32 rounding (`delta`) or put mass on the wildcard.
    pub fn tol(&self) -> f64 {
        1e-9
    }
}

/// the exact arithmetic is i128-based; a case it cannot represent has no oracle verdict
pub fn not_overflow(r: Result<(), String>) -> Option<Result<(), String>> {
    match r {
        Err(e) if e == "ovf" => None,
        r => Some(r),
    }
}

pub fn le_tol(a: f64, b: f64, tol: f64) -> bool {
    a <= b * (1.0 + tol) + 1e-300
}

// ------------------------------------------------------------------------------------------
// the property oracle for C12
// ------------------------------------------------------------------------------------------

/// written from the property text: every step reports `pmin <= pmax` in [0,1] with
/// `P(S >= s+(M+1)g) <= pmin` and `pmax <= P(S >= s-(M+2)g)`; no step panics.
pub fn oracle_c12(inp: &Input, ex: &Exact, obs: &Obs) -> Result<(), String> {
    if obs.panicked {
        return Err(format!("panic in iteration {}", obs.its.len()));
    }
    let s = Dy::of_f64(f64::from_bits(inp.q)).ok_or("query not finite")?;
    let m = inp.m as i128;
    let tol = ex.tol();
    for (i, it) in obs.its.iter().enumerate() {
        let (pmin, pmax) = (it.start, it.end);
        if !(pmin <= pmax) {
            return Err(format!("step {} g={:e}: pmin {:e} > pmax {:e}", i, it.g, pmin, pmax));
        }
        if !(pmin >= 0.0) || !le_tol(pmax, 1.0f64.max(ex.total), tol) {
            return Err(format!("step {} g={:e}: range [{:e}, {:e}] not within [0,1]", i, it.g, pmin, pmax));
        }
        let g = Dy::of_f64(it.g).ok_or("granularity not finite")?;
        let hi = s.add(g.scale(m + 1).ok_or("ovf")?).ok_or("ovf")?;
        let lo = s.add(g.scale(-(m + 2)).ok_or("ovf")?).ok_or("ovf")?;
        let p_hi = ex.tail(hi).ok_or("ovf")?;
        let p_lo = ex.tail(lo).ok_or("ovf")?;
        if !le_tol(p_hi, pmin, tol) {
            return Err(format!(
                "step {} g={:e}: pmin {:e} < P(S >= s+(M+1)g) = {:e}",
                i, it.g, pmin, p_hi
            ));
        }
        if !le_tol(pmax, p_lo, tol) {
            return Err(format!(
                "step {} g={:e}: pmax {:e} > P(S >= s-(M+2)g) = {:e}",
                i, it.g, pmax, p_lo
            ));
        }
    }
    Ok(())
}

// ------------------------------------------------------------------------------------------
// alternative entry points (C12 and C13)
// ------------------------------------------------------------------------------------------

/// hash of the input part of a case line (what the implementation answered is not part of it)
pub fn input_hash(inp: &Input) -> u64 {
    fnv_nats(inp.mat.iter().flatten().map(|x| *x as usize).chain(inp.counts.iter().cloned()).chain([inp.q as usize, inp.maxit]))
}

/// one query put to an object: `pv` = `approximate_pvalue(q)`, otherwise `approximate_score(q)`,
/// at most `maxit` steps
#[derive(Clone, Copy, Debug)]
pub struct Ask {
    pub pv: bool,
    pub q: f64,
    pub maxit: usize,
}

fn ask<M: AsRef<ScoringMatrix<Dna>>>(t: &mut TfmPvalue<Dna, M>, a: Ask) -> (Vec<It>, bool) {
    let mut its: Vec<It> = Vec::new();
    let r = guarded(|| {
        let mut push = |x: lightmotif_tfmpvalue::Iteration| its.push(It { g: x.granularity, score: x.score, start: *x.range.start(), end: *x.range.end(), conv: x.converged });
        if a.pv {
            // through the Iterator adaptors rather than bare `next`
            t.approximate_pvalue(a.q).take(a.maxit).for_each(&mut push);
        } else {
            t.approximate_score(a.q).take(a.maxit).for_each(&mut push);
        }
    });
    (its, r.is_err())
}

fn rel_eq(a: f64, b: f64) -> bool {
    a.to_bits() == b.to_bits() || (a - b).abs() <= 1e-9 * a.abs().max(b.abs())
}

/// `exact`: bit for bit (two fresh objects); otherwise exact parts equal and numbers within 1e-9
fn same_its(what: &str, a: &(Vec<It>, bool), b: &(Vec<It>, bool), exact: bool) -> Result<(), String> {
    if a.1 != b.1 || a.0.len() != b.0.len() {
        return Err(format!("{}: {} iterations (panic {}) but {} (panic {})", what, a.0.len(), a.1, b.0.len(), b.1));
    }
    for (i, (x, y)) in a.0.iter().zip(&b.0).enumerate() {
        let same = if exact {
            x.g.to_bits() == y.g.to_bits() && x.score.to_bits() == y.score.to_bits() && x.start.to_bits() == y.start.to_bits() && x.end.to_bits() == y.end.to_bits() && x.conv == y.conv
        } else {
            x.g.to_bits() == y.g.to_bits() && rel_eq(x.score, y.score) && rel_eq(x.start, y.start) && rel_eq(x.end, y.end) && x.conv == y.conv
        };
        if !same {
            return Err(format!("{}: iteration {} is {:?} but {:?}", what, i, x, y));
        }
    }
    Ok(())
}

/// `pvalue`: the case is a C12 case (query = score); otherwise a C13 case (query = p-value)
pub fn alt(inp: &Input, obs: &Obs, pvalue: bool) -> Result<(), String> {
    let pssm = inp.pssm();
    let q = f64::from_bits(inp.q);
    let main_ask = Ask { pv: pvalue, q, maxit: inp.maxit };
    let main: (Vec<It>, bool) = (obs.its.clone(), obs.panicked);
    // ---- the other constructors
    {
        let mut a = TfmPvalue::<Dna, &ScoringMatrix<Dna>>::from(&pssm);
        let mut b: TfmPvalue<Dna, &ScoringMatrix<Dna>> = (&pssm).into();
        let mut c = TfmPvalue::<Dna, ScoringMatrix<Dna>>::new(pssm.clone());
        let mut d = TfmPvalue::<Dna, ScoringMatrix<Dna>>::from(pssm.clone());
        if !std::ptr::eq(*a.as_inner(), &pssm) || !std::ptr::eq(*b.as_inner(), &pssm) || c.as_inner() != &pssm || d.as_inner() != &pssm {
            return Err("as_inner() of a new object is not the matrix given".into());
        }
        for (name, perm) in [("From<&ScoringMatrix>", perm_of_debug(&format!("{:?}", a))), ("Into", perm_of_debug(&format!("{:?}", b))), ("new(matrix by value)", perm_of_debug(&format!("{:?}", c))), ("From<ScoringMatrix>", perm_of_debug(&format!("{:?}", d)))] {
            if perm != obs.perm {
                return Err(format!("{}: row permutation {:?} but TfmPvalue::new(&pssm) has {:?}", name, perm, obs.perm));
            }
        }
        same_its("TfmPvalue::from(&pssm)", &ask(&mut a, main_ask), &main, true)?;
        same_its("(&pssm).into()", &ask(&mut b, main_ask), &main, true)?;
        same_its("TfmPvalue::new(pssm) by value", &ask(&mut c, main_ask), &main, true)?;
        same_its("TfmPvalue::from(pssm) by value", &ask(&mut d, main_ask), &main, true)?;
        // the matrix comes back unchanged after the queries
        if !std::ptr::eq(*a.as_inner(), &pssm) || !std::ptr::eq(a.into_inner(), &pssm) || c.as_inner() != &pssm || c.into_inner() != pssm || d.into_inner() != pssm {
            return Err("as_inner() / into_inner() after queries is not the matrix given".into());
        }
    }
    // ---- the convenience methods run the same iteration to convergence: asked only when the main run
    // converged within its bound (otherwise the number of steps is not bounded by the case)
    if !obs.panicked && obs.its.last().map(|x| x.conv).unwrap_or(false) {
        let last = obs.its.last().unwrap();
        let mut t = TfmPvalue::new(&pssm);
        let r = guarded(|| if pvalue { t.pvalue(q) } else { t.score(q) });
        let want = if pvalue { last.start } else { last.score };
        match r {
            Ok(x) if x.to_bits() == want.to_bits() => {}
            Ok(x) => return Err(format!("{}({:e}) = {:e} but the last (converged) iteration of the approximation has {:e}", if pvalue { "pvalue" } else { "score" }, q, x, want)),
            Err(()) => return Err(format!("{}({:e}) panics although the approximation converges", if pvalue { "pvalue" } else { "score" }, q)),
        }
    }
    if obs.panicked || obs.its.is_empty() {
        return Ok(());
    }
    // ---- one object, several queries: each answered like a fresh object answers it
    let first = &obs.its[0];
    let last = obs.its.last().unwrap();
    let (lo, hi) = {
        // the attainable score range, from the matrix (f64 sums of row extremes over the four bases)
        let cell = |i: usize, j: usize| f32::from_bits(inp.mat[i][j]) as f64;
        let lo: f64 = (0..inp.m).map(|i| (0..4).map(|j| cell(i, j)).fold(f64::INFINITY, f64::min)).sum();
        let hi: f64 = (0..inp.m).map(|i| (0..4).map(|j| cell(i, j)).fold(f64::NEG_INFINITY, f64::max)).sum();
        (lo, hi)
    };
    // the other direction, fed with what the case's own answer suggests (an arbitrary real number, not a
    // tail probability of the matrix: ties in `sum >= p` would depend on the summation order)
    let other = if pvalue {
        let p = 0.37 * first.start + 0.41 * last.end + 1.234567e-3;
        Ask { pv: false, q: if p > 0.0 && p < 1.0 { p } else { 0.123456789 }, maxit: 3 }
    } else {
        Ask { pv: true, q: last.score, maxit: 3 }
    };
    // an INVALID query in the middle of the history (a negative p-value: `lookup_score` panics, the caller
    // catches the unwind and keeps the object): the valid queries that follow are still answered as the
    // property prescribes, i.e. like a fresh object answers them
    let invalid = Ask { pv: false, q: -0.5, maxit: 2 };
    let seq: Vec<Ask> = if pvalue {
        vec![main_ask, invalid, other, main_ask, Ask { pv: true, q: lo - 1.5, maxit: 2 }, Ask { pv: true, q: hi + 1.5, maxit: 2 }, Ask { pv: true, q: (lo + hi) / 2.0 + 0.0123, maxit: 3 }, main_ask]
    } else {
        vec![main_ask, invalid, other, main_ask, Ask { pv: false, q: 1e-12, maxit: 2 }, Ask { pv: false, q: 1.0 - 1e-12, maxit: 2 }, Ask { pv: true, q: hi + 1.5, maxit: 2 }, Ask { pv: true, q: lo - 1.5, maxit: 2 }, main_ask]
    };
    let mut reused = TfmPvalue::new(&pssm);
    for (k, a) in seq.iter().enumerate() {
        let got = ask(&mut reused, *a);
        let mut fresh_obj = TfmPvalue::new(&pssm);
        let fresh = ask(&mut fresh_obj, *a);
        same_its(&format!("query {} of a reused object ({} {:e}) vs a fresh object", k, if a.pv { "approximate_pvalue" } else { "approximate_score" }, a.q), &got, &fresh, false)?;
        if k == 0 {
            same_its("the query of the case asked of a second fresh object", &fresh, &main, true)?;
        }
        if got.1 && a.q >= 0.0 {
            // a panic on a VALID query is judged by the main clauses; nothing more is asked of this object
            break;
        }
    }
    if !std::ptr::eq(reused.into_inner(), &pssm) {
        return Err("into_inner() of a reused object is not the matrix given".into());
    }
    Ok(())
}

/// add the alternative-entry-point clause to the verdict of the main clause (when that one holds or
/// has nothing to say)
pub fn with_alt(o: Option<Result<(), String>>, inp: &Input, obs: &Obs, pvalue: bool) -> (Option<Result<(), String>>, bool) {
    if matches!(o, Some(Err(_))) || input_hash(inp) % 3 != 0 {
        return (o, false);
    }
    let r = match guarded(|| alt(inp, obs, pvalue)) {
        Ok(r) => r.map_err(|e| format!("alternative entry point: {}", e)),
        Err(()) => Err("alternative entry point: panic".into()),
    };
    match (o, r) {
        (o, Ok(())) => (o, true),
        (_, Err(e)) => (Some(Err(e)), true),
    }
}

// ------------------------------------------------------------------------------------------
// generators (shared with C13)
// ------------------------------------------------------------------------------------------

/// a background as counts for `Background::from_counts`, with a class label
pub fn gen_background(rng: &mut Rng) -> ([usize; K], &'static str) {
    match rng.below(12) {
        10 | 11 => {
            // strongly skewed, still dyadic (exact): one or two symbols with frequency 2^-12 … 2^-24 —
            // tails far below f64::EPSILON and frequencies below f32::EPSILON are attainable
            let e = *rng.pick(&[12usize, 16, 24]);
            let total = 1usize << e;
            let rare = rng.range(1, 2);
            let mut c = [0usize; K];
            let mut idx: Vec<usize> = (0..4).collect();
            for k in 0..4 {
                let j = k + rng.below(4 - k);
                idx.swap(k, j);
            }
            for &i in &idx[..rare] {
                c[i] = 1;
            }
            let rest = total - rare;
            let n = 4 - rare;
            for (t, &i) in idx[rare..].iter().enumerate() {
                c[i] = rest / n + if t < rest % n { 1 } else { 0 };
            }
            (c, "bg-skewed")
        }
        0 | 1 | 2 => ([1, 1, 1, 1, 0], "bg-uniform"),
        3 | 4 | 5 => {
            // dyadic: positive counts summing to a power of two => frequencies exact, sum exactly 1
            let total = 1usize << rng.range(3, 10);
            loop {
                let a = rng.range(1, total - 3);
                let b = rng.range(1, total - 3);
                let c = rng.range(1, total - 3);
                if a + b + c < total {
                    return ([a, b, c, total - a - b - c, 0], "bg-dyadic");
                }
            }
        }
        6 | 7 | 8 => {
            // arbitrary counts: the f32 frequencies sum to 1 only up to rounding
            ([rng.range(1, 40), rng.range(1, 40), rng.range(1, 40), rng.range(1, 40), 0], "bg-counts")
        }
        _ => {
            // mass on the wildcard (only used with a -inf wildcard column)
            let total = 16usize;
            loop {
                let a = rng.range(1, 8);
                let b = rng.range(1, 8);
                let c = rng.range(1, 8);
                let n = rng.range(1, 4);
                if a + b + c + n < total {
                    return ([a, b, c, total - a - b - c - n, n], "bg-wildmass");
                }
            }
        }
    }
}

/// scoring matrix of width `m`, as f32 bits, with a class label; wildcard column -inf unless the
/// class says otherwise
pub fn gen_matrix(rng: &mut Rng, m: usize, counts: [usize; K], allow_finite_wild: bool) -> (Vec<[u32; K]>, &'static str) {
    let ninf = f32::NEG_INFINITY;
    let kind = rng.below(if allow_finite_wild { 6 } else { 5 });
    let mut rows: Vec<[f32; K]> = Vec::new();
    let label;
    match kind {
        0 | 1 => {
            // as the library produces: counts -> frequencies (pseudocount) -> log-odds
            label = "mat-lib";
            let n = rng.range(4, 30);
            let mut data = Vec::new();
            for _ in 0..m {
                let mut r = [0u32; K];
                for _ in 0..n {
                    r[rng.below(4)] += 1;
                }
                data.push(r);
            }
            let c: GenericArray<usize, <Dna as lightmotif::abc::Alphabet>::K> = GenericArray::from(counts);
            let bg = Background::<Dna>::from_counts(&c).unwrap();
            let pseudo = *rng.pick(&[0.1f32, 0.25, 0.5, 1.0]);
            let pssm = CountMatrix::<Dna>::new(DenseMatrix::from_rows(data)).unwrap().to_freq(pseudo).to_scoring(bg);
            for i in 0..m {
                let mut r = [0f32; K];
                for j in 0..K {
                    r[j] = pssm.matrix()[i][j];
                }
                // the library gives -inf where the background is zero; a wildcard with background
                // mass would get a finite log-odds: the streams with wildcard mass keep the
                // wildcard column at -inf (words containing N then have score -inf)
                if counts[4] != 0 {
                    r[4] = ninf;
                }
                rows.push(r);
            }
        }
        2 => {
            // dyadic entries: many exactly tied word scores
            label = "mat-dyadic";
            let den = *rng.pick(&[1i32, 2, 4, 8]);
            // one time in three every entry of the matrix has the same sign (rows whose minimum is
            // positive / whose maximum is negative: the offsets of the integer matrix change sign)
            let shift = *rng.pick(&[0i32, 0, 0, 0, 26, -18]);
            for _ in 0..m {
                let mut r = [ninf; K];
                for j in 0..4 {
                    r[j] = (rng.range(0, 40) as i32 - 24 + shift) as f32 / den as f32;
                }
                rows.push(r);
            }
        }
        3 => {
            // decimal entries: x/g sits on (or one ulp beside) an integer at some granularity
            label = "mat-decimal";
            let den = *rng.pick(&[10f32, 100.0, 1000.0]);
            for _ in 0..m {
                let mut r = [ninf; K];
                for j in 0..4 {
                    r[j] = (rng.range(0, 500) as i32 - 300) as f32 / den * if den > 10.0 { 10.0 } else { 1.0 };
                }
                rows.push(r);
            }
        }
        4 => {
            // sparse: a few strongly negative entries, constant rows, repeated rows
            label = "mat-sparse";
            let base: [f32; 4] = [
                rng.f64() as f32 * 2.0,
                -(rng.f64() as f32) * 12.0 - 1.0,
                rng.f64() as f32 - 0.5,
                -(rng.f64() as f32) * 3.0,
            ];
            for i in 0..m {
                let mut r = [ninf; K];
                for j in 0..4 {
                    r[j] = match rng.below(4) {
                        0 => base[j],
                        1 => base[(j + i) % 4],
                        2 => 0.0,
                        _ => (rng.f64() as f32 - 0.7) * 8.0,
                    };
                }
                rows.push(r);
            }
        }
        _ => {
            // finite wildcard column (as other tools and hand-written matrices have it)
            label = "mat-finite-wild";
            for _ in 0..m {
                let mut r = [0f32; K];
                for j in 0..4 {
                    r[j] = (rng.f64() as f32 - 0.6) * 6.0;
                }
                r[4] = match rng.below(4) {
                    0 => 0.0,
                    1 => r[..4].iter().cloned().fold(f32::INFINITY, f32::min),
                    2 => (r[0] + r[1] + r[2] + r[3]) / 4.0,
                    _ => -(rng.f64() as f32) * 3.0,
                };
                rows.push(r);
            }
        }
    }
    (
        rows.iter()
            .map(|r| {
                let mut o = [0u32; K];
                for j in 0..K {
                    // no negative zero, nothing tiny (keeps the exact arithmetic within i128)
                    let x = if r[j].is_finite() && r[j].abs() < 1.0 / 1024.0 { 0.0 } else { r[j] };
                    o[j] = x.to_bits();
                }
                o
            })
            .collect(),
        label,
    )
}

/// widths: mostly small (the Lean mirror keeps maps as association lists), a few wide ones
pub fn gen_width(rng: &mut Rng, k: usize, thorough: bool) -> usize {
    if k < 7 {
        2 + k // one of every width 2..8 first
    } else if thorough {
        rng.range(2, 8)
    } else {
        *rng.pick(&[2usize, 3, 3, 4, 4, 5, 5, 6, 6, 7])
    }
}

pub fn gen_instance(rng: &mut Rng, k: usize, thorough: bool) -> (Input, String) {
    let m = gen_width(rng, k, thorough);
    let (counts, bl) = gen_background(rng);
    let (mat, ml) = gen_matrix(rng, m, counts, counts[4] == 0);
    let maxit = if m >= 7 { 5 } else { 7 };
    (Input { m, mat, counts, bg: bg_bits(counts), q: 0, maxit }, format!("{}/{}", ml, bl))
}

// ------------------------------------------------------------------------------------------
// C12 stream
// ------------------------------------------------------------------------------------------

fn next_up(x: f64) -> f64 {
    let b = x.to_bits();
    if x == 0.0 {
        f64::from_bits(1)
    } else if x > 0.0 {
        f64::from_bits(b + 1)
    } else {
        f64::from_bits(b - 1)
    }
}

/// queries for one matrix: (score, class)
fn queries(rng: &mut Rng, ex: &Exact) -> Vec<(f64, &'static str)> {
    let f = |d: Dy| (d.m as f64) * 2f64.powi(d.e);
    let (lo, hi) = (f(ex.min()), f(ex.max()));
    let mut q: Vec<(f64, &'static str)> = vec![
        (lo - 1.0 - rng.f64(), "q-below-min"),
        (lo - 1e-3, "q-below-min"),
        (hi + 1e-3, "q-above-max"),
        (hi + 0.5 + 3.0 * rng.f64(), "q-above-max"),
    ];
    let n = ex.levels.len();
    let mut att: Vec<usize> = vec![0, n - 1, rng.below(n), rng.below(n), n / 2];
    att.sort();
    att.dedup();
    for (k, &i) in att.iter().enumerate() {
        if let Some(x) = ex.levels[i].0.to_f64_exact() {
            q.push((x, "q-attainable"));
            match k % 3 {
                // one ulp above (kept away from zero: its successor is a subnormal)
                0 => q.push((if x.abs() > 1e-6 { next_up(x) } else { x + 2f64.powi(-60) }, "q-just-above")),
                1 => q.push((x + 1e-4 * (1.0 + rng.f64()), "q-just-above")),
                _ => q.push((x + 0.03 * rng.f64(), "q-just-above")),
            }
        }
    }
    q.push((lo + (hi - lo) * rng.f64(), "q-random"));
    q.push((lo + (hi - lo) * (0.5 + 0.5 * rng.f64()), "q-random"));
    q
}

fn fmt_obs_c12(obs: &Obs) -> String {
    let mut s = format!("{} {} {}", join(obs.perm.iter()), obs.its.len(), obs.panicked as u8);
    for it in &obs.its {
        s.push_str(&format!(" {} {} {} {}", it.g.to_bits(), it.start.to_bits(), it.end.to_bits(), it.conv as u8));
    }
    s
}

pub fn answer(obs: &Obs, with_score: bool) -> String {
    let mut s = format!(
        "adm-ok n={} panic={} g={}",
        obs.its.len(),
        obs.panicked as u8,
        obs.its.iter().map(|i| i.g.to_bits().to_string()).collect::<Vec<_>>().join(",")
    );
    if with_score {
        s.push_str(&format!(
            " score={}",
            obs.its.iter().map(|i| i.score.to_bits().to_string()).collect::<Vec<_>>().join(",")
        ));
    }
    s.push_str(&format!(
        " conv={}",
        obs.its.iter().map(|i| (i.conv as u8).to_string()).collect::<Vec<_>>().join("")
    ));
    s
}

/// (full case line, implementation answer, oracle verdict, non-trivial, iterations)
pub fn exec(line: &str) -> (String, String, Option<Result<(), String>>, bool, usize) {
    let (op, inp) = Input::parse(line);
    assert_eq!(op, "c12pv");
    let obs = run_impl(&inp, true);
    let full = format!("{} | {}", inp.line("c12pv"), fmt_obs_c12(&obs));
    let ex = Exact::new(&inp);
    let (o, nt) = match &ex {
        Some(ex) => {
            let t = Dy::of_f64(f64::from_bits(inp.q)).and_then(|s| ex.tail(s)).unwrap_or(0.0);
            (not_overflow(oracle_c12(&inp, ex, &obs)), t > 0.0 && t < ex.total)
        }
        None => (None, false),
    };
    let (o, alt_run) = with_alt(o, &inp, &obs, true);
    ALT_RUN.store(alt_run, std::sync::atomic::Ordering::Relaxed);
    (full, answer(&obs, false), o, nt, obs.its.len())
}

/// whether the last `exec` drove the alternative entry points (for the stats)
pub static ALT_RUN: std::sync::atomic::AtomicBool = std::sync::atomic::AtomicBool::new(false);

pub fn generate(cfg: &Cfg) -> Vec<(String, String)> {
    let mut rng = Rng::new(cfg.seed ^ 0xC12);
    let mut cases = Vec::new();
    let nmat = (if cfg.thorough { 600 } else { 40 }) * cfg.boost;
    for k in 0..nmat {
        let (mut inp, label) = gen_instance(&mut rng, k, cfg.thorough);
        let ex = match Exact::new(&inp) {
            Some(e) => e,
            None => continue,
        };
        for (x, ql) in queries(&mut rng, &ex) {
            inp.q = x.to_bits();
            cases.push((inp.line("c12pv"), format!("{}/{}", label, ql)));
        }
    }
    cases
}

pub fn run(cfg: &Cfg) {
    let cases: Vec<(String, String)> = match crate::replay_cases(cfg) {
        Some(v) => v.into_iter().map(|l| (l, "replay".to_string())).collect(),
        None => generate(cfg),
    };
    let mut out = Out::new(&cfg.out);
    for (c, label) in &cases {
        let (full, ans, o, nt, n) = exec(c);
        for part in label.split('/') {
            out.stat(part);
        }
        out.stat(&format!("width/{}", Input::parse(c).1.m));
        out.stat(&format!("iterations/{}", n));
        if ALT_RUN.load(std::sync::atomic::Ordering::Relaxed) {
            out.stat("alternative-entry-points");
        }
        if ans.contains("panic=1") {
            out.panics += 1;
        }
        out.case(&full, &ans, o, nt);
    }
    out.finish(&cfg.out);
}
