//! C04 — striping is a lossless, backend-independent rearrangement of the sequence.
//!
//! case:   c04 <dna|protein> <C> <op>…      one buffer, ops applied in order:
//!           S <backend> <n> <syms…>   stripe_into on the reused buffer
//!           F <backend> <n> <syms…>   fresh `stripe(..)` (or `to_striped()` for disp-*) replacing the buffer
//!           W <m>                     configure_wrap(m)
//!           G <M>                     configure(&pssm) with a scoring matrix of M rows
//!           CL                        buffer = buffer.clone()
//!           CF <n> <syms…> <m>        dst = stripe(syms) configured with m look-ahead rows; dst.clone_from(&buffer); buffer = dst
//!         backend: generic | avx2 | disp-generic | disp-sse2 | disp-avx2   (non-generic only for C = 32)
//! answer: after every op  "<rows> <len> <wrap> <hash cells> <hash index(i) i<len> <count_symbols> / <count_symbol each>[ [cells]]", joined by " ; "
use crate::out::*;
use crate::rng::Rng;
use crate::Cfg;
use generic_array::ArrayLength;
use lightmotif::abc::Alphabet;
use lightmotif::abc::Background;
use lightmotif::abc::Dna;
use lightmotif::abc::Protein;
use lightmotif::abc::Symbol;
use lightmotif::dense::DenseMatrix;
use lightmotif::num::StrictlyPositive;
use lightmotif::num::{U1, U16, U2, U32, U4};
use lightmotif::pli::verif;
use lightmotif::pli::Pipeline;
use lightmotif::pli::Stripe;
use lightmotif::pwm::ScoringMatrix;
use lightmotif::seq::EncodedSequence;
use lightmotif::seq::StripedSequence;
use lightmotif::seq::SymbolCount;

fn observe<A: Alphabet, C: StrictlyPositive + ArrayLength>(st: &StripedSequence<A, C>) -> String {
    let m = st.matrix();
    let mut cells = Vec::with_capacity(m.rows() * C::USIZE);
    for r in 0..m.rows() {
        for c in 0..C::USIZE {
            cells.push(m[r][c].as_index());
        }
    }
    let idx: Vec<usize> = (0..st.len()).map(|i| guarded(|| st[i].as_index()).unwrap_or(999)).collect();
    let counts = SymbolCount::<A>::count_symbols(st);
    let single: Vec<usize> = A::symbols().iter().map(|s| SymbolCount::<A>::count_symbol(st, *s)).collect();
    let dump = if cells.len() <= 128 { format!(" [{}]", join(cells.iter())) } else { String::new() };
    format!(
        "{} {} {} {} {} {} / {}{}",
        m.rows(),
        st.len(),
        st.wrap(),
        fnv_nats(cells.iter().cloned()),
        fnv_nats(idx.iter().cloned()),
        join(counts.iter()),
        join(single.iter()),
        dump
    )
}

/// property oracle on one observation: the striped layout, look-ahead rows, index, counts — all
/// recomputed from the linear sequence `s`, wrap `w`.
fn oracle_state<A: Alphabet, C: StrictlyPositive + ArrayLength>(st: &StripedSequence<A, C>, s: &[usize], w: usize) -> Result<(), String> {
    let c = C::USIZE;
    let l = s.len();
    let r = (l + c - 1) / c;
    let n = A::default_symbol().as_index();
    if st.len() != l {
        return Err(format!("len {} != {}", st.len(), l));
    }
    if st.is_empty() != (l == 0) {
        return Err(format!("is_empty() = {} for a sequence of length {}", st.is_empty(), l));
    }
    if st.wrap() != w {
        return Err(format!("wrap {} != {}", st.wrap(), w));
    }
    if st.matrix().rows() != r + w {
        return Err(format!("rows {} != {}", st.matrix().rows(), r + w));
    }
    let at = |p: usize| if p < l { s[p] } else { n };
    for t in 0..r + w {
        for j in 0..c {
            // sequence rows hold the stripe, every other cell the wildcard, look-ahead row k is row k
            // shifted left by one column: all three are `cell(t, j) = s[j*R + t]` padded with N
            let want = at(j * r + t);
            let got = st.matrix()[t][j].as_index();
            if got != want {
                return Err(format!("cell ({},{}) holds {} expected {}", t, j, got, want));
            }
        }
    }
    for i in 0..l {
        match guarded(|| st[i].as_index()) {
            Ok(v) if v == s[i] => {}
            Ok(v) => return Err(format!("index {} gives {} expected {}", i, v, s[i])),
            Err(()) => return Err(format!("index {} panics", i)),
        }
    }
    // the linear sequence's own counting API gives the same numbers
    let enc = EncodedSequence::<A>::new(s.iter().map(|&k| A::symbols()[k]).collect());
    let lin = SymbolCount::<A>::count_symbols(&enc);
    let slice: &[A::Symbol] = enc.as_ref();
    let lin2 = SymbolCount::<A>::count_symbols(&slice);
    let counts = SymbolCount::<A>::count_symbols(st);
    for sym in A::symbols().iter() {
        let j = sym.as_index();
        if lin[j] != counts[j] || lin2[j] != counts[j] || SymbolCount::<A>::count_symbol(&enc, *sym) != counts[j] || SymbolCount::<A>::count_symbol(&slice, *sym) != counts[j] {
            return Err(format!("linear and striped symbol counts differ for symbol {}: {} / {} vs {}", j, lin[j], lin2[j], counts[j]));
        }
    }
    for (a, sym) in A::symbols().iter().enumerate() {
        let want = s.iter().filter(|&&x| x == sym.as_index()).count();
        if counts[sym.as_index()] != want || SymbolCount::<A>::count_symbol(st, *sym) != want {
            return Err(format!("count of symbol {} is {} / {} expected {}", a, counts[sym.as_index()], SymbolCount::<A>::count_symbol(st, *sym), want));
        }
    }
    Ok(())
}

trait StripeWith<A: Alphabet, C: StrictlyPositive + ArrayLength> {
    fn stripe_into(backend: &str, s: &[A::Symbol], st: &mut StripedSequence<A, C>);
    fn fresh(backend: &str, s: &[A::Symbol]) -> StripedSequence<A, C>;
}

struct Gen;
impl<A: Alphabet, C: StrictlyPositive + ArrayLength> StripeWith<A, C> for Gen {
    fn stripe_into(_b: &str, s: &[A::Symbol], st: &mut StripedSequence<A, C>) {
        Pipeline::<A, _>::generic().stripe_into(s, st)
    }
    fn fresh(_b: &str, s: &[A::Symbol]) -> StripedSequence<A, C> {
        Pipeline::<A, _>::generic().stripe(s)
    }
}

struct Simd;
impl<A: Alphabet> StripeWith<A, U32> for Simd {
    fn stripe_into(b: &str, s: &[A::Symbol], st: &mut StripedSequence<A, U32>) {
        match b {
            "generic" => Pipeline::<A, _>::generic().stripe_into(s, st),
            "avx2" => Pipeline::<A, _>::avx2().unwrap().stripe_into(s, st),
            _ => {
                assert!(verif::force_backend(b.strip_prefix("disp-").unwrap()));
                Pipeline::<A, _>::dispatch().stripe_into(s, st);
                verif::clear();
            }
        }
    }
    fn fresh(b: &str, s: &[A::Symbol]) -> StripedSequence<A, U32> {
        match b {
            "generic" => Pipeline::<A, _>::generic().stripe(s),
            "avx2" => Pipeline::<A, _>::avx2().unwrap().stripe(s),
            _ => {
                assert!(verif::force_backend(b.strip_prefix("disp-").unwrap()));
                // the public conversions built on the dispatcher: `to_striped()` and `From<EncodedSequence>`
                let e = EncodedSequence::<A>::new(s.to_vec());
                let r = if s.len() % 2 == 0 { e.to_striped() } else { StripedSequence::<A, U32>::from(e) };
                verif::clear();
                r
            }
        }
    }
}

fn run_ops<A: Alphabet, C: StrictlyPositive + ArrayLength, S: StripeWith<A, C>>(ops: &[&str]) -> (String, Result<(), String>, bool) {
    let mut st = StripedSequence::<A, C>::default();
    let mut cur: Vec<usize> = Vec::new();
    let mut w = 0usize;
    let mut obs = Vec::new();
    let mut verdict = Ok(());
    let mut i = 0;
    let mut nops = 0;
    let mut wrapped = false;
    while i < ops.len() {
        let op = ops[i];
        nops += 1;
        match op {
            "S" | "F" => {
                let b = ops[i + 1];
                let n: usize = ops[i + 2].parse().unwrap();
                let idx: Vec<usize> = ops[i + 3..i + 3 + n].iter().map(|x| x.parse().unwrap()).collect();
                let syms: Vec<A::Symbol> = idx.iter().map(|&k| A::symbols()[k]).collect();
                if op == "S" {
                    S::stripe_into(b, &syms, &mut st);
                } else {
                    st = S::fresh(b, &syms);
                }
                cur = idx;
                w = 0;
                i += 3 + n;
            }
            "CF" | "CL" => {
                // the buffer continues as a copy: `CL` = st.clone(); `CF n syms m` = a destination
                // striped from other symbols and configured with `m` look-ahead rows, then
                // `dst.clone_from(&st)` — length, wrap and every cell must be those of `st`
                if op == "CL" {
                    st = st.clone();
                    i += 1;
                } else {
                    let n: usize = ops[i + 1].parse().unwrap();
                    let idx: Vec<usize> = ops[i + 2..i + 2 + n].iter().map(|x| x.parse().unwrap()).collect();
                    let m: usize = ops[i + 2 + n].parse().unwrap();
                    let syms: Vec<A::Symbol> = idx.iter().map(|&k| A::symbols()[k]).collect();
                    let mut dst = S::fresh("generic", &syms);
                    dst.configure_wrap(m);
                    dst.clone_from(&st);
                    st = dst;
                    i += 3 + n;
                }
            }
            "W" => {
                let m: usize = ops[i + 1].parse().unwrap();
                st.configure_wrap(m);
                if m > w {
                    w = m;
                }
                if m > 0 {
                    wrapped = true;
                }
                i += 2;
            }
            "G" => {
                let m: usize = ops[i + 1].parse().unwrap();
                let pssm = ScoringMatrix::<A>::new(Background::uniform(), DenseMatrix::new(m));
                st.configure(&pssm);
                if m > 0 && m - 1 > w {
                    w = m - 1;
                }
                if m > 1 {
                    wrapped = true;
                }
                i += 2;
            }
            _ => panic!("bad op {}", op),
        }
        obs.push(observe(&st));
        if verdict.is_ok() {
            verdict = oracle_state::<A, C>(&st, &cur, w).map_err(|e| format!("after op #{} ({}): {}", nops, op, e));
        }
    }
    (obs.join(" ; "), verdict, nops >= 2 && wrapped)
}

/// ISA validation (DESIGN.md §3.3): execute one rearranging intrinsic on this CPU.
/// case: c04isa <unpack e hi | perm imm> <32 bytes of a> <32 bytes of b>   answer: 32 bytes
#[cfg(target_arch = "x86_64")]
fn exec_isa(t: &[&str]) -> String {
    use std::arch::x86_64::*;
    let (kind, p1, p2) = (t[1], t[2].parse::<i32>().unwrap(), t[3].parse::<i32>().unwrap());
    let a: Vec<u8> = t[4..36].iter().map(|x| x.parse().unwrap()).collect();
    let b: Vec<u8> = t[36..68].iter().map(|x| x.parse().unwrap()).collect();
    let mut out = [0u8; 32];
    if !std::is_x86_feature_detected!("avx2") {
        return "no-avx2".into();
    }
    #[target_feature(enable = "avx2")]
    unsafe fn go(kind: &str, p1: i32, p2: i32, a: &[u8], b: &[u8], out: &mut [u8; 32]) {
        let va = _mm256_loadu_si256(a.as_ptr() as *const __m256i);
        let vb = _mm256_loadu_si256(b.as_ptr() as *const __m256i);
        let r = match (kind, p1, p2) {
            ("unpack", 1, 0) => _mm256_unpacklo_epi8(va, vb),
            ("unpack", 1, 1) => _mm256_unpackhi_epi8(va, vb),
            ("unpack", 2, 0) => _mm256_unpacklo_epi16(va, vb),
            ("unpack", 2, 1) => _mm256_unpackhi_epi16(va, vb),
            ("unpack", 4, 0) => _mm256_unpacklo_epi32(va, vb),
            ("unpack", 4, 1) => _mm256_unpackhi_epi32(va, vb),
            ("unpack", 8, 0) => _mm256_unpacklo_epi64(va, vb),
            ("unpack", 8, 1) => _mm256_unpackhi_epi64(va, vb),
            ("perm", 0x20, _) => _mm256_permute2x128_si256(va, vb, 0x20),
            ("perm", 0x31, _) => _mm256_permute2x128_si256(va, vb, 0x31),
            ("perm", 0x02, _) => _mm256_permute2x128_si256(va, vb, 0x02),
            ("perm", 0x13, _) => _mm256_permute2x128_si256(va, vb, 0x13),
            ("perm", 0x08, _) => _mm256_permute2x128_si256(va, vb, 0x08),
            ("perm", 0x81, _) => _mm256_permute2x128_si256(va, vb, 0x81),
            ("perm", 0x30, _) => _mm256_permute2x128_si256(va, vb, 0x30),
            ("perm", 0x21, _) => _mm256_permute2x128_si256(va, vb, 0x21),
            _ => panic!("unsupported isa case"),
        };
        _mm256_storeu_si256(out.as_mut_ptr() as *mut __m256i, r);
    }
    unsafe { go(kind, p1, p2, &a, &b, &mut out) };
    join(out.iter())
}

pub fn exec(line: &str) -> (String, Option<Result<(), String>>, bool) {
    let t: Vec<&str> = line.split_whitespace().collect();
    if t[0] == "c04isa" {
        return (exec_isa(&t), None, false);
    }
    assert_eq!(t[0], "c04");
    let (alpha, c) = (t[1], t[2]);
    let ops = &t[3..];
    let r = guarded(|| match (alpha, c) {
        ("dna", "1") => run_ops::<Dna, U1, Gen>(ops),
        ("dna", "2") => run_ops::<Dna, U2, Gen>(ops),
        ("dna", "4") => run_ops::<Dna, U4, Gen>(ops),
        ("dna", "16") => run_ops::<Dna, U16, Gen>(ops),
        ("dna", "32") => run_ops::<Dna, U32, Simd>(ops),
        ("protein", "1") => run_ops::<Protein, U1, Gen>(ops),
        ("protein", "2") => run_ops::<Protein, U2, Gen>(ops),
        ("protein", "4") => run_ops::<Protein, U4, Gen>(ops),
        ("protein", "16") => run_ops::<Protein, U16, Gen>(ops),
        ("protein", "32") => run_ops::<Protein, U32, Simd>(ops),
        _ => panic!("bad alphabet / C"),
    });
    verif::clear();
    match r {
        Ok((a, v, nt)) => (a, Some(v), nt),
        Err(()) => ("panic".into(), Some(Err("panic".into())), true),
    }
}

fn seq(rng: &mut Rng, k: usize, n: usize) -> String {
    // mostly real symbols, some wildcards; sometimes a run of one symbol
    let mode = rng.below(4);
    let v: Vec<usize> = (0..n)
        .map(|i| match mode {
            0 => rng.below(k),
            1 => rng.below(k - 1),
            2 => (i * 7 + i / 32) % k,
            _ => {
                if rng.chance(1, 10) {
                    k - 1
                } else {
                    rng.below(k - 1)
                }
            }
        })
        .collect();
    format!("{} {}", n, join(v.iter()))
}

fn lengths(thorough: bool) -> Vec<usize> {
    let mut v: Vec<usize> = (0..=70).collect();
    for base in [992usize, 1024, 2016, 2048] {
        for d in 0..=40 {
            v.push(base - 4 + d);
        }
    }
    if thorough {
        for base in [4096usize, 8192, 32 * 1024, 65536] {
            for d in [0usize, 1, 31, 32, 33] {
                v.push(base - 32 + d);
            }
        }
    }
    v
}

pub fn generate(cfg: &Cfg) -> Vec<String> {
    let mut rng = Rng::new(cfg.seed ^ 0xC04);
    let mut cases = Vec::new();
    let backends32 = ["generic", "avx2", "disp-generic", "disp-sse2", "disp-avx2"];
    // ISA validation: every rearranging intrinsic of the striping network on all-distinct labellings
    // (which determine a data-independent rearrangement completely) and on random bytes
    for round in 0..6 {
        let mut ops: Vec<(String, i32, i32)> = Vec::new();
        for e in [1, 2, 4, 8] {
            for hi in [0, 1] {
                ops.push(("unpack".into(), e, hi));
            }
        }
        for imm in [0x20, 0x31, 0x02, 0x13, 0x08, 0x81, 0x30, 0x21] {
            ops.push(("perm".into(), imm, 0));
        }
        for (k, p1, p2) in ops {
            let (a, b): (Vec<usize>, Vec<usize>) = if round == 0 {
                ((0..32).collect(), (32..64).collect())
            } else {
                ((0..32).map(|_| rng.below(256)).collect(), (0..32).map(|_| rng.below(256)).collect())
            };
            cases.push(format!("c04isa {} {} {} {} {}", k, p1, p2, join(a.iter()), join(b.iter())));
        }
    }
    // long homopolymer stretches: whole columns of one symbol over hundreds of rows (counting, indexing and
    // the look-ahead rows must not depend on the contents being mixed), lengths around 256 / 512 rows
    for (alpha, k) in [("dna", 5usize), ("protein", 21usize)] {
        for &l in &[8192usize, 8193, 8224, 16384, 16415, if cfg.thorough { 65_600 } else { 12_000 }] {
            let a = rng.below(k);
            let b = rng.below(k);
            let v: Vec<usize> = match rng.below(3) {
                0 => vec![a; l],                                                       // one symbol
                1 => (0..l).map(|i| if (i / 600) % 2 == 0 { a } else { b }).collect(),  // long runs of two
                _ => (0..l).map(|i| if i % 977 == 0 { rng.below(k) } else { k - 1 }).collect(), // wildcard stretch
            };
            cases.push(format!("c04 {} 32 S {} {} W {} G {}", alpha, backends32[rng.below(backends32.len())], format!("{} {}", l, join(v.iter())), rng.range(0, 9), rng.range(0, 12)));
        }
    }
    for (alpha, k) in [("dna", 5usize), ("protein", 21usize)] {
        // boundary stream: every length of the grid, fresh + reused buffer, then wraps
        for &l in &lengths(cfg.thorough) {
            for (bi, b) in backends32.iter().enumerate() {
                if l > 80 && (l + bi) % 2 == 1 && !cfg.thorough {
                    continue;
                }
                let m1 = rng.range(0, 6);
                let m2 = rng.range(0, 40);
                cases.push(format!("c04 {} 32 F {} {} W {} S {} {} W {} G {}", alpha, b, seq(&mut rng, k, l), m1, b, seq(&mut rng, k, (l + 17) % 1100), m2, rng.range(0, 12)));
            }
            if l <= 70 {
                for c in [1usize, 2, 4, 16] {
                    let m = rng.range(0, 2 * l / c + 3);
                    cases.push(format!("c04 {} {} S generic {} W {} W {} G {}", alpha, c, seq(&mut rng, k, l), m, rng.range(0, 5), rng.range(0, 9)));
                }
            }
        }
        // random op sequences on one buffer
        let count = (if cfg.thorough { 4000 } else { 250 }) * cfg.boost;
        let maxlen = if cfg.thorough { 70_000 } else { 6_000 };
        for n in 0..count {
            let c = *rng.pick(&[1usize, 2, 4, 16, 32, 32, 32]);
            let nops = rng.range(1, 12);
            let mut line = format!("c04 {} {}", alpha, c);
            let mut have = false;
            for _ in 0..nops {
                let r = rng.below(10);
                if !have || r < 4 {
                    let l = if n % 9 == 0 { rng.range(0, maxlen) } else if rng.chance(1, 3) { *rng.pick(&lengths(false)) } else { rng.range(0, 200) };
                    let l = if c < 16 { l % 300 } else { l };
                    let b = if c == 32 { *rng.pick(&backends32) } else { "generic" };
                    line.push_str(&format!(" {} {} {}", if rng.chance(1, 3) { "F" } else { "S" }, b, seq(&mut rng, k, l)));
                    have = true;
                } else if r < 7 {
                    line.push_str(&format!(" W {}", if rng.chance(1, 5) { rng.range(0, 300) } else { rng.range(0, 20) }));
                } else if r < 8 {
                    if rng.chance(1, 2) {
                        line.push_str(" CL");
                    } else {
                        let l = rng.range(0, 90);
                        line.push_str(&format!(" CF {} {}", seq(&mut rng, k, l), rng.range(0, 12)));
                    }
                } else {
                    line.push_str(&format!(" G {}", rng.range(0, 25)));
                }
            }
            cases.push(line);
        }
    }
    cases
}

pub fn run(cfg: &Cfg) {
    let cases = crate::replay_cases(cfg).unwrap_or_else(|| generate(cfg));
    let mut out = Out::new(&cfg.out);
    for c in &cases {
        out.announce(c);
        let (ans, o, nt) = exec(c);
        let t: Vec<&str> = c.splitn(4, ' ').collect();
        if t[0] == "c04isa" {
            out.stat("isa-validation");
        } else {
            out.stat(&format!("{}/C{}", t[1], t[2]));
        }
        for b in ["generic", "avx2", "disp-generic", "disp-sse2", "disp-avx2"] {
            if c.contains(&format!(" {} ", b)) {
                out.stat(&format!("backend/{}", b));
            }
        }
        if ans == "panic" {
            out.panics += 1;
        }
        out.case(c, &ans, o, nt);
    }
    out.finish(&cfg.out);
}
