//! C07 — maximum, arg-maximum and thresholding of striped scores match their definitions.
//!
//! case:   c07 <f32|u8> <backend> <C> <max|argmax|threshold> <rows> <max_index> <t|-> <impl|-> <cells…>
//!         backend: generic | sse2 | avx2           Pipeline::<Dna, _>::{generic,sse2,avx2}() on StripedScores<T, C>
//!                  disp-generic | disp-sse2 | disp-avx2   StripedScores::<T, U32>::{max,argmax,threshold} with the arm forced
//!                  scores                                  Scores::<T>::{max,argmax,threshold} (C = 1, rows = length)
//!                  any striped backend may carry a suffix saying how the score matrix reaches the call:
//!                    +c      through `StripedScores::clone()`
//!                    +e      through `Clone::clone_from` into `StripedScores::empty()`
//!                    +s<k>   through `clone_from` into a used buffer of k rows, k < rows    (cells f32::MAX / 255)
//!                    +l<k>   through `clone_from` into a used buffer of k rows, k > rows    (cells f32::MAX / 255)
//!                  (a copy is the same matrix: the model ignores the suffix, the oracle judges against the cells)
//!         <t>     threshold (f32 as IEEE bits, u8 in decimal); `-` for max / argmax
//!         <impl>  argmax only: the implementation's answer (`none`, `row:col`, an offset for disp-* / scores,
//!                 or `panic`); the model answers `adm-ok` when it designates a cell holding the maximum
//!         cells   row-major; tokens:  <v>  one cell;  g:<n>:<seed>:<mod>:<base>  n cells `base + mix(seed,k) % mod`;
//!                 o:<index>:<v>  overwrite cell <index> of what has been expanded so far
//! answer: max        none | some <v>            (f32 as bits, -0.0 canonicalised to +0.0)
//!         argmax     adm-ok | panic             (see above)
//!         threshold  n <count> <sorted keys…>   or, above 4096 keys,  n <count> h <fnv-style hash of the sorted keys>
//!                    key = row*C+col for pipelines, the returned offset for disp-* / scores
//!
//! case:   c07isa unpack <lo|hi> <32 bytes of a> <32 bytes of b>       answer: the 32 bytes of _mm256_unpack{lo,hi}_epi8(a, b)
//!         c07isa perm <imm> <16 u16 of a> <16 u16 of b>               answer: the 16 u16 of _mm256_permute2x128_si256(a, b, imm)
//!         (the two rearranging intrinsics of argmax_u8_avx2, executed on this CPU, against the source-index
//!          maps `unpackEpi8Src` / `half128` of the model; all-distinct labellings determine them completely)
use crate::out::*;
use crate::rng::Rng;
use crate::Cfg;
use lightmotif::abc::Dna;
use lightmotif::dense::MatrixCoordinates;
use lightmotif::dense::MatrixElement;
use lightmotif::num::PositiveLength;
use lightmotif::num::{U16, U32, U4};
use lightmotif::pli::verif;
use lightmotif::pli::Maximum;
use lightmotif::pli::Pipeline;
use lightmotif::pli::Threshold;
use lightmotif::scores::Scores;
use lightmotif::scores::StripedScores;

const GOLD: u64 = 0x9E37_79B9_7F4A_7C15;

fn mix(seed: u64, k: u64) -> u64 {
    let mut z = seed.wrapping_add((k + 1).wrapping_mul(GOLD));
    z = (z ^ (z >> 30)).wrapping_mul(0xBF58_476D_1CE4_E5B9);
    z = (z ^ (z >> 27)).wrapping_mul(0x94D0_49BB_1331_11EB);
    z ^ (z >> 31)
}

/// expand the cell tokens of a case line
fn expand(toks: &[&str]) -> Vec<u32> {
    let mut v: Vec<u32> = Vec::new();
    for t in toks {
        if let Some(r) = t.strip_prefix("g:") {
            let p: Vec<u64> = r.split(':').map(|x| x.parse().unwrap()).collect();
            for k in 0..p[0] {
                v.push((p[3] + mix(p[1], k) % p[2]) as u32);
            }
        } else if let Some(r) = t.strip_prefix("o:") {
            let p: Vec<u64> = r.split(':').map(|x| x.parse().unwrap()).collect();
            v[p[0] as usize] = p[1] as u32;
        } else {
            v.push(t.parse().unwrap());
        }
    }
    v
}

/// element types: how a cell travels on the case line
trait Elem: MatrixElement + PartialOrd + std::fmt::Debug {
    fn from_u32(x: u32) -> Self;
    fn canon(self) -> u32;
    /// what the cells of a used destination buffer hold: above every generated cell
    fn junk() -> Self;
}
impl Elem for f32 {
    fn from_u32(x: u32) -> f32 {
        f32::from_bits(x)
    }
    fn canon(self) -> u32 {
        if self.to_bits() == 0x8000_0000 {
            0
        } else {
            self.to_bits()
        }
    }
    fn junk() -> f32 {
        f32::MAX
    }
}
impl Elem for u8 {
    fn from_u32(x: u32) -> u8 {
        x as u8
    }
    fn canon(self) -> u32 {
        self as u32
    }
    fn junk() -> u8 {
        255
    }
}

/// what the implementation returned
enum Got<T> {
    Max(Option<T>),
    /// coordinates (row, col)
    Arg(Option<(usize, usize)>),
    /// coordinates (row, col), in the order returned
    Thr(Vec<(usize, usize)>),
    /// an equality between two entry points that must agree does not hold
    Bad(String),
}

thread_local! {
    /// how the next `fill` hands its matrix over (the suffix of the backend token)
    static HOW: std::cell::RefCell<String> = std::cell::RefCell::new(String::new());
}

fn fill<T: Elem, C: PositiveLength>(rows: usize, max_index: usize, cells: &[T]) -> StripedScores<T, C> {
    // the empty matrix is what `StripedScores::empty()` / `default()` return (no `resize` in between)
    let mut s = if max_index % 2 == 0 { StripedScores::<T, C>::empty() } else { StripedScores::<T, C>::default() };
    if rows > 0 || max_index > 0 {
        s.resize(rows, max_index);
    }
    let m = s.matrix_mut();
    for r in 0..rows {
        for c in 0..C::USIZE {
            m[r][c] = cells[r * C::USIZE + c];
        }
    }
    let how = HOW.with(|h| h.borrow().clone());
    match how.chars().next() {
        None => s,
        Some('c') => s.clone(),
        Some('e') => {
            let mut d = StripedScores::<T, C>::empty();
            d.clone_from(&s);
            d
        }
        Some(_) => {
            // a used buffer with another number of rows
            let k: usize = how[1..].parse().unwrap();
            let mut d = StripedScores::<T, C>::default();
            d.resize(k, k * C::USIZE);
            let m = d.matrix_mut();
            for r in 0..k {
                for c in 0..C::USIZE {
                    m[r][c] = T::junk();
                }
            }
            d.clone_from(&s);
            d
        }
    }
}

fn on_pipeline<T: Elem, C: PositiveLength, P: Maximum<T, C> + Threshold<T, C>>(
    pli: &P,
    op: &str,
    s: &StripedScores<T, C>,
    t: Option<T>,
) -> Got<T> {
    match op {
        "max" => Got::Max(pli.max(s)),
        "argmax" => Got::Arg(pli.argmax(s).map(|mc: MatrixCoordinates| (mc.row, mc.col))),
        _ => Got::Thr(pli.threshold(s, t.unwrap()).into_iter().map(|mc| (mc.row, mc.col)).collect()),
    }
}

/// offsets of the StripedScores API back to coordinates (`offset = col * rows + row`)
fn unoffset(rows: usize, p: usize) -> (usize, usize) {
    if rows == 0 {
        (usize::MAX, usize::MAX)
    } else {
        (p % rows, p / rows)
    }
}

macro_rules! striped_api {
    ($T:ty, $op:expr, $s:expr, $t:expr, $rows:expr) => {
        match $op {
            "max" => Got::Max($s.max()),
            "argmax" => Got::Arg($s.argmax().map(|p| unoffset($rows, p))),
            _ => Got::Thr($s.threshold($t.unwrap()).into_iter().map(|p| unoffset($rows, p)).collect()),
        }
    };
}

fn run_f32(backend: &str, c: usize, op: &str, rows: usize, mi: usize, t: Option<f32>, cells: &[f32]) -> Got<f32> {
    match (backend, c) {
        ("generic", 4) => on_pipeline(&Pipeline::<Dna, _>::generic(), op, &fill::<f32, U4>(rows, mi, cells), t),
        ("generic", 16) => on_pipeline(&Pipeline::<Dna, _>::generic(), op, &fill::<f32, U16>(rows, mi, cells), t),
        ("generic", 32) => on_pipeline(&Pipeline::<Dna, _>::generic(), op, &fill::<f32, U32>(rows, mi, cells), t),
        ("sse2", 16) => on_pipeline(&Pipeline::<Dna, _>::sse2().unwrap(), op, &fill::<f32, U16>(rows, mi, cells), t),
        ("sse2", 32) => on_pipeline(&Pipeline::<Dna, _>::sse2().unwrap(), op, &fill::<f32, U32>(rows, mi, cells), t),
        ("avx2", 32) => on_pipeline(&Pipeline::<Dna, _>::avx2().unwrap(), op, &fill::<f32, U32>(rows, mi, cells), t),
        (b, 32) if b.starts_with("disp-") => {
            let s = fill::<f32, U32>(rows, mi, cells);
            assert!(verif::force_backend(&b[5..]));
            let g = striped_api!(f32, op, s, t, rows);
            verif::clear();
            g
        }
        _ => panic!("bad backend/C {} {}", backend, c),
    }
}

fn run_u8(backend: &str, c: usize, op: &str, rows: usize, mi: usize, t: Option<u8>, cells: &[u8]) -> Got<u8> {
    match (backend, c) {
        ("generic", 4) => on_pipeline(&Pipeline::<Dna, _>::generic(), op, &fill::<u8, U4>(rows, mi, cells), t),
        ("generic", 16) => on_pipeline(&Pipeline::<Dna, _>::generic(), op, &fill::<u8, U16>(rows, mi, cells), t),
        ("generic", 32) => on_pipeline(&Pipeline::<Dna, _>::generic(), op, &fill::<u8, U32>(rows, mi, cells), t),
        ("sse2", 16) => on_pipeline(&Pipeline::<Dna, _>::sse2().unwrap(), op, &fill::<u8, U16>(rows, mi, cells), t),
        ("sse2", 32) => on_pipeline(&Pipeline::<Dna, _>::sse2().unwrap(), op, &fill::<u8, U32>(rows, mi, cells), t),
        ("avx2", 32) => on_pipeline(&Pipeline::<Dna, _>::avx2().unwrap(), op, &fill::<u8, U32>(rows, mi, cells), t),
        (b, 32) if b.starts_with("disp-") => {
            let s = fill::<u8, U32>(rows, mi, cells);
            assert!(verif::force_backend(&b[5..]));
            let g = striped_api!(u8, op, s, t, rows);
            verif::clear();
            g
        }
        _ => panic!("bad backend/C {} {}", backend, c),
    }
}

fn run_scores<T: Elem>(op: &str, t: Option<T>, cells: &[T]) -> Got<T> {
    // `Scores::new` and `Scores::from(vec)` build the same object; `Deref` / `AsRef` / `Vec::from` give the vector back
    let s = if cells.len() % 2 == 0 { Scores::new(cells.to_vec()) } else { Scores::from(cells.to_vec()) };
    let same = |v: &[T]| v.len() == cells.len() && v.iter().zip(cells).all(|(a, b)| a.canon() == b.canon());
    let d: &Vec<T> = &s;
    if !same(d) || s.len() != cells.len() || !same(s.as_ref()) {
        return Got::Bad("Deref / AsRef of Scores do not give the vector it was built from".into());
    }
    let got = match op {
        "max" => Got::Max(s.max()),
        "argmax" => Got::Arg(s.argmax().map(|i| (i, 0))),
        _ => Got::Thr(s.threshold(&t.unwrap()).into_iter().map(|i| (i, 0)).collect()),
    };
    if !same(&Vec::from(s)) {
        return Got::Bad("Vec::from(scores) is not the vector the scores were built from".into());
    }
    got
}

/// Property oracle, written from the property text over the plain list of cells: the maximum is the
/// largest cell, the arg-maximum designates a cell holding it, thresholding returns exactly the
/// cells `>= t`, each once; `None` exactly on an empty matrix.
fn oracle<T: Elem>(rows: usize, c: usize, cells: &[T], t: Option<T>, got: &Got<T>) -> Result<(), String> {
    let mut best: Option<T> = None;
    for &x in cells {
        best = match best {
            None => Some(x),
            Some(b) => Some(if x > b { x } else { b }),
        };
    }
    match got {
        Got::Bad(e) => Err(e.clone()),
        Got::Max(m) => match (m, best) {
            (None, None) => Ok(()),
            (Some(v), Some(b)) => {
                if *v == b {
                    Ok(())
                } else {
                    Err(format!("max reported {:?} but the largest cell is {:?}", v, b))
                }
            }
            (None, Some(_)) => Err("max is None on a non-empty matrix".into()),
            (Some(v), None) => Err(format!("max is Some({:?}) on an empty matrix", v)),
        },
        Got::Arg(a) => match (a, best) {
            (None, None) => Ok(()),
            (Some((r, k)), Some(b)) => {
                if *r >= rows || *k >= c {
                    Err(format!("argmax ({}, {}) outside the {}x{} matrix", r, k, rows, c))
                } else if cells[r * c + k] == b {
                    Ok(())
                } else {
                    Err(format!("argmax designates ({}, {}) holding {:?} but the largest cell is {:?}", r, k, cells[r * c + k], b))
                }
            }
            (None, Some(_)) => Err("argmax is None on a non-empty matrix".into()),
            (Some(_), None) => Err("argmax is Some on an empty matrix".into()),
        },
        Got::Thr(v) => {
            let t = t.unwrap();
            let mut want: Vec<(usize, usize)> = Vec::new();
            for r in 0..rows {
                for k in 0..c {
                    if cells[r * c + k] >= t {
                        want.push((r, k));
                    }
                }
            }
            let mut have = v.clone();
            have.sort();
            if have == want {
                Ok(())
            } else {
                let extra = have.iter().find(|p| !want.contains(p));
                let missing = want.iter().find(|p| !have.contains(p));
                Err(format!("threshold returned {} cells, {} qualify; first extra {:?}, first missing {:?}", have.len(), want.len(), extra, missing))
            }
        }
    }
}

fn key_hash(keys: &[u64]) -> u64 {
    let mut h: u64 = 0xcbf29ce484222325;
    for k in keys {
        h = (h ^ k).wrapping_mul(0x100000001b3);
    }
    h
}

/// canonical answer + the text placed in the `<impl>` slot of the case line
fn canon<T: Elem>(backend: &str, rows: usize, c: usize, got: &Got<T>) -> (String, String) {
    let api = backend.starts_with("disp-") || backend == "scores";
    match got {
        Got::Bad(_) => ("bad".into(), "-".into()),
        Got::Max(None) => ("none".into(), "-".into()),
        Got::Max(Some(v)) => (format!("some {}", v.canon()), "-".into()),
        Got::Arg(None) => ("adm-ok".into(), "none".into()),
        Got::Arg(Some((r, k))) => (
            "adm-ok".into(),
            if backend == "scores" {
                format!("{}", r)
            } else if api {
                format!("{}", k * rows + r)
            } else {
                format!("{}:{}", r, k)
            },
        ),
        Got::Thr(v) => {
            let mut keys: Vec<u64> = v
                .iter()
                .map(|&(r, k)| if backend == "scores" { r as u64 } else if api { (k * rows + r) as u64 } else { (r * c + k) as u64 })
                .collect();
            keys.sort();
            if keys.len() > 4096 {
                (format!("n {} h {}", keys.len(), key_hash(&keys)), "-".into())
            } else if keys.is_empty() {
                ("n 0".into(), "-".into())
            } else {
                (format!("n {} {}", keys.len(), join(keys.iter())), "-".into())
            }
        }
    }
}

fn exec_t<T: Elem>(
    backend: &str,
    c: usize,
    op: &str,
    rows: usize,
    _mi: usize,
    t: Option<T>,
    cells: &[T],
    f: impl FnOnce() -> Got<T>,
) -> (String, String, Option<Result<(), String>>, bool) {
    // non-trivial: at least two rows and a maximum that is not in cell (0, 0)
    let nontrivial = rows >= 2 && !cells.is_empty() && cells.iter().any(|x| *x > cells[0]);
    match guarded(f) {
        Err(()) => {
            verif::clear();
            // the only documented panic: the u8 AVX2 arg-maximum on more than 65 536 rows
            let documented = op == "argmax" && std::any::type_name::<T>() == "u8" && rows > 65536 && backend.ends_with("avx2");
            let o = if documented { None } else { Some(Err("panic".to_string())) };
            ("panic".into(), "panic".into(), o, nontrivial)
        }
        Ok(got) => {
            let o = oracle(rows, c, cells, t, &got);
            let (ans, slot) = canon(backend, rows, c, &got);
            (ans, slot, Some(o), nontrivial)
        }
    }
}

/// returns (case line with the `<impl>` slot filled, answer, oracle verdict, non-trivial)
pub fn exec(line: &str) -> (String, String, Option<Result<(), String>>, bool) {
    let t: Vec<&str> = line.split_whitespace().collect();
    assert_eq!(t[0], "c07");
    let (ty, op) = (t[1], t[4]);
    let (backend, how) = match t[2].split_once('+') {
        Some((b, h)) => (b, h),
        None => (t[2], ""),
    };
    HOW.with(|h| *h.borrow_mut() = how.to_string());
    let c: usize = t[3].parse().unwrap();
    let rows: usize = t[5].parse().unwrap();
    let mi: usize = t[6].parse().unwrap();
    let raw = expand(&t[9..]);
    assert_eq!(raw.len(), rows * c, "cell count");
    let (ans, slot, o, nt) = if ty == "f32" {
        let cells: Vec<f32> = raw.iter().map(|&x| f32::from_u32(x)).collect();
        let th = if t[7] == "-" { None } else { Some(f32::from_u32(t[7].parse().unwrap())) };
        if backend == "scores" {
            exec_t(backend, c, op, rows, mi, th, &cells, || run_scores(op, th, &cells))
        } else {
            exec_t(backend, c, op, rows, mi, th, &cells, || run_f32(backend, c, op, rows, mi, th, &cells))
        }
    } else {
        let cells: Vec<u8> = raw.iter().map(|&x| u8::from_u32(x)).collect();
        let th = if t[7] == "-" { None } else { Some(u8::from_u32(t[7].parse().unwrap())) };
        if backend == "scores" {
            exec_t(backend, c, op, rows, mi, th, &cells, || run_scores(op, th, &cells))
        } else {
            exec_t(backend, c, op, rows, mi, th, &cells, || run_u8(backend, c, op, rows, mi, th, &cells))
        }
    };
    HOW.with(|h| h.borrow_mut().clear());
    let mut toks: Vec<String> = t.iter().map(|s| s.to_string()).collect();
    toks[8] = slot;
    (toks.join(" "), ans, o, nt)
}


// ------------------------------------------------------------------------------------ ISA validation

#[cfg(target_arch = "x86_64")]
mod isa {
    use std::arch::x86_64::*;

    #[target_feature(enable = "avx2")]
    pub unsafe fn unpack(hi: bool, a: &[u8; 32], b: &[u8; 32]) -> [u8; 32] {
        let va = _mm256_loadu_si256(a.as_ptr() as *const _);
        let vb = _mm256_loadu_si256(b.as_ptr() as *const _);
        let r = if hi { _mm256_unpackhi_epi8(va, vb) } else { _mm256_unpacklo_epi8(va, vb) };
        let mut out = [0u8; 32];
        _mm256_storeu_si256(out.as_mut_ptr() as *mut _, r);
        out
    }

    macro_rules! perm_arms {
        ($imm:expr, $va:expr, $vb:expr, $($k:literal),*) => {
            match $imm {
                $($k => _mm256_permute2x128_si256::<$k>($va, $vb),)*
                _ => panic!("immediate not in the validation set"),
            }
        };
    }

    pub const IMMS: &[i32] = &[0x00, 0x01, 0x02, 0x03, 0x10, 0x12, 0x13, 0x20, 0x21, 0x30, 0x31, 0x32, 0x08, 0x80, 0x28, 0x83, 0x88];

    #[target_feature(enable = "avx2")]
    pub unsafe fn perm(imm: i32, a: &[u16; 16], b: &[u16; 16]) -> [u16; 16] {
        let va = _mm256_loadu_si256(a.as_ptr() as *const _);
        let vb = _mm256_loadu_si256(b.as_ptr() as *const _);
        let r = perm_arms!(imm, va, vb, 0x00, 0x01, 0x02, 0x03, 0x10, 0x12, 0x13, 0x20, 0x21, 0x30, 0x31, 0x32, 0x08, 0x80, 0x28, 0x83, 0x88);
        let mut out = [0u16; 16];
        _mm256_storeu_si256(out.as_mut_ptr() as *mut _, r);
        out
    }
}

fn exec_isa(line: &str) -> String {
    let t: Vec<&str> = line.split_whitespace().collect();
    assert!(std::is_x86_feature_detected!("avx2"));
    match t[1] {
        "unpack" => {
            let v: Vec<u8> = t[3..67].iter().map(|x| x.parse().unwrap()).collect();
            let (mut a, mut b) = ([0u8; 32], [0u8; 32]);
            a.copy_from_slice(&v[..32]);
            b.copy_from_slice(&v[32..]);
            join(unsafe { isa::unpack(t[2] == "hi", &a, &b) }.iter())
        }
        _ => {
            let imm: i32 = t[2].parse().unwrap();
            let v: Vec<u16> = t[3..35].iter().map(|x| x.parse().unwrap()).collect();
            let (mut a, mut b) = ([0u16; 16], [0u16; 16]);
            a.copy_from_slice(&v[..16]);
            b.copy_from_slice(&v[16..]);
            join(unsafe { isa::perm(imm, &a, &b) }.iter())
        }
    }
}

fn generate_isa(rng: &mut Rng, cases: &mut Vec<String>) {
    for hi in ["lo", "hi"] {
        // all-distinct labelling, then random contents
        cases.push(format!("c07isa unpack {} {}", hi, join((0..64u32).map(|x| x))));
        for _ in 0..6 {
            cases.push(format!("c07isa unpack {} {}", hi, join((0..64).map(|_| rng.below(256)))));
        }
    }
    for &imm in isa::IMMS {
        cases.push(format!("c07isa perm {} {}", imm, join((0..32u32).map(|x| 1000 + x))));
        for _ in 0..2 {
            cases.push(format!("c07isa perm {} {}", imm, join((0..32).map(|_| rng.below(65536)))));
        }
    }
}

// ------------------------------------------------------------------------------------ generator

const NEG_INF: u32 = 0xFF80_0000;

/// a matrix under construction: cell tokens + enough knowledge of the values to pick thresholds
struct Mx {
    toks: Vec<String>,
}

impl Mx {
    fn new() -> Self {
        Mx { toks: Vec::new() }
    }
    fn gen(&mut self, n: usize, seed: u64, modulo: u64, base: u64) {
        if n > 0 {
            self.toks.push(format!("g:{}:{}:{}:{}", n, seed, modulo, base));
        }
    }
    fn lit(&mut self, v: u32) {
        self.toks.push(format!("{}", v));
    }
    fn over(&mut self, idx: usize, v: u32) {
        self.toks.push(format!("o:{}:{}", idx, v));
    }
}

/// background families; returns (matrix, a value above every background cell, a typical background value)
fn background(rng: &mut Rng, ty: &str, kind: usize, n: usize) -> (Mx, u32, u32) {
    let mut m = Mx::new();
    let seed = rng.next() >> 1;
    if ty == "f32" {
        match kind % 7 {
            // all negative, distinct-ish: [-2, -1)
            0 => {
                m.gen(n, seed, 1 << 23, 0xBF80_0000);
                (m, (-0.5f32).to_bits(), (-1.5f32).to_bits())
            }
            // all negative with many ties
            1 => {
                m.gen(n, seed, 3, (-5.5f32).to_bits() as u64);
                (m, (-5.0f32).to_bits(), (-5.5f32).to_bits() + 1)
            }
            // all equal (negative)
            2 => {
                m.gen(n, seed, 1, (-3.25f32).to_bits() as u64);
                (m, (-3.0f32).to_bits(), (-3.25f32).to_bits())
            }
            // all -inf
            3 => {
                m.gen(n, seed, 1, NEG_INF as u64);
                (m, (-7.0f32).to_bits(), NEG_INF)
            }
            // positive [1, 2)
            4 => {
                m.gen(n, seed, 1 << 23, 0x3F80_0000);
                (m, 2.5f32.to_bits(), 1.5f32.to_bits())
            }
            // mixed signs, zeros of both signs, -inf cells: explicit palette
            5 => {
                let pal: [f32; 10] = [f32::NEG_INFINITY, -5.5, -1.0, -0.0, 0.0, 0.5, 1.0, 3.25, -2.0e30, 7.0];
                for _ in 0..n {
                    m.lit(rng.pick(&pal).to_bits());
                }
                (m, 8.0f32.to_bits(), 0.5f32.to_bits())
            }
            // negative with -inf cells sprinkled in
            _ => {
                m.gen(n, seed, 1 << 20, 0xC080_0000); // [-4.5, -4)
                let k = if n == 0 { 0 } else { 1 + n / 5 };
                for _ in 0..k {
                    m.over(rng.below(n), NEG_INF);
                }
                (m, (-3.5f32).to_bits(), (-4.25f32).to_bits())
            }
        }
    } else {
        match kind % 5 {
            0 => {
                m.gen(n, seed, 40, 100);
                (m, 144, 120)
            }
            1 => {
                m.gen(n, seed, 3, 7);
                (m, 10, 8)
            }
            2 => {
                m.gen(n, seed, 1, 0);
                (m, 1, 0)
            }
            3 => {
                m.gen(n, seed, 1, 255);
                (m, 255, 255)
            }
            _ => {
                m.gen(n, seed, 255, 0);
                (m, 255, 128)
            }
        }
    }
}

fn combos(ty: &str) -> Vec<(&'static str, usize)> {
    let _ = ty;
    vec![
        ("generic", 4),
        ("generic", 16),
        ("generic", 32),
        ("sse2", 16),
        ("sse2", 32),
        ("avx2", 32),
        ("disp-generic", 32),
        ("disp-sse2", 32),
        ("disp-avx2", 32),
    ]
}

fn line(ty: &str, backend: &str, c: usize, op: &str, rows: usize, mi: usize, t: Option<u32>, m: &Mx) -> String {
    let t = t.map(|x| x.to_string()).unwrap_or_else(|| "-".into());
    format!("c07 {} {} {} {} {} {} {} ? {}", ty, backend, c, op, rows, mi, t, m.toks.join(" "))
}

fn max_index(rng: &mut Rng, rows: usize, c: usize) -> usize {
    // anything the scoring code could have produced: between "all cells valid" and a few short
    let n = rows * c;
    if n == 0 {
        0
    } else {
        n - rng.below(n.min(c + 3))
    }
}

/// the four kinds of thresholds worth asking for
fn thresholds(ty: &str, above: u32, typical: u32) -> Vec<u32> {
    if ty == "f32" {
        vec![above, typical, NEG_INF, f32::INFINITY.to_bits()]
    } else {
        vec![above, typical, 0, 255]
    }
}

pub fn generate(cfg: &Cfg) -> Vec<String> {
    let mut rng = Rng::new(cfg.seed ^ 0xC07);
    let mut cases = Vec::new();
    let mut late: Vec<String> = Vec::new();
    generate_isa(&mut rng, &mut cases);
    for ty in ["f32", "u8"] {
        let nkinds = if ty == "f32" { 7 } else { 5 };
        for (backend, c) in combos(ty) {
            // A. every background family x boundary row counts x every operation
            for &rows in &[0usize, 1, 2, 3, 31, 32, 33] {
                for kind in 0..nkinds {
                    let n = rows * c;
                    let (m, above, typical) = background(&mut rng, ty, kind, n);
                    let mi = max_index(&mut rng, rows, c);
                    cases.push(line(ty, backend, c, "max", rows, mi, None, &m));
                    cases.push(line(ty, backend, c, "argmax", rows, mi, None, &m));
                    let ths = thresholds(ty, above, typical);
                    let k = (rows + kind) % 4;
                    cases.push(line(ty, backend, c, "threshold", rows, mi, Some(ths[k]), &m));
                    cases.push(line(ty, backend, c, "threshold", rows, mi, Some(ths[(k + 1) % 4]), &m));
                }
            }
            // B. the maximum planted in every column (every 128-bit lane), first and last row,
            //    over an all-negative (f32) / mid-range (u8) background
            for &rows in &[2usize, 33] {
                for col in 0..c {
                    for &r in &[0usize, rows - 1] {
                        let n = rows * c;
                        let (mut m, above, _) = background(&mut rng, ty, if (col + r) % 3 == 1 { 1 } else { 0 }, n);
                        m.over(r * c + col, above);
                        let mi = max_index(&mut rng, rows, c);
                        let both = backend.ends_with("avx2");
                        if both || (col + r) % 2 == 0 {
                            cases.push(line(ty, backend, c, "argmax", rows, mi, None, &m));
                        }
                        if both || (col + r) % 2 == 1 {
                            cases.push(line(ty, backend, c, "max", rows, mi, None, &m));
                        }
                        if col % 8 == 3 {
                            cases.push(line(ty, backend, c, "threshold", rows, mi, Some(above), &m));
                        }
                    }
                }
            }
            // C. duplicated maxima in different columns / lanes / rows
            for k in 0..16 {
                let rows = [2usize, 5, 33, 64][k % 4];
                let n = rows * c;
                let (mut m, above, _) = background(&mut rng, ty, k % nkinds, n);
                for _ in 0..(2 + k % 3) {
                    m.over(rng.below(n), above);
                }
                let mi = max_index(&mut rng, rows, c);
                cases.push(line(ty, backend, c, "argmax", rows, mi, None, &m));
                cases.push(line(ty, backend, c, "max", rows, mi, None, &m));
                cases.push(line(ty, backend, c, "threshold", rows, mi, Some(above), &m));
            }
            // D. many rows; the maximum in the last rows (index lanes: i as i32 / i as i16)
            let mut big: Vec<usize> = vec![257, 1000];
            if cfg.thorough {
                big.extend_from_slice(&[4099, 32769, 65536, 70000]);
            } else if backend == "avx2" {
                big.push(33000);
            }
            for (k, &rows) in big.iter().enumerate() {
                let n = rows * c;
                for rep in 0..2 {
                    let (mut m, above, typical) = background(&mut rng, ty, if rep == 0 { 0 } else { 1 + k % 2 }, n);
                    let r = if rep == 0 { rows - 1 } else { rng.below(rows) };
                    let col = rng.below(c);
                    m.over(r * c + col, above);
                    if rep == 1 {
                        m.over(rng.below(n), above);
                    }
                    let mi = max_index(&mut rng, rows, c);
                    cases.push(line(ty, backend, c, "argmax", rows, mi, None, &m));
                    cases.push(line(ty, backend, c, "max", rows, mi, None, &m));
                    cases.push(line(ty, backend, c, "threshold", rows, mi, Some(if rep == 0 { above } else { typical }), &m));
                }
            }
            if cfg.thorough && ty == "u8" && backend.ends_with("avx2") {
                // beyond the documented bound of the u8 kernel
                let rows = 65537;
                let (mut m, above, _) = background(&mut rng, ty, 0, rows * c);
                m.over((rows - 1) * c + 5, above);
                cases.push(line(ty, backend, c, "argmax", rows, rows * c, None, &m));
                cases.push(line(ty, backend, c, "max", rows, rows * c, None, &m));
            }
            // E. random stream
            let count = (if cfg.thorough { 1500 } else { 150 }) * cfg.boost;
            for k in 0..count {
                let rows = if k % 9 == 0 { rng.range(0, 300) } else { rng.range(0, 40) };
                let n = rows * c;
                let kind = rng.below(nkinds);
                let (mut m, above, typical) = background(&mut rng, ty, kind, n);
                if n > 0 {
                    for _ in 0..rng.below(4) {
                        let v = if rng.chance(1, 2) { above } else { typical };
                        m.over(rng.below(n), v);
                    }
                }
                let mi = max_index(&mut rng, rows, c);
                let op = *rng.pick(&["max", "argmax", "threshold"]);
                let t = if op == "threshold" { Some(*rng.pick(&thresholds(ty, above, typical))) } else { None };
                cases.push(line(ty, backend, c, op, rows, mi, t, &m));
            }
        }
        // G. copies: the matrix reaches the call through clone() / clone_from() into an empty, a
        //    smaller and a larger used buffer (the larger ones are run last of all)
        let mut crng = Rng::new(cfg.seed ^ 0xC07_0100 ^ (ty.len() as u64));
        for (backend, c) in combos(ty) {
            let reps = (if cfg.thorough { 6 } else { 1 }) * cfg.boost;
            for rep in 0..reps {
                for &rows in &[0usize, 1, 2, 3, 7, 33, 64] {
                    let rows = if rep == 0 { rows } else { crng.range(0, 80) };
                    let n = rows * c;
                    let kind = crng.below(nkinds);
                    let (mut m, above, typical) = background(&mut crng, ty, kind, n);
                    if n > 0 {
                        // the maximum in the last row now and then: a stale row count misses it
                        let at = if crng.chance(1, 2) { (rows - 1) * c + crng.below(c) } else { crng.below(n) };
                        m.over(at, above);
                    }
                    let mi = max_index(&mut crng, rows, c);
                    let mut hows = vec!["c".to_string(), "e".to_string()];
                    if rows >= 2 {
                        hows.push(format!("s{}", crng.range(1, rows - 1)));
                    }
                    hows.push(format!("l{}", rows + crng.range(1, 5)));
                    for how in hows {
                        let b = format!("{}+{}", backend, how);
                        let dst = if how.starts_with('l') { &mut late } else { &mut cases };
                        dst.push(line(ty, &b, c, "max", rows, mi, None, &m));
                        dst.push(line(ty, &b, c, "argmax", rows, mi, None, &m));
                        dst.push(line(ty, &b, c, "threshold", rows, mi, Some(if crng.chance(1, 2) { above } else { typical }), &m));
                    }
                }
            }
        }
        // F. Scores<T> (plain vector)
        for len in (0..=40usize).chain([100, 1000]) {
            for kind in 0..nkinds {
                if len > 40 && kind > 1 {
                    continue;
                }
                let (mut m, above, typical) = background(&mut rng, ty, kind, len);
                if len > 0 && kind % 2 == 0 {
                    m.over(rng.below(len), above);
                    m.over(rng.below(len), above);
                }
                cases.push(line(ty, "scores", 1, "max", len, len, None, &m));
                cases.push(line(ty, "scores", 1, "argmax", len, len, None, &m));
                cases.push(line(ty, "scores", 1, "threshold", len, len, Some(if len % 2 == 0 { above } else { typical }), &m));
            }
        }
    }
    cases.extend(late);
    cases
}

/// End-to-end stream for the last clause of the property (oracle only; the Lean side of it is
/// LMV.Props.Bridge): a buffer is striped several times (reused), configured, scored with a PSSM
/// whose wildcard column is -inf, and the float maximum must be the best valid position's score.
/// case: c07e2e <stripe arm> <score/max arm> <M> <4*M f32 bits> <nseq> (<n> <syms…>)…
fn exec_e2e(line: &str) -> Result<(), String> {
    use lightmotif::abc::{Alphabet, Background, Dna, Symbol};
    use lightmotif::dense::DenseMatrix;
    use lightmotif::pli::Stripe;
    use lightmotif::pwm::ScoringMatrix;
    use lightmotif::seq::StripedSequence;
    let t: Vec<&str> = line.split_whitespace().collect();
    let (sarm, arm) = (t[1], t[2]);
    let m: usize = t[3].parse().unwrap();
    let mut rows: Vec<[f32; 5]> = Vec::new();
    for j in 0..m {
        let mut r = [f32::NEG_INFINITY; 5];
        for a in 0..4 {
            r[a] = f32::from_bits(t[4 + 4 * j + a].parse().unwrap());
        }
        rows.push(r);
    }
    let pssm = ScoringMatrix::<Dna>::new(Background::uniform(), DenseMatrix::from_rows(rows.iter()));
    let mut k = 4 + 4 * m;
    let nseq: usize = t[k].parse().unwrap();
    k += 1;
    let mut st = StripedSequence::<Dna, lightmotif::num::U32>::default();
    let mut cur: Vec<usize> = Vec::new();
    for _ in 0..nseq {
        let n: usize = t[k].parse().unwrap();
        cur = t[k + 1..k + 1 + n].iter().map(|x| x.parse().unwrap()).collect();
        let syms: Vec<_> = cur.iter().map(|&i| Dna::symbols()[i]).collect();
        assert!(verif::force_backend(sarm));
        Pipeline::<Dna, _>::dispatch().stripe_into(&syms, &mut st);
        verif::clear();
        k += 1 + n;
    }
    st.configure(&pssm);
    assert!(verif::force_backend(arm));
    let scores = pssm.score(&st);
    let got = scores.max();
    verif::clear();
    let l = cur.len();
    let mut best: Option<f32> = None;
    if l >= m {
        for i in 0..=l - m {
            let mut sc = 0.0f32;
            for j in 0..m {
                sc += rows[j][cur[i + j]];
            }
            best = Some(match best {
                None => sc,
                Some(b) => if sc > b { sc } else { b },
            });
        }
    }
    let _ = Symbol::as_index(&Dna::symbols()[0]);
    match (best, got) {
        (None, None) => Ok(()),
        (None, Some(g)) => Err(format!("no valid position but max = {:e}", g)),
        (Some(b), None) => Err(format!("best valid score {:e} but max = None", b)),
        (Some(b), Some(g)) => {
            if b.is_finite() && g != b {
                Err(format!("float maximum {:e} is not the best valid position's score {:e} (a cell past the last valid position holds a finite score)", g, b))
            } else {
                Ok(())
            }
        }
    }
}

fn generate_e2e(rng: &mut Rng, cases: &mut Vec<String>, count: usize) {
    let arms = ["generic", "sse2", "avx2"];
    for _ in 0..count {
        let m = rng.range(1, 8);
        let mut line = format!("c07e2e {} {} {}", rng.pick(&arms), rng.pick(&arms), m);
        for _ in 0..4 * m {
            // all-negative scores: a stale finite cell in the padding then beats nothing but shows
            let v = -(rng.below(800) as f32) / 64.0 - 0.5;
            line.push_str(&format!(" {}", v.to_bits()));
        }
        let nseq = rng.range(1, 3);
        line.push_str(&format!(" {}", nseq));
        // a longer sequence first, then shorter ones re-using the buffer (stale cells if padding is skipped)
        let mut len = rng.range(40, 400);
        for _ in 0..nseq {
            line.push_str(&format!(" {}", len));
            for _ in 0..len {
                line.push_str(&format!(" {}", rng.below(4)));
            }
            len = rng.range(m.max(1), len.max(m + 1));
        }
        cases.push(line);
    }
}

pub fn run(cfg: &Cfg) {
    let cases = crate::replay_cases(cfg).unwrap_or_else(|| {
        let mut v = generate(cfg);
        let mut rng = Rng::new(cfg.seed ^ 0xE2E);
        generate_e2e(&mut rng, &mut v, (if cfg.thorough { 2000 } else { 200 }) * cfg.boost);
        v
    });
    let mut out = Out::new(&cfg.out);
    for c in &cases {
        if c.starts_with("c07e2e ") {
            out.stat("e2e(stripe-reuse,configure,score,max)");
            out.announce(c);
            let v = guarded(|| exec_e2e(c)).unwrap_or_else(|_| Err("panic".into()));
            verif::clear();
            out.case(c, "oracle-only", Some(v), true);
            continue;
        }
        if c.starts_with("c07isa ") {
            out.stat("isa");
            let ans = exec_isa(c);
            out.case(c, &ans, None, false);
            continue;
        }
        let (filled, ans, o, nt) = exec(c);
        let t: Vec<&str> = c.splitn(7, ' ').collect();
        let (bk, how) = t[2].split_once('+').unwrap_or((t[2], ""));
        out.stat(&format!("{}/{}/C{}/{}", t[1], bk, t[3], t[4]));
        if !how.is_empty() {
            out.stat(match &how[..1] {
                "c" => "copy/clone",
                "e" => "copy/clone_from-into-empty",
                "s" => "copy/clone_from-into-smaller",
                _ => "copy/clone_from-into-larger",
            });
        }
        let rows: usize = t[5].parse().unwrap();
        out.stat(match rows {
            0 => "rows/0",
            1 => "rows/1",
            2..=30 => "rows/2-30",
            31..=33 => "rows/31-33",
            34..=999 => "rows/34-999",
            1000..=9999 => "rows/1000-9999",
            _ => "rows/10000+",
        });
        if ans == "panic" {
            out.panics += 1;
            out.stat("outcome/panic");
        }
        if o.is_none() {
            out.stat("oracle/not-applicable(documented panic: u8 avx2 argmax beyond 65536 rows)");
        }
        out.case(&filled, &ans, o, nt);
    }
    out.finish(&cfg.out);
}
