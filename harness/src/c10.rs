//! C10 — reverse-complementing a motif mirrors its scores on the opposite strand (DNA).
//!
//! cases (K = 5; symbols A C T G N = 0 1 2 3 4; floats as `to_bits()` decimal, NaN as `nan`):
//!   c10rc c <rows> <counts rows*5>                 CountMatrix::reverse_complement, once and twice
//!            -> n <n> <rc…> | <rc rc…>
//!   c10rc s <rows> <bits rows*5>                   ScoringMatrix::reverse_complement
//!            -> <rc…> | <rc rc…>
//!   c10rcf <rows> <counts> <pseudo> <bg>           Frequency/WeightMatrix::reverse_complement
//!            -> bgerr | F <rc…> | <rc rc…> W <rc…> | <rc rc…>
//!   c10comm <rows> <counts> <pseudo> <bg> <base>   rc before / after every conversion
//!            -> bgerr | A1 … B1 … A2 … B2 … A3 … B3 … A4 … B4 … A5 … B5 …
//!               A1 = rc(counts).to_freq(p)                 B1 = rc(counts.to_freq(p))
//!               A2 = rc(freq).to_weight(bg)                B2 = rc(freq.to_weight(bg))
//!               A3 = rc(weight).to_scoring_with_base(b)    B3 = rc(weight.to_scoring_with_base(b))
//!               A4 = rc(freq).to_scoring(bg)               B4 = rc(freq.to_scoring(bg))
//!               A5 = rc(counts) through the whole chain    B5 = rc(counts through the whole chain)
//!   c10mirror <rows> <bits rows*5> <L> <syms…> <i>
//!            -> <score of m at i of s> <score of rc(m) at L-M-i of rc(s)>
//!
//! Alternative entry points (oracle only; case lines and answers unchanged): on the cases whose line
//! hash is even the matrices are also reached through their other constructors (from_sequences,
//! collect, FrequencyMatrix::new, WeightMatrix::from(ScoringMatrix), rescale, into_scoring,
//! ScoringMatrix::from(WeightMatrix), clone) and their reverse complement must be the same; see `*_alt`.
use crate::c09::*;
use crate::out::*;
use crate::rng::Rng;
use crate::Cfg;
use lightmotif::abc::Alphabet;
use lightmotif::abc::Background;
use lightmotif::abc::ComplementableAlphabet;
use lightmotif::abc::ComplementableSymbol;
use lightmotif::abc::Dna;
use lightmotif::abc::Nucleotide;
use lightmotif::abc::Symbol;
use lightmotif::dense::DenseMatrix;
use lightmotif::pwm::CountMatrix;
use lightmotif::pwm::FrequencyMatrix;
use lightmotif::pwm::ScoringMatrix;
use lightmotif::pwm::WeightMatrix;
use lightmotif::seq::EncodedSequence;
use std::sync::atomic::Ordering;

const K: usize = 5;
/// the complement by the property text: A<->T, C<->G, N<->N on indices A C T G N
const COMPL: [usize; 5] = [2, 3, 0, 1, 4];

type Verdict = (String, Option<Result<(), String>>, bool);

/// the definition of the reverse complement of a matrix, on flat data
fn spec_rc<T: Copy>(rows: usize, d: &[T]) -> Vec<T> {
    let mut v = Vec::with_capacity(d.len());
    for i in 0..rows {
        for j in 0..K {
            v.push(d[(rows - 1 - i) * K + COMPL[j]]);
        }
    }
    v
}

fn same_bits(a: &[f32], b: &[f32]) -> bool {
    fbs(a) == fbs(b)
}

fn close_all(a: &[f32], b: &[f32], tol: f64) -> Result<(), String> {
    for (x, (p, q)) in a.iter().zip(b).enumerate() {
        let (p, q) = (*p as f64, *q as f64);
        let ok = if p.is_nan() || q.is_nan() {
            p.is_nan() && q.is_nan()
        } else if p.is_infinite() || q.is_infinite() {
            p == q
        } else {
            (p - q).abs() <= tol * (1.0 + p.abs().max(q.abs()))
        };
        if !ok {
            return Err(format!("cell {}: {} vs {}", x, p, q));
        }
    }
    Ok(())
}

fn symmetric(v: &[f64]) -> bool {
    (0..K).all(|j| v[j] == v[COMPL[j]])
}

fn rc_main(t: &mut Tok) -> Verdict {
    let kind = t.next();
    let rows = t.nat();
    if kind == "c" {
        let counts: Vec<u32> = t.nats(rows * K).iter().map(|x| *x as u32).collect();
        let r = guarded(|| {
            let c = CountMatrix::<Dna>::new(dense::<u32, Dna>(rows, &counts)).unwrap();
            let r1 = c.reverse_complement();
            let r2 = r1.reverse_complement();
            (c.sequence_count(), r1.sequence_count(), r2 == c && r2.sequence_count() == c.sequence_count(), flat::<u32, Dna>(r1.matrix()), flat::<u32, Dna>(r2.matrix()))
        });
        match r {
            Err(()) => ("panic".into(), Some(Err("panic".into())), rows >= 2),
            Ok((n, n1, back, r1, r2)) => {
                let o = if r1 != spec_rc(rows, &counts) {
                    Err("rc is not row reversal + complement permutation".to_string())
                } else if r2 != counts || !back {
                    Err("rc(rc(m)) != m".to_string())
                } else if n1 != n {
                    Err("sequence count changed".to_string())
                } else {
                    Ok(())
                };
                (format!("n {} {} | {}", n1, join(r1.iter()), join(r2.iter())), Some(o), rows >= 2)
            }
        }
    } else {
        let d = t.f32s(rows * K);
        let bg = Background::<Dna>::uniform();
        let r = guarded(|| {
            let m = ScoringMatrix::<Dna>::new(bg.clone(), dense::<f32, Dna>(rows, &d));
            let r1 = m.reverse_complement();
            let r2 = r1.reverse_complement();
            (r1.background() == &bg, flat::<f32, Dna>(r1.matrix()), flat::<f32, Dna>(r2.matrix()))
        });
        match r {
            Err(()) => ("panic".into(), Some(Err("panic".into())), rows >= 2),
            Ok((bgok, r1, r2)) => {
                let o = if !same_bits(&r1, &spec_rc(rows, &d)) {
                    Err("rc is not row reversal + complement permutation".to_string())
                } else if !same_bits(&r2, &d) {
                    Err("rc(rc(m)) != m".to_string())
                } else if !bgok {
                    Err("background changed".to_string())
                } else {
                    Ok(())
                };
                (format!("{} | {}", fbs(&r1), fbs(&r2)), Some(o), rows >= 2)
            }
        }
    }
}

fn rcf_main(t: &mut Tok) -> Verdict {
    let rows = t.nat();
    let counts: Vec<u32> = t.nats(rows * K).iter().map(|x| *x as u32).collect();
    let p = parse_pseudo(t, K);
    let bg = parse_bg(t, K);
    let r = guarded(|| {
        let background = match make_bg::<Dna>(&bg) {
            Err(()) => return None,
            Ok(b) => b,
        };
        let c = CountMatrix::<Dna>::new(dense::<u32, Dna>(rows, &counts)).unwrap();
        let f = c.to_freq(make_pseudo::<Dna>(&p));
        let w = f.to_weight(background);
        let rf = f.reverse_complement();
        let rw = w.reverse_complement();
        let bgok = rw.background() == w.background();
        Some((
            flat::<f32, Dna>(f.matrix()),
            flat::<f32, Dna>(w.matrix()),
            flat::<f32, Dna>(rf.matrix()),
            flat::<f32, Dna>(rf.reverse_complement().matrix()),
            flat::<f32, Dna>(rw.matrix()),
            flat::<f32, Dna>(rw.reverse_complement().matrix()),
            bgok,
        ))
    });
    match r {
        Err(()) => ("panic".into(), Some(Err("panic".into())), rows >= 2),
        Ok(None) => ("bgerr".into(), Some(if spec_bg(&bg, K).is_none() || matches!(bg, Bg::New(_)) { Ok(()) } else { Err("valid background rejected".into()) }), false),
        Ok(Some((f, w, rf, rrf, rw, rrw, bgok))) => {
            let o = if !same_bits(&rf, &spec_rc(rows, &f)) || !same_bits(&rw, &spec_rc(rows, &w)) {
                Err("rc is not row reversal + complement permutation".to_string())
            } else if !same_bits(&rrf, &f) || !same_bits(&rrw, &w) {
                Err("rc(rc(m)) != m".to_string())
            } else if !bgok {
                Err("background changed".to_string())
            } else {
                Ok(())
            };
            (format!("F {} | {} W {} | {}", fbs(&rf), fbs(&rrf), fbs(&rw), fbs(&rrw)), Some(o), rows >= 2)
        }
    }
}

fn comm_main(t: &mut Tok) -> Verdict {
    let rows = t.nat();
    let counts: Vec<u32> = t.nats(rows * K).iter().map(|x| *x as u32).collect();
    let p = parse_pseudo(t, K);
    let bg = parse_bg(t, K);
    let base = t.f32();
    let r = guarded(|| {
        let background = match make_bg::<Dna>(&bg) {
            Err(()) => return None,
            Ok(b) => b,
        };
        let ps = make_pseudo::<Dna>(&p);
        let c = CountMatrix::<Dna>::new(dense::<u32, Dna>(rows, &counts)).unwrap();
        let f = c.to_freq(ps.clone());
        let w = f.to_weight(background.clone());
        let a1 = c.reverse_complement().to_freq(ps.clone());
        let b1 = f.reverse_complement();
        let a2 = f.reverse_complement().to_weight(background.clone());
        let b2 = w.reverse_complement();
        let a3 = w.reverse_complement().to_scoring_with_base(base);
        let b3 = w.to_scoring_with_base(base).reverse_complement();
        let a4 = f.reverse_complement().to_scoring(background.clone());
        let b4 = f.to_scoring(background.clone()).reverse_complement();
        let a5 = a1.to_weight(background.clone()).to_scoring_with_base(base);
        let b5 = b3.clone();
        Some(vec![
            flat::<f32, Dna>(a1.matrix()),
            flat::<f32, Dna>(b1.matrix()),
            flat::<f32, Dna>(a2.matrix()),
            flat::<f32, Dna>(b2.matrix()),
            flat::<f32, Dna>(a3.matrix()),
            flat::<f32, Dna>(b3.matrix()),
            flat::<f32, Dna>(a4.matrix()),
            flat::<f32, Dna>(b4.matrix()),
            flat::<f32, Dna>(a5.matrix()),
            flat::<f32, Dna>(b5.matrix()),
        ])
    });
    let sym = spec_bg(&bg, K).map(|b| symmetric(&b)).unwrap_or(false) && symmetric(&spec_pseudo(&p, K));
    let nontrivial = rows >= 2 && sym && matches!(bg, Bg::New(_) | Bg::Counts(_));
    match r {
        Err(()) => ("panic".into(), Some(Err("panic".into())), nontrivial),
        Ok(None) => ("bgerr".into(), Some(if spec_bg(&bg, K).is_none() || matches!(bg, Bg::New(_)) { Ok(()) } else { Err("valid background rejected".into()) }), false),
        Ok(Some(v)) => {
            let names = ["A1", "B1", "A2", "B2", "A3", "B3", "A4", "B4", "A5", "B5"];
            let ans = join(names.iter().zip(&v).map(|(n, m)| format!("{} {}", n, fbs(m))));
            let o = (|| {
                // to_scoring_with_base involves no background: commutes on every input, exactly
                if !same_bits(&v[4], &v[5]) {
                    return Err("rc does not commute with to_scoring_with_base".to_string());
                }
                if !sym {
                    return Ok(()); // the property speaks about strand-symmetric backgrounds
                }
                // rows whose total is zero give NaN frequencies on both sides (compared as NaN)
                close_all(&v[0], &v[1], 1e-5).map_err(|e| format!("rc does not commute with to_freq: {}", e))?;
                if !same_bits(&v[2], &v[3]) {
                    return Err("rc does not commute with to_weight under a strand-symmetric background".to_string());
                }
                if !same_bits(&v[6], &v[7]) {
                    return Err("rc does not commute with to_scoring under a strand-symmetric background".to_string());
                }
                close_all(&v[8], &v[9], 1e-4).map_err(|e| format!("rc does not commute with the whole conversion chain: {}", e))?;
                Ok(())
            })();
            (ans, Some(o), nontrivial)
        }
    }
}

fn mirror_main(t: &mut Tok) -> Verdict {
    let rows = t.nat();
    let d = t.f32s(rows * K);
    let l = t.nat();
    let s = t.nats(l);
    let i = t.nat();
    assert!(i + rows <= l);
    let rs: Vec<usize> = s.iter().rev().map(|x| COMPL[*x]).collect();
    let r = guarded(|| {
        let m = ScoringMatrix::<Dna>::new(Background::<Dna>::uniform(), dense::<f32, Dna>(rows, &d));
        let rm = m.reverse_complement();
        let x = m.score_position(&striped::<Dna>(&s), i);
        let y = rm.score_position(&striped::<Dna>(&rs), l - rows - i);
        (x, y)
    });
    let nontrivial = rows >= 2 && l > rows;
    match r {
        Err(()) => ("panic".into(), Some(Err("panic".into())), nontrivial),
        Ok((x, y)) => {
            // summation-order error bound for a sum of `rows` single-precision terms
            let mag: f64 = (0..rows).map(|j| d[j * K + s[i + j]] as f64).filter(|v| v.is_finite()).map(|v| v.abs()).sum();
            let want: f64 = (0..rows).map(|j| d[j * K + s[i + j]] as f64).sum();
            let eps = (rows as f64 + 1.0) * (f32::EPSILON as f64) * mag + 1e-30;
            let (xf, yf) = (x as f64, y as f64);
            // finite entries whose partial sums overflow single precision (f32::MAX next to each other, or next
            // to an infinite entry): the two summation orders legitimately end in -inf / +inf / NaN; outside
            // "up to floating-point", as in C09's score clause
            let overflow = (0..rows).map(|j| d[j * K + s[i + j]]).any(|v| v.is_finite() && v.abs() > 1e30);
            let o = if overflow {
                Ok(())
            } else if want.is_nan() {
                if x.is_nan() && y.is_nan() { Ok(()) } else { Err(format!("NaN window: {} vs {}", x, y)) }
            } else if want.is_infinite() {
                if xf == want && yf == want { Ok(()) } else { Err(format!("infinite window {}: {} vs {}", want, x, y)) }
            } else if (xf - yf).abs() <= 2.0 * eps && (xf - want).abs() <= eps {
                Ok(())
            } else {
                Err(format!("forward score {} / mirrored score {} / exact {}", x, y, want))
            };
            (format!("{} {}", fb(x), fb(y)), Some(o), nontrivial)
        }
    }
}

// ------------------------------------------------------------------------------------ alternative entry points

/// `ComplementableAlphabet::complement` (what the matrices use), `ComplementableSymbol::complement`
/// (what a caller holding a symbol uses) and the property text agree, on every symbol
fn complement_alt() -> Result<(), String> {
    let syms = Dna::symbols();
    if syms.len() != K {
        return Err(format!("Dna::symbols() has {} symbols", syms.len()));
    }
    for (j, s) in syms.iter().enumerate() {
        let a = <Dna as ComplementableAlphabet>::complement(*s);
        let b = ComplementableSymbol::complement(s);
        let c = Nucleotide::complement(s);
        if s.as_index() != j || a.as_index() != COMPL[j] || b != a || c != a {
            return Err(format!("complement of symbol {}: alphabet {} / symbol {} but the property says {}", j, a.as_index(), b.as_index(), COMPL[j]));
        }
        if b.complement() != *s {
            return Err(format!("complement is not an involution on symbol {}", j));
        }
    }
    Ok(())
}

fn want_rc<T: CellKey>(what: &str, rows: usize, src: &DenseMatrix<T, <Dna as Alphabet>::K>, rc: &DenseMatrix<T, <Dna as Alphabet>::K>) -> Result<(), String> {
    if rc.rows() != rows || mkeys::<T, Dna>(rc) != keys(&spec_rc(rows, &flat::<T, Dna>(src))) {
        return Err(format!("reverse_complement of a {} is not row reversal + complement permutation", what));
    }
    Ok(())
}

fn rc_alt(line: &str) -> Result<(), String> {
    complement_alt()?;
    let mut t = Tok::new(line);
    t.next();
    let kind = t.next();
    let rows = t.nat();
    if kind == "c" {
        let counts: Vec<u32> = t.nats(rows * K).iter().map(|x| *x as u32).collect();
        let c = CountMatrix::<Dna>::new(dense::<u32, Dna>(rows, &counts)).unwrap();
        let r = c.reverse_complement();
        crate::c09_accessors!(Dna, u32, CountMatrix, r);
        want_rc("clone of a CountMatrix", rows, c.matrix(), c.clone().reverse_complement().matrix())?;
        if c.clone().reverse_complement() != r {
            return Err("reverse_complement of a clone differs (PartialEq)".into());
        }
        // the number of sequences is a field of its own, not the row total: three empty sequences
        let empty = CountMatrix::<Dna>::from_sequences(vec![encoded::<Dna>(&[]); 3]).map_err(|_| "from_sequences rejects empty sequences".to_string())?;
        if empty.reverse_complement().sequence_count() != 3 || empty.reverse_complement() != empty {
            return Err("reverse_complement of the CountMatrix of three empty sequences: sequence_count is not 3".into());
        }
        // counts of aligned sequences: the matrix reached through from_sequences / collect(), and the
        // matrix of the reverse-complemented sequences
        let sums: Vec<usize> = (0..rows).map(|i| counts[i * K..(i + 1) * K].iter().map(|x| *x as usize).sum()).collect();
        let n = if rows == 0 { 3 } else { sums[0] };
        if n >= 1 && n <= 64 && sums.iter().all(|x| *x == n) {
            // column i of sequence j: the symbols of row i in order, rotated by i
            let cols: Vec<Vec<usize>> = (0..rows).map(|i| (0..K).flat_map(|a| std::iter::repeat(a).take(counts[i * K + a] as usize)).collect()).collect();
            let seqs: Vec<Vec<usize>> = (0..n).map(|j| (0..rows).map(|i| cols[i][(j + i) % n]).collect()).collect();
            let enc: Vec<EncodedSequence<Dna>> = seqs.iter().map(|q| encoded::<Dna>(q)).collect();
            let a = CountMatrix::<Dna>::from_sequences(enc.iter()).map_err(|_| "from_sequences rejects aligned sequences".to_string())?;
            let b: CountMatrix<Dna> = enc.iter().cloned().collect::<Result<_, _>>().map_err(|_| "collect() rejects aligned sequences".to_string())?;
            for (name, m) in [("from_sequences", &a), ("collect()", &b)] {
                let rm = m.reverse_complement();
                want_rc(&format!("CountMatrix reached through {}", name), rows, m.matrix(), rm.matrix())?;
                if rm.sequence_count() != n || m.sequence_count() != n {
                    return Err(format!("CountMatrix reached through {} ({} sequences): sequence_count {} after reverse_complement", name, n, rm.sequence_count()));
                }
                if rm.reverse_complement() != *m {
                    return Err(format!("rc(rc(m)) != m (PartialEq) for a CountMatrix reached through {}", name));
                }
                if rows > 0 && rm != r {
                    return Err(format!("reverse_complement of the CountMatrix reached through {} differs from the one of CountMatrix::new on the same counts", name));
                }
            }
            let renc: Vec<EncodedSequence<Dna>> = seqs.iter().map(|q| encoded::<Dna>(&q.iter().rev().map(|x| COMPL[*x]).collect::<Vec<_>>())).collect();
            match CountMatrix::<Dna>::from_sequences(renc) {
                Ok(m) if m == a.reverse_complement() => {}
                _ => return Err("the count matrix of the reverse-complemented sequences is not the reverse complement of the count matrix".into()),
            }
        }
    } else {
        let d = t.f32s(rows * K);
        let nan = d.iter().any(|x| x.is_nan());
        // a non-default background travels unchanged
        let mut pm = vec![0.0f32; K];
        pm[rows % 4] = 0.75;
        pm[(rows + 1) % 4] = 0.25;
        let bg = Background::<Dna>::new(garr::<f32, Dna>(&pm)).map_err(|_| "Background::new rejects 0.75 / 0.25".to_string())?;
        let m = ScoringMatrix::<Dna>::new(bg.clone(), dense::<f32, Dna>(rows, &d));
        let r = m.reverse_complement();
        want_rc("ScoringMatrix over a non-default background", rows, m.matrix(), r.matrix())?;
        if keys(r.background().frequencies()) != keys(&pm) {
            return Err("reverse_complement of a ScoringMatrix does not keep a non-default background".into());
        }
        crate::c09_accessors!(Dna, f32, ScoringMatrix, r);
        if !nan && (r.reverse_complement() != m || m.clone().reverse_complement() != r) {
            return Err("ScoringMatrix: rc(rc(m)) != m or rc(clone) != rc(m) (PartialEq)".into());
        }
        // the weight matrix reached through From<ScoringMatrix>, and back through From<WeightMatrix>
        let w = WeightMatrix::<Dna>::from(m.clone());
        let rw = w.reverse_complement();
        want_rc("WeightMatrix reached through From<ScoringMatrix>", rows, w.matrix(), rw.matrix())?;
        if keys(rw.background().frequencies()) != keys(&pm) {
            return Err("reverse_complement of a WeightMatrix reached through From<ScoringMatrix> does not keep the background".into());
        }
        if mkeys::<f32, Dna>(rw.matrix()) != mkeys::<f32, Dna>(WeightMatrix::<Dna>::from(r.clone()).matrix()) {
            return Err("reverse_complement does not commute with WeightMatrix::from(ScoringMatrix)".into());
        }
        let s2 = ScoringMatrix::<Dna>::from(w.clone());
        let rs2 = s2.reverse_complement();
        want_rc("ScoringMatrix reached through From<WeightMatrix>", rows, s2.matrix(), rs2.matrix())?;
        if mkeys::<f32, Dna>(rs2.matrix()) != mkeys::<f32, Dna>(ScoringMatrix::<Dna>::from(rw.clone()).matrix()) || keys(rs2.background().frequencies()) != keys(&pm) {
            return Err("reverse_complement does not commute with ScoringMatrix::from(WeightMatrix)".into());
        }
        // the same numbers as a frequency matrix, when they pass FrequencyMatrix::new
        if let Ok(f) = FrequencyMatrix::<Dna>::new(dense::<f32, Dna>(rows, &d)) {
            let rf = f.reverse_complement();
            want_rc("FrequencyMatrix reached through new", rows, f.matrix(), rf.matrix())?;
        }
    }
    Ok(())
}

fn rcf_alt(line: &str) -> Result<(), String> {
    complement_alt()?;
    let mut t = Tok::new(line);
    t.next();
    let rows = t.nat();
    let counts: Vec<u32> = t.nats(rows * K).iter().map(|x| *x as u32).collect();
    let p = parse_pseudo(&mut t, K);
    let bg = parse_bg(&mut t, K);
    let background = match make_bg::<Dna>(&bg) {
        Err(()) => return Ok(()),
        Ok(b) => b,
    };
    let c = CountMatrix::<Dna>::new(dense::<u32, Dna>(rows, &counts)).unwrap();
    let f = c.to_freq(make_pseudo::<Dna>(&p));
    let w = f.to_weight(background.clone());
    let rf = f.reverse_complement();
    let rw = w.reverse_complement();
    crate::c09_accessors!(Dna, f32, FrequencyMatrix, rf);
    crate::c09_accessors!(Dna, f32, WeightMatrix, rw);
    let fk = mkeys::<f32, Dna>(f.matrix());
    if !fk.contains(&u64::MAX) {
        if rf.reverse_complement() != f || f.clone().reverse_complement() != rf {
            return Err("FrequencyMatrix: rc(rc(m)) != m or rc(clone) != rc(m) (PartialEq)".into());
        }
        if !mkeys::<f32, Dna>(w.matrix()).contains(&u64::MAX) && (rw.reverse_complement() != w || w.clone().reverse_complement() != rw) {
            return Err("WeightMatrix: rc(rc(m)) != m or rc(clone) != rc(m) (PartialEq)".into());
        }
    }
    // the same frequencies through FrequencyMatrix::new
    if let Ok(g) = FrequencyMatrix::<Dna>::new(f.matrix().clone()) {
        if mkeys::<f32, Dna>(g.reverse_complement().matrix()) != mkeys::<f32, Dna>(rf.matrix()) {
            return Err("reverse_complement of FrequencyMatrix::new(same data) differs from the one of the to_freq matrix".into());
        }
    }
    // rounded (published) frequencies: rows within 0.01 of one but not exactly one — accepted by
    // FrequencyMatrix::new, and reverse-complemented like any other matrix (a pure permutation)
    if !fk.contains(&u64::MAX) {
        let rounded: Vec<f32> = f.matrix().iter().flat_map(|r| r.iter().map(|x| (x * 1000.0).round() / 1000.0).collect::<Vec<f32>>()).collect();
        if let Ok(g) = FrequencyMatrix::<Dna>::new(dense::<f32, Dna>(rows, &rounded)) {
            let rg = g.reverse_complement();
            want_rc("FrequencyMatrix::new(frequencies rounded to 3 decimals)", rows, g.matrix(), rg.matrix())?;
            if rg.reverse_complement() != g {
                return Err("FrequencyMatrix::new(rounded frequencies): rc(rc(m)) != m".into());
            }
        }
    }
    // weight matrices reached through rescale (to the default background and back to their own)
    let wu = w.rescale(None);
    let rwu = wu.reverse_complement();
    want_rc("WeightMatrix reached through rescale(None)", rows, wu.matrix(), rwu.matrix())?;
    if rwu.background() != wu.background() || wu.background() != &Background::<Dna>::uniform() {
        return Err("reverse_complement of a rescaled WeightMatrix does not keep the (default) background".into());
    }
    let wo = w.rescale(w.background().clone());
    if mkeys::<f32, Dna>(wo.reverse_complement().matrix()) != mkeys::<f32, Dna>(rw.matrix()) {
        return Err("reverse_complement of rescale(own background) differs".into());
    }
    // scoring matrices reached through into_scoring / to_scoring / to_weight().to_scoring() / From<WeightMatrix>
    let routes: Vec<(&str, ScoringMatrix<Dna>)> = vec![
        ("into_scoring", f.clone().into_scoring(background.clone())),
        ("to_scoring", f.to_scoring(background.clone())),
        ("WeightMatrix::to_scoring", w.to_scoring()),
        ("From<WeightMatrix>", ScoringMatrix::<Dna>::from(w.clone())),
    ];
    for (name, s) in &routes {
        let rs = s.reverse_complement();
        want_rc(&format!("ScoringMatrix reached through {}", name), rows, s.matrix(), rs.matrix())?;
        if rs.background() != w.background() {
            return Err(format!("reverse_complement of a ScoringMatrix reached through {} does not keep the background", name));
        }
        if mkeys::<f32, Dna>(rs.reverse_complement().matrix()) != mkeys::<f32, Dna>(s.matrix()) {
            return Err(format!("rc(rc(m)) != m for a ScoringMatrix reached through {}", name));
        }
    }
    // base-2 scoring does not see the background: rc commutes with WeightMatrix::to_scoring and with
    // From<WeightMatrix>, bit for bit, on every input
    let want = mkeys::<f32, Dna>(routes[2].1.reverse_complement().matrix());
    if mkeys::<f32, Dna>(rw.to_scoring().matrix()) != want || mkeys::<f32, Dna>(ScoringMatrix::<Dna>::from(rw.clone()).matrix()) != want {
        return Err("rc does not commute with WeightMatrix::to_scoring / ScoringMatrix::from(WeightMatrix)".into());
    }
    Ok(())
}

fn comm_alt(line: &str) -> Result<(), String> {
    complement_alt()?;
    let mut t = Tok::new(line);
    t.next();
    let rows = t.nat();
    let counts: Vec<u32> = t.nats(rows * K).iter().map(|x| *x as u32).collect();
    let p = parse_pseudo(&mut t, K);
    let bg = parse_bg(&mut t, K);
    let base = t.f32();
    let background = match make_bg::<Dna>(&bg) {
        Err(()) => return Ok(()),
        Ok(b) => b,
    };
    let c = CountMatrix::<Dna>::new(dense::<u32, Dna>(rows, &counts)).unwrap();
    let rc = c.reverse_complement();
    // the pseudocounts given as f32 / array (Into) rather than as a Pseudocounts object
    let (f, a1) = match &p {
        Pseudo::U(x) => (c.to_freq(*x), rc.to_freq(*x)),
        Pseudo::A(v) => (c.to_freq(garr::<f32, Dna>(v)), rc.to_freq(garr::<f32, Dna>(v))),
    };
    let ps = make_pseudo::<Dna>(&p);
    if mkeys::<f32, Dna>(a1.matrix()) != mkeys::<f32, Dna>(rc.to_freq(ps.clone()).matrix()) || mkeys::<f32, Dna>(f.matrix()) != mkeys::<f32, Dna>(c.to_freq(ps).matrix()) {
        return Err("to_freq(f32 / array) of the reverse complement differs from to_freq(Pseudocounts)".into());
    }
    let rf = f.reverse_complement();
    // into_scoring (by value) on both sides of rc, against the to_scoring route of the main clause
    let a4 = rf.clone().into_scoring(background.clone());
    let b4 = f.clone().into_scoring(background.clone()).reverse_complement();
    if mkeys::<f32, Dna>(a4.matrix()) != mkeys::<f32, Dna>(rf.to_scoring(background.clone()).matrix()) || mkeys::<f32, Dna>(b4.matrix()) != mkeys::<f32, Dna>(f.to_scoring(background.clone()).reverse_complement().matrix()) {
        return Err("into_scoring differs from to_scoring around reverse_complement".into());
    }
    // to_scoring_with_base on a weight matrix reached through From<ScoringMatrix> commutes exactly too
    let w = WeightMatrix::<Dna>::from(b4.clone());
    if mkeys::<f32, Dna>(w.reverse_complement().to_scoring_with_base(base).matrix()) != mkeys::<f32, Dna>(w.to_scoring_with_base(base).reverse_complement().matrix()) {
        return Err("rc does not commute with to_scoring_with_base on a WeightMatrix reached through From<ScoringMatrix>".into());
    }
    Ok(())
}

fn mirror_alt(line: &str, x: f32, y: f32) -> Result<(), String> {
    complement_alt()?;
    let mut t = Tok::new(line);
    t.next();
    let rows = t.nat();
    let d = t.f32s(rows * K);
    let l = t.nat();
    let s = t.nats(l);
    let i = t.nat();
    let rs: Vec<usize> = s.iter().rev().map(|x| COMPL[*x]).collect();
    let m = ScoringMatrix::<Dna>::new(Background::<Dna>::uniform(), dense::<f32, Dna>(rows, &d));
    // the mirrored matrix reached through a clone, through the double reverse complement and through
    // the weight matrix (From impls do not round a permutation: only the route changes)
    let rm = m.clone().reverse_complement();
    let rrm = rm.reverse_complement();
    let (st, rst) = (striped::<Dna>(&s), striped::<Dna>(&rs));
    let x2 = rrm.score_position(&st, i);
    let y2 = rm.score_position(rst.clone(), l - rows - i);
    let y3 = rrm.reverse_complement().score_position(&rst, l - rows - i);
    if x2.key() != x.key() || y2.key() != y.key() || y3.key() != y.key() {
        return Err(format!("scores through rc(clone) / rc(rc(m)) / rc(rc(rc(m))): {} {} {} but the main route gave {} {}", x2, y2, y3, x, y));
    }
    Ok(())
}

fn rc_case(t: &mut Tok) -> Verdict {
    let line = t.line;
    alt_on(rc_main(t), share(line, 2), || rc_alt(line))
}

fn rcf_case(t: &mut Tok) -> Verdict {
    let line = t.line;
    alt_on(rcf_main(t), share(line, 2), || rcf_alt(line))
}

fn comm_case(t: &mut Tok) -> Verdict {
    let line = t.line;
    alt_on(comm_main(t), share(line, 2), || comm_alt(line))
}

fn mirror_case(t: &mut Tok) -> Verdict {
    let line = t.line;
    let v = mirror_main(t);
    let xy: Vec<f32> = v.0.split(' ').filter(|_| v.0 != "panic").map(|x| if x == "nan" { f32::NAN } else { f32::from_bits(x.parse().unwrap()) }).collect();
    alt_on(v, share(line, 2), || mirror_alt(line, xy[0], xy[1]))
}

pub fn exec(line: &str) -> Verdict {
    let mut t = Tok::new(line);
    match t.next() {
        "c10rc" => rc_case(&mut t),
        "c10rcf" => rcf_case(&mut t),
        "c10comm" => comm_case(&mut t),
        "c10mirror" => mirror_case(&mut t),
        op => panic!("unknown op {}", op),
    }
}

/// strand-symmetric background: bg[A] = bg[T], bg[C] = bg[G]
fn sym_bg(rng: &mut Rng) -> Vec<f32> {
    let wild = if rng.chance(1, 4) { rng.range(1, 200) * 2 } else { 0 };
    let half = (1024 - wild) / 2;
    let a = if rng.chance(1, 8) { 0 } else { rng.range(1, half - 1) };
    let c = half - a;
    vec![a as f32 / 1024.0, c as f32 / 1024.0, a as f32 / 1024.0, c as f32 / 1024.0, wild as f32 / 1024.0]
}

fn sym_pseudo(rng: &mut Rng) -> Pseudo {
    match rng.below(4) {
        0 => Pseudo::U(0.0),
        1 => Pseudo::U(*rng.pick(&[0.1f32, 0.25, 1.0, 0.3])),
        _ => {
            let a = (rng.f64() * 2.0) as f32;
            let c = (rng.f64() * 2.0) as f32;
            let n = if rng.chance(1, 2) { 0.0 } else { rng.f64() as f32 };
            Pseudo::A(vec![a, c, a, c, n])
        }
    }
}

fn counts_tokens(c: &[u32]) -> String {
    if c.is_empty() {
        String::new()
    } else {
        format!(" {}", join(c.iter()))
    }
}

pub fn generate(cfg: &Cfg) -> Vec<String> {
    let mut rng = Rng::new(cfg.seed ^ 0xC10);
    let mut cases = Vec::new();
    let mult = (if cfg.thorough { 30 } else { 1 }) * cfg.boost;
    // ---- rc and rc∘rc: every width 0..=20, then random; all four matrix kinds
    for rows in 0..=20usize {
        let c = rand_counts(&mut rng, K, rows);
        cases.push(format!("c10rc c {}{}", rows, counts_tokens(&c)));
        let d = rand_scores(&mut rng, K, rows, rows % 4 == 3);
        cases.push(format!("c10rc s {}{}", rows, if d.is_empty() { String::new() } else { format!(" {}", ibs(&d)) }));
        let bg = if rows % 2 == 0 { Bg::New(dyadic_bg(&mut rng, K, rows % 3 == 0, rows % 5 == 0)) } else { rand_bg(&mut rng, K) };
        cases.push(format!("c10rcf {}{} {} {}", rows, counts_tokens(&c), pseudo_tokens(&rand_pseudo(&mut rng, K)), bg_tokens(&bg)));
    }
    for _ in 0..60 * mult {
        let rows = rng.range(1, 40);
        let c = rand_counts(&mut rng, K, rows);
        cases.push(format!("c10rc c {}{}", rows, counts_tokens(&c)));
        let weird = rng.chance(1, 4);
        let d = rand_scores(&mut rng, K, rows, weird);
        cases.push(format!("c10rc s {} {}", rows, ibs(&d)));
        let bg = rand_bg(&mut rng, K);
        cases.push(format!("c10rcf {}{} {} {}", rows, counts_tokens(&c), pseudo_tokens(&rand_pseudo(&mut rng, K)), bg_tokens(&bg)));
    }
    // ---- commutation with the conversions
    for it in 0..150 * mult {
        let rows = if it < 8 { it / 2 } else { rng.range(1, 24) };
        let c = rand_counts(&mut rng, K, rows);
        // mostly strand-symmetric backgrounds and pseudocounts (the hypothesis of the property);
        // some asymmetric ones (no claim beyond the background-free stage, still mirrored)
        let (p, bg) = if it % 5 == 4 {
            (rand_pseudo(&mut rng, K), rand_bg(&mut rng, K))
        } else {
            let bg = match rng.below(5) {
                0 => Bg::None,
                1 => Bg::Uniform,
                2 => {
                    let a = rng.range(0, 300);
                    let c = rng.range(if a == 0 { 1 } else { 0 }, 300);
                    Bg::Counts(vec![a, c, a, c, 0])
                }
                _ => Bg::New(sym_bg(&mut rng)),
            };
            (sym_pseudo(&mut rng), bg)
        };
        let base = *rng.pick(&[2.0f32, 10.0, std::f32::consts::E, 3.0]);
        cases.push(format!("c10comm {}{} {} {} {}", rows, counts_tokens(&c), pseudo_tokens(&p), bg_tokens(&bg), ib(base)));
    }
    // ---- mirrored scores: every position of a few sequences, then random
    for rows in [1usize, 2, 3, 8, 15] {
        let d = rand_scores(&mut rng, K, rows, false);
        for l in [rows, rows + 1, rows + 7] {
            let s = rand_seq(&mut rng, K, l, true);
            for i in 0..=(l - rows) {
                cases.push(format!("c10mirror {} {} {} {} {}", rows, ibs(&d), l, join(s.iter()), i));
            }
        }
    }
    cases.push("c10mirror 0 0 0".into());
    cases.push("c10mirror 0 2 0 3 1".into());
    for it in 0..150 * mult {
        let rows = rng.range(1, 30);
        let d = rand_scores(&mut rng, K, rows, it % 10 == 9);
        let l = rows + rng.range(0, 60);
        let s = rand_seq(&mut rng, K, l, it % 3 == 0);
        let i = rng.range(0, l - rows);
        cases.push(format!("c10mirror {} {} {} {} {}", rows, ibs(&d), l, join(s.iter()), i));
    }
    cases
}

pub fn run(cfg: &Cfg) {
    let cases = crate::replay_cases(cfg).unwrap_or_else(|| match std::panic::catch_unwind(|| generate(cfg)) {
        Ok(c) => c,
        Err(e) => {
            eprintln!("generator panicked: {:?}", e.downcast_ref::<String>().map(|s| s.as_str()).or(e.downcast_ref::<&str>().copied()));
            std::process::exit(3)
        }
    });
    let mut out = Out::new(&cfg.out);
    for c in &cases {
        let alt0 = ALT.load(Ordering::Relaxed);
        let (ans, o, nt) = match std::panic::catch_unwind(|| exec(c)) {
            Ok(v) => v,
            Err(e) => {
                eprintln!("harness bug on case `{}`: {:?}", c, e.downcast_ref::<String>().map(|s| s.as_str()).or(e.downcast_ref::<&str>().copied()));
                std::process::exit(3)
            }
        };
        let t: Vec<&str> = c.splitn(3, ' ').collect();
        out.stat(&format!("{}", t[0]));
        out.stat(if ans == "panic" { "outcome/panic" } else if ans == "bgerr" { "outcome/rejected" } else { "outcome/ok" });
        if ans == "panic" {
            out.panics += 1;
        }
        if ALT.load(Ordering::Relaxed) != alt0 {
            out.stat("alternative-entry-points");
        }
        out.case(c, &ans, o, nt);
    }
    out.finish(&cfg.out);
}
