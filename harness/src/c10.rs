//! C10 — reverse-complementing a motif mirrors its scores on the opposite strand (DNA).
//!
//! cases (K = 5; symbols A C T G N = 0 1 2 3 4; floats as `to_bits()` decimal, NaN as `nan`):
//!   c10rc c <rows> <counts rows*5>                 CountMatrix::reverse_complement, once and twice
//!            -> n <n> <rc…> | <rc rc…>
//!   c10rc s <rows> <bits rows*5>                   ScoringMatrix::reverse_complement
//!            -> <rc…> | <rc rc…>
//!   c10rcf <rows> <counts> <pseudo> <bg>           Frequency/WeightMatrix::reverse_complement
//!            -> bgerr | F <rc…> | <rc rc…> W <rc…> | <rc rc…>
//!   c10comm <rows> <counts> <pseudo> <bg> <base>   rc before / after every conversion
//!            -> bgerr | A1 … B1 … A2 … B2 … A3 … B3 … A4 … B4 … A5 … B5 …
//!               A1 = rc(counts).to_freq(p)                 B1 = rc(counts.to_freq(p))
//!               A2 = rc(freq).to_weight(bg)                B2 = rc(freq.to_weight(bg))
//!               A3 = rc(weight).to_scoring_with_base(b)    B3 = rc(weight.to_scoring_with_base(b))
//!               A4 = rc(freq).to_scoring(bg)               B4 = rc(freq.to_scoring(bg))
//!               A5 = rc(counts) through the whole chain    B5 = rc(counts through the whole chain)
//!   c10mirror <rows> <bits rows*5> <L> <syms…> <i>
//!            -> <score of m at i of s> <score of rc(m) at L-M-i of rc(s)>
use crate::c09::*;
use crate::out::*;
use crate::rng::Rng;
use crate::Cfg;
use lightmotif::abc::Background;
use lightmotif::abc::Dna;
use lightmotif::pwm::CountMatrix;
use lightmotif::pwm::ScoringMatrix;

const K: usize = 5;
/// the complement by the property text: A<->T, C<->G, N<->N on indices A C T G N
const COMPL: [usize; 5] = [2, 3, 0, 1, 4];

type Verdict = (String, Option<Result<(), String>>, bool);

/// the definition of the reverse complement of a matrix, on flat data
fn spec_rc<T: Copy>(rows: usize, d: &[T]) -> Vec<T> {
    let mut v = Vec::with_capacity(d.len());
    for i in 0..rows {
        for j in 0..K {
            v.push(d[(rows - 1 - i) * K + COMPL[j]]);
        }
    }
    v
}

fn same_bits(a: &[f32], b: &[f32]) -> bool {
    fbs(a) == fbs(b)
}

fn close_all(a: &[f32], b: &[f32], tol: f64) -> Result<(), String> {
    for (x, (p, q)) in a.iter().zip(b).enumerate() {
        let (p, q) = (*p as f64, *q as f64);
        let ok = if p.is_nan() || q.is_nan() {
            p.is_nan() && q.is_nan()
        } else if p.is_infinite() || q.is_infinite() {
            p == q
        } else {
            (p - q).abs() <= tol * (1.0 + p.abs().max(q.abs()))
        };
        if !ok {
            return Err(format!("cell {}: {} vs {}", x, p, q));
        }
    }
    Ok(())
}

fn symmetric(v: &[f64]) -> bool {
    (0..K).all(|j| v[j] == v[COMPL[j]])
}

fn rc_case(t: &mut Tok) -> Verdict {
    let kind = t.next();
    let rows = t.nat();
    if kind == "c" {
        let counts: Vec<u32> = t.nats(rows * K).iter().map(|x| *x as u32).collect();
        let r = guarded(|| {
            let c = CountMatrix::<Dna>::new(dense::<u32, Dna>(rows, &counts)).unwrap();
            let r1 = c.reverse_complement();
            let r2 = r1.reverse_complement();
            (c.sequence_count(), r1.sequence_count(), r2 == c && r2.sequence_count() == c.sequence_count(), flat::<u32, Dna>(r1.matrix()), flat::<u32, Dna>(r2.matrix()))
        });
        match r {
            Err(()) => ("panic".into(), Some(Err("panic".into())), rows >= 2),
            Ok((n, n1, back, r1, r2)) => {
                let o = if r1 != spec_rc(rows, &counts) {
                    Err("rc is not row reversal + complement permutation".to_string())
                } else if r2 != counts || !back {
                    Err("rc(rc(m)) != m".to_string())
                } else if n1 != n {
                    Err("sequence count changed".to_string())
                } else {
                    Ok(())
                };
                (format!("n {} {} | {}", n1, join(r1.iter()), join(r2.iter())), Some(o), rows >= 2)
            }
        }
    } else {
        let d = t.f32s(rows * K);
        let bg = Background::<Dna>::uniform();
        let r = guarded(|| {
            let m = ScoringMatrix::<Dna>::new(bg.clone(), dense::<f32, Dna>(rows, &d));
            let r1 = m.reverse_complement();
            let r2 = r1.reverse_complement();
            (r1.background() == &bg, flat::<f32, Dna>(r1.matrix()), flat::<f32, Dna>(r2.matrix()))
        });
        match r {
            Err(()) => ("panic".into(), Some(Err("panic".into())), rows >= 2),
            Ok((bgok, r1, r2)) => {
                let o = if !same_bits(&r1, &spec_rc(rows, &d)) {
                    Err("rc is not row reversal + complement permutation".to_string())
                } else if !same_bits(&r2, &d) {
                    Err("rc(rc(m)) != m".to_string())
                } else if !bgok {
                    Err("background changed".to_string())
                } else {
                    Ok(())
                };
                (format!("{} | {}", fbs(&r1), fbs(&r2)), Some(o), rows >= 2)
            }
        }
    }
}

fn rcf_case(t: &mut Tok) -> Verdict {
    let rows = t.nat();
    let counts: Vec<u32> = t.nats(rows * K).iter().map(|x| *x as u32).collect();
    let p = parse_pseudo(t, K);
    let bg = parse_bg(t, K);
    let r = guarded(|| {
        let background = match make_bg::<Dna>(&bg) {
            Err(()) => return None,
            Ok(b) => b,
        };
        let c = CountMatrix::<Dna>::new(dense::<u32, Dna>(rows, &counts)).unwrap();
        let f = c.to_freq(make_pseudo::<Dna>(&p));
        let w = f.to_weight(background);
        let rf = f.reverse_complement();
        let rw = w.reverse_complement();
        let bgok = rw.background() == w.background();
        Some((
            flat::<f32, Dna>(f.matrix()),
            flat::<f32, Dna>(w.matrix()),
            flat::<f32, Dna>(rf.matrix()),
            flat::<f32, Dna>(rf.reverse_complement().matrix()),
            flat::<f32, Dna>(rw.matrix()),
            flat::<f32, Dna>(rw.reverse_complement().matrix()),
            bgok,
        ))
    });
    match r {
        Err(()) => ("panic".into(), Some(Err("panic".into())), rows >= 2),
        Ok(None) => ("bgerr".into(), Some(if spec_bg(&bg, K).is_none() || matches!(bg, Bg::New(_)) { Ok(()) } else { Err("valid background rejected".into()) }), false),
        Ok(Some((f, w, rf, rrf, rw, rrw, bgok))) => {
            let o = if !same_bits(&rf, &spec_rc(rows, &f)) || !same_bits(&rw, &spec_rc(rows, &w)) {
                Err("rc is not row reversal + complement permutation".to_string())
            } else if !same_bits(&rrf, &f) || !same_bits(&rrw, &w) {
                Err("rc(rc(m)) != m".to_string())
            } else if !bgok {
                Err("background changed".to_string())
            } else {
                Ok(())
            };
            (format!("F {} | {} W {} | {}", fbs(&rf), fbs(&rrf), fbs(&rw), fbs(&rrw)), Some(o), rows >= 2)
        }
    }
}

fn comm_case(t: &mut Tok) -> Verdict {
    let rows = t.nat();
    let counts: Vec<u32> = t.nats(rows * K).iter().map(|x| *x as u32).collect();
    let p = parse_pseudo(t, K);
    let bg = parse_bg(t, K);
    let base = t.f32();
    let r = guarded(|| {
        let background = match make_bg::<Dna>(&bg) {
            Err(()) => return None,
            Ok(b) => b,
        };
        let ps = make_pseudo::<Dna>(&p);
        let c = CountMatrix::<Dna>::new(dense::<u32, Dna>(rows, &counts)).unwrap();
        let f = c.to_freq(ps.clone());
        let w = f.to_weight(background.clone());
        let a1 = c.reverse_complement().to_freq(ps.clone());
        let b1 = f.reverse_complement();
        let a2 = f.reverse_complement().to_weight(background.clone());
        let b2 = w.reverse_complement();
        let a3 = w.reverse_complement().to_scoring_with_base(base);
        let b3 = w.to_scoring_with_base(base).reverse_complement();
        let a4 = f.reverse_complement().to_scoring(background.clone());
        let b4 = f.to_scoring(background.clone()).reverse_complement();
        let a5 = a1.to_weight(background.clone()).to_scoring_with_base(base);
        let b5 = b3.clone();
        Some(vec![
            flat::<f32, Dna>(a1.matrix()),
            flat::<f32, Dna>(b1.matrix()),
            flat::<f32, Dna>(a2.matrix()),
            flat::<f32, Dna>(b2.matrix()),
            flat::<f32, Dna>(a3.matrix()),
            flat::<f32, Dna>(b3.matrix()),
            flat::<f32, Dna>(a4.matrix()),
            flat::<f32, Dna>(b4.matrix()),
            flat::<f32, Dna>(a5.matrix()),
            flat::<f32, Dna>(b5.matrix()),
        ])
    });
    let sym = spec_bg(&bg, K).map(|b| symmetric(&b)).unwrap_or(false) && symmetric(&spec_pseudo(&p, K));
    let nontrivial = rows >= 2 && sym && matches!(bg, Bg::New(_) | Bg::Counts(_));
    match r {
        Err(()) => ("panic".into(), Some(Err("panic".into())), nontrivial),
        Ok(None) => ("bgerr".into(), Some(if spec_bg(&bg, K).is_none() || matches!(bg, Bg::New(_)) { Ok(()) } else { Err("valid background rejected".into()) }), false),
        Ok(Some(v)) => {
            let names = ["A1", "B1", "A2", "B2", "A3", "B3", "A4", "B4", "A5", "B5"];
            let ans = join(names.iter().zip(&v).map(|(n, m)| format!("{} {}", n, fbs(m))));
            let o = (|| {
                // to_scoring_with_base involves no background: commutes on every input, exactly
                if !same_bits(&v[4], &v[5]) {
                    return Err("rc does not commute with to_scoring_with_base".to_string());
                }
                if !sym {
                    return Ok(()); // the property speaks about strand-symmetric backgrounds
                }
                // rows whose total is zero give NaN frequencies on both sides (compared as NaN)
                close_all(&v[0], &v[1], 1e-5).map_err(|e| format!("rc does not commute with to_freq: {}", e))?;
                if !same_bits(&v[2], &v[3]) {
                    return Err("rc does not commute with to_weight under a strand-symmetric background".to_string());
                }
                if !same_bits(&v[6], &v[7]) {
                    return Err("rc does not commute with to_scoring under a strand-symmetric background".to_string());
                }
                close_all(&v[8], &v[9], 1e-4).map_err(|e| format!("rc does not commute with the whole conversion chain: {}", e))?;
                Ok(())
            })();
            (ans, Some(o), nontrivial)
        }
    }
}

fn mirror_case(t: &mut Tok) -> Verdict {
    let rows = t.nat();
    let d = t.f32s(rows * K);
    let l = t.nat();
    let s = t.nats(l);
    let i = t.nat();
    assert!(i + rows <= l);
    let rs: Vec<usize> = s.iter().rev().map(|x| COMPL[*x]).collect();
    let r = guarded(|| {
        let m = ScoringMatrix::<Dna>::new(Background::<Dna>::uniform(), dense::<f32, Dna>(rows, &d));
        let rm = m.reverse_complement();
        let x = m.score_position(&striped::<Dna>(&s), i);
        let y = rm.score_position(&striped::<Dna>(&rs), l - rows - i);
        (x, y)
    });
    let nontrivial = rows >= 2 && l > rows;
    match r {
        Err(()) => ("panic".into(), Some(Err("panic".into())), nontrivial),
        Ok((x, y)) => {
            // summation-order error bound for a sum of `rows` single-precision terms
            let mag: f64 = (0..rows).map(|j| d[j * K + s[i + j]] as f64).filter(|v| v.is_finite()).map(|v| v.abs()).sum();
            let want: f64 = (0..rows).map(|j| d[j * K + s[i + j]] as f64).sum();
            let eps = (rows as f64 + 1.0) * (f32::EPSILON as f64) * mag + 1e-30;
            let (xf, yf) = (x as f64, y as f64);
            let o = if want.is_nan() {
                if x.is_nan() && y.is_nan() { Ok(()) } else { Err(format!("NaN window: {} vs {}", x, y)) }
            } else if want.is_infinite() {
                if xf == want && yf == want { Ok(()) } else { Err(format!("infinite window {}: {} vs {}", want, x, y)) }
            } else if (xf - yf).abs() <= 2.0 * eps && (xf - want).abs() <= eps {
                Ok(())
            } else {
                Err(format!("forward score {} / mirrored score {} / exact {}", x, y, want))
            };
            (format!("{} {}", fb(x), fb(y)), Some(o), nontrivial)
        }
    }
}

pub fn exec(line: &str) -> Verdict {
    let mut t = Tok::new(line);
    match t.next() {
        "c10rc" => rc_case(&mut t),
        "c10rcf" => rcf_case(&mut t),
        "c10comm" => comm_case(&mut t),
        "c10mirror" => mirror_case(&mut t),
        op => panic!("unknown op {}", op),
    }
}

/// strand-symmetric background: bg[A] = bg[T], bg[C] = bg[G]
fn sym_bg(rng: &mut Rng) -> Vec<f32> {
    let wild = if rng.chance(1, 4) { rng.range(1, 200) * 2 } else { 0 };
    let half = (1024 - wild) / 2;
    let a = if rng.chance(1, 8) { 0 } else { rng.range(1, half - 1) };
    let c = half - a;
    vec![a as f32 / 1024.0, c as f32 / 1024.0, a as f32 / 1024.0, c as f32 / 1024.0, wild as f32 / 1024.0]
}

fn sym_pseudo(rng: &mut Rng) -> Pseudo {
    match rng.below(4) {
        0 => Pseudo::U(0.0),
        1 => Pseudo::U(*rng.pick(&[0.1f32, 0.25, 1.0, 0.3])),
        _ => {
            let a = (rng.f64() * 2.0) as f32;
            let c = (rng.f64() * 2.0) as f32;
            let n = if rng.chance(1, 2) { 0.0 } else { rng.f64() as f32 };
            Pseudo::A(vec![a, c, a, c, n])
        }
    }
}

fn counts_tokens(c: &[u32]) -> String {
    if c.is_empty() {
        String::new()
    } else {
        format!(" {}", join(c.iter()))
    }
}

pub fn generate(cfg: &Cfg) -> Vec<String> {
    let mut rng = Rng::new(cfg.seed ^ 0xC10);
    let mut cases = Vec::new();
    let mult = (if cfg.thorough { 30 } else { 1 }) * cfg.boost;
    // ---- rc and rc∘rc: every width 0..=20, then random; all four matrix kinds
    for rows in 0..=20usize {
        let c = rand_counts(&mut rng, K, rows);
        cases.push(format!("c10rc c {}{}", rows, counts_tokens(&c)));
        let d = rand_scores(&mut rng, K, rows, rows % 4 == 3);
        cases.push(format!("c10rc s {}{}", rows, if d.is_empty() { String::new() } else { format!(" {}", ibs(&d)) }));
        let bg = if rows % 2 == 0 { Bg::New(dyadic_bg(&mut rng, K, rows % 3 == 0, rows % 5 == 0)) } else { rand_bg(&mut rng, K) };
        cases.push(format!("c10rcf {}{} {} {}", rows, counts_tokens(&c), pseudo_tokens(&rand_pseudo(&mut rng, K)), bg_tokens(&bg)));
    }
    for _ in 0..60 * mult {
        let rows = rng.range(1, 40);
        let c = rand_counts(&mut rng, K, rows);
        cases.push(format!("c10rc c {}{}", rows, counts_tokens(&c)));
        let weird = rng.chance(1, 4);
        let d = rand_scores(&mut rng, K, rows, weird);
        cases.push(format!("c10rc s {} {}", rows, ibs(&d)));
        let bg = rand_bg(&mut rng, K);
        cases.push(format!("c10rcf {}{} {} {}", rows, counts_tokens(&c), pseudo_tokens(&rand_pseudo(&mut rng, K)), bg_tokens(&bg)));
    }
    // ---- commutation with the conversions
    for it in 0..150 * mult {
        let rows = if it < 8 { it / 2 } else { rng.range(1, 24) };
        let c = rand_counts(&mut rng, K, rows);
        // mostly strand-symmetric backgrounds and pseudocounts (the hypothesis of the property);
        // some asymmetric ones (no claim beyond the background-free stage, still mirrored)
        let (p, bg) = if it % 5 == 4 {
            (rand_pseudo(&mut rng, K), rand_bg(&mut rng, K))
        } else {
            let bg = match rng.below(5) {
                0 => Bg::None,
                1 => Bg::Uniform,
                2 => {
                    let a = rng.range(0, 300);
                    let c = rng.range(if a == 0 { 1 } else { 0 }, 300);
                    Bg::Counts(vec![a, c, a, c, 0])
                }
                _ => Bg::New(sym_bg(&mut rng)),
            };
            (sym_pseudo(&mut rng), bg)
        };
        let base = *rng.pick(&[2.0f32, 10.0, std::f32::consts::E, 3.0]);
        cases.push(format!("c10comm {}{} {} {} {}", rows, counts_tokens(&c), pseudo_tokens(&p), bg_tokens(&bg), ib(base)));
    }
    // ---- mirrored scores: every position of a few sequences, then random
    for rows in [1usize, 2, 3, 8, 15] {
        let d = rand_scores(&mut rng, K, rows, false);
        for l in [rows, rows + 1, rows + 7] {
            let s = rand_seq(&mut rng, K, l, true);
            for i in 0..=(l - rows) {
                cases.push(format!("c10mirror {} {} {} {} {}", rows, ibs(&d), l, join(s.iter()), i));
            }
        }
    }
    cases.push("c10mirror 0 0 0".into());
    cases.push("c10mirror 0 2 0 3 1".into());
    for it in 0..150 * mult {
        let rows = rng.range(1, 30);
        let d = rand_scores(&mut rng, K, rows, it % 10 == 9);
        let l = rows + rng.range(0, 60);
        let s = rand_seq(&mut rng, K, l, it % 3 == 0);
        let i = rng.range(0, l - rows);
        cases.push(format!("c10mirror {} {} {} {} {}", rows, ibs(&d), l, join(s.iter()), i));
    }
    cases
}

pub fn run(cfg: &Cfg) {
    let cases = crate::replay_cases(cfg).unwrap_or_else(|| match std::panic::catch_unwind(|| generate(cfg)) {
        Ok(c) => c,
        Err(e) => {
            eprintln!("generator panicked: {:?}", e.downcast_ref::<String>().map(|s| s.as_str()).or(e.downcast_ref::<&str>().copied()));
            std::process::exit(3)
        }
    });
    let mut out = Out::new(&cfg.out);
    for c in &cases {
        let (ans, o, nt) = match std::panic::catch_unwind(|| exec(c)) {
            Ok(v) => v,
            Err(e) => {
                eprintln!("harness bug on case `{}`: {:?}", c, e.downcast_ref::<String>().map(|s| s.as_str()).or(e.downcast_ref::<&str>().copied()));
                std::process::exit(3)
            }
        };
        let t: Vec<&str> = c.splitn(3, ' ').collect();
        out.stat(&format!("{}", t[0]));
        out.stat(if ans == "panic" { "outcome/panic" } else if ans == "bgerr" { "outcome/rejected" } else { "outcome/ok" });
        if ans == "panic" {
            out.panics += 1;
        }
        out.case(c, &ans, o, nt);
    }
    out.finish(&cfg.out);
}
