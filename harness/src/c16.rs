//! C16 — Gibbs sampler state always equals a recomputation from its alignment.
//!
//! case:   c16run <dna|protein> <oops|zoops> <cols> <w> <initial> <inertia> <patience> <rngseed> <maxsteps> <wrap>
//!                <native|generic|sse2|avx2> <n> { <L> <sym>×L }×n
//!         (the backend token forces the arm taken by every `Pipeline::dispatch()`: striping and scoring;
//!          suffixes: `+pad` = padding cells that are not the wildcard; `+i:<schedule>` = how the SECOND run
//!          of the case takes its steps, one letter per call, repeated cyclically until <maxsteps> steps are
//!          consumed:  x = next();  0..4 = nth(k);  a..d = by_ref().skip(1..4).next();
//!          p q r = by_ref().step_by(2|3|4), two items taken.  The first run always uses next(): it gives
//!          the choices of every step; the iterations RETURNED by the second run replace those of the first
//!          in the trace that is compared with the model and judged by the oracle, the skipped ones are
//!          taken from the first run — on the same data, parameters and seed the two runs must agree.)
//!                | new-panic
//!                | ok <start>×n <ns> <seed>×ns <T> { <z> <newstart> <discard> }×T <end|more|panic>
//!         The part before `|` is the input (data, parameters, rng seed); the part after it is what
//!         the implementation drew (observed after the fact), given to the model as its choices.
//! answer: new-panic
//!       | counts <c…> , <c…> … ; init <S> ; <z> <step> <n> <iteration.counts…> / <S> ; … ; <end|more|panic-possible>
//!         S = <starts…> / <active_sequences…> / <active_starts…> / <sequence_count> / <count_matrix…> / <background counts…>
//!
//! Read through the public API: `Iteration::{z, step, counts}`, `active_sequences`, `active_starts`,
//! `count_matrix`, `background`.  Read through `verif-hooks` accessors (private fields): all starts
//! (`verif_starts`, the starts of inactive sequences are not public), the integer background counts
//! (`verif_background_counts`; the public `background()` only gives their f32 quotients, which the
//! oracle checks bit for bit) and the cached per-sequence symbol counts (`verif_counts`).
use crate::out::*;
use crate::rng::Rng;
use crate::Cfg;
use lightmotif::abc::Alphabet;
use lightmotif::abc::Dna;
use lightmotif::abc::Protein;
use lightmotif::dense::DefaultColumns;
use lightmotif::num::Unsigned;
use lightmotif::pli::dispatch::Dispatch;
use lightmotif::pli::verif;
use lightmotif::pli::Pipeline;
use lightmotif::pli::Score;
use lightmotif::pli::Stripe;
use lightmotif::sampler::SamplerBuilder;
use lightmotif::sampler::SamplerData;
use lightmotif::sampler::SamplerMode;
use lightmotif::seq::EncodedSequence;
use lightmotif::seq::StripedSequence;
use rand::SeedableRng;

const DNA: &[u8] = b"ACTGN";
const PROTEIN: &[u8] = b"ACDEFGHIKLMNPQRSTVWYX";

#[derive(Clone)]
pub struct Spec {
    alpha: String,
    zoops: bool,
    w: usize,
    initial: usize,
    inertia: usize,
    patience: usize,
    rngseed: u64,
    maxsteps: usize,
    wrap: usize,
    backend: String,
    seqs: Vec<Vec<usize>>,
}

impl Spec {
    fn k(&self) -> usize {
        if self.alpha == "dna" {
            5
        } else {
            21
        }
    }

    fn input(&self) -> String {
        let mut s = format!(
            "c16run {} {} {} {} {} {} {} {} {} {} {} {}",
            self.alpha,
            if self.zoops { "zoops" } else { "oops" },
            DefaultColumns::USIZE,
            self.w,
            self.initial,
            self.inertia,
            self.patience,
            self.rngseed,
            self.maxsteps,
            self.wrap,
            self.backend,
            self.seqs.len()
        );
        for q in &self.seqs {
            s.push_str(&format!(" {}", q.len()));
            if !q.is_empty() {
                s.push(' ');
                s.push_str(&join(q.iter()));
            }
        }
        s
    }

    fn parse(line: &str) -> Spec {
        let t: Vec<&str> = line.split_whitespace().collect();
        assert_eq!(t[0], "c16run");
        let u = |i: usize| -> usize { t[i].parse().unwrap() };
        let n = u(12);
        let mut p = 13;
        let mut seqs = Vec::new();
        for _ in 0..n {
            let l: usize = t[p].parse().unwrap();
            seqs.push(t[p + 1..p + 1 + l].iter().map(|x| x.parse().unwrap()).collect());
            p += 1 + l;
        }
        Spec {
            alpha: t[1].to_string(),
            zoops: t[2] == "zoops",
            w: u(4),
            initial: u(5),
            inertia: u(6),
            patience: u(7),
            rngseed: t[8].parse().unwrap(),
            maxsteps: u(9),
            wrap: u(10),
            backend: t[11].to_string(),
            seqs,
        }
    }
}

#[derive(Clone, PartialEq, Debug)]
struct Snap {
    starts: Vec<usize>,
    act_seqs: Vec<usize>,
    act_starts: Vec<usize>,
    count: usize,
    motif: Vec<Vec<u32>>,
    bg: Vec<usize>,
    /// `background().frequencies()` as bits; `None` if `background()` panicked
    bgfreq: Option<Vec<u32>>,
}

#[derive(Clone, PartialEq, Debug)]
struct StepRec {
    z: usize,
    step: usize,
    itn: usize,
    itcounts: Vec<Vec<u32>>,
    snap: Snap,
}

#[derive(Clone, Copy, PartialEq, Debug)]
enum End {
    End,
    More,
    Panic,
}

#[derive(Clone, PartialEq, Debug)]
struct Trace {
    new_panic: bool,
    counts: Vec<Vec<usize>>,
    init: Option<Snap>,
    steps: Vec<StepRec>,
    end: End,
    /// scheduled runs only: the iterations actually returned — (number of steps consumed before the
    /// call, number consumed if the call returns an item, what it returned; `snap` is `None` for an
    /// item after which the state could not be read because the adaptor still borrowed the sampler)
    returned: Vec<(usize, usize, Option<(usize, usize, usize, Vec<Vec<u32>>, Option<Snap>)>)>,
}

/// the schedule of a backend token: `…+i:<letters>`
fn schedule_of(backend: &str) -> Option<Vec<char>> {
    backend.split('+').find_map(|f| f.strip_prefix("i:")).map(|s| s.chars().collect())
}

fn rows_of<A: Alphabet>(m: &lightmotif::dense::DenseMatrix<u32, A::K>) -> Vec<Vec<u32>> {
    (0..m.rows()).map(|i| m[i].to_vec()).collect()
}

fn run_sampler<A: Alphabet>(spec: &Spec, letters: &[u8], scheduled: bool) -> Trace
where
    Pipeline<A, Dispatch>: Score<f32, A, DefaultColumns> + Stripe<A, DefaultColumns>,
{
    let striped: Vec<StripedSequence<A, DefaultColumns>> = spec
        .seqs
        .iter()
        .map(|q| {
            let text: Vec<u8> = q.iter().map(|&i| letters[i]).collect();
            let mut s: StripedSequence<A, DefaultColumns> = EncodedSequence::<A>::encode(&text).unwrap().to_striped();
            if spec.backend.split('+').any(|f| f == "pad") {
                // an in-contract striped sequence whose padding cells (positions >= len) are NOT the
                // wildcard, as `StripedSequence::new` over a user matrix or `StripedSequence::sample`
                // produce: nothing the sampler reports may depend on them
                let len = s.len();
                let mut m = s.into_matrix();
                let rows = m.rows();
                let kk = A::symbols().len() - 1;
                for r in 0..rows {
                    for c in 0..DefaultColumns::USIZE {
                        let p = c * rows + r;
                        if p >= len {
                            m[r][c] = A::symbols()[p % kk];
                        }
                    }
                }
                s = StripedSequence::new(m, len).unwrap();
            }
            s.configure_wrap(spec.wrap);
            s
        })
        .collect();
    let data = SamplerData::new(striped);
    let counts = data.verif_counts();
    let mut builder = SamplerBuilder::new(&data);
    builder
        .width(spec.w)
        .mode(if spec.zoops { SamplerMode::Zoops } else { SamplerMode::Oops })
        .seeds(spec.initial)
        .inertia(spec.inertia)
        .patience(spec.patience);
    let rng = rand::rngs::StdRng::seed_from_u64(spec.rngseed);
    let mut sampler = match guarded(|| builder.sample(rng)) {
        Err(()) => {
            return Trace { new_panic: true, counts, init: None, steps: vec![], end: End::Panic, returned: vec![] };
        }
        Ok(s) => s,
    };
    macro_rules! snap {
        () => {{
            let cm = sampler.count_matrix();
            Snap {
                starts: sampler.verif_starts().to_vec(),
                act_seqs: sampler.active_sequences(),
                act_starts: sampler.active_starts(),
                count: cm.sequence_count(),
                motif: rows_of::<A>(cm.matrix()),
                bg: sampler.verif_background_counts().to_vec(),
                bgfreq: guarded(|| sampler.background().frequencies().iter().map(|x| x.to_bits()).collect()).ok(),
            }
        }};
    }
    let init = snap!();
    let mut steps = Vec::new();
    let mut end = End::More;
    if let (true, Some(sched)) = (scheduled, schedule_of(&spec.backend)) {
        // the steps are taken through nth / skip / step_by: only the returned iterations are seen
        let mut returned = Vec::new();
        let mut used = 0usize;
        let mut call = 0usize;
        let rec = |it: &lightmotif::sampler::Iteration<A>| (it.z, it.step, it.counts.sequence_count(), rows_of::<A>(it.counts.matrix()));
        while used < spec.maxsteps && end == End::More {
            let left = spec.maxsteps - used;
            let op = sched[call % sched.len()];
            call += 1;
            // (steps consumed by the call when every item exists)
            let (skip, stride) = match op {
                '0'..='4' => (op as usize - '0' as usize, 0),
                'a'..='d' => (op as usize - 'a' as usize + 1, 0),
                'p' | 'q' | 'r' => (0, op as usize - 'p' as usize + 2),
                _ => (0, 0),
            };
            if skip + 1 + stride > left {
                // does not fit in the step budget: a plain next()
                match guarded(|| sampler.next()) {
                    Err(()) => end = End::Panic,
                    Ok(None) => end = End::End,
                    Ok(Some(it)) => {
                        let (z, st, n, c) = rec(&it);
                        returned.push((used, used + 1, Some((z, st, n, c, Some(snap!())))));
                    }
                }
                if end != End::More {
                    returned.push((used, used + 1, None));
                }
                used += 1;
                continue;
            }
            if stride > 0 {
                let r = guarded(|| {
                    let mut sb = sampler.by_ref().step_by(stride);
                    let first = sb.next();
                    let second = if first.is_some() { sb.next() } else { None };
                    (first, second)
                });
                match r {
                    Err(()) => {
                        end = End::Panic;
                        returned.push((used, used + 1 + stride, None));
                    }
                    Ok((first, second)) => {
                        match &first {
                            None => {
                                end = End::End;
                                returned.push((used, used + 1, None));
                            }
                            Some(it) => {
                                let (z, st, n, c) = rec(it);
                                // (the adaptor still borrows the sampler: the state after this item is not read)
                                let snap = None;
                                returned.push((used, used + 1, Some((z, st, n, c, snap))));
                                match &second {
                                    None => {
                                        end = End::End;
                                        returned.push((used + 1, used + 1 + stride, None));
                                    }
                                    Some(it2) => {
                                        let (z, st, n, c) = rec(it2);
                                        returned.push((used + 1, used + 1 + stride, Some((z, st, n, c, Some(snap!())))));
                                    }
                                }
                            }
                        }
                    }
                }
                used += 1 + stride;
                continue;
            }
            let r = guarded(|| match op {
                '0'..='4' => sampler.nth(skip),
                'a'..='d' => sampler.by_ref().skip(skip).next(),
                _ => sampler.next(),
            });
            match r {
                Err(()) => {
                    end = End::Panic;
                    returned.push((used, used + skip + 1, None));
                }
                Ok(None) => {
                    end = End::End;
                    returned.push((used, used + skip + 1, None));
                }
                Ok(Some(it)) => {
                    let (z, st, n, c) = rec(&it);
                    returned.push((used, used + skip + 1, Some((z, st, n, c, Some(snap!())))));
                }
            }
            used += skip + 1;
        }
        return Trace { new_panic: false, counts, init: Some(init), steps, end, returned };
    }
    for _ in 0..spec.maxsteps {
        match guarded(|| sampler.next()) {
            Err(()) => {
                end = End::Panic;
                break;
            }
            Ok(None) => {
                end = End::End;
                break;
            }
            Ok(Some(it)) => {
                let snap = snap!();
                steps.push(StepRec {
                    z: it.z,
                    step: it.step,
                    itn: it.counts.sequence_count(),
                    itcounts: rows_of::<A>(it.counts.matrix()),
                    snap,
                });
            }
        }
    }
    Trace { new_panic: false, counts, init: Some(init), steps, end, returned: vec![] }
}

fn run_spec(spec: &Spec, scheduled: bool) -> Trace {
    let arm = spec.backend.split('+').next().unwrap();
    if arm != "native" {
        assert!(verif::force_backend(arm));
    }
    let tr = if spec.alpha == "dna" {
        run_sampler::<Dna>(spec, DNA, scheduled)
    } else {
        run_sampler::<Protein>(spec, PROTEIN, scheduled)
    };
    verif::clear();
    tr
}

/// The trace of a scheduled run: the steps of the reference run (taken with `next()`), with every
/// iteration the scheduled run returned put in the place of the reference's.  `Err` when the two
/// runs cannot be laid over one another (an item where the reference has none, the end at
/// another step): then the runs differ, which the property forbids.
fn overlay(reference: &Trace, sched: &Trace) -> Result<Trace, String> {
    let mut tr = reference.clone();
    if sched.new_panic != reference.new_panic || sched.init != reference.init || sched.counts != reference.counts {
        return Err("the constructor / initial state differ".into());
    }
    for (before, after, item) in &sched.returned {
        match item {
            Some((z, step, n, counts, snap)) => {
                let idx = after - 1;
                let Some(r) = tr.steps.get_mut(idx) else {
                    return Err(format!("a call returned the iteration of step {} but next() alone stops after {} steps", idx, reference.steps.len()));
                };
                *r = StepRec { z: *z, step: *step, itn: *n, itcounts: counts.clone(), snap: snap.clone().unwrap_or_else(|| r.snap.clone()) };
            }
            None => {
                // the call ended (None / panic) somewhere in (before, after]: so must the reference
                let t = reference.steps.len();
                if reference.end != sched.end || t < *before || t >= *after {
                    return Err(format!(
                        "a call covering steps {}..{} ended with {:?} but next() alone gives {} steps and then {:?}",
                        before, after, sched.end, t, reference.end
                    ));
                }
            }
        }
    }
    if sched.end == End::More && (reference.end != End::More) {
        return Err("the step budget was consumed but next() alone ends earlier".into());
    }
    tr.end = sched.end;
    Ok(tr)
}

fn fmt_mat(m: &[Vec<u32>]) -> String {
    join(m.iter().flat_map(|r| r.iter()))
}

fn fmt_snap(s: &Snap) -> String {
    format!(
        "{} / {} / {} / {} / {} / {}",
        join(s.starts.iter()),
        join(s.act_seqs.iter()),
        join(s.act_starts.iter()),
        s.count,
        fmt_mat(&s.motif),
        join(s.bg.iter())
    )
}

/// the observed draws, appended to the case line
fn observed(spec: &Spec, tr: &Trace) -> String {
    if tr.new_panic {
        return "new-panic".into();
    }
    let init = tr.init.as_ref().unwrap();
    let seeds: Vec<usize> = if spec.zoops { init.act_seqs.clone() } else { vec![] };
    let mut s = format!("ok");
    for x in &init.starts {
        s.push_str(&format!(" {}", x));
    }
    s.push_str(&format!(" {}", seeds.len()));
    for x in &seeds {
        s.push_str(&format!(" {}", x));
    }
    s.push_str(&format!(" {}", tr.steps.len()));
    let mut prev = init;
    for st in &tr.steps {
        let was_active = prev.act_seqs.contains(&st.z);
        let is_active = st.snap.act_seqs.contains(&st.z);
        let newstart = st.snap.starts.get(st.z).cloned().unwrap_or(0);
        let discard = spec.zoops && !was_active && !is_active;
        s.push_str(&format!(" {} {} {}", st.z, newstart, discard as u8));
        prev = &st.snap;
    }
    s.push_str(match tr.end {
        End::End => " end",
        End::More => " more",
        End::Panic => " panic",
    });
    s
}

fn answer(tr: &Trace) -> String {
    if tr.new_panic {
        return "new-panic".into();
    }
    let cnts = tr.counts.iter().map(|c| join(c.iter())).collect::<Vec<_>>().join(" , ");
    let mut parts = vec![format!("counts {} ; init {}", cnts, fmt_snap(tr.init.as_ref().unwrap()))];
    for st in &tr.steps {
        parts.push(format!("{} {} {} {} / {}", st.z, st.step, st.itn, fmt_mat(&st.itcounts), fmt_snap(&st.snap)));
    }
    parts.push(
        match tr.end {
            End::End => "end",
            End::More => "more",
            End::Panic => "panic-possible",
        }
        .into(),
    );
    parts.join(" ; ")
}

// ------------------------------------------------------------------------------------- oracle

/// counts of the `w`-long windows of the listed sequences at the listed starts
fn window_counts(spec: &Spec, seqs: &[usize], starts: &[usize]) -> Result<Vec<Vec<u32>>, String> {
    let mut m = vec![vec![0u32; spec.k()]; spec.w];
    for (&i, &st) in seqs.iter().zip(starts) {
        let q = spec.seqs.get(i).ok_or_else(|| format!("active sequence {} does not exist", i))?;
        if st + spec.w > q.len() {
            return Err(format!("sequence {}: start {} + width {} > length {}", i, st, spec.w, q.len()));
        }
        for j in 0..spec.w {
            m[j][q[st + j]] += 1;
        }
    }
    Ok(m)
}

/// symbol counts of the listed sequences outside their windows
fn outside_counts(spec: &Spec, seqs: &[usize], starts: &[usize]) -> Vec<usize> {
    let mut c = vec![0usize; spec.k()];
    for (&i, &st) in seqs.iter().zip(starts) {
        for (p, &x) in spec.seqs[i].iter().enumerate() {
            if p < st || p >= st + spec.w {
                c[x] += 1;
            }
        }
    }
    c
}

fn check_snap(spec: &Spec, s: &Snap, at: &str) -> Result<(), String> {
    if s.act_seqs.windows(2).any(|p| p[0] >= p[1]) || s.act_seqs.iter().any(|&i| i >= spec.seqs.len()) {
        return Err(format!("{}: active_sequences is not an increasing list of sequence indices", at));
    }
    if s.act_starts.len() != s.act_seqs.len() || s.count != s.act_seqs.len() {
        return Err(format!("{}: {} active sequences, {} starts, sequence_count {}", at, s.act_seqs.len(), s.act_starts.len(), s.count));
    }
    let want = window_counts(spec, &s.act_seqs, &s.act_starts).map_err(|e| format!("{}: {}", at, e))?;
    if want != s.motif {
        return Err(format!("{}: count matrix differs from the windows of the active sequences at the reported starts", at));
    }
    let out = outside_counts(spec, &s.act_seqs, &s.act_starts);
    if out != s.bg {
        return Err(format!("{}: background counts {:?} differ from the symbols outside the windows {:?}", at, s.bg, out));
    }
    let total: usize = out.iter().sum();
    match &s.bgfreq {
        None => {
            if total > 0 {
                return Err(format!("{}: background() panicked although symbols remain outside the windows", at));
            }
        }
        Some(f) => {
            let want: Vec<u32> = out.iter().map(|&c| (c as f32 / total as f32).to_bits()).collect();
            if &want != f {
                return Err(format!("{}: background() is not the normalised outside-window counts", at));
            }
        }
    }
    for (k, &i) in s.act_seqs.iter().enumerate() {
        if s.starts.get(i) != Some(&s.act_starts[k]) {
            return Err(format!("{}: active_starts disagrees with the start vector for sequence {}", at, i));
        }
    }
    Ok(())
}

/// are the property's hypotheses met, and is the run one for which no panic is excused?
fn in_hypotheses(spec: &Spec) -> bool {
    spec.seqs.iter().all(|q| q.len() > spec.w) && spec.wrap >= spec.w && spec.w >= 1
}

fn oracle(spec: &Spec, tr: &Trace, tr2: &Trace) -> Result<(), String> {
    if tr != tr2 {
        let at = tr.steps.iter().zip(&tr2.steps).position(|(a, b)| a != b);
        return Err(match at {
            Some(t) if tr.steps[t].itcounts != tr2.steps[t].itcounts && tr.steps[t].snap == tr2.steps[t].snap => {
                format!("two runs with the same data, parameters and seed differ: Iteration.counts of step {} (same state after the step)", t)
            }
            Some(t) => format!("two runs with the same data, parameters and seed differ at step {}", t),
            None => "two runs with the same data, parameters and seed differ".into(),
        });
    }
    if tr.new_panic {
        if in_hypotheses(spec) {
            return Err("the constructor panicked".into());
        }
        return Ok(());
    }
    // cached symbol counts
    for (i, q) in spec.seqs.iter().enumerate() {
        let mut c = vec![0usize; spec.k()];
        for &x in q {
            c[x] += 1;
        }
        if tr.counts.get(i) != Some(&c) {
            return Err(format!("cached symbol counts of sequence {} are wrong", i));
        }
    }
    let init = tr.init.as_ref().unwrap();
    check_snap(spec, init, "init")?;
    let mut prev = init;
    for (t, st) in tr.steps.iter().enumerate() {
        let at = format!("step {}", t);
        if st.step != t || st.z >= spec.seqs.len() {
            return Err(format!("{}: iteration reports step {} z {}", at, st.step, st.z));
        }
        check_snap(spec, &st.snap, &at)?;
        // Iteration.counts: the alignment without the held-out sequence
        let (seqs, starts): (Vec<usize>, Vec<usize>) =
            prev.act_seqs.iter().zip(&prev.act_starts).filter(|(&i, _)| i != st.z).map(|(&i, &s)| (i, s)).unzip();
        let want = window_counts(spec, &seqs, &starts).map_err(|e| format!("{}: {}", at, e))?;
        if want != st.itcounts || st.itn != seqs.len() {
            return Err(format!("{}: Iteration.counts is not the alignment without sequence {}", at, st.z));
        }
        prev = &st.snap;
    }
    // a panic is excused only outside the hypotheses or when no sequence but the held-out one can be active
    if tr.end == End::Panic && in_hypotheses(spec) {
        let enough = if spec.zoops { spec.initial.min(spec.seqs.len()) >= 2 } else { spec.seqs.len() >= 2 };
        if enough {
            return Err(format!("next() panicked after {} steps inside the property's hypotheses", tr.steps.len()));
        }
    }
    Ok(())
}

// ------------------------------------------------------------------------------------- exec / generate

pub struct Done {
    line: String,
    answer: String,
    oracle: Option<Result<(), String>>,
    nontrivial: bool,
    steps: usize,
    changed: usize,
    end: End,
    new_panic: bool,
}

pub fn exec(line: &str) -> Done {
    let input = line.split('|').next().unwrap().trim();
    let spec = Spec::parse(input);
    let reference = run_spec(&spec, false);
    let (tr, o) = if schedule_of(&spec.backend).is_some() {
        // second run through nth / skip / step_by: its returned iterations, laid over the first run
        let sched = run_spec(&spec, true);
        match overlay(&reference, &sched) {
            Ok(tr) => {
                let o = oracle(&spec, &tr, &reference);
                (tr, o)
            }
            Err(e) => (reference.clone(), Err(format!("two runs with the same data, parameters and seed differ (next() only / the schedule of the case): {}", e))),
        }
    } else {
        let tr2 = run_spec(&spec, false);
        let o = oracle(&spec, &reference, &tr2);
        (reference, o)
    };
    let mut changed = 0;
    if let Some(init) = &tr.init {
        let mut prev = init;
        for st in &tr.steps {
            if prev.starts.get(st.z) != st.snap.starts.get(st.z) {
                changed += 1;
            }
            prev = &st.snap;
        }
    }
    Done {
        line: format!("{} | {}", spec.input(), observed(&spec, &tr)),
        answer: answer(&tr),
        oracle: Some(o),
        nontrivial: changed > 0,
        steps: tr.steps.len(),
        changed,
        end: tr.end,
        new_panic: tr.new_panic,
    }
}

fn random_seq(rng: &mut Rng, k: usize, len: usize) -> Vec<usize> {
    // a planted, slightly conserved word makes the weights uneven; the wildcard appears now and then
    (0..len)
        .map(|_| {
            if rng.chance(1, 25) {
                k - 1
            } else if rng.chance(1, 3) {
                rng.below(2)
            } else {
                rng.below(k - 1)
            }
        })
        .collect()
}

fn dataset(rng: &mut Rng, k: usize, n: usize, w: usize, maxextra: usize) -> Vec<Vec<usize>> {
    (0..n)
        .map(|i| {
            let extra = if i == 0 { 1 } else { rng.range(1, maxextra) };
            random_seq(rng, k, w + extra)
        })
        .collect()
}

pub fn generate(cfg: &Cfg) -> Vec<String> {
    let mut rng = Rng::new(cfg.seed ^ 0xC16);
    let mut cases = Vec::new();
    // half of the cases take the steps of their second run through nth / skip / step_by (own random
    // state: the data, parameters and seeds of the stream are what they were before)
    let mut irng = Rng::new(cfg.seed ^ 0xC16_0100);
    const SCHEDULES: [&str; 10] = ["0", "1", "x2", "a", "q", "0x3bp", "4d", "r1", "x0", "pc2"];
    let mut push = |mut s: Spec| {
        if irng.chance(1, 2) {
            s.backend = format!("{}+i:{}", s.backend, irng.pick(&SCHEDULES));
        }
        cases.push(s.input())
    };
    for alpha in ["dna", "protein"] {
        let k = if alpha == "dna" { 5 } else { 21 };
        // main grid: both modes, every width 1..=20
        for zoops in [false, true] {
            for w in 1..=20usize {
                let n = rng.range(3, 9);
                let seqs = dataset(&mut rng, k, n, w, if w % 4 == 0 { 90 } else { 30 });
                let initial = if zoops { rng.range(2, n) } else { 0 };
                let maxsteps = if cfg.thorough { if w % 5 == 0 { 5000 } else { 1000 } } else { 300 };
                push(Spec {
                    alpha: alpha.into(),
                    zoops,
                    w,
                    initial,
                    inertia: if zoops { *rng.pick(&[0, 7, 50 * initial]) } else { 0 },
                    patience: if zoops { *rng.pick(&[n, 40, 100_000]) } else { 0 },
                    rngseed: rng.next(),
                    maxsteps,
                    wrap: w + rng.below(3),
                    backend: (*rng.pick(&["native", "native", "generic", "sse2", "avx2"])).into(),
                    seqs,
                });
            }
        }
        // random stream: more sequences, longer sequences (several striped rows), any parameters
        let count = (if cfg.thorough { 200 } else { 24 }) * cfg.boost;
        for _ in 0..count {
            let w = rng.range(1, 20);
            let nmax = if rng.chance(1, 4) { 30 } else { 8 };
            let n = rng.range(2, nmax);
            let zoops = rng.chance(1, 2);
            let extra = if rng.chance(1, 5) { 200 } else { 40 };
            let seqs = dataset(&mut rng, k, n, w, extra);
            let initial = if zoops { rng.range(2, n) } else { 0 };
            push(Spec {
                alpha: alpha.into(),
                zoops,
                w,
                initial,
                inertia: if zoops { rng.below(60) } else { 0 },
                patience: if zoops { rng.range(1, 3 * n) } else { rng.below(5) },
                rngseed: rng.next(),
                maxsteps: if cfg.thorough { 400 } else { 100 },
                wrap: w + rng.below(40),
                backend: (*rng.pick(&["native", "generic", "sse2", "avx2"])).into(),
                seqs,
            });
        }
        // many sequences (more than a machine word of activity flags), zero-or-one mode, long enough
        // for sequences to be recruited and dropped; and datasets whose padding cells are not the wildcard
        for rep in 0..(if cfg.thorough { 6 } else { 2 }) * cfg.boost {
            let w = rng.range(2, 6);
            let n = rng.range(64, 72);
            let seqs = dataset(&mut rng, k, n, w, 12);
            push(Spec {
                alpha: alpha.into(),
                zoops: true,
                w,
                initial: rng.range(n / 3, n / 2),
                inertia: rng.below(20),
                patience: 100_000,
                rngseed: rng.next(),
                maxsteps: if cfg.thorough { 3000 } else { 700 },
                wrap: w,
                backend: if rep % 2 == 0 { "native".into() } else { "native+pad".into() },
                seqs,
            });
        }
        for _ in 0..(if cfg.thorough { 40 } else { 6 }) * cfg.boost {
            let w = rng.range(1, 12);
            let n = rng.range(3, 8);
            let zoops = rng.chance(1, 2);
            let seqs = dataset(&mut rng, k, n, w, 45);
            let initial = if zoops { rng.range(2, n) } else { 0 };
            push(Spec {
                alpha: alpha.into(),
                zoops,
                w,
                initial,
                inertia: if zoops { rng.below(30) } else { 0 },
                patience: if zoops { 100_000 } else { 0 },
                rngseed: rng.next(),
                maxsteps: 120,
                wrap: w + rng.below(3),
                backend: format!("{}+pad", rng.pick(&["native", "generic", "sse2", "avx2"])),
                seqs,
            });
        }
        // boundary stream: the points the hypotheses exclude, and the panic sites (reported, not judged)
        for w in [1usize, 4, 17] {
            let base = |rng: &mut Rng, n: usize, zoops: bool, initial: usize, inertia: usize| Spec {
                alpha: alpha.into(),
                zoops,
                w,
                initial,
                inertia,
                patience: 5,
                rngseed: rng.next(),
                maxsteps: 40,
                wrap: w,
                backend: "native".into(),
                seqs: dataset(rng, k, n, w, 20),
            };
            // one sequence, Oops: nothing remains once it is held out
            push(base(&mut rng, 1, false, 0, 0));
            // Zoops with 0 and 1 seeds, with and without inertia
            push(base(&mut rng, 5, true, 0, 0));
            push(base(&mut rng, 5, true, 1, 50));
            push(base(&mut rng, 5, true, 1, 0));
            push(base(&mut rng, 5, true, 0, 3));
            // more seeds requested than sequences
            push(base(&mut rng, 3, true, 7, 10));
            // two sequences, the smallest Oops dataset that runs
            push(base(&mut rng, 2, false, 0, 0));
            // empty dataset
            push(base(&mut rng, 0, false, 0, 0));
            // sequences exactly as long as the width (excluded by `longer than the width`)
            let mut s = base(&mut rng, 4, false, 0, 0);
            for q in s.seqs.iter_mut() {
                q.truncate(w);
            }
            push(s);
            let mut s = base(&mut rng, 4, false, 0, 0);
            s.seqs[2].truncate(w);
            push(s);
            let mut s = base(&mut rng, 4, true, 2, 0);
            s.seqs[1].truncate(w);
            s.seqs[3].truncate(w);
            push(s);
            // too few wrap rows: the constructor refuses
            let mut s = base(&mut rng, 3, false, 0, 0);
            s.wrap = w - 1;
            push(s);
        }
    }
    cases
}

pub fn run(cfg: &Cfg) {
    let cases = crate::replay_cases(cfg).unwrap_or_else(|| generate(cfg));
    let mut out = Out::new(&cfg.out);
    for c in &cases {
        let d = exec(c);
        let t: Vec<&str> = d.line.splitn(6, ' ').collect();
        out.stat(&format!("{}/{}", t[1], t[2]));
        let btok = d.line.split(' ').nth(11).unwrap();
        let (bk, sched) = btok.split_once("+i:").unwrap_or((btok, ""));
        out.stat(&format!("backend/{}", bk));
        out.stat(&format!("second-run/{}", if sched.is_empty() { "next() only".to_string() } else { format!("schedule {}", sched) }));
        out.stat(&format!("width/{:02}", t[4].parse::<usize>().unwrap()));
        out.stat(match (d.new_panic, d.end) {
            (true, _) => "end/new-panic",
            (_, End::End) => "end/converged",
            (_, End::More) => "end/step-budget",
            (_, End::Panic) => "end/next-panic",
        });
        *out.stats.entry("steps".into()).or_insert(0) += d.steps as u64;
        *out.stats.entry("steps-changing-a-start".into()).or_insert(0) += d.changed as u64;
        if d.new_panic || d.end == End::Panic {
            out.panics += 1;
        }
        out.case(&d.line, &d.answer, d.oracle, d.nontrivial);
    }
    out.finish(&cfg.out);
}
