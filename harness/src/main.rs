//! lmv-harness <property> --tier quick|thorough --seed N --out DIR [--replay FILE] [--boost K]
//!
//! Writes DIR/cases.txt (one case per line, fed verbatim to the Lean driver), DIR/impl.txt (the
//! implementation's canonical answers), DIR/oracle.txt (the property oracle's verdict on the
//! implementation's answer) and DIR/stats.json (what was generated).
mod abcdump;
mod out;
mod rng;

mod registry;
pub use registry::*;

use std::path::PathBuf;

pub struct Cfg {
    pub thorough: bool,
    pub seed: u64,
    pub out: PathBuf,
    pub replay: Option<PathBuf>,
    /// multiplies random budgets (used when a proof or correspondence broke and we search for a
    /// failing input, and for items whose source drifted)
    pub boost: usize,
}

fn main() {
    let args: Vec<String> = std::env::args().collect();
    if args.len() < 2 {
        eprintln!("usage: lmv-harness <property> --tier T --seed N --out DIR");
        std::process::exit(2);
    }
    if args[1] == "abc-dump" {
        // executed alphabet tables for tools/gen/abc.py (no panic hook: a panic here is a failure)
        abcdump::run();
        return;
    }
    let prop = args[1].clone();
    let mut cfg = Cfg {
        thorough: false,
        seed: 0,
        out: PathBuf::from("."),
        replay: None,
        boost: 1,
    };
    let mut i = 2;
    while i < args.len() {
        match args[i].as_str() {
            "--tier" => {
                cfg.thorough = args[i + 1] == "thorough";
                i += 2
            }
            "--seed" => {
                cfg.seed = args[i + 1].parse().unwrap();
                i += 2
            }
            "--out" => {
                cfg.out = PathBuf::from(&args[i + 1]);
                i += 2
            }
            "--replay" => {
                cfg.replay = Some(PathBuf::from(&args[i + 1]));
                i += 2
            }
            "--boost" => {
                cfg.boost = args[i + 1].parse().unwrap();
                i += 2
            }
            x => {
                eprintln!("unknown argument {}", x);
                std::process::exit(2);
            }
        }
    }
    // panics are outcomes, not noise
    std::panic::set_hook(Box::new(|_| {}));
    if !registry::run(prop.as_str(), &cfg) {
        eprintln!("unknown property {}", prop);
        std::process::exit(2);
    }
}

/// Replay support: the case lines of a replay file (lines starting with "CASE ").
pub fn replay_cases(cfg: &Cfg) -> Option<Vec<String>> {
    cfg.replay.as_ref().map(|p| {
        std::fs::read_to_string(p)
            .unwrap()
            .lines()
            .filter_map(|l| l.strip_prefix("CASE ").map(|s| s.to_string()))
            .collect()
    })
}
