//! C14 — well-formed motif files load completely and exactly under any stream chunking.
//!
//! case:   c14 <jaspar|jaspar16|transfac|uniprobe> <dna|protein> <k> <chunk sizes × k> <hex bytes | ->
//! answer: per call of `next`, joined by " ; ":
//!           R <fields…> <rows> <cells…>     a record (fields in hex, cells in decimal; f32 as bits)
//!           err-nom | err-io | err-data     an error (the consumer of C14 stops at the first one)
//!           end                             `None`
//!           panic | new-panic | hang
//!
//! The reader under test is built on `ChunkedReader`, a `BufRead` whose `fill_buf` returns chunks
//! of the scheduled sizes (see LMV.Model.Stream for the exact semantics, which the model shares).
//!
//! Oracle (from the property text, independent of the readers and of the model): a naive
//! line/whitespace-splitting parser of the dialect the generator writes gives the expected records
//! (fields as written, every entry in the row of its position and the column of its symbol, other
//! columns zero, then end of input); float lexemes are converted with an exact integer algorithm.
//!
//! Alternative entry points (`alt`, shared with C15; oracle only, case lines and answers unchanged): on
//! the cases whose line hash is even the same bytes under the same chunk schedule are also read through
//! `Reader::new` (the main route is the free function `read`), and through `Reader::new` with every call
//! of `next` replaced by an `Iterator` adaptor (`by_ref().take(1)`, `nth(0)`, `take(1).collect()`,
//! `find`, then plain `next` again): the sequence of answers must be the one of the main route;
//! `collect::<Result<Vec<_>, _>>()` must stop with the first error of the main route (or give as many
//! records); `size_hint()` must bracket the number of items; every record's accessors and conversions
//! must agree with each other (`matrix()` / `as_ref()` / `into_matrix()` / `From<Record>` / `clone()`;
//! TRANSFAC `to_freq` against `to_counts().to_freq`, and with the pseudocount as f32 / array /
//! `Pseudocounts`; `references()` of well-formed TRANSFAC records against a naive reading of the R*
//! lines).  For C14 (well-formed files: any chunking) the bytes are also read from `io::Cursor`, `&[u8]`
//! and a small `BufReader`.
use crate::out::*;
use crate::rng::Rng;
use crate::Cfg;
use lightmotif::abc::Alphabet;
use lightmotif::abc::Dna;
use lightmotif::abc::Protein;
use lightmotif::abc::Pseudocounts;
use lightmotif::pwm::CountMatrix;
use lightmotif::pwm::FrequencyMatrix;
use lightmotif_io::error::Error;
use std::collections::VecDeque;
use std::io::BufRead;
use std::io::Read;

pub const DNA: &[u8] = b"ACTGN";
pub const PROTEIN: &[u8] = b"ACDEFGHIKLMNPQRSTVWYX";
pub const FORMATS: &[&str] = &["jaspar", "jaspar16", "uniprobe", "transfac"];

pub fn letters(alpha: &str) -> &'static [u8] {
    if alpha == "dna" {
        DNA
    } else {
        PROTEIN
    }
}

// ------------------------------------------------------------------------------------------------
// the chunked stream

pub struct ChunkedReader {
    data: Vec<u8>,
    pos: usize,
    sched: VecDeque<usize>,
}

impl ChunkedReader {
    pub fn new(data: &[u8], sched: &[usize]) -> Self {
        ChunkedReader { data: data.to_vec(), pos: 0, sched: sched.iter().copied().collect() }
    }
}

impl BufRead for ChunkedReader {
    fn fill_buf(&mut self) -> std::io::Result<&[u8]> {
        let rem = self.data.len() - self.pos;
        let k = match self.sched.front() {
            None => rem,
            Some(&c) => c.max(1).min(rem),
        };
        Ok(&self.data[self.pos..self.pos + k])
    }
    fn consume(&mut self, m: usize) {
        self.pos += m;
        if let Some(c) = self.sched.pop_front() {
            let k = c.max(1);
            if m < k {
                self.sched.push_front(k - m);
            }
        }
    }
}

impl Read for ChunkedReader {
    fn read(&mut self, buf: &mut [u8]) -> std::io::Result<usize> {
        let n = {
            let a = self.fill_buf()?;
            let n = a.len().min(buf.len());
            buf[..n].copy_from_slice(&a[..n]);
            n
        };
        self.consume(n);
        Ok(n)
    }
}

// ------------------------------------------------------------------------------------------------
// helpers

pub fn hex(b: &[u8]) -> String {
    if b.is_empty() {
        return "-".into();
    }
    let mut s = String::with_capacity(2 * b.len());
    for x in b {
        s.push_str(&format!("{:02x}", x));
    }
    s
}

pub fn unhex(s: &str) -> Vec<u8> {
    if s == "-" {
        return Vec::new();
    }
    let b = s.as_bytes();
    (0..b.len() / 2)
        .map(|i| {
            let h = |c: u8| if c.is_ascii_digit() { c - b'0' } else { c - b'a' + 10 };
            h(b[2 * i]) * 16 + h(b[2 * i + 1])
        })
        .collect()
}

fn hex_opt(s: Option<&[u8]>) -> String {
    match s {
        None => "none".into(),
        Some(b) => format!("some:{}", hex(b)),
    }
}

fn kind(e: &Error) -> &'static str {
    match e {
        Error::InvalidData => "err-data",
        Error::Io(_) => "err-io",
        Error::Nom(_) => "err-nom",
    }
}

// ------------------------------------------------------------------------------------------------
// running the real readers

/// Drive one reader: `next` until a panic, `extra` more calls after the first error or end of input,
/// give up (`hang`) after |input| + 3 + 2·extra calls.
fn consume<R, I: Iterator<Item = Result<R, Error>>>(
    mk: impl FnOnce() -> I,
    dump: impl Fn(&R) -> String,
    detail: bool,
    extra: usize,
    len: usize,
) -> String {
    let mut it = match guarded(mk) {
        Err(()) => return "new-panic".into(),
        Ok(it) => it,
    };
    let mut out: Vec<String> = Vec::new();
    let mut after_err: Option<usize> = None;
    let mut fuel = len + 3 + 2 * extra;
    loop {
        if fuel == 0 {
            out.push("hang".into());
            break;
        }
        fuel -= 1;
        if after_err == Some(0) {
            break;
        }
        match guarded(|| it.next()) {
            Err(()) => {
                out.push("panic".into());
                break;
            }
            Ok(None) => {
                // end of input is an answer like any other: keep asking `extra` more times (a request
                // after the end must not panic either, and must keep saying `end`)
                out.push("end".into());
                after_err = Some(match after_err {
                    None => extra,
                    Some(n) => n.saturating_sub(1),
                });
            }
            Ok(Some(Ok(r))) => {
                out.push(if detail { format!("R {}", dump(&r)) } else { "rec".into() });
                after_err = after_err.map(|n| n.saturating_sub(1));
            }
            Ok(Some(Err(e))) => {
                out.push(kind(&e).into());
                after_err = Some(match after_err {
                    None => extra,
                    Some(n) => n.saturating_sub(1),
                });
            }
        }
    }
    out.join(" ; ")
}

fn dump_u32<A: Alphabet>(m: &lightmotif::dense::DenseMatrix<u32, A::K>) -> String {
    let k = letters_of::<A>().len();
    let mut s = format!("{}", m.rows());
    for i in 0..m.rows() {
        for j in 0..k {
            s.push_str(&format!(" {}", m[i][j]));
        }
    }
    s
}

fn dump_f32<A: Alphabet>(m: &lightmotif::dense::DenseMatrix<f32, A::K>) -> String {
    let k = letters_of::<A>().len();
    let mut s = format!("{}", m.rows());
    for i in 0..m.rows() {
        for j in 0..k {
            s.push_str(&format!(" {}", m[i][j].to_bits()));
        }
    }
    s
}

fn letters_of<A: Alphabet>() -> &'static [u8] {
    if A::symbols().len() == 5 {
        DNA
    } else {
        PROTEIN
    }
}

/// how the reader is reached and consumed
#[derive(Clone, Copy, PartialEq, Eq, Debug)]
pub enum Route {
    /// the free function `read` of the format, plain `next` (the main route)
    Free,
    /// `Reader::new`, plain `next`
    New,
    /// `Reader::new`, every call of `next` through an `Iterator` adaptor (see `Adapted`)
    Adapted,
}

/// call k of `next` goes through another provided method / adaptor of `Iterator`; the sequence of
/// items must be the one plain `next` gives
pub struct Adapted<I> {
    inner: I,
    calls: usize,
}

impl<I: Iterator> Iterator for Adapted<I> {
    type Item = I::Item;
    fn next(&mut self) -> Option<I::Item> {
        let k = self.calls;
        self.calls += 1;
        match k % 5 {
            0 => self.inner.by_ref().take(1).next(),
            1 => self.inner.nth(0),
            2 => self.inner.by_ref().take(1).collect::<Vec<_>>().pop(),
            3 => self.inner.find(|_| true),
            _ => self.inner.next(),
        }
    }
}

macro_rules! by_route {
    ($route:expr, $free:expr, $new:expr, $dump:expr, $detail:expr, $extra:expr, $len:expr) => {
        match $route {
            Route::Free => consume(|| $free, $dump, $detail, $extra, $len),
            Route::New => consume(|| $new, $dump, $detail, $extra, $len),
            Route::Adapted => consume(|| Adapted { inner: $new, calls: 0 }, $dump, $detail, $extra, $len),
        }
    };
}

fn dump_transfac<A: Alphabet>(r: &lightmotif_io::transfac::Record<A>) -> String {
    format!(
        "{} {} {} {} {} {}",
        hex_opt(r.id().map(|s| s.as_bytes())),
        hex_opt(r.accession().map(|s| s.as_bytes())),
        hex_opt(r.name().map(|s| s.as_bytes())),
        hex_opt(r.description().map(|s| s.as_bytes())),
        match r.data() {
            None => "nodata".to_string(),
            Some(m) => dump_f32::<A>(m),
        },
        match r.to_counts() {
            None => "nocounts".to_string(),
            Some(c) => format!("counts {}", dump_u32::<A>(c.matrix())),
        }
    )
}

fn drive_alpha<A: Alphabet, B: BufRead>(fmt: &str, rd: impl FnOnce() -> B, route: Route, detail: bool, extra: usize, len: usize) -> String {
    match fmt {
        "jaspar16" => by_route!(
            route,
            lightmotif_io::jaspar16::read::<_, A>(rd()),
            lightmotif_io::jaspar16::Reader::<_, A>::new(rd()),
            |r: &lightmotif_io::jaspar16::Record<A>| format!("{} {} {}", hex(r.id().as_bytes()), hex_opt(r.description().map(|s| s.as_bytes())), dump_u32::<A>(r.matrix().matrix())),
            detail,
            extra,
            len
        ),
        "uniprobe" => by_route!(
            route,
            lightmotif_io::uniprobe::read::<_, A>(rd()),
            lightmotif_io::uniprobe::Reader::<_, A>::new(rd()),
            |r: &lightmotif_io::uniprobe::Record<A>| format!("{} {}", hex(r.id().as_bytes()), dump_f32::<A>(r.matrix().matrix())),
            detail,
            extra,
            len
        ),
        "transfac" => by_route!(route, lightmotif_io::transfac::read::<_, A>(rd()), lightmotif_io::transfac::Reader::<_, A>::new(rd()), dump_transfac::<A>, detail, extra, len),
        _ => "bad-format".into(),
    }
}

/// drive the reader of `fmt` over any `BufRead`
pub fn drive_on<B: BufRead>(fmt: &str, alpha: &str, rd: impl FnOnce() -> B, route: Route, detail: bool, extra: usize, len: usize) -> String {
    if fmt == "jaspar" {
        return by_route!(
            route,
            lightmotif_io::jaspar::read(rd()),
            lightmotif_io::jaspar::Reader::new(rd()),
            |r: &lightmotif_io::jaspar::Record| format!("{} {} {}", hex(r.id().as_bytes()), hex_opt(r.description().map(|s| s.as_bytes())), dump_u32::<Dna>(r.matrix().matrix())),
            detail,
            extra,
            len
        );
    }
    if alpha == "dna" {
        drive_alpha::<Dna, B>(fmt, rd, route, detail, extra, len)
    } else {
        drive_alpha::<Protein, B>(fmt, rd, route, detail, extra, len)
    }
}

pub fn drive(fmt: &str, alpha: &str, sched: &[usize], data: &[u8], detail: bool, extra: usize) -> String {
    drive_on(fmt, alpha, || ChunkedReader::new(data, sched), Route::Free, detail, extra, data.len())
}

pub struct Case {
    pub fmt: String,
    pub alpha: String,
    pub sched: Vec<usize>,
    pub data: Vec<u8>,
}

pub fn parse_case(line: &str) -> Case {
    let t: Vec<&str> = line.split_whitespace().collect();
    let k: usize = t[3].parse().unwrap();
    Case {
        fmt: t[1].into(),
        alpha: t[2].into(),
        sched: t[4..4 + k].iter().map(|x| x.parse().unwrap()).collect(),
        data: unhex(t.get(4 + k).copied().unwrap_or("-")),
    }
}

pub fn case_line(op: &str, fmt: &str, alpha: &str, sched: &[usize], data: &[u8]) -> String {
    let mut s = format!("{} {} {} {}", op, fmt, alpha, sched.len());
    for c in sched {
        s.push_str(&format!(" {}", c));
    }
    s.push(' ');
    s.push_str(&hex(data));
    s
}

// ------------------------------------------------------------------------------------------------
// exact decimal -> f32 (round to nearest, ties to even) with integers only; `None` when the
// operands would not fit 128 bits (the oracle is then not applicable)

pub fn dec_to_f32_bits(lex: &[u8]) -> Option<u32> {
    let s = std::str::from_utf8(lex).ok()?;
    let lower = s.to_ascii_lowercase();
    if lower == "nan" {
        return Some(0x7fc0_0000);
    }
    if lower == "inf" || lower == "infinity" {
        return Some(0x7f80_0000);
    }
    let (neg, s) = match s.as_bytes().first()? {
        b'-' => (true, &s[1..]),
        b'+' => (false, &s[1..]),
        _ => (false, s),
    };
    let sign = if neg { 0x8000_0000u32 } else { 0 };
    let (mant, exp) = match s.find(|c| c == 'e' || c == 'E') {
        Some(i) => (&s[..i], s[i + 1..].parse::<i64>().ok()?),
        None => (s, 0i64),
    };
    let (ip, fp) = match mant.find('.') {
        Some(i) => (&mant[..i], &mant[i + 1..]),
        None => (mant, ""),
    };
    if ip.is_empty() && fp.is_empty() {
        return None;
    }
    let digits: String = format!("{}{}", ip, fp);
    if !digits.bytes().all(|b| b.is_ascii_digit()) {
        return None;
    }
    let digits = digits.trim_start_matches('0');
    if digits.is_empty() {
        return Some(sign);
    }
    if digits.len() > 30 {
        return None;
    }
    let m: u128 = digits.parse().ok()?;
    let e10 = exp - fp.len() as i64;
    if !(-28..=28).contains(&e10) {
        return None;
    }
    let p10 = 10u128.checked_pow(e10.unsigned_abs() as u32)?;
    let (n, d) = if e10 >= 0 { (m.checked_mul(p10)?, 1u128) } else { (m, p10) };
    let bl = |x: u128| 128 - x.leading_zeros() as i64;
    // e2 = floor(log2(n/d))
    let mut e2 = bl(n) - bl(d);
    let lt = |n: u128, d: u128, e: i64| -> Option<bool> {
        // n < d * 2^e ?
        if e >= 0 {
            if bl(d) + e > 127 {
                return None;
            }
            Some(n < (d << e))
        } else {
            if bl(n) - e > 127 {
                return None;
            }
            Some((n << (-e)) < d)
        }
    };
    if lt(n, d, e2)? {
        e2 -= 1;
    }
    let s2 = if e2 < -126 { 149 } else { 23 - e2 };
    let (num, den) = if s2 >= 0 {
        if bl(n) + s2 > 127 {
            return None;
        }
        (n << s2, d)
    } else {
        if bl(d) - s2 > 127 {
            return None;
        }
        (n, d << (-s2))
    };
    let mut q = num / den;
    let r = num % den;
    if 2 * r > den || (2 * r == den && q % 2 == 1) {
        q += 1;
    }
    if e2 < -126 {
        return Some(sign | q as u32);
    }
    if q == 1 << 24 {
        q = 1 << 23;
        e2 += 1;
    }
    if e2 > 127 {
        return Some(sign | 0x7f80_0000);
    }
    Some(sign | (((e2 + 127) as u32) << 23) | ((q as u32) & 0x7f_ffff))
}

// ------------------------------------------------------------------------------------------------
// the oracle: expected answer for a well-formed file, by naive splitting

fn is_uws(c: char) -> bool {
    c.is_whitespace()
}

fn mat_dump(rows: usize, k: usize, cell: impl Fn(usize, usize) -> u64) -> String {
    let mut s = format!("{}", rows);
    for i in 0..rows {
        for j in 0..k {
            s.push_str(&format!(" {}", cell(i, j)));
        }
    }
    s
}

fn header_fields(line: &str) -> (String, String) {
    // ">id description"
    let body = &line[1..];
    let cut = body.find(|c: char| c.is_ascii_whitespace()).unwrap_or(body.len());
    let id = &body[..cut];
    let d = body[cut..].trim_matches(is_uws);
    (hex(id.as_bytes()), hex_opt(if d.is_empty() { None } else { Some(d.as_bytes()) }))
}

fn expected_jaspar(text: &str) -> Option<String> {
    let lines: Vec<&str> = text.split('\n').map(|l| l.strip_suffix('\r').unwrap_or(l)).collect();
    let mut out = Vec::new();
    let mut i = 0;
    while i < lines.len() {
        if lines[i].trim_matches(is_uws).is_empty() {
            i += 1;
            continue;
        }
        if !lines[i].starts_with('>') || i + 4 >= lines.len() {
            return None;
        }
        let (id, d) = header_fields(lines[i]);
        let mut cols: Vec<Vec<u64>> = Vec::new();
        for l in &lines[i + 1..i + 5] {
            let mut v = Vec::new();
            for t in l.split_ascii_whitespace() {
                let x: u64 = t.parse().ok()?;
                if x > u32::MAX as u64 {
                    return None;
                }
                v.push(x);
            }
            cols.push(v);
        }
        let n = cols[0].len();
        if cols.iter().any(|c| c.len() != n) {
            return None;
        }
        // lines are A, C, G, T; the column of a symbol is its rank in "ACTGN"
        let rank = |s: u8| DNA.iter().position(|&l| l == s).unwrap();
        let order = [rank(b'A'), rank(b'C'), rank(b'G'), rank(b'T')];
        let m = mat_dump(n, 5, |r, c| order.iter().position(|&o| o == c).map(|li| cols[li][r]).unwrap_or(0));
        out.push(format!("R {} {} {}", id, d, m));
        i += 5;
    }
    out.push("end".into());
    Some(out.join(" ; "))
}

fn expected_jaspar16(text: &str, abc: &[u8]) -> Option<String> {
    let lines: Vec<&str> = text.split('\n').map(|l| l.strip_suffix('\r').unwrap_or(l)).collect();
    let mut out = Vec::new();
    let mut i = 0;
    while i < lines.len() {
        if lines[i].trim_matches(is_uws).is_empty() {
            i += 1;
            continue;
        }
        if !lines[i].starts_with('>') {
            return None;
        }
        let (id, d) = header_fields(lines[i]);
        i += 1;
        let mut cols: Vec<(usize, Vec<u64>)> = Vec::new();
        while i < lines.len() && !lines[i].starts_with('>') && !lines[i].trim_matches(is_uws).is_empty() {
            let l = lines[i];
            let sym = abc.iter().position(|&x| x == l.as_bytes()[0])?;
            let inner = l[1..].trim_matches(is_uws).strip_prefix('[')?.strip_suffix(']')?;
            let mut v = Vec::new();
            for t in inner.split_ascii_whitespace() {
                let x: u64 = t.parse().ok()?;
                if x > u32::MAX as u64 {
                    return None;
                }
                v.push(x);
            }
            if cols.iter().any(|c| c.0 == sym) {
                return None;
            }
            cols.push((sym, v));
            i += 1;
        }
        if cols.is_empty() {
            return None;
        }
        let n = cols[0].1.len();
        if cols.iter().any(|c| c.1.len() != n) {
            return None;
        }
        let m = mat_dump(n, abc.len(), |r, c| cols.iter().find(|x| x.0 == c).map(|x| x.1[r]).unwrap_or(0));
        out.push(format!("R {} {} {}", id, d, m));
    }
    out.push("end".into());
    Some(out.join(" ; "))
}

fn f32_sum_ok(row: &[u32]) -> bool {
    // the reader accepts a frequency matrix only if every row sums to 1 within 0.01 (f32)
    let s: f32 = row.iter().map(|&b| f32::from_bits(b)).sum();
    (s - 1.0).abs() < 0.01
}

fn expected_uniprobe(text: &str, abc: &[u8]) -> Option<String> {
    let lines: Vec<&str> = text.split('\n').map(|l| l.strip_suffix('\r').unwrap_or(l)).collect();
    let mut out = Vec::new();
    let mut i = 0;
    let is_col = |l: &str| l.len() >= 2 && l.as_bytes()[1] == b':' && abc.contains(&l.as_bytes()[0]);
    while i < lines.len() {
        if lines[i].trim_matches(is_uws).is_empty() {
            i += 1;
            continue;
        }
        if is_col(lines[i]) {
            return None;
        }
        let id = lines[i].trim_matches(is_uws);
        i += 1;
        let mut cols: Vec<(usize, Vec<u32>)> = Vec::new();
        loop {
            while i < lines.len() && lines[i].trim_matches(is_uws).is_empty() {
                i += 1;
            }
            if i >= lines.len() || !is_col(lines[i]) {
                break;
            }
            let l = lines[i];
            let sym = abc.iter().position(|&x| x == l.as_bytes()[0])?;
            let mut v = Vec::new();
            let body = l[2..].strip_prefix('\t')?;
            for t in body.split('\t') {
                v.push(dec_to_f32_bits(t.as_bytes())?);
            }
            if cols.iter().any(|c| c.0 == sym) {
                return None;
            }
            cols.push((sym, v));
            i += 1;
        }
        if cols.is_empty() {
            return None;
        }
        let n = cols[0].1.len();
        if cols.iter().any(|c| c.1.len() != n) {
            return None;
        }
        let cell = |r: usize, c: usize| cols.iter().find(|x| x.0 == c).map(|x| x.1[r]).unwrap_or(0);
        for r in 0..n {
            let row: Vec<u32> = (0..abc.len()).map(|c| cell(r, c)).collect();
            if !f32_sum_ok(&row) {
                return None;
            }
        }
        out.push(format!("R {} {}", hex(id.as_bytes()), mat_dump(n, abc.len(), |r, c| cell(r, c) as u64)));
    }
    out.push("end".into());
    Some(out.join(" ; "))
}

fn expected_transfac(text: &str, abc: &[u8]) -> Option<String> {
    let lines: Vec<&str> = text.split('\n').collect();
    if lines.last() != Some(&"") {
        return None;
    }
    let lines = &lines[..lines.len() - 1];
    let mut out = Vec::new();
    let mut i = 0;
    // optional version block
    if !lines.is_empty() && lines[0].starts_with("VV") {
        while i < lines.len() && !lines[i].starts_with("//") {
            i += 1;
        }
        i += 1;
    }
    while i < lines.len() {
        let (mut id, mut ac, mut na, mut de) = (None, None, None, None);
        let mut data: Option<(Vec<usize>, Vec<Vec<u32>>)> = None;
        let mut closed = false;
        while i < lines.len() {
            let l = lines[i];
            if l.len() < 2 {
                return None;
            }
            let (tag, rest) = (&l[..2], &l[2..]);
            let field = || Some(rest.trim_matches(is_uws).as_bytes().to_vec());
            i += 1;
            match tag {
                "//" => {
                    closed = true;
                    break;
                }
                "ID" => id = field(),
                "AC" => ac = field(),
                "NA" => na = field(),
                "DE" => de = field(),
                "XX" | "BF" | "BS" | "CC" | "CO" | "DT" | "RN" | "RX" | "RA" | "RL" | "RT" | "BA" => {}
                "P0" | "PO" => {
                    let mut syms = Vec::new();
                    for t in rest.split_ascii_whitespace() {
                        if t.len() != 1 {
                            return None;
                        }
                        syms.push(abc.iter().position(|&x| x == t.as_bytes()[0])?);
                    }
                    let mut rows = Vec::new();
                    while i < lines.len() && lines[i].as_bytes().first().map_or(false, |b| b.is_ascii_digit()) {
                        let toks: Vec<&str> = lines[i].split_ascii_whitespace().collect();
                        if toks.len() < 1 + syms.len() {
                            return None;
                        }
                        let mut v = Vec::new();
                        for t in &toks[1..1 + syms.len()] {
                            v.push(dec_to_f32_bits(t.as_bytes())?);
                        }
                        rows.push(v);
                        i += 1;
                    }
                    if rows.is_empty() {
                        return None;
                    }
                    data = Some((syms, rows));
                }
                _ => return None,
            }
        }
        if !closed {
            return None;
        }
        let k = abc.len();
        let (d, c) = match &data {
            None => ("nodata".to_string(), "nocounts".to_string()),
            Some((syms, rows)) => {
                // a symbol listed twice: the later column wins (plain assignment in the reader)
                let cell = |r: usize, c: usize| syms.iter().rposition(|&s| s == c).map(|p| rows[r][p]).unwrap_or(0);
                let d = mat_dump(rows.len(), k, |r, c| cell(r, c) as u64);
                let mut integral = true;
                for r in 0..rows.len() {
                    for c in 0..k {
                        let x = f32::from_bits(cell(r, c));
                        if x.round() != x {
                            integral = false;
                        }
                    }
                }
                let c = if integral {
                    format!("counts {}", mat_dump(rows.len(), k, |r, c| (f32::from_bits(cell(r, c)).round() as u32) as u64))
                } else {
                    "nocounts".to_string()
                };
                (d, c)
            }
        };
        let f = |x: &Option<Vec<u8>>| hex_opt(x.as_deref());
        out.push(format!("R {} {} {} {} {} {}", f(&id), f(&ac), f(&na), f(&de), d, c));
    }
    out.push("end".into());
    Some(out.join(" ; "))
}

pub fn expected(fmt: &str, alpha: &str, data: &[u8]) -> Option<String> {
    let text = std::str::from_utf8(data).ok()?;
    let abc = letters(alpha);
    match fmt {
        "jaspar" => expected_jaspar(text),
        "jaspar16" => expected_jaspar16(text, abc),
        "uniprobe" => expected_uniprobe(text, abc),
        "transfac" => expected_transfac(text, abc),
        _ => None,
    }
}

// ------------------------------------------------------------------------------------------------
// alternative entry points (C14 and C15)

/// one case in two, chosen by a hash of the case line
pub fn alt_share(line: &str) -> bool {
    fnv_nats(line.bytes().map(|b| b as usize)) % 2 == 0
}

macro_rules! with_reader {
    ($fmt:expr, $alpha:expr, $rd:expr, $it:ident => $body:expr) => {
        match ($fmt, $alpha) {
            ("jaspar", _) => {
                let $it = lightmotif_io::jaspar::read($rd);
                $body
            }
            ("jaspar16", "dna") => {
                let $it = lightmotif_io::jaspar16::read::<_, Dna>($rd);
                $body
            }
            ("jaspar16", _) => {
                let $it = lightmotif_io::jaspar16::read::<_, Protein>($rd);
                $body
            }
            ("uniprobe", "dna") => {
                let $it = lightmotif_io::uniprobe::read::<_, Dna>($rd);
                $body
            }
            ("uniprobe", _) => {
                let $it = lightmotif_io::uniprobe::read::<_, Protein>($rd);
                $body
            }
            ("transfac", "dna") => {
                let $it = lightmotif_io::transfac::read::<_, Dna>($rd);
                $body
            }
            ("transfac", _) => {
                let $it = lightmotif_io::transfac::read::<_, Protein>($rd);
                $body
            }
            _ => panic!("bad format"),
        }
    };
}

/// one reference of a TRANSFAC record as a naive reading of its lines gives it:
/// (number, cross-reference, PubMed id, title, link)
type RefSpec = (u32, Option<String>, Option<String>, Option<String>, Option<String>);

/// per record of a well-formed TRANSFAC file (the dialect `gen_transfac` writes): its references
fn expected_refs(text: &str) -> Option<Vec<Vec<RefSpec>>> {
    let mut lines = text.split('\n').peekable();
    if text.starts_with("VV") {
        for l in lines.by_ref() {
            if l.starts_with("//") {
                break;
            }
        }
    }
    let mut out: Vec<Vec<RefSpec>> = Vec::new();
    let mut cur: Vec<RefSpec> = Vec::new();
    let mut open = false;
    for l in lines {
        if l.starts_with("//") {
            out.push(std::mem::take(&mut cur));
            open = false;
            continue;
        }
        if l.is_empty() {
            continue;
        }
        open = true;
        let body = l.get(2..)?;
        match l.get(..2)? {
            "RN" => {
                let b = body.trim_matches(is_uws);
                let close = b.find(']')?;
                let n: u32 = b.strip_prefix('[')?.get(..close - 1)?.parse().ok()?;
                let rest = &b[close + 1..];
                let xref = match rest.strip_prefix(';') {
                    Some(x) => Some(x[..x.find('.')?].trim_matches(is_uws).to_string()),
                    None => None,
                };
                cur.push((n, xref, None, None, None));
            }
            "RX" => {
                let b = body.trim_matches(is_uws).strip_prefix("PUBMED:")?.trim_start_matches(|c| c == ' ' || c == '\t');
                cur.last_mut()?.2 = Some(b[..b.find('.')?].to_string());
            }
            "RT" => cur.last_mut()?.3 = Some(body.trim_matches(is_uws).to_string()),
            "RL" => cur.last_mut()?.4 = Some(body.trim_matches(is_uws).to_string()),
            _ => {}
        }
    }
    if open {
        return None;
    }
    Some(out)
}

pub struct AltCtx {
    refs: Option<Vec<Vec<RefSpec>>>,
    salt: u64,
}

/// the accessors and conversions of one record against each other
pub trait RecordAlt {
    fn check(&self, index: usize, ctx: &AltCtx) -> Result<(), String>;
}

fn same_u32<A: Alphabet>(a: &CountMatrix<A>, b: &CountMatrix<A>) -> bool {
    dump_u32::<A>(a.matrix()) == dump_u32::<A>(b.matrix()) && a.sequence_count() == b.sequence_count() && a.len() == b.len()
}

fn same_f32<A: Alphabet>(a: &FrequencyMatrix<A>, b: &FrequencyMatrix<A>) -> bool {
    dump_f32::<A>(a.matrix()) == dump_f32::<A>(b.matrix()) && a.len() == b.len()
}

impl RecordAlt for lightmotif_io::jaspar::Record {
    fn check(&self, index: usize, _ctx: &AltCtx) -> Result<(), String> {
        let m: &CountMatrix<Dna> = self.matrix();
        let a: &CountMatrix<Dna> = self.as_ref();
        let c = self.clone();
        if !same_u32(a, m) || a != m {
            return Err(format!("record {}: as_ref() differs from matrix()", index));
        }
        if c.id() != self.id() || c.description() != self.description() || !same_u32(c.matrix(), m) {
            return Err(format!("record {}: clone() differs from the record", index));
        }
        let v: CountMatrix<Dna> = c.into();
        if !same_u32(&v, m) || &v != m {
            return Err(format!("record {}: CountMatrix::from(record) differs from matrix()", index));
        }
        Ok(())
    }
}

impl<A: Alphabet> RecordAlt for lightmotif_io::jaspar16::Record<A> {
    fn check(&self, index: usize, _ctx: &AltCtx) -> Result<(), String> {
        let m: &CountMatrix<A> = self.matrix();
        let a: &CountMatrix<A> = self.as_ref();
        let c = self.clone();
        if !same_u32(a, m) {
            return Err(format!("record {}: as_ref() differs from matrix()", index));
        }
        if c.id() != self.id() || c.description() != self.description() || !same_u32(c.matrix(), m) {
            return Err(format!("record {}: clone() differs from the record", index));
        }
        if !same_u32(&c.into_matrix(), m) {
            return Err(format!("record {}: into_matrix() differs from matrix()", index));
        }
        Ok(())
    }
}

impl<A: Alphabet> RecordAlt for lightmotif_io::uniprobe::Record<A> {
    fn check(&self, index: usize, _ctx: &AltCtx) -> Result<(), String> {
        let m: &FrequencyMatrix<A> = self.matrix();
        let a: &FrequencyMatrix<A> = self.as_ref();
        let c = self.clone();
        if !same_f32(a, m) {
            return Err(format!("record {}: as_ref() differs from matrix()", index));
        }
        if c.id() != self.id() || !same_f32(c.matrix(), m) {
            return Err(format!("record {}: clone() differs from the record", index));
        }
        if !same_f32(&c.into_matrix(), m) {
            return Err(format!("record {}: into_matrix() differs from matrix()", index));
        }
        Ok(())
    }
}

impl<A: Alphabet> RecordAlt for lightmotif_io::transfac::Record<A> {
    fn check(&self, index: usize, ctx: &AltCtx) -> Result<(), String> {
        let c = self.clone();
        if dump_transfac(&c) != dump_transfac(self) || c.references().len() != self.references().len() {
            return Err(format!("record {}: clone() differs from the record", index));
        }
        // ---- to_freq: with the pseudocount as f32 / array / Pseudocounts; against the count-matrix route
        let k = letters_of::<A>().len();
        let p: f32 = *[0.0f32, 0.5, 0.25, 1.0].get(((ctx.salt as usize) + index) % 4).unwrap();
        let pc = Pseudocounts::<A>::from(p);
        let arr = pc.counts().clone();
        let f = self.to_freq(p);
        let show = |f: &Option<FrequencyMatrix<A>>| f.as_ref().map(|m| dump_f32::<A>(m.matrix()));
        if show(&self.to_freq(pc.clone())) != show(&f) || show(&self.to_freq(arr)) != show(&f) || show(&c.to_freq(p)) != show(&f) {
            return Err(format!("record {}: to_freq({}) differs between f32 / array / Pseudocounts / clone", index, p));
        }
        match self.data() {
            None => {
                if f.is_some() || self.to_counts().is_some() {
                    return Err(format!("record {}: to_freq / to_counts of a record without matrix is not None", index));
                }
            }
            Some(d) => {
                if let Some(m) = &f {
                    if m.len() != d.rows() {
                        return Err(format!("record {}: to_freq has {} rows, data() has {}", index, m.len(), d.rows()));
                    }
                }
                // count data that f32 holds exactly: the same frequencies as CountMatrix::to_freq
                let exact = (0..d.rows()).all(|i| (0..k).all(|j| d[i][j] >= 0.0 && d[i][j] <= 16_777_216.0 && d[i][j].fract() == 0.0));
                match self.to_counts() {
                    Some(cm) if exact => {
                        let g = cm.to_freq(pc.clone());
                        let want = FrequencyMatrix::<A>::new(g.matrix().clone()).ok();
                        if show(&want) != show(&f) {
                            return Err(format!("record {}: to_freq({}) differs from to_counts().to_freq({})", index, p, p));
                        }
                    }
                    None if exact => return Err(format!("record {}: to_counts() is None on integral data", index)),
                    _ => {}
                }
            }
        }
        // ---- references against a naive reading of the R* lines (well-formed files only)
        if let Some(all) = &ctx.refs {
            let want = all.get(index).ok_or_else(|| format!("record {}: no such record in the text", index))?;
            let got: Vec<RefSpec> = self
                .references()
                .iter()
                .map(|r| (r.number().local(), r.number().xref().map(String::from), r.pmid().map(String::from), r.title().map(String::from), r.link().map(String::from)))
                .collect();
            if &got != want {
                return Err(format!("record {}: references() = {:?} but the text has {:?}", index, got, want));
            }
        }
        Ok(())
    }
}

/// the public constructors of the TRANSFAC reference types
fn reference_types() -> Result<(), String> {
    use lightmotif_io::transfac::Reference;
    use lightmotif_io::transfac::ReferenceNumber;
    let a = ReferenceNumber::new(7);
    let b = ReferenceNumber::with_xref(8, Some("RE1".to_string()));
    let c = ReferenceNumber::with_xref(9, "RE2".to_string());
    let d = ReferenceNumber::with_xref(10, None);
    if (a.local(), a.xref()) != (7, None) || (b.local(), b.xref()) != (8, Some("RE1")) || (c.local(), c.xref()) != (9, Some("RE2")) || (d.local(), d.xref()) != (10, None) {
        return Err("ReferenceNumber::new / with_xref: local() / xref() are not the values given".into());
    }
    let r = Reference::new(b.clone());
    if r.number().local() != 8 || r.number().xref() != Some("RE1") || r.title().is_some() || r.link().is_some() || r.pmid().is_some() || r.clone().number().local() != 8 {
        return Err("Reference::new: number() is not the one given or a field is set".into());
    }
    Ok(())
}

fn first_diff(name: &str, got: &str, want: &str) -> String {
    let (a, b): (Vec<&str>, Vec<&str>) = (got.split(" ; ").collect(), want.split(" ; ").collect());
    let i = a.iter().zip(b.iter()).position(|(x, y)| x != y).unwrap_or(a.len().min(b.len()));
    let clip = |s: Option<&&str>| s.map(|x| x.chars().take(120).collect::<String>()).unwrap_or_else(|| "<nothing>".into());
    format!("{}: call {} answers [{}] but the main route (read + next) answered [{}]", name, i, clip(a.get(i)), clip(b.get(i)))
}

/// `ans` = the answer of the main route (`drive` with the same `detail` / `extra`); `any_chunking`:
/// the file is well-formed (C14), so the answer may not depend on the `BufRead` either
pub fn alt(c: &Case, ans: &str, detail: bool, extra: usize, any_chunking: bool) -> Result<(), String> {
    let len = c.data.len();
    let (fmt, alpha) = (c.fmt.as_str(), c.alpha.as_str());
    if ans.contains("panic") || ans.contains("hang") || ans == "bad-format" {
        return Ok(());
    }
    reference_types()?;
    for (name, route) in [("Reader::new", Route::New), ("Reader::new consumed through Iterator adaptors", Route::Adapted)] {
        let a = drive_on(fmt, alpha, || ChunkedReader::new(&c.data, &c.sched), route, detail, extra, len);
        if a != ans {
            return Err(first_diff(name, &a, ans));
        }
    }
    if any_chunking {
        let cap = 1 + len % 61;
        let a = drive_on(fmt, alpha, || std::io::Cursor::new(c.data.clone()), Route::Free, detail, extra, len);
        if a != ans {
            return Err(first_diff("read over io::Cursor", &a, ans));
        }
        let a = drive_on(fmt, alpha, || &c.data[..], Route::New, detail, extra, len);
        if a != ans {
            return Err(first_diff("Reader::new over &[u8]", &a, ans));
        }
        if len <= 20_000 {
            let a = drive_on(fmt, alpha, || std::io::BufReader::with_capacity(cap, &c.data[..]), Route::Adapted, detail, extra, len);
            if a != ans {
                return Err(first_diff(&format!("Reader::new over BufReader::with_capacity({}) through Iterator adaptors", cap), &a, ans));
            }
        }
    }
    // the outcome classes of the main route: leading records, then the first thing that is not a record
    let toks: Vec<&str> = ans.split(" ; ").collect();
    let nrec = toks.iter().take_while(|t| t.starts_with("R ") || **t == "rec").count();
    let stop = toks.get(nrec).copied().unwrap_or("end");
    // collect::<Result<Vec<_>, _>>(): the records, or the first error
    let want = if stop == "end" { format!("ok {}", nrec) } else { stop.to_string() };
    let got = with_reader!(fmt, alpha, ChunkedReader::new(&c.data, &c.sched), it => match guarded(|| it.collect::<Result<Vec<_>, Error>>()) {
        Err(()) => "panic".to_string(),
        Ok(Ok(v)) => format!("ok {}", v.len()),
        Ok(Err(e)) => kind(&e).to_string(),
    });
    if got != want {
        return Err(format!("collect::<Result<Vec<_>, _>>() gives {} but the main route gives {} records and then {}", got, nrec, stop));
    }
    // size_hint() before and after the first item brackets what remains (when the input ends)
    if stop == "end" {
        let r = with_reader!(fmt, alpha, ChunkedReader::new(&c.data, &c.sched), it => guarded(|| {
            let mut it = it;
            let h0 = it.size_hint();
            let first = it.next().is_some() as usize;
            let h1 = it.size_hint();
            (h0, first, h1)
        }));
        match r {
            Err(()) => return Err("size_hint() / next panicked".into()),
            Ok((h0, first, h1)) => {
                let ok = |h: (usize, Option<usize>), n: usize| h.0 <= n && h.1.map_or(true, |u| u >= n);
                if !ok(h0, nrec) || !ok(h1, nrec - first.min(nrec)) {
                    return Err(format!("size_hint() = {:?}, after one item {:?}, but the reader yields {} records", h0, h1, nrec));
                }
            }
        }
    }
    // every record: accessors and conversions
    let ctx = AltCtx {
        refs: if any_chunking && fmt == "transfac" { std::str::from_utf8(&c.data).ok().and_then(expected_refs) } else { None },
        salt: len as u64,
    };
    let r = with_reader!(fmt, alpha, ChunkedReader::new(&c.data, &c.sched), it => guarded(|| {
        for (i, item) in it.take(nrec).enumerate() {
            match item {
                Ok(rec) => RecordAlt::check(&rec, i, &ctx)?,
                Err(_) => return Err(format!("item {} is an error on the second reading", i)),
            }
        }
        Ok(())
    }));
    match r {
        Err(()) => Err("a record accessor / conversion panicked".into()),
        Ok(r) => r,
    }
}

/// add the alternative-entry-point clause to the main verdict
pub fn with_alt(line: &str, c: &Case, ans: &str, o: Option<Result<(), String>>, detail: bool, extra: usize, any_chunking: bool) -> (Option<Result<(), String>>, bool) {
    if matches!(o, Some(Err(_))) || !alt_share(line) {
        return (o, false);
    }
    match guarded(|| alt(c, ans, detail, extra, any_chunking)) {
        Ok(Ok(())) => (o, true),
        Ok(Err(e)) => (Some(Err(format!("alternative entry point: {}", e))), true),
        Err(()) => (Some(Err("alternative entry point: panic".into())), true),
    }
}

// ------------------------------------------------------------------------------------------------
// generators of well-formed files

fn gen_word(rng: &mut Rng, min: usize, max: usize, utf8: bool) -> String {
    const CH: &[u8] = b"ABCDEFGHIJKLMNOPQRSTUVWXYZabcdefghijklmnopqrstuvwxyz0123456789._-$:;()/,+*#";
    let n = rng.range(min, max);
    let mut s = String::new();
    for _ in 0..n {
        if utf8 && rng.chance(1, 12) {
            s.push(*rng.pick(&['é', 'ß', 'λ', '猫', '𝛼', '\u{00a0}', '\u{2003}']));
        } else {
            s.push(*rng.pick(CH) as char);
        }
    }
    s
}

fn gen_text(rng: &mut Rng, words: usize, utf8: bool) -> String {
    // trimmed, non-empty, no '>' and no line feed
    let mut s = String::new();
    for w in 0..words.max(1) {
        if w > 0 {
            s.push_str(*rng.pick(&[" ", "  ", "\t", " ; "]));
        }
        let mut word = gen_word(rng, 1, 8, utf8);
        // the ends of the text must not be Unicode whitespace
        while word.starts_with(is_uws) || word.ends_with(is_uws) {
            word = gen_word(rng, 1, 8, false);
        }
        s.push_str(&word);
    }
    s
}

fn gen_count(rng: &mut Rng) -> u32 {
    match rng.below(10) {
        0 => u32::MAX,
        1 => u32::MAX - rng.below(1000) as u32,
        2 => 0,
        3 | 4 => rng.below(1 << 20) as u32,
        _ => rng.below(100) as u32,
    }
}

fn gap(rng: &mut Rng) -> &'static str {
    *rng.pick(&[" ", " ", " ", "  ", "\t", "     ", " \t "])
}

fn eol(rng: &mut Rng, crlf: bool) -> &'static str {
    if crlf && rng.chance(1, 2) {
        "\r\n"
    } else {
        "\n"
    }
}

fn gen_header(rng: &mut Rng, out: &mut String, utf8: bool, crlf: bool) {
    out.push('>');
    let mut id = gen_word(rng, 0, 10, utf8);
    // an id has no ASCII whitespace (the Unicode spaces of gen_word are fine) and no '>'
    id.retain(|c| !c.is_ascii_whitespace());
    out.push_str(&id);
    if rng.chance(2, 3) {
        out.push_str(*rng.pick(&[" ", "\t", "  "]));
        let w = rng.range(1, 4);
        out.push_str(&gen_text(rng, w, utf8));
        if rng.chance(1, 6) {
            out.push(' ');
        }
    } else if rng.chance(1, 4) {
        out.push(' ');
    }
    out.push_str(eol(rng, crlf));
}

fn gen_widths(rng: &mut Rng, big: bool) -> usize {
    if big {
        rng.range(1, 40)
    } else {
        match rng.below(24) {
            0 | 1 | 2 => rng.range(1, 40),
            // three-digit position labels / long rows: widths around and above 100
            3 => rng.range(95, 130),
            _ => rng.range(1, 8),
        }
    }
}

pub fn gen_jaspar(rng: &mut Rng, records: usize, utf8: bool) -> Vec<u8> {
    let mut s = String::new();
    let crlf = rng.chance(1, 4);
    if rng.chance(1, 6) {
        s.push_str(*rng.pick(&["\n", " \n", "\r\n\n"]));
    }
    for _ in 0..records {
        gen_header(rng, &mut s, utf8, crlf);
        let w = if rng.chance(1, 40) { 0 } else { gen_widths(rng, false) };
        for _ in 0..4 {
            if w > 0 && rng.chance(1, 3) {
                s.push_str(gap(rng));
            }
            for j in 0..w {
                if j > 0 {
                    s.push_str(gap(rng));
                }
                s.push_str(&gen_count(rng).to_string());
            }
            s.push_str(eol(rng, crlf));
        }
    }
    if rng.chance(1, 5) {
        s.push_str(*rng.pick(&["\n", "  \n", "\n\n", "\u{2003}\n"]));
    }
    s.into_bytes()
}

fn shuffled_subset(rng: &mut Rng, n: usize, at_least: usize) -> Vec<usize> {
    let mut v: Vec<usize> = (0..n).collect();
    for i in (1..n).rev() {
        v.swap(i, rng.below(i + 1));
    }
    let keep = if rng.chance(2, 3) { n } else { rng.range(at_least.min(n), n) };
    v.truncate(keep.max(1));
    v
}

pub fn gen_jaspar16(rng: &mut Rng, records: usize, abc: &[u8], utf8: bool) -> Vec<u8> {
    let mut s = String::new();
    let crlf = rng.chance(1, 4);
    for _ in 0..records {
        gen_header(rng, &mut s, utf8, crlf);
        let w = gen_widths(rng, false);
        let natural = rng.chance(1, 2);
        let syms = if natural && abc.len() == 5 { vec![0, 1, 3, 2] } else { shuffled_subset(rng, abc.len(), 1) };
        for &sy in &syms {
            s.push(abc[sy] as char);
            s.push_str(gap(rng));
            s.push('[');
            if rng.chance(2, 3) {
                s.push_str(gap(rng));
            }
            for j in 0..w {
                if j > 0 {
                    s.push_str(gap(rng));
                }
                s.push_str(&gen_count(rng).to_string());
            }
            if rng.chance(2, 3) {
                s.push_str(gap(rng));
            }
            s.push(']');
            if rng.chance(1, 5) {
                s.push_str(gap(rng));
            }
            s.push_str(eol(rng, crlf));
        }
    }
    if rng.chance(1, 5) {
        s.push_str(*rng.pick(&["\n", "  \n", "\n\n"]));
    }
    s.into_bytes()
}

fn gen_freq_row(rng: &mut Rng, k: usize) -> Vec<String> {
    // k non-negative decimals that sum to exactly 1 (as decimals): integers summing to 10^d / 10^d
    let d = *rng.pick(&[1u32, 2, 3, 3, 6]);
    let total = 10u64.pow(d);
    let mut cuts: Vec<u64> = (0..k - 1).map(|_| rng.next() % (total + 1)).collect();
    cuts.sort();
    let mut parts = Vec::new();
    let mut prev = 0;
    for c in cuts {
        parts.push(c - prev);
        prev = c;
    }
    parts.push(total - prev);
    parts
        .iter()
        .map(|&p| match rng.below(6) {
            0 if p % 10 == 0 && d > 1 => format!("{}e-{}", p / 10, d - 1),
            1 => format!("{}E-{}", p, d),
            2 if p < total => format!(".{:0w$}", p, w = d as usize),
            _ => format!("{}.{:0w$}", p / total, p % total, w = d as usize),
        })
        .collect()
}

pub fn gen_uniprobe(rng: &mut Rng, records: usize, abc: &[u8], utf8: bool) -> Vec<u8> {
    let mut s = String::new();
    let crlf = rng.chance(1, 4);
    if rng.chance(1, 6) {
        s.push_str("\n \n");
    }
    for r in 0..records {
        // an id line that cannot be taken for a matrix line
        let w = rng.range(1, 3);
        let id = format!("M{}_{}", r, gen_text(rng, w, utf8));
        if rng.chance(1, 8) {
            s.push(' ');
        }
        s.push_str(&id);
        if rng.chance(1, 8) {
            s.push_str("  ");
        }
        s.push_str(eol(rng, crlf));
        let w = gen_widths(rng, false);
        let syms = if rng.chance(1, 2) && abc.len() == 5 { vec![0, 1, 3, 2] } else { shuffled_subset(rng, abc.len(), 2) };
        let rows: Vec<Vec<String>> = (0..w).map(|_| gen_freq_row(rng, syms.len())).collect();
        for (ci, &sy) in syms.iter().enumerate() {
            s.push(abc[sy] as char);
            s.push(':');
            for row in &rows {
                s.push('\t');
                s.push_str(&row[ci]);
            }
            s.push_str(eol(rng, crlf));
            if rng.chance(1, 30) {
                s.push_str(eol(rng, crlf));
            }
        }
        if rng.chance(3, 4) {
            s.push_str(*rng.pick(&["\n", "\n", "\n\n", " \t\n"]));
        }
    }
    s.into_bytes()
}

fn gen_transfac_value(rng: &mut Rng) -> String {
    match rng.below(8) {
        0 => format!("{}.0", rng.below(100)),
        1 => format!("{}.{}", rng.below(50), *rng.pick(&["5", "25", "125", "75"])),
        2 => format!("{}", rng.below(100_000)),
        3 => format!("0.{:03}", rng.below(1000)),
        4 => format!("{}e{}", rng.range(1, 9), rng.below(4)),
        _ => format!("{}", rng.below(30)),
    }
}

pub fn gen_transfac(rng: &mut Rng, records: usize, abc: &[u8], utf8: bool) -> Vec<u8> {
    let mut s = String::new();
    if rng.chance(1, 3) {
        s.push_str("VV  TRANSFAC MATRIX TABLE, Release 9.2 - licensed - 2005-06-30, (C) Biobase GmbH\nXX\n//\n");
    }
    let sep = |rng: &mut Rng| *rng.pick(&["  ", " ", "\t", "   "]);
    for r in 0..records {
        let mut xx = |rng: &mut Rng, s: &mut String| {
            if rng.chance(1, 2) {
                s.push_str("XX\n");
            }
        };
        if rng.chance(3, 4) {
            s.push_str(&format!("AC{}M{:05}\n", sep(rng), r));
            xx(rng, &mut s);
        }
        if rng.chance(3, 4) {
            s.push_str(&format!("ID{}{}\n", sep(rng), gen_text(rng, 1, utf8)));
            xx(rng, &mut s);
        }
        if rng.chance(1, 3) {
            s.push_str("DT  19.10.1992 (created); ewi.\nDT  16.10.1995 (updated); ewi.\n");
            s.push_str("CO  Copyright (C), Biobase GmbH.\n");
            xx(rng, &mut s);
        }
        if rng.chance(1, 2) {
            s.push_str(&format!("NA{}{}\n", sep(rng), gen_text(rng, 1, utf8)));
            xx(rng, &mut s);
        }
        if rng.chance(1, 2) {
            let w = rng.range(1, 5);
            s.push_str(&format!("DE{}{}\n", sep(rng), gen_text(rng, w, utf8)));
            xx(rng, &mut s);
        }
        if rng.chance(1, 3) {
            s.push_str("BF  T00036; AP-4; Species: human, Homo sapiens.\n");
            xx(rng, &mut s);
        }
        if rng.chance(1, 8) {
            // a record without matrix
        } else {
            let w = gen_widths(rng, false);
            let syms = if rng.chance(1, 2) && abc.len() == 5 { vec![0, 1, 3, 2] } else { shuffled_subset(rng, abc.len(), 1) };
            s.push_str(if rng.chance(1, 2) { "P0" } else { "PO" });
            for &sy in &syms {
                s.push_str(sep(rng));
                s.push(abc[sy] as char);
            }
            s.push('\n');
            let floats = rng.chance(1, 3);
            let tail = rng.chance(1, 2);
            for i in 0..w {
                s.push_str(&format!("{:02}", i + 1));
                for _ in &syms {
                    s.push_str(sep(rng));
                    if floats {
                        s.push_str(&gen_transfac_value(rng));
                    } else {
                        s.push_str(&format!("{}", rng.below(60)));
                    }
                }
                if tail {
                    s.push_str(sep(rng));
                    s.push(*rng.pick(&['A', 'C', 'G', 'T', 'N', 'W', 'S', 'y', 'r']));
                }
                s.push('\n');
            }
            xx(rng, &mut s);
        }
        if rng.chance(1, 4) {
            s.push_str("BS  TCAGCTGC; R05109; 1; 8;; p.\nCC  a comment\nCC  continued\n");
            s.push_str("RN  [1]; RE0000531.\nRX  PUBMED: 2123466.\nRA  Hu Y.-F., Luscher B.\nRT  Transcription factor AP-4.\nRL  Genes Dev. 4:1741-1752 (1990).\n");
            if rng.chance(1, 2) {
                s.push_str("RN  [2]\nRT  Another title\n");
            }
            xx(rng, &mut s);
        }
        s.push_str("//\n");
    }
    s.into_bytes()
}

pub fn gen_file(rng: &mut Rng, fmt: &str, alpha: &str, records: usize, utf8: bool) -> Vec<u8> {
    let abc = letters(alpha);
    match fmt {
        "jaspar" => gen_jaspar(rng, records, utf8),
        "jaspar16" => gen_jaspar16(rng, records, abc, utf8),
        "uniprobe" => gen_uniprobe(rng, records, abc, utf8),
        _ => gen_transfac(rng, records, abc, utf8),
    }
}

/// a chunk schedule for a stream of `len` bytes
pub fn gen_sched(rng: &mut Rng, len: usize) -> Vec<usize> {
    let small = len <= 6000;
    match rng.below(6) {
        // everything at once
        0 => vec![],
        // a BufReader of capacity `cap` (1..len)
        1 | 2 => {
            let lo = if small { 1 } else { len / 3000 + 1 };
            let cap = if rng.chance(1, 3) { lo } else { rng.range(lo, len.max(lo)) };
            vec![cap; len / cap + 2]
        }
        // random chunk sizes
        _ => {
            let lo = if small { 1 } else { len / 3000 + 1 };
            let hi = *rng.pick(&[3usize, 17, 100, 1000, 5000]);
            let hi = hi.max(lo);
            let mut v = Vec::new();
            let mut total = 0;
            while total < len + 4 && v.len() < 8000 {
                let c = rng.range(lo, hi);
                v.push(c);
                total += c;
            }
            v
        }
    }
}

pub fn alphas(fmt: &str) -> &'static [&'static str] {
    if fmt == "jaspar" {
        &["dna"]
    } else {
        &["dna", "protein"]
    }
}

fn bundled() -> Vec<(&'static str, &'static str, Vec<u8>)> {
    let repo = std::env::var("LMV_REPO").unwrap_or_else(|_| "/repo".into());
    let mut v = Vec::new();
    for (fmt, rel) in [
        ("transfac", "lightmotif-io/tests/M00005.transfac"),
        ("transfac", "lightmotif-io/tests/MA0001.2.transfac"),
        ("transfac", "lightmotif-io/tests/MX000001.transfac"),
        ("jaspar16", "lightmotif-io/tests/MA0001.3.pfm"),
        ("jaspar16", "lightmotif-io/tests/MA0017.3.pfm"),
        ("uniprobe", "lightmotif-io/tests/Cha4.uniprobe"),
        ("uniprobe", "lightmotif-io/tests/Gal4.uniprobe"),
        ("uniprobe", "lightmotif-io/tests/demo.uniprobe"),
        ("transfac", "lightmotif-io/benches/prodoric.transfac"),
        ("jaspar16", "lightmotif-io/benches/JASPAR2024.pwm"),
    ] {
        if let Ok(b) = std::fs::read(format!("{}/{}", repo, rel)) {
            v.push((fmt, "dna", b));
        }
    }
    v
}

pub fn generate(cfg: &Cfg) -> Vec<String> {
    let mut rng = Rng::new(cfg.seed ^ 0xC14);
    let mut cases = Vec::new();
    // bundled files, each under three chunkings
    for (fmt, alpha, data) in bundled() {
        if !FORMATS.contains(&fmt) {
            continue;
        }
        let n = if data.len() > 100_000 && !cfg.thorough { 1 } else { 3 };
        for _ in 0..n {
            let sched = gen_sched(&mut rng, data.len());
            cases.push(case_line("c14", fmt, alpha, &sched, &data));
        }
    }
    let per = (if cfg.thorough { 1500 } else { 100 }) * cfg.boost;
    for &fmt in FORMATS {
        for &alpha in alphas(fmt) {
            for k in 0..per {
                // record counts: mostly small, a tail up to 400 (buffer compaction many times over)
                let records = match k % 25 {
                    0 => rng.range(100, 400),
                    1 | 2 => rng.range(20, 100),
                    _ => rng.range(1, 12),
                };
                let data = gen_file(&mut rng, fmt, alpha, records, k % 3 == 0);
                let sched = gen_sched(&mut rng, data.len());
                cases.push(case_line("c14", fmt, alpha, &sched, &data));
            }
        }
    }
    cases
}

pub fn exec(line: &str) -> (String, Option<Result<(), String>>, bool) {
    let c = parse_case(line);
    let ans = drive(&c.fmt, &c.alpha, &c.sched, &c.data, true, 0);
    let want = expected(&c.fmt, &c.alpha, &c.data);
    let records = ans.matches("R ").count();
    let min_chunk = c.sched.iter().copied().min().unwrap_or(usize::MAX);
    let nontrivial = records >= 2 && min_chunk < c.data.len() / records.max(1);
    let o = match want {
        None => None,
        Some(w) => Some(if w == ans {
            Ok(())
        } else {
            // first call whose answer differs
            let (a, b): (Vec<&str>, Vec<&str>) = (ans.split(" ; ").collect(), w.split(" ; ").collect());
            let i = a.iter().zip(b.iter()).position(|(x, y)| x != y).unwrap_or(a.len().min(b.len()));
            let clip = |s: Option<&&str>| s.map(|x| x.chars().take(160).collect::<String>()).unwrap_or_else(|| "<nothing>".into());
            Err(format!("call {}: got [{}] expected [{}]", i, clip(a.get(i)), clip(b.get(i))))
        }),
    };
    // the alternative entry points: only where the file is well-formed by the oracle's reading (then the
    // answer may depend neither on the chunking nor on the BufRead)
    let wellformed = matches!(o, Some(Ok(())));
    let (o, alt_run) = if wellformed { with_alt(line, &c, &ans, o, true, 0, true) } else { (o, false) };
    ALT_RUN.store(alt_run, std::sync::atomic::Ordering::Relaxed);
    (ans, o, nontrivial)
}

/// whether the last `exec` drove the alternative entry points (for the stats)
pub static ALT_RUN: std::sync::atomic::AtomicBool = std::sync::atomic::AtomicBool::new(false);

pub fn run(cfg: &Cfg) {
    let cases = crate::replay_cases(cfg).unwrap_or_else(|| generate(cfg));
    let mut out = Out::new(&cfg.out);
    for c in &cases {
        let (ans, o, nt) = exec(c);
        let t: Vec<&str> = c.splitn(4, ' ').collect();
        out.stat(&format!("{}/{}", t[1], t[2]));
        let records = ans.matches("R ").count();
        out.stat(match records {
            0 => "records/0",
            1 => "records/1",
            2..=19 => "records/2-19",
            20..=99 => "records/20-99",
            _ => "records/100+",
        });
        out.stat(if o.is_none() { "oracle/not-applicable" } else { "oracle/applied" });
        if ALT_RUN.load(std::sync::atomic::Ordering::Relaxed) {
            out.stat("alternative-entry-points");
        }
        if ans.contains("panic") {
            out.panics += 1;
        }
        out.stat(if ans.ends_with("end") { "outcome/end" } else if ans.contains("err") { "outcome/err" } else { "outcome/other" });
        out.case(c, &ans, o, nt);
    }
    out.finish(&cfg.out);
}
