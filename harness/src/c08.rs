//! C08 — 8-bit discretised scores never under-estimate the real score.
//!
//! case:   c08 <dev|release> <backend> <K> <M> <K·M f32 bit patterns, row-major> <W> <L> <L symbols> <nq> <nq f32 bit patterns>
//!         backend: generic | avx2 | disp-generic | disp-sse2 | disp-avx2   (C = 32; K = 5 DNA, K = 21 protein, protein only generic)
//! answer: dm <hash of cells> [cells] | un <bits of unscale 0 1 2 127 255> | sc <scale q …>
//!         | score <rows> <max_index> <hash of cells> | pos <hash of DiscreteMatrix::score_position(i), i ≤ L−M>
//!         (`score panic` / `pos panic` where that part panics, `panic-discrete` when to_discrete does)
//!
//! oracle (from the property text): for every position i in [0, L−M], with `real` = the f32 sum of
//! the matrix entries of the window in the order of `score_position`, the byte computed by the
//! backend at the cell of i and the byte computed by `DiscreteMatrix::score_position` are both
//! `>= dm.scale(real)`; and for every query threshold t, `real >= t` implies `byte >= dm.scale(t)`.
//! A panic while computing 8-bit scores of an in-contract input is a failure too.
use crate::out::*;
use crate::rng::Rng;
use crate::Cfg;
use lightmotif::abc::Alphabet;
use lightmotif::abc::Background;
use lightmotif::abc::Dna;
use lightmotif::abc::Protein;
use lightmotif::dense::DenseMatrix;
use lightmotif::num::U32;
use lightmotif::pli::verif;
use lightmotif::pli::Pipeline;
use lightmotif::pli::Score;
use lightmotif::pli::Stripe;
use lightmotif::pwm::DiscreteMatrix;
use lightmotif::pwm::ScoringMatrix;
use lightmotif::scores::StripedScores;
use lightmotif::seq::StripedSequence;

pub fn profile() -> &'static str {
    if cfg!(debug_assertions) {
        "dev"
    } else {
        "release"
    }
}

pub fn build_pssm<A: Alphabet>(m: usize, vals: &[f32]) -> ScoringMatrix<A> {
    let k = A::symbols().len();
    let mut data = DenseMatrix::<f32, A::K>::new(m);
    for i in 0..m {
        for j in 0..k {
            data[i][j] = vals[i * k + j];
        }
    }
    ScoringMatrix::new(Background::uniform(), data)
}

pub fn build_seq<A: Alphabet>(syms: &[usize], w: usize) -> StripedSequence<A, U32> {
    let v: Vec<A::Symbol> = syms.iter().map(|&k| A::symbols()[k]).collect();
    let mut st: StripedSequence<A, U32> = Pipeline::<A, _>::generic().stripe(&v);
    st.configure_wrap(w);
    st
}

trait ScoreWith<A: Alphabet> {
    fn score(backend: &str, dm: &DiscreteMatrix<A>, st: &StripedSequence<A, U32>) -> StripedScores<u8, U32>;
}

struct OnlyGeneric;
impl<A: Alphabet> ScoreWith<A> for OnlyGeneric {
    fn score(_b: &str, dm: &DiscreteMatrix<A>, st: &StripedSequence<A, U32>) -> StripedScores<u8, U32> {
        Score::<u8, A, U32>::score(&Pipeline::<A, _>::generic(), dm, st)
    }
}

struct AllArms;
impl ScoreWith<Dna> for AllArms {
    fn score(b: &str, dm: &DiscreteMatrix<Dna>, st: &StripedSequence<Dna, U32>) -> StripedScores<u8, U32> {
        match b {
            "generic" => Score::<u8, Dna, U32>::score(&Pipeline::<Dna, _>::generic(), dm, st),
            "avx2" => Score::<u8, Dna, U32>::score(&Pipeline::<Dna, _>::avx2().unwrap(), dm, st),
            _ => {
                assert!(verif::force_backend(b.strip_prefix("disp-").unwrap()));
                let r = guarded(|| Score::<u8, Dna, U32>::score(&Pipeline::<Dna, _>::dispatch(), dm, st));
                verif::clear();
                match r {
                    Ok(s) => s,
                    Err(()) => panic!("score panicked"),
                }
            }
        }
    }
}

fn run_case<A: Alphabet, S: ScoreWith<A>>(backend: &str, m: usize, vals: &[f32], w: usize, syms: &[usize], queries: &[f32]) -> (String, Option<Result<(), String>>, bool) {
    let k = A::symbols().len();
    let pssm = build_pssm::<A>(m, vals);
    let dm = match guarded(|| pssm.to_discrete()) {
        Ok(d) => d,
        Err(()) => return ("panic-discrete".into(), None, false),
    };
    let st = build_seq::<A>(syms, w);
    let mut cells = Vec::new();
    for i in 0..m {
        for j in 0..k {
            cells.push(dm.matrix()[i][j] as usize);
        }
    }
    let dump = if cells.len() <= 256 { format!(" [{}]", join(cells.iter())) } else { String::new() };
    let un: Vec<u32> = [0u8, 1, 2, 127, 255].iter().map(|&b| dm.unscale(b).to_bits()).collect();
    let sc: Vec<u8> = queries.iter().map(|&q| dm.scale(q)).collect();
    let scores = guarded(|| S::score(backend, &dm, &st));
    let score_s = match &scores {
        Err(()) => "panic".to_string(),
        Ok(s) => {
            let mut v = Vec::new();
            for r in 0..s.matrix().rows() {
                for c in 0..32 {
                    v.push(s.matrix()[r][c] as usize);
                }
            }
            format!("{} {} {}", s.matrix().rows(), s.max_index(), fnv_nats(v))
        }
    };
    let l = syms.len();
    let npos = (l + 1).saturating_sub(m);
    let pos: Result<Vec<u8>, ()> = guarded(|| (0..npos).map(|i| dm.score_position(&st, i)).collect());
    let pos_s = match &pos {
        Err(()) => "panic".to_string(),
        Ok(v) => format!("{}", fnv_nats(v.iter().map(|&x| x as usize))),
    };
    let answer = format!("dm {}{} | un {} | sc {} | score {} | pos {}", fnv_nats(cells.iter().cloned()), dump, join(un.iter()), join(sc.iter()), score_s, pos_s);

    // ---- oracle
    let finite = (0..m).all(|i| (0..k - 1).all(|j| vals[i * k + j].is_finite()));
    let mut nontrivial = false;
    let mut verdict: Result<(), String> = Ok(());
    let fail = |v: &mut Result<(), String>, e: String| {
        if v.is_ok() {
            *v = Err(e);
        }
    };
    if finite && w + 1 >= m {
        if scores.is_err() {
            fail(&mut verdict, format!("backend {} panics while computing the 8-bit scores", backend));
        }
        if pos.is_err() {
            fail(&mut verdict, "DiscreteMatrix::score_position panics".into());
        }
        let r = (l + 31) / 32;
        for i in 0..npos {
            // the real score: the same sum in the same order as `score_position`
            let mut real = 0.0f32;
            let mut bytes = 0u32;
            let mut wild = false;
            for j in 0..m {
                real += vals[j * k + syms[i + j]];
                bytes += cells[j * k + syms[i + j]] as u32;
                wild |= syms[i + j] == k - 1;
            }
            if bytes > 255 || wild {
                nontrivial = true;
            }
            let image = dm.scale(real);
            if let Ok(s) = &scores {
                if s.matrix().rows() != r {
                    fail(&mut verdict, format!("score matrix has {} rows, expected {}", s.matrix().rows(), r));
                    break;
                }
                let b = s.matrix()[i % r][i / r];
                if b < image {
                    fail(&mut verdict, format!("position {}: real score {} has 8-bit image {} but backend {} computed {} (sum of cells {})", i, real, image, backend, b, bytes));
                }
                for &t in queries {
                    if real >= t && b < dm.scale(t) {
                        fail(&mut verdict, format!("position {}: real score {} >= threshold {} but byte {} < byte threshold {} (backend {})", i, real, t, b, dm.scale(t), backend));
                    }
                }
            }
            if let Ok(v) = &pos {
                if v[i] < image {
                    fail(&mut verdict, format!("position {}: real score {} has 8-bit image {} but DiscreteMatrix::score_position gives {} (sum of cells {})", i, real, image, v[i], bytes));
                }
            }
        }
        (answer, Some(verdict), nontrivial)
    } else {
        (answer, None, false)
    }
}

pub fn exec(line: &str) -> (String, Option<Result<(), String>>, bool) {
    let t: Vec<&str> = line.split_whitespace().collect();
    assert_eq!(t[0], "c08");
    let backend = t[2];
    let k: usize = t[3].parse().unwrap();
    let m: usize = t[4].parse().unwrap();
    let mut p = 5;
    let vals: Vec<f32> = t[p..p + k * m].iter().map(|x| f32::from_bits(x.parse::<u32>().unwrap())).collect();
    p += k * m;
    let w: usize = t[p].parse().unwrap();
    let l: usize = t[p + 1].parse().unwrap();
    p += 2;
    let syms: Vec<usize> = t[p..p + l].iter().map(|x| x.parse().unwrap()).collect();
    p += l;
    let nq: usize = t[p].parse().unwrap();
    let queries: Vec<f32> = t[p + 1..p + 1 + nq].iter().map(|x| f32::from_bits(x.parse::<u32>().unwrap())).collect();
    let r = guarded(|| match k {
        5 => run_case::<Dna, AllArms>(backend, m, &vals, w, &syms, &queries),
        21 => run_case::<Protein, OnlyGeneric>(backend, m, &vals, w, &syms, &queries),
        _ => panic!("bad K"),
    });
    verif::clear();
    match r {
        Ok(x) => x,
        Err(()) => ("panic".into(), Some(Err("harness-level panic".into())), true),
    }
}

// ------------------------------------------------------------------------------------------------
// generators (shared with c02 / c03)

/// a scoring matrix as K·M values; returns (values, consensus word)
pub fn gen_matrix(rng: &mut Rng, k: usize, m: usize) -> (Vec<f32>, Vec<usize>) {
    let style = rng.below(6);
    let wild = rng.below(10);
    let mut v = vec![0f32; k * m];
    for i in 0..m {
        match style {
            0 | 1 => {
                // log-odds of pseudo-counted frequencies
                let n = rng.range(2, 40) as f32;
                let pseudo = *rng.pick(&[0.01f32, 0.1, 0.25, 1.0]);
                let mut counts = vec![0f32; k - 1];
                let fav = rng.below(k - 1);
                for _ in 0..(n as usize) {
                    let a = if rng.chance(3, 4) { fav } else { rng.below(k - 1) };
                    counts[a] += 1.0;
                }
                let tot: f32 = counts.iter().sum::<f32>() + pseudo * (k - 1) as f32;
                for a in 0..k - 1 {
                    v[i * k + a] = (((counts[a] + pseudo) / tot) / (1.0 / (k - 1) as f32)).log2();
                }
            }
            2 => {
                for a in 0..k - 1 {
                    v[i * k + a] = (rng.range(0, 64) as f32 - 48.0) / 8.0;
                }
            }
            3 => {
                // consensus-biased: one high entry, the others low
                let fav = rng.below(k - 1);
                for a in 0..k - 1 {
                    v[i * k + a] = if a == fav { 2.0 - rng.f64() as f32 * 0.25 } else { -(rng.range(1, 9) as f32) - rng.f64() as f32 };
                }
            }
            4 => {
                // arbitrary finite floats of moderate size
                for a in 0..k - 1 {
                    v[i * k + a] = ((rng.f64() - 0.6) * 12.0) as f32;
                }
            }
            _ => {
                // mostly constant rows (factor = 0 when all are)
                let c = (rng.range(0, 8) as f32 - 4.0) / 2.0;
                let all_const = rng.chance(1, 2);
                for a in 0..k - 1 {
                    v[i * k + a] = if all_const || i % 2 == 0 { c } else { c - a as f32 };
                }
            }
        }
        v[i * k + k - 1] = match wild {
            0 => 0.0,
            1 => (rng.range(0, 40) as f32 - 30.0) / 4.0,
            2 => 3.5,
            _ => f32::NEG_INFINITY,
        };
    }
    // consensus: the first maximal non-wildcard column of each row
    let cons: Vec<usize> = (0..m)
        .map(|i| {
            let mut b = 0;
            for a in 1..k - 1 {
                if v[i * k + a] > v[i * k + b] {
                    b = a;
                }
            }
            b
        })
        .collect();
    (v, cons)
}

/// a sequence of length l over K symbols; plants the consensus word and wildcards
pub fn gen_seq(rng: &mut Rng, k: usize, l: usize, cons: &[usize]) -> Vec<usize> {
    let mode = rng.below(5);
    let m = cons.len();
    let mut s: Vec<usize> = (0..l)
        .map(|i| match mode {
            0 => rng.below(k - 1),
            1 => {
                if rng.chance(1, 12) {
                    k - 1
                } else {
                    rng.below(k - 1)
                }
            }
            2 => {
                if m > 0 {
                    cons[i % m]
                } else {
                    0
                }
            }
            3 => rng.below(k),
            _ => {
                if m > 0 && rng.chance(5, 6) {
                    cons[i % m]
                } else {
                    rng.below(k - 1)
                }
            }
        })
        .collect();
    if m > 0 && l >= m {
        for _ in 0..rng.range(0, 3) {
            let at = rng.below(l - m + 1);
            s[at..at + m].copy_from_slice(cons);
            if rng.chance(1, 3) && m > 1 {
                // a near-consensus neighbour
                s[at + rng.below(m)] = rng.below(k - 1);
            }
        }
        if rng.chance(1, 3) {
            // consensus at the very end / very start
            s[l - m..].copy_from_slice(cons);
        }
    }
    s
}

pub fn scalar_score(vals: &[f32], k: usize, m: usize, syms: &[usize], i: usize) -> f32 {
    let mut real = 0.0f32;
    for j in 0..m {
        real += vals[j * k + syms[i + j]];
    }
    real
}

pub fn bits(v: &[f32]) -> String {
    join(v.iter().map(|x| x.to_bits()))
}

pub fn generate(cfg: &Cfg) -> Vec<String> {
    let mut rng = Rng::new(cfg.seed ^ 0xC08);
    let mut cases = Vec::new();
    let prof = profile();
    let dna_backends = ["generic", "avx2", "disp-generic", "disp-sse2", "disp-avx2"];
    let count = (if cfg.thorough { 12_000 } else { 1_500 }) * cfg.boost;
    for n in 0..count {
        let protein = n % 7 == 6;
        let k = if protein { 21 } else { 5 };
        let backend = if protein { "generic" } else { dna_backends[n % 5] };
        let m = match n % 11 {
            0 => 1,
            1 => 2,
            2 => rng.range(30, 40),
            _ => rng.range(1, 24),
        };
        let (vals, cons) = gen_matrix(&mut rng, k, m);
        let l = match n % 9 {
            0 => rng.range(0, m),
            1 => m,
            2 => rng.range(m, m + 40),
            3 => rng.range(900, 1100),
            _ => rng.range(0, if cfg.thorough { 3000 } else { 300 }),
        };
        let syms = gen_seq(&mut rng, k, l, &cons);
        let w = if rng.chance(1, 8) { m - 1 + rng.range(0, 5) } else { m - 1 };
        // queries: around min / max, attained scores, random
        let mut mn = 0f32;
        let mut mx = 0f32;
        for i in 0..m {
            let row = &vals[i * k..i * k + k - 1];
            mn += row.iter().cloned().fold(f32::INFINITY, f32::min);
            mx += row.iter().cloned().fold(f32::NEG_INFINITY, f32::max);
        }
        let mut q = vec![mn - 1.0, mn, mx, mx + 1.0, (mn + mx) / 2.0, ((rng.f64() * 2.0 - 0.5) as f32) * (mx - mn) + mn];
        if l >= m {
            for _ in 0..2 {
                let i = rng.below(l - m + 1);
                let s = scalar_score(&vals, k, m, &syms, i);
                q.push(s);
                q.push(f32::from_bits(s.to_bits().wrapping_add(1)));
            }
        }
        cases.push(format!("c08 {} {} {} {} {} {} {} {} {} {}", prof, backend, k, m, bits(&vals), w, l, join(syms.iter()), q.len(), bits(&q)));
    }
    cases
}

pub fn run(cfg: &Cfg) {
    let cases = crate::replay_cases(cfg).unwrap_or_else(|| generate(cfg));
    let mut out = Out::new(&cfg.out);
    for c in &cases {
        // a replayed case line carries the profile it was recorded under; run it under ours
        let mut t: Vec<&str> = c.split(' ').collect();
        t[1] = profile();
        let c = t.join(" ");
        out.announce(&c);
        let (ans, o, nt) = exec(&c);
        out.stat(&format!("backend/{}", t[2]));
        out.stat(&format!("K/{}", t[3]));
        if nt {
            out.stat("window-with-sum-of-cells>255-or-wildcard");
        }
        if ans.contains("panic") {
            out.panics += 1;
            out.stat("answers-with-a-panic");
        }
        if ans.contains("un ") {
            // factor = unscale(1) - unscale(0) == 0 ?
            let un: Vec<&str> = ans.split(" | ").nth(1).unwrap_or("").split(' ').collect();
            if un.len() > 2 && un[1] == un[2] {
                out.stat("factor=0");
            }
        }
        out.case(&c, &ans, o, nt);
    }
    out.finish(&cfg.out);
}
