//! C13 — TFM-PVALUE score thresholds are consistent with the exact score distribution.
//!
//! case:   c13sc <M> <5·M f32 bits> <5 counts> <5 bg f32 bits> <query p-value, f64 bits> <maxit>
//!               | <perm, M> <n> <panic 0|1> { <g bits> <score bits> <range.start bits> <range.end bits> <conv> }*n
//!         (inputs, exact oracle and generators are shared with C12, see c12.rs)
//! answer: adm-ok n=<n> panic=<0|1> g=<bits,…> score=<bits,…> conv=<flags>   (exact parts)
//!         adm-bad <why>                                                     (model only)
//!
//! Alternative entry points: `c12::alt` (constructors, `score(p)`, one object reused), see c12.rs.
use crate::c12::*;
use crate::out::*;
use crate::rng::Rng;
use crate::Cfg;

/// written from the property text: with d = (M+2)g every step's threshold t satisfies
/// P(S >= t+d) <= p and, for u the largest attainable score below t-d, P(S >= u-d) >= p;
/// no step panics.
pub fn oracle_c13(inp: &Input, ex: &Exact, obs: &Obs) -> Result<(), String> {
    if obs.panicked {
        return Err(format!("panic in iteration {}", obs.its.len()));
    }
    let p = f64::from_bits(inp.q);
    let m = inp.m as i128;
    let tol = ex.tol();
    for (i, it) in obs.its.iter().enumerate() {
        let t = Dy::of_f64(it.score).ok_or(format!("step {}: threshold {} not finite", i, it.score))?;
        let g = Dy::of_f64(it.g).ok_or("granularity not finite")?;
        let d = g.scale(m + 2).ok_or("ovf")?;
        let nd = g.scale(-(m + 2)).ok_or("ovf")?;
        let up = ex.tail(t.add(d).ok_or("ovf")?).ok_or("ovf")?;
        if !le_tol(up, p, tol) {
            return Err(format!(
                "step {} g={:e}: threshold {} but P(S >= t+d) = {:e} > p = {:e}",
                i, it.g, it.score, up, p
            ));
        }
        if let Some(u) = ex.below(t.add(nd).ok_or("ovf")?).ok_or("ovf")? {
            let dn = ex.tail(u.add(nd).ok_or("ovf")?).ok_or("ovf")?;
            if !le_tol(p, dn, tol) {
                return Err(format!(
                    "step {} g={:e}: threshold {} but for u = {} (largest attainable below t-d) P(S >= u-d) = {:e} < p = {:e}",
                    i,
                    it.g,
                    it.score,
                    (u.m as f64) * 2f64.powi(u.e),
                    dn,
                    p
                ));
            }
        }
    }
    Ok(())
}

/// p-values for one matrix: (p, class)
fn queries(rng: &mut Rng, inp: &Input, ex: &Exact) -> Vec<(f64, &'static str)> {
    let n = ex.levels.len();
    let mut q: Vec<(f64, &'static str)> = Vec::new();
    // Attainable tail probabilities: `lookup_score` then compares f64 partial sums with a p they
    // can be EQUAL to, and its decision is determined only if those sums carry no rounding, i.e.
    // every word probability is a multiple of 2^-52 or coarser: background = counts / 2^e with
    // e·M <= 52 (uniform: e = 2).  Elsewhere the outcome of the tie depends on the hash map's
    // iteration order, the implementation's answer is not a function of its input, and such
    // queries are not generated.
    let total: usize = inp.counts.iter().sum();
    let exact_sums = total.is_power_of_two() && (total.trailing_zeros() as usize) * inp.m <= 52;
    let mut idx: Vec<usize> = vec![0, n - 1, rng.below(n), rng.below(n), n / 3];
    idx.sort();
    idx.dedup();
    for &i in &idx {
        let (_, t, exact) = ex.levels[i];
        if exact_sums && exact && t > 0.0 && t < 1.0 {
            q.push((t, "p-attainable"));
        }
    }
    // strictly between two consecutive attainable tails (and resolvably so in f64)
    for _ in 0..3 {
        let i = rng.below(n);
        let a = ex.levels[i].1;
        let b = if i + 1 < n { ex.levels[i + 1].1 } else { 1.0 };
        let x = a + (b - a) * (0.1 + 0.8 * rng.f64());
        if x > 0.0 && x < 1.0 && x > a && x < b && (b - a) >= 1e-9 * b {
            q.push((x, "p-between"));
        }
    }
    // below the smallest tail, just under 1, round numbers
    q.push((ex.levels[0].1 * 0.5, "p-below-smallest"));
    q.push((1.0 - 1e-3 * rng.f64() - 1e-9, "p-near-one"));
    q.push((*rng.pick(&[0.5, 0.1, 0.05, 0.01, 0.001, 1e-4]), "p-round"));
    q.retain(|(x, _)| *x > 0.0 && *x < 1.0);
    q
}

fn fmt_obs(obs: &Obs) -> String {
    let mut s = format!("{} {} {}", join(obs.perm.iter()), obs.its.len(), obs.panicked as u8);
    for it in &obs.its {
        s.push_str(&format!(
            " {} {} {} {} {}",
            it.g.to_bits(),
            it.score.to_bits(),
            it.start.to_bits(),
            it.end.to_bits(),
            it.conv as u8
        ));
    }
    s
}

pub fn exec(line: &str) -> (String, String, Option<Result<(), String>>, bool, usize) {
    let (op, inp) = Input::parse(line);
    assert_eq!(op, "c13sc");
    let obs = run_impl(&inp, false);
    let full = format!("{} | {}", inp.line("c13sc"), fmt_obs(&obs));
    let ex = Exact::new(&inp);
    let p = f64::from_bits(inp.q);
    let (o, nt) = match &ex {
        Some(ex) => (not_overflow(oracle_c13(&inp, ex, &obs)), p > ex.levels[0].1 && p < ex.total),
        None => (None, false),
    };
    let (o, alt_run) = with_alt(o, &inp, &obs, false);
    ALT_RUN.store(alt_run, std::sync::atomic::Ordering::Relaxed);
    (full, answer(&obs, true), o, nt, obs.its.len())
}

pub fn generate(cfg: &Cfg) -> Vec<(String, String)> {
    let mut rng = Rng::new(cfg.seed ^ 0xC13);
    let mut cases = Vec::new();
    let nmat = (if cfg.thorough { 600 } else { 40 }) * cfg.boost;
    // deep refinement on large scores: narrow matrices whose entries sit a few ulps from 16/24/32/48,
    // so that attainable scores cluster ~1e-6 apart (the refinement is still running at the 8th and
    // 9th granularity) and integer scores times the decay exceed 2^24 (any arithmetic narrower than
    // f64 in the window bookkeeping shows)
    let ndeep = (if cfg.thorough { 60 } else { 6 }) * cfg.boost;
    for _ in 0..ndeep {
        let m = rng.range(3, 4);
        let mut mat: Vec<[u32; K]> = Vec::new();
        for _ in 0..m {
            let mut r = [f32::NEG_INFINITY.to_bits(); K];
            for j in 0..4 {
                let base: f32 = *rng.pick(&[16.0f32, 24.0, 32.0, 48.0, -16.0, -32.0, -16.0, 32.0]);
                r[j] = base.to_bits() + rng.below(4) as u32;
            }
            mat.push(r);
        }
        let counts = [1usize, 1, 1, 1, 0];
        let mut inp = Input { m, mat, counts, bg: crate::c12::bg_bits(counts), q: 0, maxit: 9 };
        let ex = match Exact::new(&inp) {
            Some(e) => e,
            None => continue,
        };
        // every attainable tail probability (the sums are exact: uniform background), and values
        // 0.1 % off, capped per instance
        let mut qs: Vec<(f64, &'static str)> = Vec::new();
        for &(_, t, exact) in ex.levels.iter() {
            if exact && t > 0.0 && t < 1.0 {
                qs.push((t, "p-attainable"));
                qs.push((t * 0.999, "p-between"));
            }
        }
        let cap = if cfg.thorough { 120 } else { 40 };
        while qs.len() > cap {
            let i = rng.below(qs.len());
            qs.swap_remove(i);
        }
        for (x, ql) in qs {
            inp.q = x.to_bits();
            cases.push((inp.line("c13sc"), format!("mat-deep-large/bg-uniform/{}", ql)));
        }
    }
    for k in 0..nmat {
        let (mut inp, label) = gen_instance(&mut rng, k, cfg.thorough);
        let ex = match Exact::new(&inp) {
            Some(e) => e,
            None => continue,
        };
        for (x, ql) in queries(&mut rng, &inp, &ex) {
            inp.q = x.to_bits();
            cases.push((inp.line("c13sc"), format!("{}/{}", label, ql)));
        }
    }
    cases
}

pub fn run(cfg: &Cfg) {
    let cases: Vec<(String, String)> = match crate::replay_cases(cfg) {
        Some(v) => v.into_iter().map(|l| (l, "replay".to_string())).collect(),
        None => generate(cfg),
    };
    let mut out = Out::new(&cfg.out);
    for (c, label) in &cases {
        let (full, ans, o, nt, n) = exec(c);
        for part in label.split('/') {
            out.stat(part);
        }
        out.stat(&format!("width/{}", Input::parse(c).1.m));
        out.stat(&format!("iterations/{}", n));
        if ALT_RUN.load(std::sync::atomic::Ordering::Relaxed) {
            out.stat("alternative-entry-points");
        }
        if ans.contains("panic=1") {
            out.panics += 1;
        }
        out.case(&full, &ans, o, nt);
    }
    out.finish(&cfg.out);
}
