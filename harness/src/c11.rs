//! C11 — MEME-style score distribution agrees with the exact tail within its resolution.
//!
//! case:   c11 <M> <n|c> <5 counts> <5 background f32 bits> <5M cell f32 bits, row major> <Q> <query>…
//!           n: Background::new(frequencies from the bits); c: Background::from_counts(counts) (the
//!              bits must then be the frequencies it yields)
//!           query: pv <score f32 bits>   |   sc <p f64 bits> <implementation's score f32 bits>
//!         the `sc` answer of the implementation is part of the case line (binary search may return
//!         any matching index; the model checks admissibility); `generate` fills it in, a replayed
//!         line is checked against the implementation again.
//! answer: panic | bad-case
//!         ok <unscale(0)> <scale(unscale(0)+1)> <score(1.0)> <score(0.0)> <min_pvalue> <len> <hash of sf>
//!            <16 sampled sf entries> | <per query: p-value f64 bits, or adm-ok>
//!
//! Oracle (from the property text, on the implementation's answers, independent of the model):
//!   (a) sf non-increasing with values in [0,1];
//!   (b) for widths small enough to enumerate all words: P(S >= s+d) <= pvalue(s) <= P(S >= s-d),
//!       d = (M/2+1)/scale (integer division; the tighter reading of the text);
//!   (c) pvalue non-increasing in the score (all pairs of queried scores);
//!   (d) pvalue(score(p)) <= p for p in (0,1] (and any p >= 1), where f32 scores can resolve the table
//!       (see `resolvable`; p = 0 is outside the property: score(0) is the maximal score, whose
//!       p-value is positive).
//! Exactness of (b): cells and scores are f32, i.e. dyadic rationals; they are held as i128 multiples
//! of 2^-90 (`fx`), so that `S(w) >= s ± d  <=>  (S(w)-s)*scale >= ±(M/2+1)` is decided without any
//! rounding (word membership in a tail is never fragile).  Probabilities are f64 sums of products of
//! the widened f32 background frequencies, Neumaier-compensated; margin, justified:
//!   * the implementation adds non-negative f64 terms, at most (K+1) roundings per row and one per
//!     table entry, so its entries are within (M(K+1)+1000M+1)·2^-53 < 1e-11 (M <= 64) relative of
//!     the exact-arithmetic table; the oracle's sums are within 1e-13 relative: `REL = 1e-9`;
//!   * `Background::new` only guarantees that the *f32* sum of the frequencies is 1.0, so the exact
//!     total mass is (Σ bg)^M = 1 ± δ with δ <= M·K·2^-24; the clip `min(1.0)` lowers an entry by
//!     at most that: `delta = |(Σ bg)^M - 1|` is added to the margin of the lower bound when the
//!     p-value is the clipped value 1.0, and nowhere else.
//!
//! Alternative entry points (`alt`; oracle only, case line and answer unchanged): on the cases whose
//! matrix hash is even the distribution is also built through `ScoreDistribution::from(&pssm)`,
//! `from(pssm)` by value, `Into`, and cloned; every observable and every query must answer like the
//! `to_score_distribution()` object of the main clause; `min_pvalue()` is the last positive entry of
//! `sf()`; `score(p)` is always `unscale(k)` of a table index; `Distribution::sample` (seeded StdRng,
//! the constant generators giving p = 0 and p = 1, `Rng::sample`, `sample_iter`) returns `score(p)`
//! of the p drawn.
use crate::out::*;
use crate::rng::Rng;
use crate::Cfg;
use lightmotif::abc::Alphabet;
use lightmotif::abc::Background;
use lightmotif::abc::Dna;
use lightmotif::dense::DenseMatrix;
use lightmotif::pwm::dist::ScoreDistribution;
use lightmotif::pwm::ScoringMatrix;
use rand::distributions::Distribution;
use rand::distributions::Uniform;
use rand::rngs::mock::StepRng;
use rand::rngs::StdRng;
use rand::Rng as _;
use rand::SeedableRng;

type K = <Dna as Alphabet>::K;
const NK: usize = 5;
const NEG_INF_BITS: u32 = 0xFF80_0000;
const REL: f64 = 1e-9;
/// widest matrix whose words the oracle enumerates (number of words is also capped)
const ENUM_MAX_WORDS: usize = 2_000_000;

// ------------------------------------------------------------------------------------------ case

#[derive(Clone)]
enum Query {
    Pv(u32),
    Sc(u64, Option<u32>),
}

#[derive(Clone)]
struct Case {
    m: usize,
    mode: char,
    counts: [usize; NK],
    bg: [u32; NK],
    cells: Vec<[u32; NK]>,
    queries: Vec<Query>,
}

fn show32(x: f32) -> String {
    if x.is_nan() {
        "nan".into()
    } else {
        x.to_bits().to_string()
    }
}
fn show64(x: f64) -> String {
    if x.is_nan() {
        "nan".into()
    } else {
        x.to_bits().to_string()
    }
}

impl Case {
    fn line(&self) -> String {
        let mut s = format!("c11 {} {} {} {}", self.m, self.mode, join(self.counts.iter()), join(self.bg.iter()));
        for r in &self.cells {
            s.push(' ');
            s.push_str(&join(r.iter()));
        }
        s.push_str(&format!(" {}", self.queries.len()));
        for q in &self.queries {
            match q {
                Query::Pv(b) => s.push_str(&format!(" pv {}", b)),
                Query::Sc(p, a) => s.push_str(&format!(" sc {} {}", p, a.map(|x| show32(f32::from_bits(x))).unwrap_or("?".into()))),
            }
        }
        s
    }

    fn parse(line: &str) -> Option<Case> {
        let t: Vec<&str> = line.split_whitespace().collect();
        if t.len() < 3 + 2 * NK || t[0] != "c11" {
            return None;
        }
        let m: usize = t[1].parse().ok()?;
        let mode = t[2].chars().next()?;
        let mut counts = [0usize; NK];
        let mut bg = [0u32; NK];
        for i in 0..NK {
            counts[i] = t[3 + i].parse().ok()?;
            bg[i] = t[3 + NK + i].parse().ok()?;
        }
        let mut p = 3 + 2 * NK;
        let mut cells = Vec::new();
        for _ in 0..m {
            let mut r = [0u32; NK];
            for c in r.iter_mut() {
                *c = t.get(p)?.parse().ok()?;
                p += 1;
            }
            cells.push(r);
        }
        let q: usize = t.get(p)?.parse().ok()?;
        p += 1;
        let mut queries = Vec::new();
        for _ in 0..q {
            match *t.get(p)? {
                "pv" => {
                    queries.push(Query::Pv(t.get(p + 1)?.parse().ok()?));
                    p += 2;
                }
                "sc" => {
                    // the recorded answer is informative only: the implementation is asked again
                    queries.push(Query::Sc(t.get(p + 1)?.parse().ok()?, None));
                    p += 3;
                }
                _ => return None,
            }
        }
        Some(Case { m, mode, counts, bg, cells, queries })
    }

    fn background(&self) -> Option<Background<Dna>> {
        match self.mode {
            'n' => {
                let f: [f32; NK] = std::array::from_fn(|i| f32::from_bits(self.bg[i]));
                Background::<Dna>::new(f).ok()
            }
            'c' => {
                let c = generic_array::GenericArray::<usize, K>::from(self.counts);
                let b = Background::<Dna>::from_counts(&c).ok()?;
                if (0..NK).all(|i| b.frequencies()[i].to_bits() == self.bg[i]) {
                    Some(b)
                } else {
                    None
                }
            }
            _ => None,
        }
    }
}

// ------------------------------------------------------------------- implementation observables

struct Obs {
    u0: f32,
    sfac: i32,
    smin: f32,
    smax: f32,
    minp: f64,
    sf: Vec<f64>,
    /// (score, pvalue)
    pv: Vec<(f32, f64)>,
    /// (p, score(p), pvalue(score(p)))
    sc: Vec<(f64, f32, f64)>,
    /// per query, in order
    answers: Vec<String>,
}

fn fnv64(xs: &[f64]) -> u64 {
    let mut h: u64 = 0xcbf29ce484222325;
    for x in xs {
        h = (h ^ x.to_bits()).wrapping_mul(0x100000001b3);
    }
    h
}

fn observe(case: &mut Case) -> Result<Option<Obs>, ()> {
    let bg = match case.background() {
        Some(b) => b,
        None => return Ok(None),
    };
    let rows: Vec<[f32; NK]> = case.cells.iter().map(|r| std::array::from_fn(|i| f32::from_bits(r[i]))).collect();
    let queries = case.queries.clone();
    let r = guarded(move || {
        let data = DenseMatrix::<f32, K>::from_rows(rows);
        let pssm = ScoringMatrix::<Dna>::new(bg, data);
        let dist: ScoreDistribution<Dna> = pssm.to_score_distribution();
        let u0 = dist.unscale(0);
        let mut o = Obs {
            u0,
            sfac: dist.scale(u0 + 1.0),
            smin: dist.score(1.0),
            smax: dist.score(0.0),
            minp: dist.min_pvalue(),
            sf: dist.sf().to_vec(),
            pv: Vec::new(),
            sc: Vec::new(),
            answers: Vec::new(),
        };
        let mut filled = Vec::new();
        for q in &queries {
            match q {
                Query::Pv(b) => {
                    let s = f32::from_bits(*b);
                    let p = dist.pvalue(s);
                    o.pv.push((s, p));
                    o.answers.push(show64(p));
                    filled.push(q.clone());
                }
                Query::Sc(pb, _) => {
                    let p = f64::from_bits(*pb);
                    let s = dist.score(p);
                    o.sc.push((p, s, dist.pvalue(s)));
                    o.answers.push("adm-ok".into());
                    filled.push(Query::Sc(*pb, Some(s.to_bits())));
                }
            }
        }
        (o, filled)
    })?;
    case.queries = r.1;
    Ok(Some(r.0))
}

// ------------------------------------------------------------------------------------ the oracle

/// f32 as an exact multiple of 2^-90 (None: not representable in the fixed-point range we use)
fn fx(x: f32) -> Option<i128> {
    if !x.is_finite() {
        return None;
    }
    let b = x.to_bits();
    let e = ((b >> 23) & 0xFF) as i32;
    let frac = (b & 0x7F_FFFF) as i128;
    if e == 0 {
        return if frac == 0 { Some(0) } else { None };
    }
    // value = (2^23 + frac) * 2^(e-150); in units of 2^-90: shift by e-60
    let sh = e - 60;
    if !(0..=86).contains(&sh) {
        return None;
    }
    let v = ((1i128 << 23) + frac) << sh;
    Some(if b >> 31 == 1 { -v } else { v })
}
const FX_ONE: i128 = 1i128 << 90;

struct Tails {
    /// exact word scores, ascending
    scores: Vec<i128>,
    /// suf[i] = Σ weight of words i.. (compensated f64)
    suf: Vec<f64>,
    /// |(Σ_a bg_a)^M − 1|
    delta: f64,
}

fn neumaier(xs: impl Iterator<Item = f64>) -> f64 {
    let (mut s, mut c) = (0.0f64, 0.0f64);
    for x in xs {
        let t = s + x;
        if s.abs() >= x.abs() {
            c += (s - t) + x;
        } else {
            c += (x - t) + s;
        }
        s = t;
    }
    s + c
}

/// all words over the symbols with positive background mass; words through a −∞ cell score −∞ and
/// belong to no tail `S >= x`
fn tails(case: &Case) -> Option<Tails> {
    let m = case.m;
    let bgf: Vec<f64> = case.bg.iter().map(|b| f32::from_bits(*b) as f64).collect();
    let live: Vec<usize> = (0..NK).filter(|a| bgf[*a] > 0.0).collect();
    if m == 0 || live.is_empty() || (live.len() as f64).powi(m as i32) > ENUM_MAX_WORDS as f64 {
        return None;
    }
    let mut cur: Vec<(i128, f64)> = vec![(0, 1.0)];
    for r in &case.cells {
        let mut next = Vec::with_capacity(cur.len() * live.len());
        for &a in &live {
            if r[a] == NEG_INF_BITS {
                continue;
            }
            let c = fx(f32::from_bits(r[a]))?;
            for (s, w) in &cur {
                next.push((s + c, w * bgf[a]));
            }
        }
        cur = next;
    }
    cur.sort_by(|x, y| x.0.cmp(&y.0));
    let n = cur.len();
    let mut suf = vec![0.0; n + 1];
    // compensated suffix sums
    let (mut s, mut c) = (0.0f64, 0.0f64);
    for i in (0..n).rev() {
        let x = cur[i].1;
        let t = s + x;
        if s.abs() >= x.abs() {
            c += (s - t) + x;
        } else {
            c += (x - t) + s;
        }
        s = t;
        suf[i] = s + c;
    }
    let tot = neumaier(bgf.iter().cloned());
    Some(Tails { scores: cur.iter().map(|x| x.0).collect(), suf, delta: (tot.powi(m as i32) - 1.0).abs() + 4.0 * f64::EPSILON })
}

impl Tails {
    /// P(S >= s + steps/scale), `steps` may be negative
    fn tail(&self, s: i128, steps: i128, sfac: i128) -> f64 {
        let i = self.scores.partition_point(|w| (*w - s) * sfac < steps * FX_ONE);
        self.suf[i]
    }
}

fn oracle(case: &Case, o: &Obs, stats: &mut Vec<&'static str>) -> Result<(), String> {
    // (a)
    for (i, x) in o.sf.iter().enumerate() {
        if !(*x >= 0.0 && *x <= 1.0) {
            return Err(format!("sf[{}] = {:e} outside [0,1]", i, x));
        }
        if i > 0 && o.sf[i - 1] < *x {
            return Err(format!("sf increases at {}: {:e} < {:e}", i, o.sf[i - 1], x));
        }
    }
    // (c)
    for (s1, p1) in &o.pv {
        for (s2, p2) in &o.pv {
            if s1 <= s2 && p1 < p2 {
                return Err(format!("pvalue increases with the score: pvalue({:e}) = {:e} < pvalue({:e}) = {:e}", s1, p1, s2, p2));
            }
        }
    }
    // the property is about a table with a resolution: scale > 0
    if o.sfac <= 0 {
        stats.push("oracle/scale<=0:structural-only");
        return Ok(());
    }
    // (d) — scores are f32: where the f32 format cannot tell adjacent table cells apart
    // ((|M·offset|·scale + len) >= 2^22, i.e. an error of 2^-23 relative reaches half a cell) the
    // clause is not claimed; such matrices are still run and a violation is counted (finding).
    let resolvable = (o.u0.abs() as f64) * (o.sfac as f64) + (o.sf.len() as f64) < 4194304.0;
    if !resolvable {
        stats.push("oracle/f32-cannot-resolve-grid");
    }
    for (p, s, back) in &o.sc {
        if *p > 0.0 && !(back <= p) {
            // the regime of the defect repaired by /repo ee57f0f (known_findings.json `fixed`), named in the message
            let regime = if resolvable { "" } else { "f32-unresolvable-grid (|M*offset|*scale+len >= 2^22): " };
            return Err(format!("{}pvalue(score(p)) > p: p = {:e} ({}), score = {:e} ({}), pvalue(score) = {:e}", regime, p, p.to_bits(), s, s.to_bits(), back));
        }
    }
    // (b)
    match tails(case) {
        None => stats.push("oracle/not-enumerated"),
        Some(t) => {
            stats.push("oracle/enumerated");
            let steps = (case.m / 2 + 1) as i128;
            for (s, p) in &o.pv {
                let sx = match fx(*s) {
                    Some(x) => x,
                    None => {
                        stats.push("oracle/score-not-fixed-point");
                        continue;
                    }
                };
                let lo = t.tail(sx, steps, o.sfac as i128);
                let hi = t.tail(sx, -steps, o.sfac as i128);
                // `min(1.0)` may have clipped an entry whose exact value is (Σ bg)^M = 1 + δ
                if lo > p * (1.0 + REL) + (if *p >= 1.0 { t.delta } else { 0.0 }) {
                    return Err(format!("pvalue({:e}) = {:e} below the exact P(S >= s+d) = {:e} (d = {}/{} )", s, p, lo, steps, o.sfac));
                }
                if *p > hi * (1.0 + REL) {
                    return Err(format!("pvalue({:e}) = {:e} above the exact P(S >= s-d) = {:e} (d = {}/{})", s, p, hi, steps, o.sfac));
                }
            }
        }
    }
    Ok(())
}

// ---------------------------------------------------------------------- alternative entry points

/// hash of the matrix and background of the case (the `sc` answers on the line are not part of it)
fn case_hash(case: &Case) -> u64 {
    fnv_nats(case.bg.iter().map(|x| *x as usize).chain(case.cells.iter().flatten().map(|x| *x as usize)))
}

/// everything the main clause observed, asked again of `d`
fn same_answers(name: &str, d: &ScoreDistribution<Dna>, o: &Obs) -> Result<(), String> {
    let b64 = |x: f64| show64(x);
    let b32 = |x: f32| show32(x);
    if d.sf().len() != o.sf.len() || d.sf().iter().zip(&o.sf).any(|(x, y)| b64(*x) != b64(*y)) {
        return Err(format!("{}: sf() differs from the one of to_score_distribution()", name));
    }
    let u0 = d.unscale(0);
    if b32(u0) != b32(o.u0) || d.scale(u0 + 1.0) != o.sfac {
        return Err(format!("{}: unscale(0) / scale(unscale(0)+1) = {:e} / {} but {:e} / {}", name, u0, d.scale(u0 + 1.0), o.u0, o.sfac));
    }
    if b32(d.score(1.0)) != b32(o.smin) || b32(d.score(0.0)) != b32(o.smax) || b64(d.min_pvalue()) != b64(o.minp) {
        return Err(format!("{}: score(1) / score(0) / min_pvalue() differ", name));
    }
    for (s, p) in &o.pv {
        if b64(d.pvalue(*s)) != b64(*p) {
            return Err(format!("{}: pvalue({:e}) = {:e} but to_score_distribution() answered {:e}", name, s, d.pvalue(*s), p));
        }
    }
    for (p, s, _) in &o.sc {
        if b32(d.score(*p)) != b32(*s) {
            return Err(format!("{}: score({:e}) = {:e} but to_score_distribution() answered {:e}", name, p, d.score(*p), s));
        }
    }
    Ok(())
}

fn alt(case: &Case, o: &Obs) -> Result<(), String> {
    let bg = case.background().ok_or("background rejected on the second construction")?;
    let rows: Vec<[f32; NK]> = case.cells.iter().map(|r| std::array::from_fn(|i| f32::from_bits(r[i]))).collect();
    let pssm = ScoringMatrix::<Dna>::new(bg, DenseMatrix::<f32, K>::from_rows(rows));
    let main = pssm.to_score_distribution();
    same_answers("to_score_distribution() again", &main, o)?;
    same_answers("ScoreDistribution::from(&pssm)", &ScoreDistribution::<Dna>::from(&pssm), o)?;
    same_answers("ScoreDistribution::from(pssm) by value", &ScoreDistribution::<Dna>::from(pssm.clone()), o)?;
    let into: ScoreDistribution<Dna> = (&pssm).into();
    same_answers("(&pssm).into()", &into, o)?;
    let d = main.clone();
    same_answers("clone()", &d, o)?;
    // queries in the opposite order on the clone: an answer does not depend on what was asked before
    for (p, s, _) in o.sc.iter().rev() {
        if show32(d.score(*p)) != show32(*s) {
            return Err(format!("score({:e}) asked again after other queries = {:e}, first answer {:e}", p, d.score(*p), s));
        }
    }
    for (s, p) in o.pv.iter().rev() {
        if show64(d.pvalue(*s)) != show64(*p) {
            return Err(format!("pvalue({:e}) asked again after other queries = {:e}, first answer {:e}", s, d.pvalue(*s), p));
        }
    }
    // min_pvalue() is the p-value of the largest attainable score: the last positive entry of the table
    let last_pos = o.sf.iter().rev().find(|x| **x > 0.0).copied().unwrap_or(o.sf[0]);
    if show64(o.minp) != show64(last_pos) {
        return Err(format!("min_pvalue() = {:e} but the last positive entry of sf() is {:e}", o.minp, last_pos));
    }
    // score(p) is unscale(k) of a table index (k may be one past the largest attainable score when p is
    // below min_pvalue(), and below the smallest one when the total mass is below p < 1)
    // (since /repo ee57f0f `score` steps unscale(k) up by a few f32 neighbours when f32 cannot resolve the
    // table: the neighbours just above a grid point count as that grid point)
    let grid: std::collections::HashSet<String> = (0..=o.sf.len() as i32)
        .flat_map(|k| {
            let mut v = d.unscale(k);
            let mut out = Vec::with_capacity(5);
            for _ in 0..5 {
                out.push(show32(v));
                v = v.next_up();
            }
            out
        })
        .collect();
    let on_grid = |what: &str, p: f64, s: f32| -> Result<(), String> {
        if !grid.contains(&show32(s)) {
            return Err(format!("{}: {:e} (p = {:e}) is not unscale(k) of a table index", what, s, p));
        }
        Ok(())
    };
    for (p, s, _) in &o.sc {
        on_grid("score(p)", *p, *s)?;
    }
    // Distribution::sample: the score of the p drawn from U[0,1] by the generator given
    let unit = Uniform::new_inclusive(0.0f64, 1.0);
    let mut rng = StdRng::seed_from_u64(case_hash(case));
    for it in 0..12 {
        let mut twin = rng.clone();
        let p: f64 = unit.sample(&mut twin);
        let s: f32 = match it % 3 {
            0 => Distribution::sample(&d, &mut rng),
            1 => rng.sample(&d),
            _ => (&d).sample_iter(&mut rng).next().unwrap(),
        };
        if show32(s) != show32(d.score(p)) {
            return Err(format!("Distribution::sample = {:e} but the generator drew p = {:e} and score(p) = {:e}", s, p, d.score(p)));
        }
        on_grid("Distribution::sample", p, s)?;
    }
    for (name, mut g, want) in [("all-zero generator (p = 0)", StepRng::new(0, 0), o.smax), ("all-ones generator (p = 1)", StepRng::new(u64::MAX, 0), o.smin)] {
        let p: f64 = unit.sample(&mut g.clone());
        let s: f32 = d.sample(&mut g);
        if show32(s) != show32(d.score(p)) || ((p == 0.0 || p == 1.0) && show32(s) != show32(want)) {
            return Err(format!("Distribution::sample with the {}: {:e}, p = {:e}, score(p) = {:e}", name, s, p, d.score(p)));
        }
    }
    Ok(())
}

// ------------------------------------------------------------------------------------------ exec

/// returns (case line with the `sc` answers filled in, answer, oracle, nontrivial, stats)
fn exec_case(mut case: Case) -> (String, String, Option<Result<(), String>>, bool, Vec<&'static str>) {
    let mut stats = Vec::new();
    match observe(&mut case) {
        Err(()) => {
            // a panic is outside the property only for matrices without any finite cell
            let any_finite = case.cells.iter().any(|r| r.iter().any(|c| f32::from_bits(*c).is_finite()));
            stats.push("outcome/panic");
            let o = if any_finite { Some(Err("panic".to_string())) } else { None };
            (case.line(), "panic".into(), o, false, stats)
        }
        Ok(None) => (case.line(), "bad-case".into(), None, false, stats),
        Ok(Some(o)) => {
            stats.push("outcome/ok");
            let mut head = vec![show32(o.u0), o.sfac.to_string(), show32(o.smin), show32(o.smax), show64(o.minp), o.sf.len().to_string(), fnv64(&o.sf).to_string()];
            for j in 0..16 {
                head.push(show64(o.sf[j * (o.sf.len() - 1) / 15]));
            }
            let ans = format!("ok {} | {}", head.join(" "), o.answers.join(" "));
            let mut verdict = oracle(&case, &o, &mut stats);
            if verdict.is_ok() && case_hash(&case) % 2 == 0 {
                stats.push("alternative-entry-points");
                verdict = match guarded(|| alt(&case, &o)) {
                    Ok(r) => r.map_err(|e| format!("alternative entry point: {}", e)),
                    Err(()) => Err("alternative entry point: panic".into()),
                };
            }
            let mut distinct: Vec<u64> = o.sf.iter().map(|x| x.to_bits()).collect();
            distinct.dedup();
            let nontrivial = case.m >= 2 && distinct.len() >= 3 && o.sfac > 0 && o.pv.iter().any(|(_, p)| *p > 0.0 && *p < 1.0);
            (case.line(), ans, Some(verdict), nontrivial, stats)
        }
    }
}

pub fn exec(line: &str) -> (String, Option<Result<(), String>>, bool) {
    match Case::parse(line) {
        None => ("bad-case".into(), None, false),
        Some(c) => {
            let (_, a, o, n, _) = exec_case(c);
            (a, o, n)
        }
    }
}

// ------------------------------------------------------------------------------------ generators

fn valid_new(f: &[f32; NK]) -> bool {
    let mut sum = 0.0f32;
    for x in f {
        if !(0.0..=1.0).contains(x) {
            return false;
        }
        sum += x;
    }
    sum == 1.0
}

/// (mode, counts, frequency bits)
fn gen_background(rng: &mut Rng, kind: usize) -> (char, [usize; NK], [u32; NK]) {
    let bits = |f: [f32; NK]| -> [u32; NK] { std::array::from_fn(|i| f[i].to_bits()) };
    match kind {
        0 => ('n', [0; NK], bits([0.25, 0.25, 0.25, 0.25, 0.0])),
        1 => ('n', [0; NK], bits([0.3, 0.2, 0.2, 0.3, 0.0])),
        2 => ('n', [0; NK], bits([0.5, 0.25, 0.125, 0.125, 0.0])),
        // wildcard carries mass
        3 => ('n', [0; NK], bits([0.2, 0.2, 0.2, 0.2, 0.2])),
        4 => ('n', [0; NK], bits([0.25, 0.25, 0.125, 0.125, 0.25])),
        // a non-wildcard symbol without mass
        5 => ('n', [0; NK], bits([0.5, 0.5, 0.0, 0.0, 0.0])),
        // random frequencies accepted by Background::new (f32 sum exactly 1.0)
        6 | 7 => loop {
            let with_n = kind == 7;
            let mut f = [0.0f32; NK];
            let n = if with_n { NK } else { NK - 1 };
            let mut raw = [0.0f64; NK];
            let mut tot = 0.0;
            for x in raw.iter_mut().take(n) {
                *x = 0.05 + rng.f64();
                tot += *x;
            }
            let mut acc = 0.0f32;
            for i in 0..n - 1 {
                f[i] = (raw[i] / tot) as f32;
                acc += f[i];
            }
            f[n - 1] = 1.0 - acc;
            if valid_new(&f) {
                break ('n', [0; NK], bits(f));
            }
        },
        // from_counts, with or without wildcard counts
        _ => {
            let mut c = [0usize; NK];
            for x in c.iter_mut().take(NK - 1) {
                *x = rng.range(1, 40);
            }
            if kind == 9 {
                c[NK - 1] = rng.range(1, 20);
            }
            let g = generic_array::GenericArray::<usize, K>::from(c);
            let b = Background::<Dna>::from_counts(&g).unwrap();
            ('c', c, std::array::from_fn(|i| b.frequencies()[i].to_bits()))
        }
    }
}

/// keep generated cells inside the oracle's fixed-point range (|x| < 2^20, multiples of 2^-90)
fn tame(x: f32) -> f32 {
    if fx(x).is_some() {
        x
    } else {
        0.0
    }
}

fn gen_cells(rng: &mut Rng, m: usize, kind: usize, wild: usize) -> Vec<[u32; NK]> {
    let mut rows = Vec::new();
    // per-matrix parameters
    let (lo, hi): (f64, f64) = match kind {
        0 => (-10.0, 2.0),
        1 => (-1.0, 1.0),
        2 => (0.0, 0.5),
        3 => (100.0, 101.5),
        4 => (-300.0, 300.0),
        5 => (-4000.0, -3990.0),
        11 => (-4000.0, -3999.2),
        _ => (-6.0, 3.0),
    };
    let den = *rng.pick(&[1.0f32, 2.0, 4.0, 16.0, 1024.0]);
    let constant = tame((lo + (hi - lo) * rng.f64()) as f32);
    for _ in 0..m {
        let mut r = [0f32; NK];
        for c in r.iter_mut().take(NK - 1) {
            *c = match kind {
                // random reals
                0..=5 | 11 => tame((lo + (hi - lo) * rng.f64()) as f32),
                // dyadic grid: many ties, exactly attainable thresholds
                6 => (rng.range(0, 24) as f32 - 16.0) / den,
                // small integers
                7 => rng.range(0, 6) as f32 - 3.0,
                // log-odds of random counts with a pseudocount, uniform background
                8 => tame((((rng.range(0, 20) as f32) + 0.25) / 21.0 / 0.25).log2()),
                // constant matrix (small == large)
                9 => constant,
                // constant integer matrix
                _ => 2.0,
            };
        }
        r[NK - 1] = match wild {
            0 => f32::NEG_INFINITY,
            // finite wildcard: row minimum, zero, or a random value (may be the global extreme)
            1 => r[..NK - 1].iter().cloned().fold(f32::INFINITY, f32::min),
            2 => 0.0,
            _ => tame((lo + (hi - lo) * rng.f64()) as f32),
        };
        rows.push(std::array::from_fn(|i| r[i].to_bits()));
    }
    rows
}

fn next_up(x: f64) -> f64 {
    f64::from_bits(x.to_bits() + 1)
}
fn next_down(x: f64) -> f64 {
    if x > 0.0 {
        f64::from_bits(x.to_bits() - 1)
    } else {
        x
    }
}

/// queries chosen after a first look at the implementation's table (grid points, table values)
fn gen_queries(rng: &mut Rng, case: &Case) -> Vec<Query> {
    let mut probe = case.clone();
    probe.queries.clear();
    let obs = observe(&mut probe);
    let cell = |i: usize, a: usize| f32::from_bits(case.cells[i][a]);
    let mut qs = Vec::new();
    let m = case.m;
    // scores of random words (f32 left fold, as the library scores), extremes, far outside
    let word_score = |rng: &mut Rng| -> f32 {
        let mut s = 0.0f32;
        for i in 0..m {
            s += cell(i, rng.below(NK - 1));
        }
        s
    };
    let mut mn = 0.0f32;
    let mut mx = 0.0f32;
    for i in 0..m {
        mn += (0..NK - 1).map(|a| cell(i, a)).fold(f32::INFINITY, f32::min);
        mx += (0..NK - 1).map(|a| cell(i, a)).fold(f32::NEG_INFINITY, f32::max);
    }
    for s in [mn, mx, mn - 1.0, mn - 1000.0, mx + 0.001, mx + 1000.0, (mn + mx) / 2.0, mn + (mx - mn) * 0.9] {
        qs.push(Query::Pv(tame(s).to_bits()));
    }
    for _ in 0..3 {
        qs.push(Query::Pv(tame(word_score(rng)).to_bits()));
    }
    if let Ok(Some(o)) = &obs {
        let n = o.sf.len();
        if o.sfac > 0 {
            let step = 1.0 / o.sfac as f32;
            // grid points of the table and rounding ties between them
            for _ in 0..4 {
                let k = rng.below(n + 3) as f32;
                let g = o.u0 + k * step;
                qs.push(Query::Pv(tame(g).to_bits()));
                qs.push(Query::Pv(tame(g + 0.5 * step).to_bits()));
            }
            // around the smallest / largest reachable integer score
            for s in [o.smin, o.smin - step, o.smin + step, o.smax, o.smax + step, o.smax - step] {
                qs.push(Query::Pv(tame(s).to_bits()));
            }
        }
        // p-values: table entries (flat runs: any matching index is admissible), their neighbours
        for _ in 0..4 {
            let x = o.sf[rng.below(n)];
            qs.push(Query::Sc(x.to_bits(), None));
            qs.push(Query::Sc(next_up(x).to_bits(), None));
            qs.push(Query::Sc(next_down(x).to_bits(), None));
        }
        qs.push(Query::Sc(o.minp.to_bits(), None));
        qs.push(Query::Sc((o.minp / 2.0).to_bits(), None));
    }
    for _ in 0..4 {
        let p = (10.0f64).powf(-12.0 * rng.f64());
        qs.push(Query::Sc(p.to_bits(), None));
    }
    for p in [0.0f64, 1.0, 0.5, 1e-300, 0.999999, 2.0] {
        qs.push(Query::Sc(p.to_bits(), None));
    }
    qs
}

fn make(rng: &mut Rng, m: usize, bgk: usize, ck: usize, wild: usize) -> Case {
    let (mode, counts, bg) = gen_background(rng, bgk);
    let cells = gen_cells(rng, m, ck, wild);
    let mut c = Case { m, mode, counts, bg, cells, queries: Vec::new() };
    c.queries = gen_queries(rng, &c);
    c
}

pub fn generate(cfg: &Cfg) -> Vec<Case> {
    let mut rng = Rng::new(cfg.seed ^ 0xC11);
    let mut cases = Vec::new();
    // boundary stream: every width 1..=9 (exhaustive oracle), every background kind, wildcard −∞ / finite
    for m in 1..=9usize {
        for bgk in 0..10usize {
            // 5 live symbols: keep 5^M within the oracle's budget in the quick tier
            let five = matches!(bgk, 3 | 4 | 7 | 9);
            if five && m > (if cfg.thorough { 9 } else { 7 }) {
                continue;
            }
            let wild = if five { rng.range(1, 3) } else { rng.below(4) };
            let ck = (m + bgk) % 12;
            cases.push(make(&mut rng, m, bgk, ck, wild));
        }
    }
    // every cell kind at small widths, wildcard −∞ and uniform background (the common configuration)
    for ck in 0..12usize {
        for m in [1usize, 2, 3, 5] {
            cases.push(make(&mut rng, m, 0, ck, 0));
        }
    }
    // excluded points, run on the real code: no rows; no finite cell; span > CDF_RANGE (scale = 0)
    {
        let (mode, counts, bg) = gen_background(&mut rng, 0);
        cases.push(Case { m: 0, mode, counts, bg, cells: vec![], queries: vec![] });
        cases.push(Case { m: 2, mode, counts, bg, cells: vec![[NEG_INF_BITS; NK]; 2], queries: vec![] });
        let mut wide = make(&mut rng, 3, 0, 0, 0);
        wide.cells[0][0] = (-800.0f32).to_bits();
        wide.cells[1][1] = (800.0f32).to_bits();
        wide.queries = gen_queries(&mut rng, &wide);
        cases.push(wide);
    }
    // random stream: small widths (enumerated) and larger ones (structural clauses)
    let count = (if cfg.thorough { 4000 } else { 120 }) * cfg.boost;
    for k in 0..count {
        let m = match k % 6 {
            0 => rng.range(10, if cfg.thorough { 40 } else { 24 }),
            1 => rng.range(6, 9),
            _ => rng.range(1, 6),
        };
        let mut bgk = rng.below(10);
        if matches!(bgk, 3 | 4 | 7 | 9) && m > 7 && m < 10 && !cfg.thorough {
            bgk = 6;
        }
        let ck = rng.below(12);
        let wild = rng.below(4);
        cases.push(make(&mut rng, m, bgk, ck, wild));
    }
    cases
}

pub fn run(cfg: &Cfg) {
    let cases: Vec<Case> = match crate::replay_cases(cfg) {
        Some(lines) => lines.iter().filter_map(|l| Case::parse(l)).collect(),
        None => generate(cfg),
    };
    let mut out = Out::new(&cfg.out);
    for c in cases {
        let m = c.m;
        let wild_inf = c.cells.iter().any(|r| r[NK - 1] == NEG_INF_BITS);
        let wild_mass = f32::from_bits(c.bg[NK - 1]) > 0.0;
        if std::env::var("LMV_TRACE").is_ok() {
            eprintln!("RUNNING {}", c.line());
        }
        let (line, ans, o, nt, stats) = exec_case(c);
        out.stat(&format!("width/{}", if m <= 9 { m.to_string() } else { "10+".into() }));
        out.stat(&format!("wildcard/{}{}", if wild_inf { "neginf" } else { "finite" }, if wild_mass { "+mass" } else { "" }));
        for s in stats {
            out.stat(s);
        }
        if ans == "panic" {
            out.panics += 1;
        }
        out.case(&line, &ans, o, nt);
    }
    out.finish(&cfg.out);
}
