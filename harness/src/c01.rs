//! C01 — every backend computes the defined PSSM score at every position.
//!
//! case:   c01 <dna|protein> <f32|u8> <M> <M*K entries> <G | w> <L> <L symbols> <op>…
//!           entries: f32 as `to_bits()`, u8 in decimal; row j = motif position j, column = symbol index
//!           G = `configure(&pssm)`, w = `configure_wrap(w)`; the sequence is striped by the generic
//!           pipeline for C = 16 and C = 32
//!         ops act on one score buffer per column count, in order:
//!           R <pipe> <a> <b>   score_rows_into(&pssm, &seq, a..b, &mut buf)
//!           I <pipe>           score_into(&pssm, &seq, &mut buf)
//!           F <pipe>           buf = score(&pssm, &seq)
//!           S <arm>            buf32 = ScoringMatrix::score(&seq)         (public API, forced arm; f32 only)
//!           P <C> <pos>        ScoringMatrix::score_position(&seq, pos)   (f32 only)
//!           M <M'> <M'*K entries>  from here on the calls use this other motif, on the SAME sequence objects and
//!                              the SAME score buffers (the purpose of score_into: many motifs, one buffer);
//!                              with G the sequences are configured again with `configure(&new pssm)`, with an
//!                              explicit w they are left as they are (in contract while w >= M'-1); no answer
//!         pipe: gen16 gen32 sse16 sse32 avx2 disp-generic disp-sse2 disp-avx2
//! answer: per op, joined by " ; ": `panic` | <bits of one score> |
//!         `<rows> <max_index> <hash cells> <len unstripe> <hash unstripe> <hash scores[i] | X> <offset(rows-1,C-1)>[ [cells]]`
//!
//! oracle (from the property text, independent of the model), for every in-contract op (M >= 1,
//! wrap >= M-1, range inside [0, R]): no panic; no rows and max_index 0 when L < M or the range is
//! empty, else b-a rows and max_index = L+1-M; every cell (k, c) is bit for bit the scalar sum
//! `0 + m[0][s[p]] + m[1][s[p+1]] + …` (f32, left to right; symbols past the end are the wildcard)
//! for p = c*R + a + k — the same for every backend, arm and lane count; for p <= L-M it is -inf iff
//! a term is, else within M*2^-24*sum|terms| of the f64 sum; a full scan unstripes to exactly
//! L+1-M values, value i being the sum at position i; score_position agrees.  All of this holds
//! whatever the buffer was used for before (another motif width, a sub-range): after a full scan
//! `max_index()`, `iter().len()`, `unstripe().len()` are exactly L+1-M and `scores[i]` is the sum at i.
use crate::out::*;
use crate::rng::Rng;
use crate::Cfg;
use generic_array::ArrayLength;
use lightmotif::abc::Alphabet;
use lightmotif::abc::Background;
use lightmotif::abc::Dna;
use lightmotif::abc::Protein;
use lightmotif::abc::Symbol;
use lightmotif::dense::DenseMatrix;
use lightmotif::dense::MatrixCoordinates;
use lightmotif::dense::MatrixElement;
use lightmotif::num::StrictlyPositive;
use lightmotif::num::Unsigned;
use lightmotif::num::{U16, U32};
use lightmotif::pli::verif;
use lightmotif::pli::Accumulate;
use lightmotif::pli::Pipeline;
use lightmotif::pli::Score;
use lightmotif::pli::Stripe;
use lightmotif::pwm::ScoringMatrix;
use lightmotif::scores::StripedScores;
use lightmotif::seq::StripedSequence;

pub trait Elem: MatrixElement + Accumulate + Copy + PartialEq + std::fmt::Debug + 'static {
    fn parse(tok: &str) -> Self;
    fn bits(self) -> usize;
    /// the defined score of one window, in scalar order (f32: left-to-right IEEE sum; u8: the sum,
    /// saturating at 255 like every backend's accumulation)
    fn window(terms: &[Self]) -> Option<Self>;
    /// `Err` when `got` is not an acceptable value for the exact sum of `terms`
    fn exact_ok(terms: &[Self], got: Self) -> Result<(), String>;
}

impl Elem for f32 {
    fn parse(tok: &str) -> Self {
        f32::from_bits(tok.parse::<u32>().unwrap())
    }
    fn bits(self) -> usize {
        self.to_bits() as usize
    }
    fn window(terms: &[f32]) -> Option<f32> {
        let mut s = 0.0f32;
        for &t in terms {
            s += t;
        }
        Some(s)
    }
    fn exact_ok(terms: &[f32], got: f32) -> Result<(), String> {
        let any_ninf = terms.iter().any(|&t| t == f32::NEG_INFINITY);
        if any_ninf {
            return if got == f32::NEG_INFINITY { Ok(()) } else { Err(format!("a term is -inf but the score is {:?}", got)) };
        }
        if got == f32::NEG_INFINITY {
            return Err("score is -inf although no term is".into());
        }
        let exact: f64 = terms.iter().map(|&t| t as f64).sum();
        let mag: f64 = terms.iter().map(|&t| (t as f64).abs()).sum();
        let bound = (terms.len() as f64) * (2f64).powi(-24) * mag * 1.0001 + 1e-44;
        if ((got as f64) - exact).abs() <= bound {
            Ok(())
        } else {
            Err(format!("score {:?} is not within {:e} of the exact sum {:?}", got, bound, exact))
        }
    }
}

impl Elem for u8 {
    fn parse(tok: &str) -> Self {
        tok.parse::<u8>().unwrap()
    }
    fn bits(self) -> usize {
        self as usize
    }
    fn window(terms: &[u8]) -> Option<u8> {
        let s: u32 = terms.iter().map(|&t| t as u32).sum();
        Some(s.min(255) as u8)
    }
    fn exact_ok(terms: &[u8], got: u8) -> Result<(), String> {
        let s: u32 = terms.iter().map(|&t| t as u32).sum();
        if s.min(255) == got as u32 {
            Ok(())
        } else {
            Err(format!("score {} is not the sum {}", got, s))
        }
    }
}

#[derive(Clone, Copy)]
enum Kind {
    Rows(usize, usize),
    Into,
    Full,
}

fn apply<T: Elem, A: Alphabet, C: StrictlyPositive + ArrayLength, P: Score<T, A, C>>(
    p: &P,
    kind: Kind,
    m: &DenseMatrix<T, A::K>,
    s: &StripedSequence<A, C>,
    buf: &mut StripedScores<T, C>,
) {
    match kind {
        Kind::Rows(a, b) => <P as Score<T, A, C>>::score_rows_into(p, m, s, a..b, buf),
        Kind::Into => <P as Score<T, A, C>>::score_into(p, m, s, buf),
        Kind::Full => *buf = <P as Score<T, A, C>>::score(p, m, s),
    }
}

/// which real pipeline object a `pipe` token stands for, per element type
trait Pipes<A: Alphabet, T: Elem> {
    fn run16(pipe: &str, kind: Kind, m: &DenseMatrix<T, A::K>, s: &StripedSequence<A, U16>, buf: &mut StripedScores<T, U16>);
    fn run32(pipe: &str, kind: Kind, m: &DenseMatrix<T, A::K>, s: &StripedSequence<A, U32>, buf: &mut StripedScores<T, U32>);
}

struct PF32;
impl<A: Alphabet> Pipes<A, f32> for PF32 {
    fn run16(pipe: &str, kind: Kind, m: &DenseMatrix<f32, A::K>, s: &StripedSequence<A, U16>, buf: &mut StripedScores<f32, U16>) {
        match pipe {
            "gen16" => apply(&Pipeline::<A, _>::generic(), kind, m, s, buf),
            "sse16" => apply(&Pipeline::<A, _>::sse2().unwrap(), kind, m, s, buf),
            _ => panic!("bad pipe {}", pipe),
        }
    }
    fn run32(pipe: &str, kind: Kind, m: &DenseMatrix<f32, A::K>, s: &StripedSequence<A, U32>, buf: &mut StripedScores<f32, U32>) {
        match pipe {
            "gen32" => apply(&Pipeline::<A, _>::generic(), kind, m, s, buf),
            "sse32" => apply(&Pipeline::<A, _>::sse2().unwrap(), kind, m, s, buf),
            "avx2" => apply(&Pipeline::<A, _>::avx2().unwrap(), kind, m, s, buf),
            d => {
                assert!(verif::force_backend(d.strip_prefix("disp-").unwrap()));
                apply(&Pipeline::<A, _>::dispatch(), kind, m, s, buf);
                verif::clear();
            }
        }
    }
}

struct PU8;
impl Pipes<Dna, u8> for PU8 {
    fn run16(pipe: &str, kind: Kind, m: &DenseMatrix<u8, <Dna as Alphabet>::K>, s: &StripedSequence<Dna, U16>, buf: &mut StripedScores<u8, U16>) {
        match pipe {
            "gen16" => apply(&Pipeline::<Dna, _>::generic(), kind, m, s, buf),
            "sse16" => apply(&Pipeline::<Dna, _>::sse2().unwrap(), kind, m, s, buf),
            _ => panic!("bad pipe {}", pipe),
        }
    }
    fn run32(pipe: &str, kind: Kind, m: &DenseMatrix<u8, <Dna as Alphabet>::K>, s: &StripedSequence<Dna, U32>, buf: &mut StripedScores<u8, U32>) {
        match pipe {
            "gen32" => apply(&Pipeline::<Dna, _>::generic(), kind, m, s, buf),
            "sse32" => apply(&Pipeline::<Dna, _>::sse2().unwrap(), kind, m, s, buf),
            "avx2" => apply(&Pipeline::<Dna, _>::avx2().unwrap(), kind, m, s, buf),
            d => {
                assert!(verif::force_backend(d.strip_prefix("disp-").unwrap()));
                apply(&Pipeline::<Dna, _>::dispatch(), kind, m, s, buf);
                verif::clear();
            }
        }
    }
}

struct Obs {
    text: String,
    rows: usize,
    max_index: usize,
    cells: Vec<usize>,
    unstriped: Vec<usize>,
    /// `iter().len()` (not part of the answer text: the model's `unstripe` IS `iter`)
    iter_len: usize,
    /// `scores[i]` for i in 0..min(max_index, rows*C), `None` when indexing panicked
    indexed: Option<Vec<usize>>,
    /// the other ways of reading the values out (`Vec::from(scores)`, `iter().rev()`, `iter().len()`
    /// while iterating from both ends) against `unstripe()`; checked on a share of the observations
    alt: Result<(), String>,
}

fn observe<T: Elem, C: StrictlyPositive + ArrayLength>(sc: &StripedScores<T, C>) -> Obs {
    let m = sc.matrix();
    let mut cells = Vec::with_capacity(m.rows() * C::USIZE);
    for r in 0..m.rows() {
        for c in 0..C::USIZE {
            cells.push(m[r][c].bits());
        }
    }
    let un: Vec<usize> = sc.unstripe().iter().map(|x| x.bits()).collect();
    let end = sc.max_index().min(m.rows() * C::USIZE);
    let idx = guarded(|| (0..end).map(|i| sc[i].bits()).collect::<Vec<usize>>());
    let indexed = idx.ok();
    let idxs = match &indexed {
        Some(v) => fnv_nats(v.iter().cloned()).to_string(),
        None => "X".to_string(),
    };
    let iter_len = sc.iter().len();
    let mut alt = Ok(());
    if un.len() <= 2048 || un.len() % 4 == 0 {
        let v: Vec<usize> = Vec::<T>::from(sc.clone()).iter().map(|x| x.bits()).collect();
        let mut rv: Vec<usize> = sc.iter().rev().map(|x| x.bits()).collect();
        rv.reverse();
        let mut it = sc.iter();
        let (front, back) = (it.next().map(|x| x.bits()), it.next_back().map(|x| x.bits()));
        if v != un {
            alt = Err(format!("Vec::from(scores) has {} values, unstripe() {} (or they differ)", v.len(), un.len()));
        } else if rv != un {
            alt = Err("iter().rev() is not unstripe() backwards".to_string());
        } else if un.len() >= 2 && (front != Some(un[0]) || back != Some(un[un.len() - 1]) || it.len() != un.len() - 2) {
            alt = Err("iter(): next() / next_back() / len() disagree with unstripe()".to_string());
        }
    }
    let off = if m.rows() == 0 { 0 } else { sc.offset(MatrixCoordinates::new(m.rows() - 1, C::USIZE - 1)) };
    let dump = if cells.len() <= 64 { format!(" [{}]", join(cells.iter())) } else { String::new() };
    Obs {
        text: format!("{} {} {} {} {} {} {}{}", m.rows(), sc.max_index(), fnv_nats(cells.iter().cloned()), un.len(), fnv_nats(un.iter().cloned()), idxs, off, dump),
        rows: m.rows(),
        max_index: sc.max_index(),
        cells,
        unstriped: un,
        iter_len,
        indexed,
        alt,
    }
}

/// the definition: terms of the window starting at position `p` (symbols past the end = wildcard)
fn terms<T: Elem>(mat: &[Vec<T>], syms: &[usize], n: usize, p: usize) -> Vec<T> {
    (0..mat.len()).map(|j| mat[j][if p + j < syms.len() { syms[p + j] } else { n }]).collect()
}

fn oracle_scan<T: Elem>(mat: &[Vec<T>], syms: &[usize], n: usize, c: usize, a: usize, b: usize, full: bool, o: &Obs) -> Result<(), String> {
    o.alt.clone()?;
    let (l, m) = (syms.len(), mat.len());
    let r = (l + c - 1) / c;
    if l < m || a >= b {
        if o.rows != 0 || o.max_index != 0 || !o.unstriped.is_empty() || o.iter_len != 0 {
            return Err(format!("L={} M={} rows {}..{}: expected no values, got {} rows, max_index {}, {} values, iter().len() {}", l, m, a, b, o.rows, o.max_index, o.unstriped.len(), o.iter_len));
        }
        return Ok(());
    }
    if o.rows != b - a {
        return Err(format!("{} result rows for the range {}..{}", o.rows, a, b));
    }
    if o.max_index != l + 1 - m {
        return Err(format!("max_index {} but L-M+1 = {}", o.max_index, l + 1 - m));
    }
    for k in 0..b - a {
        for col in 0..c {
            let p = col * r + a + k;
            let t = terms(mat, syms, n, p);
            let got = o.cells[k * c + col];
            if let Some(w) = T::window(&t) {
                if w.bits() != got {
                    return Err(format!("cell ({},{}) = position {}: bits {} but the scalar-order sum is {:?} (bits {})", k, col, p, got, w, w.bits()));
                }
                if p + m <= l {
                    T::exact_ok(&t, w).map_err(|e| format!("position {}: {}", p, e))?;
                }
            }
        }
    }
    if full {
        if o.unstriped.len() != l + 1 - m {
            return Err(format!("unstripe gives {} values, L-M+1 = {}", o.unstriped.len(), l + 1 - m));
        }
        if o.iter_len != l + 1 - m {
            return Err(format!("iter().len() = {}, L-M+1 = {}", o.iter_len, l + 1 - m));
        }
        match &o.indexed {
            None => return Err("scores[i] panics for some i < max_index".into()),
            Some(v) if v != &o.unstriped => return Err("scores[i] for i < max_index differ from unstripe()".into()),
            _ => {}
        }
        for i in 0..l + 1 - m {
            if let Some(w) = T::window(&terms(mat, syms, n, i)) {
                if w.bits() != o.unstriped[i] {
                    return Err(format!("unstriped value {} has bits {} but the scalar-order sum is {:?} (bits {})", i, o.unstriped[i], w, w.bits()));
                }
            }
        }
    }
    Ok(())
}

struct Outcome {
    answer: String,
    verdict: Result<(), String>,
    nontrivial: bool,
    panics: usize,
}

fn run_case<A: Alphabet, T: Elem, P: Pipes<A, T>>(t: &[&str]) -> Outcome {
    let k = A::K::USIZE;
    let n = A::default_symbol().as_index();
    let mut m: usize = t[0].parse().unwrap();
    let mut i = 1;
    let mut mat: Vec<Vec<T>> = (0..m).map(|r| (0..k).map(|c| T::parse(t[i + r * k + c])).collect()).collect();
    i += m * k;
    let cfg = t[i];
    let l: usize = t[i + 1].parse().unwrap();
    i += 2;
    let syms: Vec<usize> = t[i..i + l].iter().map(|x| x.parse().unwrap()).collect();
    i += l;
    let ops = &t[i..];

    let dense = |mat: &Vec<Vec<T>>| DenseMatrix::<T, A::K>::from_rows(mat.iter());
    // a scoring matrix of the same shape: `configure(&pssm)`, and the public f32 entry points
    let scoring = |mat: &Vec<Vec<T>>| {
        let fm = DenseMatrix::<f32, A::K>::from_rows(mat.iter().map(|row| row.iter().map(|x| f32::from_bits(x.bits() as u32)).collect::<Vec<f32>>()).collect::<Vec<_>>().iter());
        ScoringMatrix::<A>::new(Background::uniform(), fm)
    };
    let mut dm = dense(&mat);
    let mut spssm = scoring(&mat);
    let is_f32 = std::any::TypeId::of::<T>() == std::any::TypeId::of::<f32>();
    let symv: Vec<A::Symbol> = syms.iter().map(|&x| A::symbols()[x]).collect();
    let mut s16: StripedSequence<A, U16> = Pipeline::<A, _>::generic().stripe(&symv);
    let mut s32: StripedSequence<A, U32> = Pipeline::<A, _>::generic().stripe(&symv);
    let mut wrap = if cfg == "G" {
        s16.configure(&spssm);
        s32.configure(&spssm);
        m.saturating_sub(1)
    } else {
        let w: usize = cfg.parse().unwrap();
        s16.configure_wrap(w);
        s32.configure_wrap(w);
        w
    };
    let mut in_contract = m >= 1 && wrap >= m - 1;
    // the buffer of a first scoring: `empty()` and `default()`
    let mut b16 = StripedScores::<T, U16>::empty();
    let mut b32 = StripedScores::<T, U32>::default();
    let mut out = Vec::new();
    let mut verdict: Result<(), String> = Ok(());
    let mut nontrivial = false;
    let mut panics = 0;
    let mut j = 0;
    let mut nop = 0;
    while j < ops.len() {
        nop += 1;
        let op = ops[j];
        let mut fail = |e: String, verdict: &mut Result<(), String>| {
            if verdict.is_ok() {
                *verdict = Err(format!("op #{} ({}): {}", nop, op, e));
            }
        };
        match op {
            "R" | "I" | "F" | "S" => {
                let (pipe, kind, adv) = match op {
                    "R" => (ops[j + 1], Kind::Rows(ops[j + 2].parse().unwrap(), ops[j + 3].parse().unwrap()), 4),
                    "I" => (ops[j + 1], Kind::Into, 2),
                    "F" => (ops[j + 1], Kind::Full, 2),
                    _ => (ops[j + 1], Kind::Full, 2),
                };
                j += adv;
                let c = if pipe == "gen16" || pipe == "sse16" { 16 } else { 32 };
                let r = (l + c - 1) / c;
                let (a, b, full) = match kind {
                    Kind::Rows(a, b) => (a, b, a == 0 && b == r),
                    _ => (0, r, true),
                };
                let res = if op == "S" {
                    assert!(is_f32);
                    guarded(|| {
                        assert!(verif::force_backend(pipe));
                        let sc: StripedScores<f32, U32> = spssm.score(&s32);
                        verif::clear();
                        // T = f32 here; move the values over without naming the type
                        let mut tmp = StripedScores::<T, U32>::empty();
                        tmp.resize(sc.matrix().rows(), sc.max_index());
                        for rr in 0..sc.matrix().rows() {
                            for cc in 0..32 {
                                tmp.matrix_mut()[rr][cc] = T::parse(&sc.matrix()[rr][cc].to_bits().to_string());
                            }
                        }
                        b32 = tmp;
                        observe(&b32)
                    })
                } else if c == 16 {
                    guarded(|| {
                        P::run16(pipe, kind, &dm, &s16, &mut b16);
                        observe(&b16)
                    })
                } else {
                    guarded(|| {
                        P::run32(pipe, kind, &dm, &s32, &mut b32);
                        observe(&b32)
                    })
                };
                verif::clear();
                match res {
                    Ok(o) => {
                        if in_contract && b <= r {
                            if let Err(e) = oracle_scan(&mat, &syms, n, c, a, b, full, &o) {
                                fail(format!("{} {}: {}", pipe, c, e), &mut verdict);
                            }
                        }
                        if l >= m && o.cells.iter().any(|&x| x != o.cells[0]) {
                            nontrivial = true;
                        }
                        out.push(o.text);
                    }
                    Err(()) => {
                        panics += 1;
                        if c == 16 {
                            b16 = StripedScores::empty();
                        } else {
                            b32 = StripedScores::empty();
                        }
                        if in_contract && b <= r {
                            fail(format!("{}: panic on an in-contract call (M={}, wrap={}, rows {}..{} of {})", pipe, m, wrap, a, b, r), &mut verdict);
                        }
                        out.push("panic".to_string());
                    }
                }
            }
            "P" => {
                assert!(is_f32);
                let c: usize = ops[j + 1].parse().unwrap();
                let pos: usize = ops[j + 2].parse().unwrap();
                j += 3;
                let res = guarded(|| if c == 16 { spssm.score_position(&s16, pos) } else { spssm.score_position(&s32, pos) });
                match res {
                    Ok(v) => {
                        if m >= 1 && pos + m <= l {
                            let fmat: Vec<Vec<f32>> = mat.iter().map(|row| row.iter().map(|x| f32::from_bits(x.bits() as u32)).collect()).collect();
                            let w = f32::window(&terms(&fmat, &syms, n, pos)).unwrap();
                            if w.to_bits() != v.to_bits() {
                                fail(format!("score_position({}) = {:?} but the scalar-order sum is {:?}", pos, v, w), &mut verdict);
                            }
                        }
                        out.push(v.to_bits().to_string());
                    }
                    Err(()) => {
                        panics += 1;
                        if m >= 1 && pos + m <= l {
                            fail(format!("score_position({}) panics", pos), &mut verdict);
                        }
                        out.push("panic".to_string());
                    }
                }
            }
            "M" => {
                // another motif from here on: same sequence objects, same score buffers
                m = ops[j + 1].parse().unwrap();
                mat = (0..m).map(|r| (0..k).map(|c| T::parse(ops[j + 2 + r * k + c])).collect()).collect();
                j += 2 + m * k;
                dm = dense(&mat);
                spssm = scoring(&mat);
                if cfg == "G" {
                    s16.configure(&spssm);
                    s32.configure(&spssm);
                    wrap = wrap.max(m.saturating_sub(1));
                }
                in_contract = m >= 1 && wrap >= m - 1;
            }
            _ => panic!("bad op {}", op),
        }
    }
    Outcome { answer: out.join(" ; "), verdict, nontrivial, panics }
}

pub fn exec(line: &str) -> (String, Option<Result<(), String>>, bool, usize) {
    let t: Vec<&str> = line.split_whitespace().collect();
    assert_eq!(t[0], "c01");
    let r = guarded(|| match (t[1], t[2]) {
        ("dna", "f32") => run_case::<Dna, f32, PF32>(&t[3..]),
        ("protein", "f32") => run_case::<Protein, f32, PF32>(&t[3..]),
        ("dna", "u8") => run_case::<Dna, u8, PU8>(&t[3..]),
        _ => panic!("bad alphabet / element type"),
    });
    verif::clear();
    match r {
        Ok(o) => (o.answer, Some(o.verdict), o.nontrivial, o.panics),
        Err(()) => ("harness-panic".into(), Some(Err("the harness itself panicked on this case".into())), true, 1),
    }
}


// ------------------------------------------------------------------ ISA validation (DESIGN §3.3)
//
// case:   c01isa <intrinsic> <operands…>      executed on this CPU; the driver replays it through
//         LMV/Isa/Score.lean (+ Shuffle.lean); any difference is a broken tie.
//   shuf  <32 a> <32 mask>            _mm256_shuffle_epi8(a, mask)                      -> 32 bytes
//   bcast <16 a>                      _mm256_broadcastsi128_si256(a)                    -> 32 bytes
//   dword <32 a>                      the 8 little-endian 32-bit lanes of a             -> 8 u32
//   pvar  <8 t> <8 idx>               _mm256_permutevar8x32_ps(t, idx)                  -> 8 x f32 bits
//   p2f   <imm> <8 a> <8 b>           _mm256_permute2f128_ps(a, b, imm)                 -> 8 x f32 bits
//   gath  <n> <n mem> <base> <8 idx>  _mm256_i32gather_ps(mem + base, idx, 4)           -> 8 x f32 bits
//   unpk  <hi> <16 a> <16 b>          _mm_unpack{lo,hi}_epi8(a, b)                      -> 16 bytes
//   cmpand <4 a> <4 b> <4 x>          _mm_and_ps(x, cast(_mm_cmpeq_epi32(a, b)))        -> 4 x f32 bits
//   adds  <32 a> <32 b>               _mm256_adds_epu8(a, b)                            -> 32 bytes
//   addps <8 a> <8 b>                 _mm256_add_ps(a, b)                               -> 8 x f32 bits
mod isa {
    #[cfg(target_arch = "x86_64")]
    use std::arch::x86_64::*;

    pub const IMMS: [u32; 12] = [0x20, 0x31, 0x02, 0x13, 0x30, 0x21, 0x00, 0x33, 0x08, 0x80, 0x28, 0x12];

    #[target_feature(enable = "avx2")]
    unsafe fn p2f(a: __m256, b: __m256, imm: u32) -> __m256 {
        match imm {
            0x20 => _mm256_permute2f128_ps(a, b, 0x20),
            0x31 => _mm256_permute2f128_ps(a, b, 0x31),
            0x02 => _mm256_permute2f128_ps(a, b, 0x02),
            0x13 => _mm256_permute2f128_ps(a, b, 0x13),
            0x30 => _mm256_permute2f128_ps(a, b, 0x30),
            0x21 => _mm256_permute2f128_ps(a, b, 0x21),
            0x00 => _mm256_permute2f128_ps(a, b, 0x00),
            0x33 => _mm256_permute2f128_ps(a, b, 0x33),
            0x08 => _mm256_permute2f128_ps(a, b, 0x08),
            0x80 => _mm256_permute2f128_ps(a, b, 0x80),
            0x28 => _mm256_permute2f128_ps(a, b, 0x28),
            0x12 => _mm256_permute2f128_ps(a, b, 0x12),
            _ => panic!("immediate not in the validated set"),
        }
    }

    #[target_feature(enable = "avx2")]
    pub unsafe fn run(op: &str, v: &[u64]) -> Vec<u64> {
        let b32 = |x: &[u64]| -> [u8; 32] {
            let mut a = [0u8; 32];
            for i in 0..32 {
                a[i] = x[i] as u8;
            }
            a
        };
        let b16 = |x: &[u64]| -> [u8; 16] {
            let mut a = [0u8; 16];
            for i in 0..16 {
                a[i] = x[i] as u8;
            }
            a
        };
        let w8 = |x: &[u64]| -> [u32; 8] {
            let mut a = [0u32; 8];
            for i in 0..8 {
                a[i] = x[i] as u32;
            }
            a
        };
        let w4 = |x: &[u64]| -> [u32; 4] {
            let mut a = [0u32; 4];
            for i in 0..4 {
                a[i] = x[i] as u32;
            }
            a
        };
        let out32 = |r: __m256i| -> Vec<u64> {
            let mut o = [0u8; 32];
            _mm256_storeu_si256(o.as_mut_ptr() as *mut __m256i, r);
            o.iter().map(|&x| x as u64).collect()
        };
        let out8 = |r: __m256| -> Vec<u64> {
            let mut o = [0u32; 8];
            _mm256_storeu_ps(o.as_mut_ptr() as *mut f32, r);
            o.iter().map(|&x| x as u64).collect()
        };
        match op {
            "shuf" => {
                let (a, m) = (b32(&v[0..32]), b32(&v[32..64]));
                out32(_mm256_shuffle_epi8(_mm256_loadu_si256(a.as_ptr() as *const __m256i), _mm256_loadu_si256(m.as_ptr() as *const __m256i)))
            }
            "bcast" => {
                let a = b16(&v[0..16]);
                out32(_mm256_broadcastsi128_si256(_mm_loadu_si128(a.as_ptr() as *const __m128i)))
            }
            "dword" => {
                let a = b32(&v[0..32]);
                let mut o = [0u32; 8];
                _mm256_storeu_si256(o.as_mut_ptr() as *mut __m256i, _mm256_loadu_si256(a.as_ptr() as *const __m256i));
                o.iter().map(|&x| x as u64).collect()
            }
            "pvar" => {
                let (t, i) = (w8(&v[0..8]), w8(&v[8..16]));
                out8(_mm256_permutevar8x32_ps(_mm256_loadu_ps(t.as_ptr() as *const f32), _mm256_loadu_si256(i.as_ptr() as *const __m256i)))
            }
            "p2f" => {
                let (a, b) = (w8(&v[1..9]), w8(&v[9..17]));
                out8(p2f(_mm256_loadu_ps(a.as_ptr() as *const f32), _mm256_loadu_ps(b.as_ptr() as *const f32), v[0] as u32))
            }
            "gath" => {
                let n = v[0] as usize;
                let mem: Vec<u32> = v[1..1 + n].iter().map(|&x| x as u32).collect();
                let base = v[1 + n] as usize;
                let idx = w8(&v[2 + n..10 + n]);
                out8(_mm256_i32gather_ps::<4>((mem.as_ptr() as *const f32).add(base), _mm256_loadu_si256(idx.as_ptr() as *const __m256i)))
            }
            "unpk" => {
                let (a, b) = (b16(&v[1..17]), b16(&v[17..33]));
                let (ra, rb) = (_mm_loadu_si128(a.as_ptr() as *const __m128i), _mm_loadu_si128(b.as_ptr() as *const __m128i));
                let r = if v[0] == 1 { _mm_unpackhi_epi8(ra, rb) } else { _mm_unpacklo_epi8(ra, rb) };
                let mut o = [0u8; 16];
                _mm_storeu_si128(o.as_mut_ptr() as *mut __m128i, r);
                o.iter().map(|&x| x as u64).collect()
            }
            "cmpand" => {
                let (a, b, x) = (w4(&v[0..4]), w4(&v[4..8]), w4(&v[8..12]));
                let p = _mm_castsi128_ps(_mm_cmpeq_epi32(_mm_loadu_si128(a.as_ptr() as *const __m128i), _mm_loadu_si128(b.as_ptr() as *const __m128i)));
                let r = _mm_and_ps(_mm_loadu_ps(x.as_ptr() as *const f32), p);
                let mut o = [0u32; 4];
                _mm_storeu_ps(o.as_mut_ptr() as *mut f32, r);
                o.iter().map(|&x| x as u64).collect()
            }
            "adds" => {
                let (a, b) = (b32(&v[0..32]), b32(&v[32..64]));
                out32(_mm256_adds_epu8(_mm256_loadu_si256(a.as_ptr() as *const __m256i), _mm256_loadu_si256(b.as_ptr() as *const __m256i)))
            }
            "addps" => {
                let (a, b) = (w8(&v[0..8]), w8(&v[8..16]));
                out8(_mm256_add_ps(_mm256_loadu_ps(a.as_ptr() as *const f32), _mm256_loadu_ps(b.as_ptr() as *const f32)))
            }
            _ => panic!("bad isa op {}", op),
        }
    }
}

fn exec_isa(line: &str) -> String {
    let t: Vec<&str> = line.split_whitespace().collect();
    let v: Vec<u64> = t[2..].iter().map(|x| x.parse().unwrap()).collect();
    match guarded(|| unsafe { isa::run(t[1], &v) }) {
        Ok(o) => join(o.iter()),
        Err(()) => "panic".into(),
    }
}

/// the two facts about IEEE `f32` addition the theorems take as hypotheses, checked on the CPU's own
/// additions: `x + (+0.0) = x` bit for bit unless `x = -0.0` (law of the SSE2 theorem), and
/// `fl(x + y) = (x + y)(1 + d)`, `|d| <= 2^-24`, for finite operands and result (rounding lemma)
fn oracle_addps(line: &str, answer: &str) -> Result<(), String> {
    let v: Vec<u32> = line.split_whitespace().skip(2).map(|x| x.parse::<u64>().unwrap() as u32).collect();
    let r: Vec<u32> = answer.split_whitespace().map(|x| x.parse::<u64>().unwrap() as u32).collect();
    if r.len() != 8 {
        return Err("add_ps did not return 8 lanes".into());
    }
    for l in 0..8 {
        let (a, b, s) = (v[l], v[8 + l], r[l]);
        if b == 0 && a != 0x8000_0000 && s != a {
            return Err(format!("lane {}: {:#x} + (+0.0) = {:#x}", l, a, s));
        }
        let (fa, fb, fs) = (f32::from_bits(a) as f64, f32::from_bits(b) as f64, f32::from_bits(s) as f64);
        if fa.is_finite() && fb.is_finite() && fs.is_finite() {
            let exact = fa + fb;
            if (fs - exact).abs() > (2f64).powi(-24) * exact.abs() * 1.000001 {
                return Err(format!("lane {}: fl({:e} + {:e}) = {:e} is off by more than 2^-24 relative", l, fa, fb, fs));
            }
        }
    }
    Ok(())
}

fn f32_operand(rng: &mut Rng) -> u32 {
    match rng.below(8) {
        0 => f32::NEG_INFINITY.to_bits(),
        1 => 0,
        2 => (-0.0f32).to_bits(),
        3 => rng.below(1 << 23) as u32 + 1,
        4 => (((rng.f64() * 2.0 - 1.0) * 1.0e30) as f32).to_bits(),
        _ => ((rng.f64() * 40.0 - 30.0) as f32).to_bits(),
    }
}

fn generate_isa(cfg: &Cfg, rng: &mut Rng) -> Vec<String> {
    let mut cases = Vec::new();
    let n = (if cfg.thorough { 2000 } else { 120 }) * cfg.boost;
    let bytes = |rng: &mut Rng, k: usize, distinct: bool| -> Vec<u64> {
        if distinct {
            // an all-lanes-distinct labelling determines a data-independent rearrangement completely
            let off = rng.below(100);
            (0..k).map(|i| (off + i) as u64).collect()
        } else {
            (0..k).map(|_| rng.below(256) as u64).collect()
        }
    };
    for i in 0..n {
        let d = i % 2 == 0;
        // shuffle masks: plain indices, high-bit set, values >= 16 (only the low 4 bits count)
        let mask: Vec<u64> = (0..32).map(|_| match rng.below(4) { 0 => rng.below(16) as u64, 1 => 128 + rng.below(128) as u64, _ => rng.below(256) as u64 }).collect();
        cases.push(format!("c01isa shuf {} {}", join(bytes(rng, 32, d).iter()), join(mask.iter())));
        cases.push(format!("c01isa bcast {}", join(bytes(rng, 16, d).iter())));
        cases.push(format!("c01isa dword {}", join(bytes(rng, 32, false).iter())));
        let t: Vec<u64> = (0..8).map(|_| f32_operand(rng) as u64).collect();
        let idx: Vec<u64> = (0..8).map(|_| if rng.chance(1, 2) { rng.below(8) as u64 } else { rng.next() & 0xFFFF_FFFF }).collect();
        cases.push(format!("c01isa pvar {} {}", join(t.iter()), join(idx.iter())));
        let a: Vec<u64> = (0..8).map(|k| if d { 100 + k as u64 } else { f32_operand(rng) as u64 }).collect();
        let b: Vec<u64> = (0..8).map(|k| if d { 200 + k as u64 } else { f32_operand(rng) as u64 }).collect();
        cases.push(format!("c01isa p2f {} {} {}", isa::IMMS[i % isa::IMMS.len()], join(a.iter()), join(b.iter())));
        // gather: a table of n floats, base somewhere inside, offsets (also negative) staying inside
        let nmem = rng.range(1, 64);
        let mem: Vec<u64> = (0..nmem).map(|k| if d { 1000 + k as u64 } else { f32_operand(rng) as u64 }).collect();
        let base = rng.below(nmem);
        let gidx: Vec<u64> = (0..8).map(|_| (rng.below(nmem) as i64 - base as i64) as i32 as u32 as u64).collect();
        cases.push(format!("c01isa gath {} {} {} {}", nmem, join(mem.iter()), base, join(gidx.iter())));
        cases.push(format!("c01isa unpk {} {} {}", i % 2, join(bytes(rng, 16, true).iter()), join((0..16).map(|k| 150 + k as u64)).as_str()));
        let ca: Vec<u64> = (0..4).map(|_| rng.below(4) as u64).collect();
        let cb: Vec<u64> = (0..4).map(|_| rng.below(4) as u64).collect();
        let cx: Vec<u64> = (0..4).map(|_| f32_operand(rng) as u64).collect();
        cases.push(format!("c01isa cmpand {} {} {}", join(ca.iter()), join(cb.iter()), join(cx.iter())));
        cases.push(format!("c01isa adds {} {}", join(bytes(rng, 32, false).iter()), join(bytes(rng, 32, false).iter())));
        let pa: Vec<u64> = (0..8).map(|_| f32_operand(rng) as u64).collect();
        let pb: Vec<u64> = (0..8).map(|_| if rng.chance(1, 4) { 0 } else { f32_operand(rng) as u64 }).collect();
        cases.push(format!("c01isa addps {} {}", join(pa.iter()), join(pb.iter())));
    }
    cases
}

// ------------------------------------------------------------------------------------ generators

fn seq(rng: &mut Rng, k: usize, n: usize) -> String {
    let mode = rng.below(4);
    let v: Vec<usize> = (0..n)
        .map(|i| match mode {
            0 => rng.below(k),
            1 => rng.below(k - 1),
            2 => (i * 7 + i / 32) % k,
            _ => {
                if rng.chance(1, 10) {
                    k - 1
                } else {
                    rng.below(k - 1)
                }
            }
        })
        .collect();
    format!("{} {}", n, join(v.iter()))
}

/// an f32 PSSM: finite entries of several kinds, some -inf, wildcard column -inf / 0 / finite
fn matrix_f32(rng: &mut Rng, k: usize, m: usize) -> String {
    let style = rng.below(6);
    let wild = rng.below(3);
    let mut v = Vec::with_capacity(m * k);
    for _ in 0..m {
        for c in 0..k {
            let x: f32 = if c == k - 1 && wild == 0 {
                f32::NEG_INFINITY
            } else if c == k - 1 && wild == 1 {
                0.0
            } else {
                match style {
                    // log-odds like values with full mantissas
                    0 | 1 => (rng.f64() * 12.0 - 10.0) as f32,
                    // small integers and halves: every sum exact
                    2 => (rng.below(41) as f32 - 20.0) * 0.5,
                    // mixed magnitudes: cancellation and absorption make the order of summation visible
                    3 => {
                        let e = rng.below(60) as i32 - 30;
                        ((rng.f64() * 2.0 - 1.0) * (2f64).powi(e)) as f32
                    }
                    // specials: -0.0, subnormals, huge (no overflow: 40 * 1e30 < f32::MAX)
                    4 => match rng.below(8) {
                        0 => -0.0,
                        1 => 0.0,
                        2 => f32::from_bits(rng.below(1 << 22) as u32 + 1),
                        3 => -f32::from_bits(rng.below(1 << 22) as u32 + 1),
                        4 => 1.0e30,
                        5 => -1.0e30,
                        _ => (rng.f64() * 4.0 - 2.0) as f32,
                    },
                    // -inf sprinkled among finite entries
                    _ => {
                        if rng.chance(1, 6) {
                            f32::NEG_INFINITY
                        } else {
                            (rng.f64() * 8.0 - 6.0) as f32
                        }
                    }
                }
            };
            v.push(x.to_bits());
        }
    }
    join(v.iter())
}

/// a u8 matrix; two times out of three the window sums stay below 256 (row maxima sum to at most
/// 255), otherwise they may exceed it and every backend must saturate at 255
fn matrix_u8(rng: &mut Rng, k: usize, m: usize) -> String {
    if rng.chance(1, 3) {
        let hi = *rng.pick(&[255usize, 255, 128, 64, 300 / m.max(1) + 1]);
        let v: Vec<usize> = (0..m * k).map(|_| if rng.chance(1, 4) { hi.min(255) } else { rng.range(0, hi.min(255)) }).collect();
        return join(v.iter());
    }
    let mut budget = 255usize;
    let mut caps = vec![0usize; m];
    for j in 0..m {
        let fair = budget / (m - j);
        let cap = if rng.chance(1, 3) { rng.range(0, budget.min(2 * fair + 1)) } else { rng.range(0, fair) };
        caps[j] = cap;
        budget -= cap;
    }
    // shuffle the caps so that big rows are anywhere
    for j in (1..m).rev() {
        let o = rng.below(j + 1);
        caps.swap(j, o);
    }
    let mut v = Vec::with_capacity(m * k);
    for j in 0..m {
        for _ in 0..k {
            v.push(if rng.chance(1, 3) { caps[j] } else { rng.range(0, caps[j]) });
        }
    }
    join(v.iter())
}

fn lengths(thorough: bool) -> Vec<usize> {
    let mut v: Vec<usize> = (0..=70).collect();
    v.extend(992..=1056);
    for base in [32 * 32usize, 32 * 256, 16 * 256] {
        for d in [0usize, 1, 2, 15, 16, 17, 30, 31, 32, 33, 34] {
            if thorough || d % 15 <= 2 {
                v.push(base - 17 + d);
            }
        }
    }
    if thorough {
        v.extend(2016..=2080);
        v.extend((8192 - 40)..=(8192 + 40));
        for base in [32 * 1024usize, 65536] {
            for d in [0usize, 1, 31, 32, 33] {
                v.push(base - 32 + d);
            }
        }
    }
    v
}

const PIPES_F32: [&str; 8] = ["gen16", "gen32", "sse16", "sse32", "avx2", "disp-generic", "disp-sse2", "disp-avx2"];
const PIPES_U8: [&str; 6] = ["gen16", "gen32", "avx2", "disp-generic", "disp-sse2", "disp-avx2"];

fn sub_range(rng: &mut Rng, r: usize) -> (usize, usize) {
    match rng.below(8) {
        0 => {
            let a = rng.range(0, r);
            (a, a) // empty
        }
        1 => (rng.range(0, r), 0), // reversed = empty
        2 => (r.saturating_sub(1), r), // the last row
        3 => (rng.range(0, r), r), // a range at the end
        4 => (0, rng.range(0, r)), // a range at the start
        _ => {
            let a = rng.range(0, r);
            (a, rng.range(a, r))
        }
    }
}

fn case_line(rng: &mut Rng, alpha: &str, k: usize, ty: &str, m: usize, l: usize, rich: bool) -> String {
    let mat = if ty == "f32" { matrix_f32(rng, k, m) } else { matrix_u8(rng, k, m) };
    let cfg = if rng.chance(1, 5) { (m - 1 + rng.range(0, 40)).to_string() } else { "G".to_string() };
    let mut line = format!("c01 {} {} {} {} {} {}", alpha, ty, m, mat, cfg, seq(rng, k, l));
    let pipes: &[&str] = if ty == "f32" { &PIPES_F32 } else { &PIPES_U8 };
    // a full scan by every pipeline (the same input through every backend, arm and lane count) …
    for p in pipes {
        if rich || rng.chance(2, 3) {
            line.push_str(&format!(" {} {}", if rng.chance(1, 2) { "F" } else { "I" }, p));
        }
    }
    // … then sub-ranges on the reused buffers (grow and shrink), and the public entry points
    let nsub = if rich { 10 } else { 4 };
    for _ in 0..nsub {
        let p = *rng.pick(pipes);
        let c = if p.ends_with("16") { 16 } else { 32 };
        let r = (l + c - 1) / c;
        let (a, b) = sub_range(rng, r);
        line.push_str(&format!(" R {} {} {}", p, a, b));
        if rng.chance(1, 4) {
            line.push_str(&format!(" I {}", p));
        }
    }
    if ty == "f32" {
        for arm in ["generic", "sse2", "avx2"] {
            if rich || rng.chance(1, 2) {
                line.push_str(&format!(" S {}", arm));
            }
        }
        if l >= m {
            for c in [16, 32] {
                let last = l - m;
                for pos in [0, last, rng.range(0, last), rng.range(0, last)] {
                    line.push_str(&format!(" P {} {}", c, pos));
                }
            }
        }
    }
    line
}

/// reuse histories: one sequence, two or three motifs of different widths scored one after the other
/// into the SAME buffer by the same pipeline (same number of score rows, different L-M+1), a
/// sub-range after a full scan, equal-sized sub-ranges under two motifs, and a full scan again
fn reuse_line(rng: &mut Rng, alpha: &str, k: usize, ty: &str, l: usize, all_pipes: bool) -> String {
    let matrix = |rng: &mut Rng, m: usize| if ty == "f32" { matrix_f32(rng, k, m) } else { matrix_u8(rng, k, m) };
    let cap = if l > 4000 { if k > 8 { 3 } else { 6 } } else { 24 };
    let nm = rng.range(2, 3);
    let mut ms: Vec<usize> = Vec::new();
    while ms.len() < nm {
        // mostly L >= M (same row count, different max_index); now and then L < M in the middle
        let hi = if rng.chance(1, 8) { cap } else { cap.min(l.max(1)) };
        let m = rng.range(1, hi);
        if !ms.contains(&m) || hi < 3 {
            ms.push(m);
        }
    }
    let wmax = ms.iter().max().unwrap() - 1;
    let cfg = if rng.chance(1, 3) { (wmax + rng.range(0, 3)).to_string() } else { "G".to_string() };
    let mut line = format!("c01 {} {} {} {} {} {}", alpha, ty, ms[0], matrix(rng, ms[0]), cfg, seq(rng, k, l));
    let pipes: &[&str] = if ty == "f32" { &PIPES_F32 } else { &PIPES_U8 };
    let chosen: Vec<&str> = if all_pipes { pipes.to_vec() } else { (0..3).map(|_| *rng.pick(pipes)).collect() };
    let full = |rng: &mut Rng, line: &mut String| {
        for p in &chosen {
            // score_into mostly (F replaces the buffer by a fresh one)
            line.push_str(&format!(" {} {}", if rng.chance(1, 6) { "F" } else { "I" }, p));
        }
    };
    full(rng, &mut line);
    for (n, &m) in ms.iter().enumerate().skip(1) {
        // a sub-range after the full scan, then the same number of rows under the next motif
        let sub: Vec<(&str, usize, usize)> = chosen
            .iter()
            .map(|p| {
                let c = if p.ends_with("16") { 16 } else { 32 };
                let (a, b) = sub_range(rng, (l + c - 1) / c);
                (*p, a, b)
            })
            .collect();
        let with_sub = rng.chance(1, 2);
        if with_sub {
            for (p, a, b) in &sub {
                line.push_str(&format!(" R {} {} {}", p, a, b));
            }
            if rng.chance(1, 2) {
                full(rng, &mut line);
            }
        }
        line.push_str(&format!(" M {} {}", m, matrix(rng, m)));
        if with_sub && rng.chance(1, 2) {
            for (p, a, b) in &sub {
                let c = if p.ends_with("16") { 16 } else { 32 };
                let r = (l + c - 1) / c;
                // same number of rows, elsewhere
                let n = b.saturating_sub(*a);
                let a2 = rng.range(0, r - n.min(r));
                line.push_str(&format!(" R {} {} {}", p, a2, a2 + n));
            }
        }
        full(rng, &mut line);
        if ty == "f32" && n + 1 == ms.len() && l >= m {
            line.push_str(&format!(" S {} P 16 {} P 32 {}", *rng.pick(&["generic", "sse2", "avx2"]), rng.range(0, l - m), l - m));
        }
    }
    line
}

/// calls outside the contract, where panic / no panic is what is compared: too few wrap rows, empty
/// motif, ranges past the sequence rows
fn edge_line(rng: &mut Rng, alpha: &str, k: usize, ty: &str) -> String {
    let m = rng.range(0, 6);
    let l = rng.range(0, 140);
    let mat = if ty == "f32" { matrix_f32(rng, k, m) } else if m == 0 { String::new() } else { matrix_u8(rng, k, m) };
    let w = rng.range(0, 5);
    let mut line = format!("c01 {} {} {} {} {} {}", alpha, ty, m, mat, w, seq(rng, k, l));
    let line0 = line.clone();
    let pipes: &[&str] = if ty == "f32" { &PIPES_F32 } else { &PIPES_U8 };
    for _ in 0..6 {
        let p = *rng.pick(pipes);
        let c = if p.ends_with("16") { 16 } else { 32 };
        let r = (l + c - 1) / c;
        let simd = !(p.starts_with("gen") || p == "disp-generic" || (ty == "u8" && p == "disp-sse2"));
        let enough = m >= 1 && w >= m - 1;
        let _ = (simd, enough);
        // any range, also past the sequence rows and past the matrix: the generic code panics on its
        // row index, the SIMD wrappers on their explicit row-range check
        if rng.chance(1, 3) {
            let (a, b) = sub_range(rng, r);
            line.push_str(&format!(" R {} {} {}", p, a, b));
        } else {
            line.push_str(&format!(" R {} {} {}", p, rng.range(0, r + 2), rng.range(0, r + w + 3)));
        }
        if rng.chance(1, 3) {
            line.push_str(&format!(" F {}", p));
        }
    }
    if ty == "f32" && l > 0 {
        line.push_str(&format!(" P 32 {} P 16 {}", rng.range(0, l + 2), rng.range(0, l - 1)));
    }
    let _ = line0;
    line
}

pub fn generate(cfg: &Cfg) -> Vec<String> {
    let mut rng = Rng::new(cfg.seed ^ 0xC01);
    let mut cases = Vec::new();
    let kinds: [(&str, usize, &str); 3] = [("dna", 5, "f32"), ("protein", 21, "f32"), ("dna", 5, "u8")];
    for (ki, &(alpha, k, ty)) in kinds.iter().enumerate() {
        // boundary stream: the length grid x motif widths
        for (li, &l) in lengths(cfg.thorough).iter().enumerate() {
            let reps = if cfg.thorough { 2 } else { 1 };
            for rep in 0..reps {
                // widths: small ones often, up to 40; L < M, L = M, L = M + 1 near the short lengths
                let m = match (li + rep + ki) % 6 {
                    0 => 1,
                    1 => rng.range(1, 40),
                    2 => if l >= 1 && l <= 42 { l.min(40) } else { rng.range(2, 12) },
                    3 => if l <= 39 { l + 1 } else { rng.range(1, 40) },
                    4 => rng.range(12, 40),
                    _ => rng.range(1, 8),
                };
                // keep the big sequences cheap for the model
                let m = if l > 4000 { m.min(if k > 8 { 3 } else { 6 }) } else { m };
                if !cfg.thorough && l > 80 && (li + ki) % 3 != 0 {
                    continue;
                }
                cases.push(case_line(&mut rng, alpha, k, ty, m, l, l <= 80));
            }
        }
        // random stream
        let count = (if cfg.thorough { 900 } else { 110 }) * cfg.boost;
        for n in 0..count {
            let l = if n % 40 == 39 {
                rng.range(2000, if cfg.thorough { 70_000 } else { 9_000 })
            } else if rng.chance(1, 3) {
                *rng.pick(&lengths(false))
            } else {
                rng.range(0, 400)
            };
            let m = if l > 4000 { rng.range(1, if k > 8 { 3 } else { 6 }) } else if rng.chance(1, 4) { rng.range(1, 40) } else { rng.range(1, 16) };
            cases.push(case_line(&mut rng, alpha, k, ty, m, l, false));
        }
        // reuse stream: several motifs, one buffer (its own random state: the other streams are
        // what they were before this one existed)
        let mut rrng = Rng::new(cfg.seed ^ (0xC01_0100 + ki as u64));
        for (li, &l) in lengths(cfg.thorough).iter().enumerate() {
            if l == 0 || (!cfg.thorough && l > 80 && (li + ki) % 5 != 0) {
                continue;
            }
            cases.push(reuse_line(&mut rrng, alpha, k, ty, l, l <= 80 && li % 2 == 0));
        }
        let count = (if cfg.thorough { 300 } else { 40 }) * cfg.boost;
        for n in 0..count {
            let l = if n % 40 == 39 { rrng.range(2000, if cfg.thorough { 70_000 } else { 9_000 }) } else { rrng.range(1, 400) };
            cases.push(reuse_line(&mut rrng, alpha, k, ty, l, false));
        }
        // out-of-contract stream
        let count = (if cfg.thorough { 400 } else { 60 }) * cfg.boost;
        for _ in 0..count {
            cases.push(edge_line(&mut rng, alpha, k, ty));
        }
    }
    // the intrinsic semantics of LMV/Isa/Score.lean against this CPU
    cases.extend(generate_isa(cfg, &mut rng));
    cases
}

pub fn run(cfg: &Cfg) {
    let cases = crate::replay_cases(cfg).unwrap_or_else(|| generate(cfg));
    let mut out = Out::new(&cfg.out);
    for c in &cases {
        out.announce(c);
        if c.starts_with("c01isa ") {
            let ans = exec_isa(c);
            let op = c.split_whitespace().nth(1).unwrap_or("");
            out.stat(&format!("isa/{}", op));
            let o = if op == "addps" { Some(oracle_addps(c, &ans)) } else { None };
            out.case(c, &ans, o, false);
            continue;
        }
        let (ans, o, nt, panics) = exec(c);
        let t: Vec<&str> = c.split_whitespace().collect();
        out.stat(&format!("{}/{}", t[1], t[2]));
        let m: usize = t[3].parse().unwrap_or(0);
        out.stat(&format!("M/{}", if m == 0 { "0" } else if m == 1 { "1" } else if m <= 8 { "2-8" } else if m <= 20 { "9-20" } else { "21-40" }));
        let k = if t[1] == "dna" { 5 } else { 21 };
        let cfgw = t.get(4 + m * k).copied().unwrap_or("");
        out.stat(if cfgw == "G" { "wrap/configure" } else { "wrap/explicit" });
        let l: usize = t.get(5 + m * k).and_then(|x| x.parse().ok()).unwrap_or(0);
        out.stat(&format!("L/{}", if l < m { "<M" } else if l == m { "=M" } else if l <= 64 { "<=64" } else if l <= 1100 { "<=1100" } else if l <= 9000 { "<=9000" } else { ">9000" }));
        out.stat(&format!("Lmod32/{}", l % 32));
        for p in PIPES_F32 {
            let n = c.matches(&format!(" {} ", p)).count() + if c.ends_with(&format!(" {}", p)) { 1 } else { 0 };
            if n > 0 {
                *out.stats.entry(format!("calls/{}", p)).or_insert(0) += n as u64;
            }
        }
        for (tok, name) in [(" R ", "op/score_rows_into"), (" I ", "op/score_into"), (" F ", "op/score"), (" S ", "op/ScoringMatrix::score"), (" P ", "op/score_position")] {
            let n = c.matches(tok).count();
            if n > 0 {
                *out.stats.entry(name.to_string()).or_insert(0) += n as u64;
            }
        }
        let nsw = c.matches(" M ").count();
        if nsw > 0 {
            out.stat("reuse/motif-switch cases");
            *out.stats.entry("op/motif-switch".to_string()).or_insert(0) += nsw as u64;
        }
        out.panics += panics;
        out.case(c, &ans, o, nt);
    }
    out.finish(&cfg.out);
}
