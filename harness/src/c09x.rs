//! C09, alternative entry points: conversions reached through trait impls rather than the main
//! pipeline — `WeightMatrix::from(ScoringMatrix)` (weights = 2^score, 0 where the score is -inf),
//! `ScoringMatrix::from(WeightMatrix)` (= to_scoring), `CountMatrix` through `FromIterator`.
//!
//! case:   c09pow <dna|protein> <rows> <rows*K f32 bits>        answer: <rows*K f32 bits of the weights> | <bits of the scores obtained back through ScoringMatrix::from>
//!         c09collect <dna|protein> <n> (<len> <syms…>)…        answer: ok <n> <rows> <counts…> | err
use crate::out::*;
use crate::rng::Rng;
use crate::Cfg;
use lightmotif::abc::{Alphabet, Background, Dna, Protein, Symbol};
use lightmotif::dense::DenseMatrix;
use lightmotif::err::InvalidData;
use lightmotif::num::Unsigned;
use lightmotif::pwm::{CountMatrix, ScoringMatrix, WeightMatrix};
use lightmotif::seq::EncodedSequence;

fn pow_case<A: Alphabet>(t: &[&str]) -> (String, Result<(), String>) {
    let k = A::K::USIZE;
    let rows: usize = t[2].parse().unwrap();
    let bits: Vec<u32> = t[3..3 + rows * k].iter().map(|x| x.parse().unwrap()).collect();
    let mut data = DenseMatrix::<f32, A::K>::new(rows);
    for i in 0..rows {
        for j in 0..k {
            data[i][j] = f32::from_bits(bits[i * k + j]);
        }
    }
    let pssm = ScoringMatrix::<A>::new(Background::uniform(), data);
    let w = WeightMatrix::<A>::from(pssm.clone());
    let back = ScoringMatrix::<A>::from(w.clone());
    let mut out_w = Vec::new();
    let mut out_b = Vec::new();
    let mut verdict = Ok(());
    for i in 0..rows {
        for j in 0..k {
            let s = pssm.matrix()[i][j];
            let x = w.matrix()[i][j];
            out_w.push(x.to_bits());
            out_b.push(back.matrix()[i][j].to_bits());
            // weight = base^score with base 2 (the inverse of the log-odds conversion); 0 exactly
            // where the score is -inf
            let want = (s as f64).exp2();
            let ok = if s == f32::NEG_INFINITY {
                x == 0.0
            } else if want > f32::MAX as f64 {
                x == f32::INFINITY
            } else {
                ((x as f64) - want).abs() <= 1e-6 * want.max(f32::MIN_POSITIVE as f64)
            };
            if !ok && verdict.is_ok() {
                verdict = Err(format!("weight[{}][{}] = {:e} but 2^score = {:e} (score {:e})", i, j, x, want, s));
            }
            // and back: log2 of the weight is the score again (−inf where the weight is 0)
            let b = back.matrix()[i][j];
            let okb = if s == f32::NEG_INFINITY { b == f32::NEG_INFINITY } else if x == 0.0 || x.is_infinite() { true } else { (b - s).abs() <= 1e-4 * (1.0 + s.abs()) };
            if !okb && verdict.is_ok() {
                verdict = Err(format!("score[{}][{}] = {:e} came back as {:e}", i, j, s, b));
            }
        }
    }
    (format!("{} | {}", join(out_w.iter()), join(out_b.iter())), verdict)
}

fn collect_case<A: Alphabet>(t: &[&str]) -> (String, Result<(), String>) {
    let n: usize = t[2].parse().unwrap();
    let mut seqs: Vec<Vec<usize>> = Vec::new();
    let mut k = 3;
    for _ in 0..n {
        let l: usize = t[k].parse().unwrap();
        seqs.push(t[k + 1..k + 1 + l].iter().map(|x| x.parse().unwrap()).collect());
        k += 1 + l;
    }
    let enc = seqs.iter().map(|q| EncodedSequence::<A>::new(q.iter().map(|&i| A::symbols()[i]).collect()));
    let r: Result<CountMatrix<A>, InvalidData> = enc.collect();
    let equal = seqs.windows(2).all(|w| w[0].len() == w[1].len());
    match r {
        Err(_) => ("err".into(), if equal { Err("equal-length sequences rejected by collect()".into()) } else { Ok(()) }),
        Ok(cm) => {
            let kk = A::K::USIZE;
            let mut cells = Vec::new();
            let mut verdict = if equal { Ok(()) } else { Err("sequences of unequal lengths accepted by collect()".to_string()) };
            for i in 0..cm.matrix().rows() {
                for a in 0..kk {
                    let c = cm.matrix()[i][a];
                    cells.push(c);
                    let want = seqs.iter().filter(|q| q.get(i) == Some(&a)).count() as u32;
                    if equal && c != want && verdict.is_ok() {
                        verdict = Err(format!("count[{}][{}] = {} but {} sequences have that symbol there", i, a, c, want));
                    }
                }
            }
            let _ = Symbol::as_index(&A::symbols()[0]);
            (format!("ok {} {} {}", cm.sequence_count(), cm.matrix().rows(), join(cells.iter())), verdict)
        }
    }
}

pub fn exec(line: &str) -> (String, Option<Result<(), String>>, bool) {
    let t: Vec<&str> = line.split_whitespace().collect();
    let r = guarded(|| match (t[0], t[1]) {
        ("c09pow", "dna") => pow_case::<Dna>(&t),
        ("c09pow", _) => pow_case::<Protein>(&t),
        ("c09collect", "dna") => collect_case::<Dna>(&t),
        (_, _) => collect_case::<Protein>(&t),
    });
    match r {
        Ok((a, v)) => (a, Some(v), true),
        Err(()) => ("panic".into(), Some(Err("panic".into())), true),
    }
}

pub fn generate(cfg: &Cfg) -> Vec<String> {
    let mut rng = Rng::new(cfg.seed ^ 0xC09A);
    let mut cases = Vec::new();
    let count = (if cfg.thorough { 600 } else { 60 }) * cfg.boost;
    for alpha in ["dna", "protein"] {
        let k = if alpha == "dna" { 5 } else { 21 };
        for _ in 0..count {
            let rows = rng.range(1, 6);
            let mut line = format!("c09pow {} {}", alpha, rows);
            for _ in 0..rows * k {
                let v: f32 = match rng.below(10) {
                    0 => f32::NEG_INFINITY,
                    1 => 0.0,
                    2 => -(rng.below(160) as f32),          // down to 2^-159: subnormal weights
                    3 => rng.below(130) as f32,             // up to overflow
                    _ => (rng.below(4000) as f32 - 3000.0) / 256.0,
                };
                line.push_str(&format!(" {}", v.to_bits()));
            }
            cases.push(line);
        }
        for _ in 0..count {
            let n = rng.range(0, 5);
            let l0 = rng.range(0, 6);
            let mut line = format!("c09collect {} {}", alpha, n);
            let bad = rng.chance(1, 2);
            for i in 0..n {
                // shorter / longer later sequences, empty first sequence, all equal
                let l = if bad && i > 0 && rng.chance(1, 2) { if rng.chance(1, 2) { l0.saturating_sub(rng.range(1, 2)) } else { l0 + rng.range(1, 2) } } else { l0 };
                line.push_str(&format!(" {}", l));
                for _ in 0..l {
                    line.push_str(&format!(" {}", rng.below(k)));
                }
            }
            cases.push(line);
        }
    }
    cases
}

pub fn run(cfg: &Cfg) {
    let cases = crate::replay_cases(cfg).unwrap_or_else(|| generate(cfg));
    let mut out = Out::new(&cfg.out);
    for c in &cases {
        out.announce(c);
        let (ans, o, nt) = exec(c);
        out.stat(c.split(' ').next().unwrap());
        out.case(c, &ans, o, nt);
    }
    out.finish(&cfg.out);
}
