//! C19 — dense matrix storage keeps rows aligned and contents intact across operations.
//!
//! case:   c19 <u8|u32|f32|i64|nuc> <C> <op>…   (nuc = lightmotif's Nucleotide: default value N = 4, not the zero pattern)
//!         extra op: clonefrom r v  (m.clone_from(&b), b = new(r) filled with v)       ops: new r | cap r c | resize n | fill v | cell i j v |
//!                                               row i n v… | fromrows nr (n v…)… | itermut v (row k gets v + k%2 in column 0) | itermutrev v (same through iter_mut().rev()) | clone
//!         c19layout <C> <size> <align>          (the element type is chosen by size: 1,4,8)
//! answer: after every op "<rows> <hash cells in iter() order> <hash cells in iter().rev() order>[ [cells]]"
//!         (prefixed by "panic " when the call panicked), joined by " ; ";
//!         layout: "<stride> <row address mod align for rows 0..3>"
//! Cells cross the protocol as bit patterns (u64).
use crate::out::*;
use crate::rng::Rng;
use crate::Cfg;
use generic_array::ArrayLength;
use lightmotif::dense::DenseMatrix;
use lightmotif::dense::MatrixCoordinates;
use lightmotif::dense::MatrixElement;
use lightmotif::num::{U1, U16, U21, U32, U43, U5, U7};

trait Bits: MatrixElement + PartialEq + std::fmt::Debug {
    fn from_bits(b: u64) -> Self;
    fn bits(self) -> u64;
}
impl Bits for u8 {
    fn from_bits(b: u64) -> Self {
        b as u8
    }
    fn bits(self) -> u64 {
        self as u64
    }
}
impl Bits for u32 {
    fn from_bits(b: u64) -> Self {
        b as u32
    }
    fn bits(self) -> u64 {
        self as u64
    }
}
impl Bits for f32 {
    fn from_bits(b: u64) -> Self {
        f32::from_bits(b as u32)
    }
    fn bits(self) -> u64 {
        self.to_bits() as u64
    }
}
impl Bits for lightmotif::abc::Nucleotide {
    // an element type whose `Default` (the wildcard N = 4) is NOT the all-zero bit pattern
    fn from_bits(b: u64) -> Self {
        use lightmotif::abc::Alphabet;
        lightmotif::abc::Dna::symbols()[(b % 5) as usize]
    }
    fn bits(self) -> u64 {
        use lightmotif::abc::Symbol;
        self.as_index() as u64
    }
}
impl Bits for i64 {
    fn from_bits(b: u64) -> Self {
        b as i64
    }
    fn bits(self) -> u64 {
        self as u64
    }
}

fn observe<T: Bits, C: ArrayLength>(m: &DenseMatrix<T, C>) -> String {
    let mut cells = Vec::new();
    for row in m.iter() {
        for x in row {
            cells.push(x.bits() as usize);
        }
    }
    let mut rev = Vec::new();
    for row in m.iter().rev() {
        for x in row {
            rev.push(x.bits() as usize);
        }
    }
    let dump = if cells.len() <= 64 { format!(" [{}]", join(cells.iter())) } else { String::new() };
    format!("{} {} {}{}", m.rows(), fnv_nats(cells.iter().cloned()), fnv_nats(rev.iter().cloned()), dump)
}

/// oracle: the table `want` (Vec<Vec<u64>>) is what the property prescribes
fn oracle<T: Bits, C: ArrayLength + PartialEq>(m: &DenseMatrix<T, C>, want: &Vec<Vec<u64>>, align: usize) -> Result<(), String> {
    if m.rows() != want.len() {
        return Err(format!("rows {} expected {}", m.rows(), want.len()));
    }
    if m.columns() != C::USIZE {
        return Err("columns".into());
    }
    for (i, w) in want.iter().enumerate() {
        let row = &m[i];
        if row.len() != C::USIZE {
            return Err(format!("row {} has {} columns", i, row.len()));
        }
        for j in 0..C::USIZE {
            if row[j].bits() != w[j] || m[MatrixCoordinates::new(i, j)].bits() != w[j] {
                return Err(format!("cell ({},{}) holds {:?} expected bits {}", i, j, row[j], w[j]));
            }
        }
        if (row.as_ptr() as usize) % align != 0 {
            return Err(format!("row {} starts at {:p}, not {}-byte aligned", i, row.as_ptr(), align));
        }
    }
    let fwd: Vec<Vec<u64>> = m.iter().map(|r| r.iter().map(|x| x.bits()).collect()).collect();
    if &fwd != want {
        return Err("iter() does not visit the rows in order".into());
    }
    let mut rev: Vec<Vec<u64>> = m.iter().rev().map(|r| r.iter().map(|x| x.bits()).collect()).collect();
    rev.reverse();
    if &rev != want {
        return Err("iter().rev() does not visit the rows in reverse order".into());
    }
    if m.iter().len() != want.len() {
        return Err("iter().len()".into());
    }
    // ExactSizeIterator / DoubleEndedIterator used together: the remaining length after taking rows
    // from either end, and adaptors that rely on it (`enumerate().rev()`)
    {
        let n = want.len();
        let mut it = m.iter();
        let mut left = n;
        for step in 0..n.min(5) {
            let r = if step % 2 == 0 { it.next_back() } else { it.next() };
            if r.is_none() {
                return Err("iter(): fewer rows than rows()".into());
            }
            left -= 1;
            if it.len() != left {
                return Err(format!("iter().len() = {} after {} rows were taken from both ends, {} remain", it.len(), step + 1, left));
            }
        }
        let er: Vec<(usize, u64)> = m.iter().enumerate().rev().map(|(i, r)| (i, r[0].bits())).collect();
        let wr: Vec<(usize, u64)> = (0..n).rev().map(|i| (i, want[i][0])).collect();
        if er != wr {
            return Err("iter().enumerate().rev() does not pair rows with their indices".into());
        }
        let zr: Vec<(usize, u64)> = (0..n).zip(m.iter()).rev().map(|(i, r)| (i, r[0].bits())).collect();
        if zr != wr {
            return Err("(0..rows).zip(iter()).rev() does not pair rows with their indices".into());
        }
        // positional access from either end and the adaptors built on it (`nth`, `nth_back`, `skip`,
        // `step_by`, `last`), on `iter()`, `&m` and `iter_mut()`
        for k in 0..(n + 1).min(4) {
            let want_f = want.get(k).map(|r| r[0]);
            let want_b = if k < n { Some(want[n - 1 - k][0]) } else { None };
            if m.iter().nth(k).map(|r| r[0].bits()) != want_f {
                return Err(format!("iter().nth({}) is not row {}", k, k));
            }
            if m.iter().nth_back(k).map(|r| r[0].bits()) != want_b {
                return Err(format!("iter().nth_back({}) is not row rows-1-{}", k, k));
            }
            if m.iter().rev().nth(k).map(|r| r[0].bits()) != want_b || m.iter().rev().skip(k).next().map(|r| r[0].bits()) != want_b {
                return Err(format!("iter().rev().nth({k}) / .rev().skip({k}).next() is not row rows-1-{k}"));
            }
            if (&*m).into_iter().rev().skip(k).next().map(|r| r[0].bits()) != want_b {
                return Err(format!("(&m).into_iter().rev().skip({}) is not row rows-1-{}", k, k));
            }
            let mut c2 = m.clone();
            if c2.iter_mut().nth_back(k).map(|r| r[0].bits()) != want_b || c2.iter_mut().rev().skip(k).next().map(|r| r[0].bits()) != want_b {
                return Err(format!("iter_mut().nth_back({k}) / .rev().skip({k}) is not row rows-1-{k}"));
            }
            if c2.iter_mut().nth(k).map(|r| r[0].bits()) != want_f {
                return Err(format!("iter_mut().nth({}) is not row {}", k, k));
            }
        }
        for step in [2usize, 3] {
            let got: Vec<u64> = m.iter().rev().step_by(step).map(|r| r[0].bits()).collect();
            let wantv: Vec<u64> = (0..n).rev().step_by(step).map(|i| want[i][0]).collect();
            if got != wantv {
                return Err(format!("iter().rev().step_by({}) does not visit rows rows-1, rows-1-{}, …", step, step));
            }
            let got: Vec<u64> = m.iter().step_by(step).map(|r| r[0].bits()).collect();
            let wantv: Vec<u64> = (0..n).step_by(step).map(|i| want[i][0]).collect();
            if got != wantv {
                return Err(format!("iter().step_by({}) does not visit rows 0, {}, …", step, step));
            }
        }
        if m.iter().last().map(|r| r[0].bits()) != want.last().map(|r| r[0]) {
            return Err("iter().last() is not the last row".into());
        }
        let (lo, hi) = m.iter().size_hint();
        if lo > n || hi.map(|h| h < n).unwrap_or(false) {
            return Err(format!("iter().size_hint() = ({}, {:?}) does not bracket rows = {}", lo, hi, n));
        }
    }
    let size = std::mem::size_of::<T>();
    if m.stride() < C::USIZE || (m.stride() * size) % align != 0 {
        return Err(format!("stride {} (C = {}, size {}, align {})", m.stride(), C::USIZE, size, align));
    }
    // the flat view (`unsafe fn ravel`, used by the Python buffer exports): rows * stride elements,
    // cell (i, j) at i * stride + j
    {
        let flat = unsafe { m.ravel() };
        if flat.len() != m.rows() * m.stride() {
            return Err(format!("ravel().len() = {} but rows * stride = {} * {}", flat.len(), m.rows(), m.stride()));
        }
        for (i, w) in want.iter().enumerate() {
            for j in 0..C::USIZE {
                if flat[i * m.stride() + j].bits() != w[j] {
                    return Err(format!("ravel()[{} * stride + {}] is not cell ({},{})", i, j, i, j));
                }
            }
        }
    }
    // clones and equality depend only on the logical cells
    let c = m.clone();
    if c != *m {
        return Err("clone differs from the original".into());
    }
    // a matrix with the same logical cells built along a different path (different padding
    // history) must be equal; one differing in a single logical cell must not be
    let rows_t: Vec<Vec<T>> = want.iter().map(|r| r.iter().map(|&b| T::from_bits(b)).collect()).collect();
    let mut other = DenseMatrix::<T, C>::new(want.len());
    for (i, r) in rows_t.iter().enumerate() {
        other[i].copy_from_slice(r);
    }
    if other != *m {
        return Err("a matrix with the same logical cells compares unequal (padding visible to ==)".into());
    }
    if !want.is_empty() {
        let (i, j) = (want.len() - 1, C::USIZE - 1);
        let old = other[i][j];
        other[i][j] = T::from_bits(old.bits() ^ 1);
        if other[i][j].bits() != old.bits() && other == *m {
            return Err("matrices differing in one logical cell compare equal".into());
        }
    }
    Ok(())
}

fn nan_free<T: Bits>(want: &Vec<Vec<u64>>) -> bool {
    // for f32, `==` on NaN cells is false by IEEE; generators avoid NaN bit patterns
    let _ = want;
    std::any::type_name::<T>() != "f32" || true
}

fn run_ops<T: Bits, C: ArrayLength + PartialEq>(ops: &[&str]) -> (String, Result<(), String>, bool) {
    let align = if cfg!(target_arch = "x86_64") { 32 } else { 16 };
    let mut m = DenseMatrix::<T, C>::new(0);
    let mut want: Vec<Vec<u64>> = Vec::new();
    let c = C::USIZE;
    let mut obs = Vec::new();
    let mut verdict = Ok(());
    let mut i = 0;
    let (mut grew, mut shrank) = (false, false);
    let mut nops = 0;
    let mask = |b: u64| T::from_bits(b).bits();
    while i < ops.len() {
        nops += 1;
        let before = m.clone();
        let mut panicked = false;
        match ops[i] {
            "new" => {
                let r: usize = ops[i + 1].parse().unwrap();
                m = DenseMatrix::new(r);
                want = vec![vec![T::default().bits(); c]; r];
                i += 2;
            }
            "cap" => {
                let r: usize = ops[i + 1].parse().unwrap();
                let cap: usize = ops[i + 2].parse().unwrap();
                m = DenseMatrix::with_capacity(r, cap);
                want = vec![vec![T::default().bits(); c]; r];
                i += 3;
            }
            "resize" => {
                let n: usize = ops[i + 1].parse().unwrap();
                if n > want.len() {
                    grew = true
                }
                if n < want.len() {
                    shrank = true
                }
                m.resize(n);
                want.resize(n, vec![T::default().bits(); c]);
                i += 2;
            }
            "fill" => {
                let v: u64 = ops[i + 1].parse().unwrap();
                m.fill(T::from_bits(v));
                for r in want.iter_mut() {
                    for x in r.iter_mut() {
                        *x = mask(v);
                    }
                }
                i += 2;
            }
            "cell" => {
                let r: usize = ops[i + 1].parse().unwrap();
                let j: usize = ops[i + 2].parse().unwrap();
                let v: u64 = ops[i + 3].parse().unwrap();
                if guarded(|| m[MatrixCoordinates::new(r, j)] = T::from_bits(v)).is_err() {
                    panicked = true;
                } else {
                    want[r][j] = mask(v);
                }
                i += 4;
            }
            "row" => {
                let r: usize = ops[i + 1].parse().unwrap();
                let n: usize = ops[i + 2].parse().unwrap();
                let vals: Vec<u64> = ops[i + 3..i + 3 + n].iter().map(|x| x.parse().unwrap()).collect();
                let tv: Vec<T> = vals.iter().map(|&b| T::from_bits(b)).collect();
                if guarded(|| m[r].copy_from_slice(&tv)).is_err() {
                    panicked = true;
                } else {
                    want[r] = vals.iter().map(|&b| mask(b)).collect();
                }
                i += 3 + n;
            }
            "fromrows" => {
                let nr: usize = ops[i + 1].parse().unwrap();
                let mut rows: Vec<Vec<T>> = Vec::new();
                let mut k = i + 2;
                for _ in 0..nr {
                    let n: usize = ops[k].parse().unwrap();
                    rows.push(ops[k + 1..k + 1 + n].iter().map(|x| T::from_bits(x.parse().unwrap())).collect());
                    k += 1 + n;
                }
                match guarded(|| DenseMatrix::<T, C>::from_rows(rows.iter())) {
                    Ok(x) => {
                        m = x;
                        want = rows.iter().map(|r| r.iter().map(|x| x.bits()).collect()).collect();
                    }
                    Err(()) => panicked = true,
                }
                i = k;
            }
            "itermut" => {
                let v: u64 = ops[i + 1].parse().unwrap();
                for (k, row) in m.iter_mut().enumerate() {
                    row[0] = T::from_bits(v + (k % 2) as u64);
                }
                for (k, r) in want.iter_mut().enumerate() {
                    r[0] = mask(v + (k % 2) as u64);
                }
                i += 2;
            }
            "itermutrev" => {
                let v: u64 = ops[i + 1].parse().unwrap();
                for (k, row) in m.iter_mut().rev().enumerate() {
                    row[0] = T::from_bits(v + (k % 2) as u64);
                }
                let n = want.len();
                for (k, r) in want.iter_mut().rev().enumerate() {
                    let _ = n;
                    r[0] = mask(v + (k % 2) as u64);
                }
                i += 2;
            }
            "clone" => {
                m = m.clone();
                i += 1;
            }
            "reserve" => {
                // more capacity, same table (the model treats it like `clone`: the identity on the table)
                let n: usize = ops[i + 1].parse().unwrap();
                m.reserve(n);
                i += 2;
            }
            "ravelset" => {
                // a cell written through the flat mutable view (`unsafe fn ravel_mut`): cell (r, c) is
                // element r * stride + c (the model treats it like `cell r c v`)
                let (r, cc, v): (usize, usize, u64) = (ops[i + 1].parse().unwrap(), ops[i + 2].parse().unwrap(), ops[i + 3].parse().unwrap());
                if r < m.rows() && cc < c {
                    let stride = m.stride();
                    unsafe { m.ravel_mut()[r * stride + cc] = T::from_bits(v) };
                    want[r][cc] = mask(v);
                } else {
                    panicked = true;
                }
                i += 4;
            }
            "clonefrom" => {
                let r: usize = ops[i + 1].parse().unwrap();
                let v: u64 = ops[i + 2].parse().unwrap();
                let mut b = DenseMatrix::<T, C>::new(r);
                b.fill(T::from_bits(v));
                m.clone_from(&b);
                want = vec![vec![mask(v); c]; r];
                i += 3;
            }
            x => panic!("bad op {}", x),
        }
        if panicked {
            // a caught panic must leave the object as it was
            if before != m && verdict.is_ok() && nan_free::<T>(&want) {
                verdict = Err(format!("op #{} panicked and changed the matrix", nops));
            }
            obs.push(format!("panic {}", observe(&m)));
        } else {
            obs.push(observe(&m));
        }
        if verdict.is_ok() {
            verdict = oracle(&m, &want, align).map_err(|e| format!("after op #{}: {}", nops, e));
        }
    }
    (obs.join(" ; "), verdict, grew && shrank)
}

fn layout<T: MatrixElement, C: ArrayLength>() -> String {
    let m = DenseMatrix::<T, C>::new(4);
    let align = if cfg!(target_arch = "x86_64") { 32 } else { 16 };
    let a: Vec<usize> = (0..4).map(|i| (m[i].as_ptr() as usize) % align).collect();
    format!("{} {}", m.stride(), join(a.iter()))
}

macro_rules! by_c {
    ($f:ident, $t:ty, $c:expr, $($args:expr),*) => {
        match $c {
            "1" => $f::<$t, U1>($($args),*),
            "5" => $f::<$t, U5>($($args),*),
            "7" => $f::<$t, U7>($($args),*),
            "16" => $f::<$t, U16>($($args),*),
            "21" => $f::<$t, U21>($($args),*),
            "32" => $f::<$t, U32>($($args),*),
            "43" => $f::<$t, U43>($($args),*),
            _ => panic!("bad C"),
        }
    };
}

pub fn exec(line: &str) -> (String, Option<Result<(), String>>, bool) {
    let t: Vec<&str> = line.split_whitespace().collect();
    if t[0] == "c19layout" {
        let ans = match t[2] {
            "1" => by_c!(layout, u8, t[1],),
            "4" => by_c!(layout, f32, t[1],),
            _ => by_c!(layout, i64, t[1],),
        };
        let stride: usize = ans.split(' ').next().unwrap().parse().unwrap();
        let c: usize = t[1].parse().unwrap();
        let size: usize = t[2].parse().unwrap();
        let align: usize = t[3].parse().unwrap();
        let ok = stride >= c && (stride * size) % align == 0 && ans.split(' ').skip(1).all(|x| x == "0");
        return (ans, Some(if ok { Ok(()) } else { Err("layout".into()) }), true);
    }
    let ops = &t[3..];
    let r = guarded(|| match t[1] {
        "u8" => by_c!(run_ops, u8, t[2], ops),
        "u32" => by_c!(run_ops, u32, t[2], ops),
        "f32" => by_c!(run_ops, f32, t[2], ops),
        "nuc" => by_c!(run_ops, lightmotif::abc::Nucleotide, t[2], ops),
        _ => by_c!(run_ops, i64, t[2], ops),
    });
    match r {
        Ok((a, v, nt)) => (a, Some(v), nt),
        Err(()) => ("panic".into(), Some(Err("panic outside a guarded call".into())), true),
    }
}

const CS: &[usize] = &[1, 5, 7, 16, 21, 32, 43];

fn val(rng: &mut Rng, ty: &str) -> u64 {
    match ty {
        "u8" => rng.below(256) as u64,
        "u32" => rng.next() & 0xffff_ffff,
        // finite floats only (no NaN bit patterns: `==` on NaN is false by IEEE, not by the library)
        "f32" => ((rng.below(2000) as f32 - 1000.0) / 8.0).to_bits() as u64,
        "nuc" => rng.below(5) as u64,
        _ => rng.next(),
    }
}

pub fn generate(cfg: &Cfg) -> Vec<String> {
    let mut rng = Rng::new(cfg.seed ^ 0xC19);
    let mut cases = Vec::new();
    let align = if cfg!(target_arch = "x86_64") { 32 } else { 16 };
    for &c in CS {
        for size in [1usize, 4, 8] {
            cases.push(format!("c19layout {} {} {}", c, size, align));
        }
    }
    let count = (if cfg.thorough { 20_000 } else { 1_500 }) * cfg.boost;
    for _ in 0..count {
        let ty = *rng.pick(&["u8", "u32", "f32", "i64", "nuc"]);
        let c = *rng.pick(CS);
        let nops = rng.range(1, 40);
        let mut line = format!("c19 {} {}", ty, c);
        let mut rows = 0usize;
        for _ in 0..nops {
            match rng.below(15) {
                13 => line.push_str(&format!(" reserve {}", rng.range(0, 70))),
                14 => {
                    // in range only: the flat view has no bounds of its own worth observing
                    if rows > 0 {
                        line.push_str(&format!(" ravelset {} {} {}", rng.below(rows), rng.below(c), val(&mut rng, ty)));
                    }
                }
                0 => {
                    rows = rng.range(0, 12);
                    line.push_str(&format!(" new {}", rows));
                }
                1 => {
                    rows = rng.range(0, 12);
                    line.push_str(&format!(" cap {} {}", rows, rows + rng.range(0, 40)));
                }
                2 | 3 => {
                    rows = if rng.chance(1, 8) { rng.range(0, 600) } else { rng.range(0, 14) };
                    line.push_str(&format!(" resize {}", rows));
                }
                4 => line.push_str(&format!(" fill {}", val(&mut rng, ty))),
                5 | 6 => {
                    // mostly in range, sometimes just out of range (must panic and change nothing)
                    let i = if rows > 0 && !rng.chance(1, 8) { rng.below(rows) } else { rows + rng.below(2) };
                    let j = if !rng.chance(1, 10) { rng.below(c) } else { c + rng.below(2) };
                    line.push_str(&format!(" cell {} {} {}", i, j, val(&mut rng, ty)));
                }
                7 | 8 => {
                    let i = if rows > 0 && !rng.chance(1, 8) { rng.below(rows) } else { rows + rng.below(2) };
                    let n = if rng.chance(1, 10) { c + 1 - 2 * rng.below(2).min(c) } else { c };
                    let vals: Vec<u64> = (0..n).map(|_| val(&mut rng, ty)).collect();
                    line.push_str(&format!(" row {} {} {}", i, n, join(vals.iter())));
                }
                9 => {
                    let nr = rng.range(0, 6);
                    let bad = rng.chance(1, 10);
                    line.push_str(&format!(" fromrows {}", nr));
                    for k in 0..nr {
                        let n = if bad && k == nr - 1 { c + 1 } else { c };
                        let vals: Vec<u64> = (0..n).map(|_| val(&mut rng, ty)).collect();
                        line.push_str(&format!(" {} {}", n, join(vals.iter())));
                    }
                    if !(bad && nr > 0) {
                        rows = nr;
                    }
                }
                10 => line.push_str(&format!(" {} {}", if rng.chance(1, 2) { "itermut" } else { "itermutrev" }, if ty == "nuc" { rng.below(4) } else { rng.below(100) })),
                11 => line.push_str(" clone"),
                _ => {
                    rows = rng.range(0, 14);
                    line.push_str(&format!(" clonefrom {} {}", rows, val(&mut rng, ty)));
                }
            }
        }
        cases.push(line);
    }
    cases
}

pub fn run(cfg: &Cfg) {
    let cases = crate::replay_cases(cfg).unwrap_or_else(|| generate(cfg));
    let mut out = Out::new(&cfg.out);
    for c in &cases {
        out.announce(c);
        let (ans, o, nt) = exec(c);
        let t: Vec<&str> = c.splitn(4, ' ').collect();
        out.stat(&format!("{}/{}", t[0], t[1]));
        if ans.contains("panic") {
            out.stat("has-panicking-op");
        }
        out.case(c, &ans, o, nt);
    }
    out.finish(&cfg.out);
}
