//! C05 — encoding accepts exactly the alphabet, identically on every backend.
//!
//! case:   enc <dna|protein> <generic|sse2|avx2|disp-generic|disp-sse2|disp-avx2> <api> <n> <bytes…>
//!         api: encode | raw | into | fromstr   (fromstr only with disp-*; uses EncodedSequence::from_str / encode)
//! answer: ok <indices…> | <displayed bytes…>      or      err <byte>      or      panic
use crate::out::*;
use crate::rng::Rng;
use crate::Cfg;
use lightmotif::abc::Alphabet;
use lightmotif::abc::Dna;
use lightmotif::abc::Protein;
use lightmotif::abc::Symbol;
use lightmotif::err::InvalidSymbol;
use lightmotif::pli::verif;
use lightmotif::pli::Encode;
use lightmotif::pli::Pipeline;
use lightmotif::seq::EncodedSequence;

const DNA: &[u8] = b"ACTGN";
const PROTEIN: &[u8] = b"ACDEFGHIKLMNPQRSTVWYX";

/// the other ways of looking at / building an encoded sequence must agree with `iter()`:
/// `Index`, `IntoIterator for &EncodedSequence`, `len`/`is_empty`, `AsRef<[Symbol]>`, `PartialEq`,
/// `FromIterator`, `From<Vec>`, `Default`
fn views_agree<A: Alphabet>(e: &EncodedSequence<A>) -> bool {
    let v: Vec<A::Symbol> = e.iter().cloned().collect();
    let by_index: Vec<usize> = (0..e.len()).map(|i| e[i].as_index()).collect();
    let by_into: Vec<usize> = e.into_iter().map(|x| x.as_index()).collect();
    let slice: &[A::Symbol] = e.as_ref();
    let rebuilt: EncodedSequence<A> = v.iter().cloned().collect();
    let from_vec: EncodedSequence<A> = EncodedSequence::from(v.clone());
    let want: Vec<usize> = v.iter().map(|x| x.as_index()).collect();
    by_index == want
        && by_into == want
        && slice.len() == want.len()
        && e.is_empty() == want.is_empty()
        && *e == rebuilt
        && rebuilt == from_vec
        && (EncodedSequence::<A>::default().len() == 0)
        && (want.is_empty() || !(*e == EncodedSequence::<A>::default()))
        && e.clone() == *e
        && rebuilt.to_string() == e.to_string()
}

fn run_encoder<A: Alphabet, P: Encode<A>>(pli: &P, api: &str, s: &[u8]) -> Result<(Vec<usize>, Vec<u8>), InvalidSymbol> {
    match api {
        "encode" => {
            let e: EncodedSequence<A> = pli.encode(s)?;
            if !views_agree(&e) {
                // reported as a wrong result: the index list is poisoned
                return Ok((vec![usize::MAX], e.to_string().into_bytes()));
            }
            Ok((e.iter().map(|x| x.as_index()).collect(), e.to_string().into_bytes()))
        }
        "raw" => {
            let v = pli.encode_raw(s)?;
            let e = EncodedSequence::<A>::new(v);
            Ok((e.iter().map(|x| x.as_index()).collect(), e.to_string().into_bytes()))
        }
        _ => {
            let mut dst = vec![A::default_symbol(); s.len()];
            pli.encode_into(s, &mut dst)?;
            let e = EncodedSequence::<A>::new(dst);
            Ok((e.iter().map(|x| x.as_index()).collect(), e.to_string().into_bytes()))
        }
    }
}

fn run_alpha<A: Alphabet>(backend: &str, api: &str, s: &[u8]) -> Result<(Vec<usize>, Vec<u8>), InvalidSymbol> {
    match backend {
        "generic" => run_encoder::<A, _>(&Pipeline::<A, _>::generic(), api, s),
        "sse2" => run_encoder::<A, _>(&Pipeline::<A, _>::sse2().unwrap(), api, s),
        "avx2" => run_encoder::<A, _>(&Pipeline::<A, _>::avx2().unwrap(), api, s),
        _ => {
            let arm = backend.strip_prefix("disp-").unwrap();
            assert!(verif::force_backend(arm));
            let r = if api == "fromstr" {
                // the public entry points built on the dispatcher
                match std::str::from_utf8(s) {
                    Ok(t) => t.parse::<EncodedSequence<A>>(),
                    Err(_) => EncodedSequence::<A>::encode(s),
                }
                .map(|e| (e.iter().map(|x| x.as_index()).collect(), e.to_string().into_bytes()))
            } else {
                run_encoder::<A, _>(&Pipeline::<A, _>::dispatch(), api, s)
            };
            verif::clear();
            r
        }
    }
}

/// property oracle, written from the property text: success iff every byte is an upper-case
/// letter of the alphabet; symbol i is the letter's rank; display reproduces the input; otherwise
/// the first offending byte is reported.
fn oracle(letters: &[u8], s: &[u8], got: &Result<(Vec<usize>, Vec<u8>), u32>) -> Result<(), String> {
    let bad = s.iter().find(|b| !letters.contains(b));
    match (bad, got) {
        (None, Ok((idx, disp))) => {
            let want: Vec<usize> = s.iter().map(|b| letters.iter().position(|l| l == b).unwrap()).collect();
            if &want != idx {
                return Err("indices differ from letter ranks".into());
            }
            if disp.as_slice() != s {
                return Err("display does not reproduce the input".into());
            }
            Ok(())
        }
        (Some(b), Err(e)) => {
            if *e == *b as u32 {
                Ok(())
            } else {
                Err(format!("reported {} but first offending byte is {}", e, b))
            }
        }
        (None, Err(e)) => Err(format!("valid input rejected with {}", e)),
        (Some(b), Ok(_)) => Err(format!("invalid byte {} accepted", b)),
    }
}

/// the character entry point: `Symbol::from_char` (case: c05chr <alpha> <code point>)
fn exec_chr(t: &[&str]) -> (String, Option<Result<(), String>>, bool) {
    let cp: u32 = t[2].parse().unwrap();
    let c = char::from_u32(cp).unwrap();
    let letters = if t[1] == "dna" { DNA } else { PROTEIN };
    let r: Result<usize, ()> = if t[1] == "dna" {
        <lightmotif::abc::Nucleotide as Symbol>::from_char(c).map(|s| s.as_index()).map_err(|_| ())
    } else {
        <lightmotif::abc::AminoAcid as Symbol>::from_char(c).map(|s| s.as_index()).map_err(|_| ())
    };
    let want = if cp < 128 { letters.iter().position(|&l| l as u32 == cp) } else { None };
    let o = match (&r, want) {
        (Ok(i), Some(w)) if *i == w => Ok(()),
        (Err(()), None) => Ok(()),
        (Ok(i), _) => Err(format!("from_char(U+{:04X}) = symbol {} but the character is {}", cp, i, if want.is_some() { "another letter" } else { "not a letter of the alphabet" })),
        (Err(()), Some(_)) => Err(format!("from_char(U+{:04X}) rejected a letter of the alphabet", cp)),
    };
    (match r { Ok(i) => format!("ok {}", i), Err(()) => "err".into() }, Some(o), cp >= 128 || want.is_some())
}

pub fn exec(line: &str) -> (String, Option<Result<(), String>>, bool) {
    let t: Vec<&str> = line.split_whitespace().collect();
    if t[0] == "c05chr" {
        return exec_chr(&t);
    }
    assert_eq!(t[0], "enc");
    let (alpha, backend, api) = (t[1], t[2], t[3]);
    let n: usize = t[4].parse().unwrap();
    let s: Vec<u8> = t[5..5 + n].iter().map(|x| x.parse().unwrap()).collect();
    let letters = if alpha == "dna" { DNA } else { PROTEIN };
    let res = guarded(|| {
        if alpha == "dna" {
            run_alpha::<Dna>(backend, api, &s)
        } else {
            run_alpha::<Protein>(backend, api, &s)
        }
    });
    verif::clear();
    let nontrivial = n >= 32 || s.iter().any(|b| !letters.contains(b));
    match res {
        Err(()) => ("panic".into(), Some(Err("panic".into())), nontrivial),
        Ok(r) => {
            let r = r.map_err(|e| e.0 as u32);
            let o = oracle(letters, &s, &r);
            let ans = match &r {
                Ok((idx, disp)) => format!("ok {} | {}", join(idx.iter()), join(disp.iter())),
                Err(c) => format!("err {}", c),
            };
            (ans, Some(o), nontrivial)
        }
    }
}

const BACKENDS: &[&str] = &["generic", "sse2", "avx2", "disp-generic", "disp-sse2", "disp-avx2"];

fn valid(rng: &mut Rng, letters: &[u8], n: usize) -> Vec<u8> {
    (0..n).map(|_| *rng.pick(letters)).collect()
}

fn line(alpha: &str, backend: &str, api: &str, s: &[u8]) -> String {
    format!("enc {} {} {} {} {}", alpha, backend, api, s.len(), join(s.iter()))
}

pub fn generate(cfg: &Cfg) -> Vec<String> {
    let mut rng = Rng::new(cfg.seed);
    let mut cases = Vec::new();
    let apis = ["encode", "raw", "into"];
    for (alpha, letters) in [("dna", DNA), ("protein", PROTEIN)] {
        // boundary stream 1: every length 0..=130, valid text, every backend
        for n in 0..=130usize {
            let s = valid(&mut rng, letters, n);
            for (k, b) in BACKENDS.iter().enumerate() {
                cases.push(line(alpha, b, apis[(n + k) % 3], &s));
            }
        }
        // boundary stream 2: one invalid byte planted at every offset class of a block
        for &n in &[1usize, 15, 16, 17, 31, 32, 33, 47, 48, 49, 63, 64, 65, 96, 97, 129] {
            let mut offs: Vec<usize> = vec![0, n / 2, n - 1];
            for o in [15usize, 16, 17, 31, 32, 33, 63, 64] {
                if o < n {
                    offs.push(o);
                }
            }
            offs.sort();
            offs.dedup();
            for o in offs {
                let mut s = valid(&mut rng, letters, n);
                // lower case of a valid letter, a high byte, NUL, or a random non-letter
                let bad = match rng.below(4) {
                    0 => s[o].to_ascii_lowercase(),
                    1 => 0x80 | (rng.below(128) as u8),
                    2 => 0,
                    _ => loop {
                        let b = rng.below(256) as u8;
                        if !letters.contains(&b) {
                            break b;
                        }
                    },
                };
                s[o] = bad;
                // sometimes a second, later invalid byte: the FIRST one must be reported
                if o + 1 < n && rng.chance(1, 3) {
                    let o2 = rng.range(o + 1, n - 1);
                    s[o2] = b'z';
                }
                for b in BACKENDS {
                    cases.push(line(alpha, b, "encode", &s));
                }
            }
        }
        // boundary stream 3: all 256 byte values, alone and at the end of a full block
        for v in 0..=255u8 {
            let b = BACKENDS[(v as usize) % BACKENDS.len()];
            cases.push(line(alpha, b, "encode", &[v]));
            let mut s = valid(&mut rng, letters, 40);
            s[(v as usize) % 40] = v;
            cases.push(line(alpha, BACKENDS[(v as usize + 1) % BACKENDS.len()], "encode", &s));
        }
        // public entry points on the dispatcher
        for n in [0usize, 5, 33, 100] {
            let s = valid(&mut rng, letters, n);
            for arm in ["disp-generic", "disp-sse2", "disp-avx2"] {
                cases.push(line(alpha, arm, "fromstr", &s));
            }
            let mut s2 = s.clone();
            if n > 0 {
                s2[n - 1] = b'?';
                cases.push(line(alpha, "disp-avx2", "fromstr", &s2));
            }
        }
        // the text entry points (`str::parse`, `from_str`) on the dispatcher: white space around valid
        // text is NOT part of the alphabet and must be rejected (first offending character reported)
        for arm in ["disp-generic", "disp-sse2", "disp-avx2"] {
            for n in [0usize, 3, 31, 32, 40] {
                let body = valid(&mut rng, letters, n);
                for (pre, post) in [(" ", ""), ("", " "), ("\t", ""), ("", "\n"), ("\n", "\n"), ("", "\r\n"), ("\u{a0}", ""), ("", "\u{2003}")] {
                    let mut s: Vec<u8> = pre.as_bytes().to_vec();
                    s.extend_from_slice(&body);
                    s.extend_from_slice(post.as_bytes());
                    cases.push(line(alpha, arm, "fromstr", &s));
                }
            }
        }
        // the character entry point: every code point up to U+02FF, and characters whose LOW BYTE is a
        // letter of the alphabet (U+0141 'Ł' has low byte 'A', …)
        for cp in 0..0x300u32 {
            cases.push(format!("c05chr {} {}", alpha, cp));
        }
        for &l in letters {
            for hi in [0x1u32, 0x2, 0x20, 0xff, 0x100, 0x1f6] {
                let cp = (hi << 8) | l as u32;
                if char::from_u32(cp).is_some() {
                    cases.push(format!("c05chr {} {}", alpha, cp));
                }
            }
        }
        // random stream
        let maxlen = if cfg.thorough { 70_000 } else { 5_000 };
        let count = (if cfg.thorough { 3_000 } else { 250 }) * cfg.boost;
        for k in 0..count {
            let n = if k % 7 == 0 { rng.range(0, maxlen) } else { rng.range(0, 300) };
            let mut s = valid(&mut rng, letters, n);
            if n > 0 && rng.chance(1, 3) {
                let o = rng.below(n);
                s[o] = rng.below(256) as u8;
            }
            let b = *rng.pick(BACKENDS);
            let api = if b.starts_with("disp-") && rng.chance(1, 3) { "fromstr" } else { *rng.pick(&apis) };
            cases.push(line(alpha, b, api, &s));
        }
    }
    cases
}

pub fn run(cfg: &Cfg) {
    let cases = crate::replay_cases(cfg).unwrap_or_else(|| generate(cfg));
    let mut out = Out::new(&cfg.out);
    for c in &cases {
        out.announce(c);
        let (ans, o, nt) = exec(c);
        let t: Vec<&str> = c.splitn(5, ' ').collect();
        if t[0] == "c05chr" {
            out.stat("from_char");
            out.case(c, &ans, o, nt);
            continue;
        }
        out.stat(&format!("{}/{}", t[1], t[2]));
        out.stat(&format!("api/{}", t[3]));
        out.stat(if ans.starts_with("ok") { "outcome/ok" } else if ans.starts_with("err") { "outcome/err" } else { "outcome/panic" });
        if ans == "panic" {
            out.panics += 1;
        }
        out.case(c, &ans, o, nt);
    }
    out.finish(&cfg.out);
}
