//! Output streams of one harness run: case lines, implementation answers, oracle verdicts, stats.
use std::collections::BTreeMap;
use std::collections::HashSet;
use std::fs::File;
use std::io::BufWriter;
use std::io::Write;
use std::path::Path;

pub struct Out {
    cases: BufWriter<File>,
    imp: BufWriter<File>,
    oracle: BufWriter<File>,
    pub next_id: usize,
    pub evaluations: usize,
    nontrivial: HashSet<u64>,
    pub stats: BTreeMap<String, u64>,
    pub samples: Vec<String>,
    pub oracle_fail: usize,
    pub panics: usize,
    announced: bool,
}

fn fnv(s: &str) -> u64 {
    let mut h: u64 = 0xcbf29ce484222325;
    for b in s.bytes() {
        h ^= b as u64;
        h = h.wrapping_mul(0x100000001b3);
    }
    h
}

impl Out {
    pub fn new(dir: &Path) -> Self {
        std::fs::create_dir_all(dir).unwrap();
        let f = |n: &str| BufWriter::new(File::create(dir.join(n)).unwrap());
        Out {
            cases: f("cases.txt"),
            imp: f("impl.txt"),
            oracle: f("oracle.txt"),
            next_id: 0,
            evaluations: 0,
            nontrivial: HashSet::new(),
            stats: BTreeMap::new(),
            samples: Vec::new(),
            oracle_fail: 0,
            panics: 0,
            announced: false,
        }
    }

    /// Record one case: the line given to the model, the implementation's canonical answer, the
    /// oracle's verdict on the implementation's answer (`None` = oracle not applicable), and
    /// whether the case is non-trivial by the property's rule.
    /// Write (and flush) the case line BEFORE the implementation is run on it, so that if the
    /// implementation takes the whole process down (segfault, abort) the orchestrator can name the
    /// input: it is the case line that has no answer.
    pub fn announce(&mut self, case: &str) {
        writeln!(self.cases, "{} {}", self.next_id, case).unwrap();
        self.cases.flush().unwrap();
        self.imp.flush().unwrap();
        self.oracle.flush().unwrap();
        self.announced = true;
    }

    pub fn case(&mut self, case: &str, answer: &str, oracle: Option<Result<(), String>>, nontrivial: bool) {
        let id = self.next_id;
        self.next_id += 1;
        self.evaluations += 1;
        if !self.announced {
            writeln!(self.cases, "{} {}", id, case).unwrap();
        }
        self.announced = false;
        writeln!(self.imp, "{} {}", id, answer).unwrap();
        match oracle {
            None => {}
            Some(Ok(())) => writeln!(self.oracle, "{} OK", id).unwrap(),
            Some(Err(e)) => {
                self.oracle_fail += 1;
                writeln!(self.oracle, "{} FAIL {}", id, e).unwrap()
            }
        }
        if nontrivial {
            self.nontrivial.insert(fnv(case));
        }
        if self.samples.len() < 3 || (self.samples.len() < 6 && nontrivial && case.len() < 400) {
            let mut c = case.to_string();
            if c.len() > 400 {
                c.truncate(400);
                c.push_str(" …");
            }
            let mut a = answer.to_string();
            if a.len() > 200 {
                a.truncate(200);
                a.push_str(" …");
            }
            self.samples.push(format!("{} => {}", c, a));
        }
    }

    pub fn stat(&mut self, key: &str) {
        *self.stats.entry(key.to_string()).or_insert(0) += 1;
    }

    pub fn finish(mut self, dir: &Path) {
        self.cases.flush().unwrap();
        self.imp.flush().unwrap();
        self.oracle.flush().unwrap();
        let mut s = String::new();
        s.push_str("{\n");
        s.push_str(&format!("  \"evaluations\": {},\n", self.evaluations));
        s.push_str(&format!("  \"distinct_nontrivial\": {},\n", self.nontrivial.len()));
        s.push_str(&format!("  \"oracle_fail\": {},\n", self.oracle_fail));
        s.push_str(&format!("  \"panics\": {},\n", self.panics));
        s.push_str("  \"distribution\": {");
        let mut first = true;
        for (k, v) in &self.stats {
            if !first {
                s.push_str(", ");
            }
            first = false;
            s.push_str(&format!("{:?}: {}", k, v));
        }
        s.push_str("},\n  \"samples\": [");
        let mut first = true;
        for x in &self.samples {
            if !first {
                s.push_str(", ");
            }
            first = false;
            s.push_str(&format!("{:?}", x).replace("\\u{2026}", "..."));
        }
        s.push_str("]\n}\n");
        std::fs::write(dir.join("stats.json"), s).unwrap();
    }
}

/// Run `f` catching a panic; `Err(())` if it panicked.  The default panic hook is silenced by main.
pub fn guarded<T>(f: impl FnOnce() -> T) -> Result<T, ()> {
    std::panic::catch_unwind(std::panic::AssertUnwindSafe(f)).map_err(|_| ())
}

pub fn join<T: std::fmt::Display>(xs: impl IntoIterator<Item = T>) -> String {
    let mut s = String::new();
    for (i, x) in xs.into_iter().enumerate() {
        if i > 0 {
            s.push(' ');
        }
        s.push_str(&x.to_string());
    }
    s
}

/// FNV-1a over a list of numbers, each fed as 8 little-endian bytes (same function in LMV/Driver/Util.lean)
pub fn fnv_nats(xs: impl IntoIterator<Item = usize>) -> u64 {
    let mut h: u64 = 0xcbf29ce484222325;
    for x in xs {
        let x = x as u64;
        for k in 0..8 {
            h ^= (x >> (8 * k)) & 0xff;
            h = h.wrapping_mul(0x100000001b3);
        }
    }
    h
}
