//! `lmv-harness abc-dump` — the alphabets as EXECUTED tables: every function of `abc.rs` whose domain is
//! finite is evaluated on its whole domain (all 256 bytes for `from_ascii`, all K symbols for `as_ascii`,
//! `complement`, `as_index`), so that `LMV.Gen.Abc` is regenerated from what the code computes, whatever
//! its syntax (match arms, look-up tables, constants).  One line per fact:
//!
//!   <alpha> K <n>
//!   <alpha> letters <byte>*            `as_str().as_bytes()`
//!   <alpha> symbols <index>*           `symbols()` through `as_index()`
//!   <alpha> default <index>            `Symbol::default()`
//!   <alpha> from <byte> <index|err>    for byte in 0..=255
//!   <alpha> as <index> <byte>          for every symbol
//!   dna compl <index> <index>          for every nucleotide
use lightmotif::abc::{Alphabet, ComplementableSymbol, Dna, Protein, Symbol};
use lightmotif::num::Unsigned;

fn dump<A: Alphabet>(name: &str) {
    println!("{} K {}", name, A::K::USIZE);
    println!("{} letters {}", name, A::as_str().as_bytes().iter().map(|b| b.to_string()).collect::<Vec<_>>().join(" "));
    println!("{} symbols {}", name, A::symbols().iter().map(|s| s.as_index().to_string()).collect::<Vec<_>>().join(" "));
    println!("{} default {}", name, A::Symbol::default().as_index());
    for b in 0..=255u8 {
        match A::Symbol::from_ascii(b) {
            Ok(s) => println!("{} from {} {}", name, b, s.as_index()),
            Err(_) => println!("{} from {} err", name, b),
        }
    }
    for s in A::symbols() {
        println!("{} as {} {}", name, s.as_index(), s.as_ascii());
    }
}

pub fn run() {
    dump::<Dna>("dna");
    for s in Dna::symbols() {
        println!("dna compl {} {}", s.as_index(), s.complement().as_index());
    }
    dump::<Protein>("protein");
}
