//! C06 — no safe API call reads or writes outside the memory it owns.
//!
//! This stream is meant to be run by an AddressSanitizer build of this crate (tools/c06_runner.sh):
//! the sanitizer is the observer of the implementation's memory accesses, the LMV/Mem model (Lean)
//! says, from the sizes on the case line alone, whether every access of every unsafe kernel the
//! ops execute is inside its buffer.  The harness answers `inbounds` when the whole op sequence ran
//! to completion (caught panics are memory-safe outcomes); a sanitizer abort kills the process and
//! `check` names the announced case.
//!
//! case:   c06 <dna|protein> <C> <seed> <op>…          (C = 16 | 32; one state, ops in order)
//!   E <backend> <api> <L> <bad>       encode L bytes of text (bad = 0: valid; bad = p+1: invalid byte at p)
//!                                     backend: generic|sse2|avx2|disp-generic|disp-sse2|disp-avx2, api: encode|raw|into
//!   Q <L>                             current symbols := L random symbols in an exact-capacity Vec
//!   S <backend> <F|R> <L>             stripe the current symbols (F: fresh `stripe`/`to_striped`, R: `stripe_into` the buffer)
//!   N <rows> <L>                      buffer := StripedSequence::new(<user-built matrix of `rows` rows>, L)
//!   R <L>                             buffer := StripedSequence::sample(rng, uniform background, L)   (DenseMatrix::uninitialized)
//!   W <m>                             configure_wrap(m)
//!   P <M>                             new scoring matrix of M rows (and its discrete matrix for DNA)
//!   G                                 configure(&pssm)
//!   X <backend> <f32|u8> <M> <L> <Rm> <W> <a> <b>    score_rows_into(.., a..b, ..) into the reused scores buffer
//!   Y <backend> <f32|u8> <M> <L> <Rm> <W>            score(..) into a fresh buffer
//!   Z <f32|u8> <rows>                 scores.resize(rows, ..) and fill through matrix_mut()
//!   A <backend> <f32|u8> <max|argmax|thr> <rows>     on the current scores buffer
//!   C                                 continue with clones of every object, drop the originals
//!   K <arm> <collect|max> <M> <L> <Rm> <W> <block>   Scanner over (pssm, buffer)             (dna, C = 32)
//!   M <arm> <n> <L> <w> <steps>       Gibbs sampler: n sequences of length L, width w         (C = 32)
//!   D <u8|u32|f32> <cols> <rows>      DenseMatrix::from_rows / fill / resize / clone / fill
//!   (M, L, Rm = matrix rows incl. wrap, W = wrap, rows: the sizes the op runs with; the harness
//!    checks them against the real objects before the call: `sizes-differ <op#>` otherwise)
//! answer: inbounds | sizes-differ <op#> | misaligned <op#>
use crate::out::*;
use crate::rng::Rng;
use crate::Cfg;
use lightmotif::abc::Alphabet;
use lightmotif::abc::Background;
use lightmotif::abc::Dna;
use lightmotif::abc::Protein;
use lightmotif::dense::DenseMatrix;
use lightmotif::num::ArrayLength;
use lightmotif::num::MultipleOf;
use lightmotif::num::PositiveLength;
use lightmotif::num::Unsigned;
use lightmotif::num::{U16, U21, U32, U43, U5};
use lightmotif::pli::verif;
use lightmotif::pli::Encode;
use lightmotif::pli::Maximum;
use lightmotif::pli::Pipeline;
use lightmotif::pli::Score;
use lightmotif::pli::Stripe;
use lightmotif::pli::Threshold;
use lightmotif::pwm::DiscreteMatrix;
use lightmotif::pwm::ScoringMatrix;
use lightmotif::sampler::Sampler;
use lightmotif::sampler::SamplerData;
use lightmotif::scan::Scanner;
use lightmotif::scores::StripedScores;
use lightmotif::seq::EncodedSequence;
use lightmotif::seq::StripedSequence;
use rand::SeedableRng;
use std::ops::Range;

const DNA: &[u8] = b"ACTGN";
const PROTEIN: &[u8] = b"ACDEFGHIKLMNPQRSTVWYX";

/// what differs between the alphabets: 8-bit scoring and the scanner exist for DNA only
trait Alpha: Alphabet {
    const LETTERS: &'static [u8];
    fn score_u8_32(backend: &str, dm: &DiscreteMatrix<Self>, st: &StripedSequence<Self, U32>, rows: Range<usize>, out: &mut StripedScores<u8, U32>);
    fn scan32(which: &str, pssm: &ScoringMatrix<Self>, st: &StripedSequence<Self, U32>, block: usize, thr: f32);
}

impl Alpha for Dna {
    const LETTERS: &'static [u8] = DNA;
    fn score_u8_32(backend: &str, dm: &DiscreteMatrix<Dna>, st: &StripedSequence<Dna, U32>, rows: Range<usize>, out: &mut StripedScores<u8, U32>) {
        match backend {
            "generic" => Pipeline::<Dna, _>::generic().score_rows_into(dm, st, rows, out),
            "sse2" => Pipeline::<Dna, _>::sse2().unwrap().score_rows_into(dm, st, rows, out),
            "avx2" => Pipeline::<Dna, _>::avx2().unwrap().score_rows_into(dm, st, rows, out),
            _ => Pipeline::<Dna, _>::dispatch().score_rows_into(dm, st, rows, out),
        }
    }
    fn scan32(which: &str, pssm: &ScoringMatrix<Dna>, st: &StripedSequence<Dna, U32>, block: usize, thr: f32) {
        let mut sc = Scanner::new(pssm, st);
        sc.block_size(block).threshold(thr);
        if which == "max" {
            // a few `next` first, then the best remaining hit
            let _ = sc.next();
            let _ = sc.max();
        } else {
            let _ = sc.collect::<Vec<_>>();
        }
    }
}

impl Alpha for Protein {
    const LETTERS: &'static [u8] = PROTEIN;
    fn score_u8_32(_: &str, _: &DiscreteMatrix<Protein>, _: &StripedSequence<Protein, U32>, _: Range<usize>, _: &mut StripedScores<u8, U32>) {
        panic!("no 8-bit SIMD scoring for protein")
    }
    fn scan32(_: &str, _: &ScoringMatrix<Protein>, _: &StripedSequence<Protein, U32>, _: usize, _: f32) {
        panic!("no scanner for protein")
    }
}

/// what differs between the column counts: AVX2 and the dispatcher exist for 32 columns only
trait Lanes<A: Alpha>: PositiveLength + MultipleOf<U16> {
    fn stripe(backend: &str, fresh: bool, s: &[A::Symbol], st: &mut StripedSequence<A, Self>);
    fn score_f32(backend: &str, pssm: &ScoringMatrix<A>, st: &StripedSequence<A, Self>, rows: Range<usize>, out: &mut StripedScores<f32, Self>);
    fn score_full_f32(backend: &str, pssm: &ScoringMatrix<A>, st: &StripedSequence<A, Self>) -> StripedScores<f32, Self>;
    fn score_u8(backend: &str, dm: &DiscreteMatrix<A>, st: &StripedSequence<A, Self>, rows: Range<usize>, out: &mut StripedScores<u8, Self>);
    fn max_f32(backend: &str, which: &str, sc: &StripedScores<f32, Self>);
    fn max_u8(backend: &str, which: &str, sc: &StripedScores<u8, Self>);
    fn scan(which: &str, pssm: &ScoringMatrix<A>, st: &StripedSequence<A, Self>, block: usize, thr: f32);
    fn sample(n: usize, l: usize, w: usize, steps: usize, rng: &mut Rng);
}

fn maxop<T: lightmotif::dense::MatrixElement + PartialOrd, C: PositiveLength, P: Maximum<T, C> + Threshold<T, C>>(p: &P, which: &str, sc: &StripedScores<T, C>, t: T) {
    match which {
        "max" => {
            let _ = p.max(sc);
        }
        "argmax" => {
            let _ = p.argmax(sc);
        }
        _ => {
            let _ = p.threshold(sc, t);
        }
    }
}

impl<A: Alpha> Lanes<A> for U32 {
    fn stripe(backend: &str, fresh: bool, s: &[A::Symbol], st: &mut StripedSequence<A, U32>) {
        match (backend, fresh) {
            ("generic", true) => *st = Pipeline::<A, _>::generic().stripe(s),
            ("generic", false) => Pipeline::<A, _>::generic().stripe_into(s, st),
            ("avx2", true) => *st = Pipeline::<A, _>::avx2().unwrap().stripe(s),
            ("avx2", false) => Pipeline::<A, _>::avx2().unwrap().stripe_into(s, st),
            (_, true) => *st = EncodedSequence::<A>::new(s.to_vec()).to_striped(),
            (_, false) => Pipeline::<A, _>::dispatch().stripe_into(s, st),
        }
    }
    fn score_f32(backend: &str, pssm: &ScoringMatrix<A>, st: &StripedSequence<A, U32>, rows: Range<usize>, out: &mut StripedScores<f32, U32>) {
        match backend {
            "generic" => Pipeline::<A, _>::generic().score_rows_into(pssm, st, rows, out),
            "sse2" => Pipeline::<A, _>::sse2().unwrap().score_rows_into(pssm, st, rows, out),
            "avx2" => Pipeline::<A, _>::avx2().unwrap().score_rows_into(pssm, st, rows, out),
            _ => Pipeline::<A, _>::dispatch().score_rows_into(pssm, st, rows, out),
        }
    }
    fn score_full_f32(backend: &str, pssm: &ScoringMatrix<A>, st: &StripedSequence<A, U32>) -> StripedScores<f32, U32> {
        match backend {
            "generic" => Pipeline::<A, _>::generic().score(pssm, st),
            "sse2" => Pipeline::<A, _>::sse2().unwrap().score(pssm, st),
            "avx2" => Pipeline::<A, _>::avx2().unwrap().score(pssm, st),
            _ => pssm.score(st),
        }
    }
    fn score_u8(backend: &str, dm: &DiscreteMatrix<A>, st: &StripedSequence<A, U32>, rows: Range<usize>, out: &mut StripedScores<u8, U32>) {
        A::score_u8_32(backend, dm, st, rows, out)
    }
    fn max_f32(backend: &str, which: &str, sc: &StripedScores<f32, U32>) {
        match backend {
            "generic" => maxop(&Pipeline::<A, _>::generic(), which, sc, 0.5),
            "sse2" => maxop(&Pipeline::<A, _>::sse2().unwrap(), which, sc, 0.5),
            "avx2" => maxop(&Pipeline::<A, _>::avx2().unwrap(), which, sc, 0.5),
            _ => match which {
                // the inherent methods, built on the dispatcher
                "max" => {
                    let _ = sc.max();
                }
                "argmax" => {
                    let _ = sc.argmax();
                }
                _ => {
                    let _ = sc.threshold(0.5);
                }
            },
        }
    }
    fn max_u8(backend: &str, which: &str, sc: &StripedScores<u8, U32>) {
        match backend {
            "generic" => maxop(&Pipeline::<A, _>::generic(), which, sc, 100),
            "sse2" => maxop(&Pipeline::<A, _>::sse2().unwrap(), which, sc, 100),
            "avx2" => maxop(&Pipeline::<A, _>::avx2().unwrap(), which, sc, 100),
            _ => match which {
                "max" => {
                    let _ = sc.max();
                }
                "argmax" => {
                    let _ = sc.argmax();
                }
                _ => {
                    let _ = sc.threshold(100);
                }
            },
        }
    }
    fn scan(which: &str, pssm: &ScoringMatrix<A>, st: &StripedSequence<A, U32>, block: usize, thr: f32) {
        A::scan32(which, pssm, st, block, thr)
    }
    fn sample(n: usize, l: usize, w: usize, steps: usize, rng: &mut Rng) {
        let k = A::K::USIZE;
        let seqs: Vec<StripedSequence<A, U32>> = (0..n)
            .map(|_| {
                let s: Vec<A::Symbol> = (0..l).map(|_| A::symbols()[rng.below(k - 1)]).collect();
                let mut st: StripedSequence<A, U32> = Pipeline::<A, _>::dispatch().stripe(&s);
                st.configure_wrap(w);
                st
            })
            .collect();
        let data = SamplerData::new(seqs);
        let r = rand::rngs::StdRng::seed_from_u64(rng.next());
        let sampler = Sampler::new(&data, w, r);
        for it in sampler.take(steps) {
            let _ = it;
        }
    }
}

impl<A: Alpha> Lanes<A> for U16 {
    fn stripe(_backend: &str, fresh: bool, s: &[A::Symbol], st: &mut StripedSequence<A, U16>) {
        if fresh {
            *st = Pipeline::<A, _>::generic().stripe(s)
        } else {
            Pipeline::<A, _>::generic().stripe_into(s, st)
        }
    }
    fn score_f32(backend: &str, pssm: &ScoringMatrix<A>, st: &StripedSequence<A, U16>, rows: Range<usize>, out: &mut StripedScores<f32, U16>) {
        match backend {
            "sse2" => Pipeline::<A, _>::sse2().unwrap().score_rows_into(pssm, st, rows, out),
            _ => Pipeline::<A, _>::generic().score_rows_into(pssm, st, rows, out),
        }
    }
    fn score_full_f32(backend: &str, pssm: &ScoringMatrix<A>, st: &StripedSequence<A, U16>) -> StripedScores<f32, U16> {
        match backend {
            "sse2" => Pipeline::<A, _>::sse2().unwrap().score(pssm, st),
            _ => Pipeline::<A, _>::generic().score(pssm, st),
        }
    }
    fn score_u8(_backend: &str, dm: &DiscreteMatrix<A>, st: &StripedSequence<A, U16>, rows: Range<usize>, out: &mut StripedScores<u8, U16>) {
        Pipeline::<A, _>::generic().score_rows_into(dm, st, rows, out)
    }
    fn max_f32(backend: &str, which: &str, sc: &StripedScores<f32, U16>) {
        match backend {
            "sse2" => maxop(&Pipeline::<A, _>::sse2().unwrap(), which, sc, 0.5),
            _ => maxop(&Pipeline::<A, _>::generic(), which, sc, 0.5),
        }
    }
    fn max_u8(_backend: &str, which: &str, sc: &StripedScores<u8, U16>) {
        maxop(&Pipeline::<A, _>::generic(), which, sc, 100)
    }
    fn scan(_: &str, _: &ScoringMatrix<A>, _: &StripedSequence<A, U16>, _: usize, _: f32) {
        panic!("no scanner for 16 columns")
    }
    fn sample(_: usize, _: usize, _: usize, _: usize, _: &mut Rng) {
        panic!("no sampler for 16 columns")
    }
}

fn encode_with<A: Alpha, P: Encode<A>>(pli: &P, api: &str, s: &[u8]) -> Option<Vec<A::Symbol>> {
    match api {
        "encode" => pli.encode(s).ok().map(|e: EncodedSequence<A>| e.iter().cloned().collect()),
        "raw" => pli.encode_raw(s).ok(),
        _ => {
            let mut dst: Vec<A::Symbol> = Vec::with_capacity(s.len());
            dst.resize(s.len(), A::default_symbol());
            pli.encode_into(s, &mut dst).ok().map(|_| dst)
        }
    }
}

fn dense_ops<T: lightmotif::dense::MatrixElement + PartialEq, C: ArrayLength>(rows: usize, a: T, b: T) -> bool {
    let cols = C::USIZE;
    let src: Vec<Vec<T>> = (0..rows).map(|r| (0..cols).map(|c| if (r + c) % 2 == 0 { a } else { b }).collect()).collect();
    let mut m = DenseMatrix::<T, C>::from_rows(src);
    let mut ok = m.rows() == rows;
    if rows > 0 {
        ok &= (m[0].as_ptr() as usize) % 32 == 0;
    }
    m.fill(b);
    m.resize(rows + 3);
    m.fill(a);
    let mut c = m.clone();
    drop(m);
    c.resize(rows / 2);
    c.fill(b);
    for r in 0..c.rows() {
        ok &= c[r].iter().all(|x| *x == b);
    }
    ok
}

struct World<A: Alpha, C: Lanes<A>> {
    rng: Rng,
    enc: Vec<A::Symbol>,
    st: StripedSequence<A, C>,
    pssm: ScoringMatrix<A>,
    dm: Option<DiscreteMatrix<A>>,
    sf: StripedScores<f32, C>,
    su: StripedScores<u8, C>,
}

fn exact<T: Clone>(v: &[T]) -> Vec<T> {
    let mut o = Vec::with_capacity(v.len());
    o.extend_from_slice(v);
    o
}

fn force(backend: &str) {
    match backend.strip_prefix("disp-") {
        Some(arm) => assert!(verif::force_backend(arm)),
        None => verif::clear(),
    }
}

fn aligned<T: lightmotif::dense::MatrixElement, C: ArrayLength>(m: &DenseMatrix<T, C>) -> bool {
    (0..m.rows().min(3)).all(|r| (m[r].as_ptr() as usize) % 32 == 0) && (m.rows() == 0 || (m[m.rows() - 1].as_ptr() as usize) % 32 == 0)
}

fn run_case<A: Alpha, C: Lanes<A>>(seed: u64, ops: &[&str]) -> String {
    let k = A::K::USIZE;
    let mut w: World<A, C> = World {
        rng: Rng::new(seed),
        enc: Vec::new(),
        st: StripedSequence::default(),
        pssm: ScoringMatrix::new(Background::uniform(), DenseMatrix::new(0)),
        dm: None,
        sf: StripedScores::empty(),
        su: StripedScores::empty(),
    };
    let mut i = 0;
    let mut opno = 0;
    let num = |s: &str| -> usize { s.parse().unwrap() };
    while i < ops.len() {
        opno += 1;
        let op = ops[i];
        // declared sizes vs the real objects (checked before the call), then the call under catch_unwind
        let mut sizes_ok = true;
        match op {
            "E" => {
                let (backend, api, l, bad) = (ops[i + 1], ops[i + 2], num(ops[i + 3]), num(ops[i + 4]));
                let mut text: Vec<u8> = Vec::with_capacity(l);
                for _ in 0..l {
                    text.push(*w.rng.pick(A::LETTERS));
                }
                if bad > 0 {
                    text[bad - 1] = *w.rng.pick(&[b'a', b'#', 0u8, 0xffu8, b'B', b'Z', b' ']);
                }
                force(backend);
                let r = guarded(|| match backend {
                    "generic" => encode_with::<A, _>(&Pipeline::<A, _>::generic(), api, &text),
                    "sse2" => encode_with::<A, _>(&Pipeline::<A, _>::sse2().unwrap(), api, &text),
                    "avx2" => encode_with::<A, _>(&Pipeline::<A, _>::avx2().unwrap(), api, &text),
                    _ => encode_with::<A, _>(&Pipeline::<A, _>::dispatch(), api, &text),
                });
                if let Ok(Some(v)) = r {
                    sizes_ok &= v.len() == l;
                    w.enc = v;
                }
                i += 5;
            }
            "Q" => {
                let l = num(ops[i + 1]);
                let mut v: Vec<A::Symbol> = Vec::with_capacity(l);
                for _ in 0..l {
                    let x = if w.rng.chance(1, 12) { k - 1 } else { w.rng.below(k - 1) };
                    v.push(A::symbols()[x]);
                }
                w.enc = v;
                i += 2;
            }
            "S" => {
                let (backend, fresh, l) = (ops[i + 1], ops[i + 2] == "F", num(ops[i + 3]));
                sizes_ok &= w.enc.len() == l;
                force(backend);
                let src = exact(&w.enc);
                let st = &mut w.st;
                let _ = guarded(|| C::stripe(backend, fresh, &src, st));
                i += 4;
            }
            "N" => {
                let (rows, l) = (num(ops[i + 1]), num(ops[i + 2]));
                let mut m = DenseMatrix::<A::Symbol, C>::new(rows);
                for r in 0..rows {
                    for c in 0..C::USIZE {
                        m[r][c] = A::symbols()[w.rng.below(k)];
                    }
                }
                match StripedSequence::new(m, l) {
                    Ok(s) => w.st = s,
                    Err(_) => sizes_ok = false,
                }
                i += 3;
            }
            "R" => {
                let l = num(ops[i + 1]);
                let r = rand::rngs::StdRng::seed_from_u64(w.rng.next());
                match guarded(|| StripedSequence::<A, C>::sample(r, Background::uniform(), l)) {
                    Ok(s) => w.st = s,
                    Err(()) => sizes_ok = false,
                }
                i += 2;
            }
            "W" => {
                let m = num(ops[i + 1]);
                let st = &mut w.st;
                let _ = guarded(|| st.configure_wrap(m));
                i += 2;
            }
            "P" => {
                let m = num(ops[i + 1]);
                let mut d = DenseMatrix::<f32, A::K>::new(m);
                for r in 0..m {
                    for c in 0..k {
                        d[r][c] = if c == k - 1 && w.rng.chance(1, 2) { f32::NEG_INFINITY } else { (w.rng.f64() * 8.0 - 6.0) as f32 };
                    }
                }
                w.pssm = ScoringMatrix::new(Background::uniform(), d);
                let p = &w.pssm;
                w.dm = if k <= 16 && m > 0 { guarded(|| p.to_discrete()).ok() } else { None };
                i += 2;
            }
            "G" => {
                let (st, p) = (&mut w.st, &w.pssm);
                let _ = guarded(|| st.configure(p));
                i += 1;
            }
            "X" | "Y" => {
                let full = op == "Y";
                let (backend, ty) = (ops[i + 1], ops[i + 2]);
                let (m, l, rm, wr) = (num(ops[i + 3]), num(ops[i + 4]), num(ops[i + 5]), num(ops[i + 6]));
                sizes_ok &= w.pssm.len() == m && w.st.len() == l && w.st.matrix().rows() == rm && w.st.wrap() == wr;
                let rows = if full { 0..rm.saturating_sub(wr) } else { num(ops[i + 7])..num(ops[i + 8]) };
                force(backend);
                if sizes_ok {
                    if ty == "f32" {
                        let (p, st, sf) = (&w.pssm, &w.st, &mut w.sf);
                        if full {
                            if let Ok(s) = guarded(|| C::score_full_f32(backend, p, st)) {
                                *sf = s;
                            }
                        } else {
                            let _ = guarded(|| C::score_f32(backend, p, st, rows, sf));
                        }
                    } else if let Some(dm) = &w.dm {
                        let (st, su) = (&w.st, &mut w.su);
                        if full {
                            let mut fresh = StripedScores::empty();
                            let _ = guarded(|| C::score_u8(backend, dm, st, rows, &mut fresh));
                            *su = fresh;
                        } else {
                            let _ = guarded(|| C::score_u8(backend, dm, st, rows, su));
                        }
                    } else {
                        sizes_ok = false;
                    }
                }
                i += if full { 7 } else { 9 };
            }
            "Z" => {
                let (ty, rows) = (ops[i + 1], num(ops[i + 2]));
                if ty == "f32" {
                    w.sf.resize(rows, rows * C::USIZE);
                    for r in 0..rows {
                        for c in 0..C::USIZE {
                            w.sf.matrix_mut()[r][c] = (w.rng.f64() * 20.0 - 10.0) as f32;
                        }
                    }
                } else {
                    w.su.resize(rows, rows * C::USIZE);
                    for r in 0..rows {
                        for c in 0..C::USIZE {
                            w.su.matrix_mut()[r][c] = w.rng.below(256) as u8;
                        }
                    }
                }
                i += 3;
            }
            "A" => {
                let (backend, ty, which, rows) = (ops[i + 1], ops[i + 2], ops[i + 3], num(ops[i + 4]));
                force(backend);
                if ty == "f32" {
                    sizes_ok &= w.sf.matrix().rows() == rows;
                    let sf = &w.sf;
                    let _ = guarded(|| C::max_f32(backend, which, sf));
                } else {
                    sizes_ok &= w.su.matrix().rows() == rows;
                    let su = &w.su;
                    let _ = guarded(|| C::max_u8(backend, which, su));
                }
                i += 5;
            }
            "C" => {
                let (enc, st, pssm, dm, sf, su) = (exact(&w.enc), w.st.clone(), w.pssm.clone(), w.dm.clone(), w.sf.clone(), w.su.clone());
                w.enc = enc;
                w.st = st;
                w.pssm = pssm;
                w.dm = dm;
                w.sf = sf;
                w.su = su;
                i += 1;
            }
            "K" => {
                let (arm, which) = (ops[i + 1], ops[i + 2]);
                let (m, l, rm, wr, block) = (num(ops[i + 3]), num(ops[i + 4]), num(ops[i + 5]), num(ops[i + 6]), num(ops[i + 7]));
                sizes_ok &= w.pssm.len() == m && w.st.len() == l && w.st.matrix().rows() == rm && w.st.wrap() == wr;
                force(arm);
                if sizes_ok {
                    let (p, st) = (&w.pssm, &w.st);
                    let thr = (w.rng.f64() * 30.0 - 25.0) as f32;
                    let _ = guarded(|| C::scan(which, p, st, block, thr));
                }
                i += 8;
            }
            "M" => {
                let (arm, n, l, wd, steps) = (ops[i + 1], num(ops[i + 2]), num(ops[i + 3]), num(ops[i + 4]), num(ops[i + 5]));
                force(arm);
                let rng = &mut w.rng;
                let _ = guarded(|| C::sample(n, l, wd, steps, rng));
                i += 6;
            }
            "D" => {
                let (ty, cols, rows) = (ops[i + 1], num(ops[i + 2]), num(ops[i + 3]));
                let r = guarded(|| match (ty, cols) {
                    ("u8", 5) => dense_ops::<u8, U5>(rows, 1, 2),
                    ("u8", 16) => dense_ops::<u8, U16>(rows, 1, 2),
                    ("u8", 21) => dense_ops::<u8, U21>(rows, 1, 2),
                    ("u8", 32) => dense_ops::<u8, U32>(rows, 1, 2),
                    ("u8", 43) => dense_ops::<u8, U43>(rows, 1, 2),
                    ("u32", 5) => dense_ops::<u32, U5>(rows, 1, 2),
                    ("u32", 16) => dense_ops::<u32, U16>(rows, 1, 2),
                    ("u32", 21) => dense_ops::<u32, U21>(rows, 1, 2),
                    ("u32", 32) => dense_ops::<u32, U32>(rows, 1, 2),
                    ("u32", 43) => dense_ops::<u32, U43>(rows, 1, 2),
                    ("f32", 5) => dense_ops::<f32, U5>(rows, 1.0, 2.0),
                    ("f32", 16) => dense_ops::<f32, U16>(rows, 1.0, 2.0),
                    ("f32", 21) => dense_ops::<f32, U21>(rows, 1.0, 2.0),
                    ("f32", 32) => dense_ops::<f32, U32>(rows, 1.0, 2.0),
                    ("f32", 43) => dense_ops::<f32, U43>(rows, 1.0, 2.0),
                    _ => panic!("bad dense case"),
                });
                if r != Ok(true) {
                    verif::clear();
                    return format!("misaligned {}", opno);
                }
                i += 4;
            }
            _ => panic!("bad op {}", op),
        }
        verif::clear();
        if !sizes_ok {
            return format!("sizes-differ {}", opno);
        }
        if !(aligned(w.st.matrix()) && aligned(w.sf.matrix()) && aligned(w.su.matrix()) && aligned(w.pssm.matrix())) {
            return format!("misaligned {}", opno);
        }
    }
    "inbounds".into()
}

fn is_kernel_op(op: &str, backend: &str) -> bool {
    let simd = backend.ends_with("sse2") || backend.ends_with("avx2");
    matches!(op, "E" | "S" | "X" | "Y" | "A" | "K" | "M") && simd
}

pub fn exec(line: &str) -> (String, Option<Result<(), String>>, bool) {
    let t: Vec<&str> = line.split_whitespace().collect();
    assert_eq!(t[0], "c06");
    let (alpha, c, seed) = (t[1], t[2], t[3].parse::<u64>().unwrap());
    let ops = &t[4..];
    // the whole case under catch_unwind as well: a bug of the harness itself must not pass for a crash
    let r = guarded(|| match (alpha, c) {
        ("dna", "32") => run_case::<Dna, U32>(seed, ops),
        ("dna", "16") => run_case::<Dna, U16>(seed, ops),
        ("protein", "32") => run_case::<Protein, U32>(seed, ops),
        ("protein", "16") => run_case::<Protein, U16>(seed, ops),
        _ => panic!("bad alphabet / C"),
    });
    verif::clear();
    let mut nontrivial = false;
    for k in 0..ops.len().saturating_sub(1) {
        if is_kernel_op(ops[k], ops[k + 1]) {
            nontrivial = true;
        }
    }
    match r {
        // the sanitizer is the oracle of this property: it aborts the process; reaching this point
        // means no report was raised for the case
        Ok(a) => (a, Some(Ok(())), nontrivial),
        Err(()) => ("harness-panic".into(), None, nontrivial),
    }
}

// ------------------------------------------------------------------------------------------------
// generator: tracks the sizes of the objects so that every op carries the sizes it runs with

#[derive(Clone)]
struct Track {
    c: usize,
    k: usize,
    dna: bool,
    enc: usize,
    st: (usize, usize, usize), // (L, matrix rows, wrap)
    m: usize,
    have_dm: bool,
    sf: usize,
    su: usize,
    line: String,
}

impl Track {
    fn new(alpha: &str, c: usize, seed: u64) -> Self {
        Track { c, k: if alpha == "dna" { 5 } else { 21 }, dna: alpha == "dna", enc: 0, st: (0, 0, 0), m: 0, have_dm: false, sf: 0, su: 0, line: format!("c06 {} {} {}", alpha, c, seed) }
    }
    fn push(&mut self, s: String) {
        self.line.push(' ');
        self.line.push_str(&s);
    }
    fn encode(&mut self, backend: &str, api: &str, l: usize, bad: usize) {
        self.push(format!("E {} {} {} {}", backend, api, l, bad));
        if bad == 0 {
            self.enc = l;
        }
    }
    fn symbols(&mut self, l: usize) {
        self.push(format!("Q {}", l));
        self.enc = l;
    }
    fn stripe(&mut self, backend: &str, fresh: bool) {
        let l = self.enc;
        self.push(format!("S {} {} {}", backend, if fresh { "F" } else { "R" }, l));
        self.st = (l, (l + self.c - 1) / self.c, 0);
    }
    fn user_matrix(&mut self, rows: usize, l: usize) {
        self.push(format!("N {} {}", rows, l));
        self.st = (l, rows, 0);
    }
    fn sampled(&mut self, l: usize) {
        self.push(format!("R {}", l));
        self.st = (l, (l + self.c - 1) / self.c, 0);
    }
    fn wrap(&mut self, m: usize) {
        self.push(format!("W {}", m));
        if m > self.st.2 {
            self.st.1 += m - self.st.2;
            self.st.2 = m;
        }
    }
    fn pssm(&mut self, m: usize) {
        self.push(format!("P {}", m));
        self.m = m;
        self.have_dm = self.k <= 16 && m > 0;
    }
    fn configure(&mut self) {
        self.push("G".into());
        if self.m > 0 && self.m - 1 > self.st.2 {
            self.st.1 += self.m - 1 - self.st.2;
            self.st.2 = self.m - 1;
        }
    }
    /// in-contract partial scoring: M >= 1, wrap >= M-1, a <= b <= sequence rows
    fn score_rows(&mut self, backend: &str, ty: &str, a: usize, b: usize) {
        let (l, rm, w) = self.st;
        self.push(format!("X {} {} {} {} {} {} {} {}", backend, ty, self.m, l, rm, w, a, b));
        let rows = if l < self.m || a >= b { 0 } else { b - a };
        if ty == "f32" {
            self.sf = rows
        } else {
            self.su = rows
        }
    }
    fn score_full(&mut self, backend: &str, ty: &str) {
        let (l, rm, w) = self.st;
        self.push(format!("Y {} {} {} {} {} {}", backend, ty, self.m, l, rm, w));
        let rows = if l < self.m || rm <= w { 0 } else { rm - w };
        if ty == "f32" {
            self.sf = rows
        } else {
            self.su = rows
        }
    }
    fn resize_scores(&mut self, ty: &str, rows: usize) {
        self.push(format!("Z {} {}", ty, rows));
        if ty == "f32" {
            self.sf = rows
        } else {
            self.su = rows
        }
    }
    fn maxop(&mut self, backend: &str, ty: &str, which: &str) {
        let rows = if ty == "f32" { self.sf } else { self.su };
        self.push(format!("A {} {} {} {}", backend, ty, which, rows));
    }
    fn scan(&mut self, arm: &str, which: &str, block: usize) {
        let (l, rm, w) = self.st;
        self.push(format!("K {} {} {} {} {} {} {}", arm, which, self.m, l, rm, w, block));
    }
    fn in_contract(&self) -> bool {
        self.m >= 1 && self.st.2 + 1 >= self.m
    }
    fn seq_rows(&self) -> usize {
        self.st.1 - self.st.2
    }
}

fn backends_for(c: usize, what: &str) -> Vec<&'static str> {
    match (c, what) {
        (32, "stripe") => vec!["generic", "avx2", "disp-generic", "disp-sse2", "disp-avx2"],
        (32, "encode") | (16, "encode") => vec!["generic", "sse2", "avx2", "disp-generic", "disp-sse2", "disp-avx2"],
        (32, _) => vec!["generic", "sse2", "avx2", "disp-generic", "disp-sse2", "disp-avx2"],
        (_, "stripe") => vec!["generic"],
        _ => vec!["generic", "sse2"],
    }
}

/// lengths around the vector-width multiples
fn lengths(thorough: bool) -> Vec<usize> {
    let mut v: Vec<usize> = (0..=70).collect();
    v.extend(960..=1060);
    v.extend(2016..=2080);
    for s in [34usize, 47, 63, 64, 65, 95, 96, 97, 127, 128] {
        // strides (rows) with every residue class of interest; L just below / at the multiple
        for d in [0usize, 1, 2, 15, 16, 17, 30, 31] {
            if 32 * s >= d {
                v.push(32 * s - d);
            }
        }
    }
    if thorough {
        v.extend(3000..=3140);
        for base in [4096usize, 8192, 32 * 1024, 65536] {
            for d in 0..=66 {
                v.push(base - 33 + d);
            }
        }
    }
    v
}

pub fn generate(cfg: &Cfg) -> Vec<String> {
    let mut rng = Rng::new(cfg.seed ^ 0xC06);
    let mut cases = Vec::new();
    let apis = ["encode", "raw", "into"];
    for alpha in ["dna", "protein"] {
        let dna = alpha == "dna";
        // --- striping: every length of the grid, fresh and reused buffers, then a scoring pass over
        //     the striped buffer with every kernel (the rows the block loop / scalar tail wrote)
        for &l in &lengths(cfg.thorough) {
            for b in ["avx2", "disp-avx2"] {
                if b == "disp-avx2" && l % 3 != 0 && !cfg.thorough {
                    continue;
                }
                let mut t = Track::new(alpha, 32, rng.next() % 1_000_000);
                t.symbols(l);
                t.stripe(b, true);
                // a clone has exactly the capacity it needs: striping the same number of rows into it
                // leaves no slack behind the last row for an overrun to hide in
                t.push("C".into());
                t.symbols(l);
                t.stripe(b, false);
                let l2 = *rng.pick(&[993usize, 1000, 1023, 1024, 1025, 31, 32, 33, 0, 2047, 2049]);
                t.symbols(l2);
                t.stripe(b, false);
                t.symbols(l);
                t.stripe(b, false);
                let m = rng.range(1, 9);
                t.pssm(m);
                t.configure();
                t.push("C".into());
                let sb = *rng.pick(&["avx2", "sse2", "disp-avx2"]);
                t.score_full(sb, "f32");
                t.maxop(sb, "f32", "argmax");
                if dna {
                    t.score_full("avx2", "u8");
                    t.maxop("avx2", "u8", "max");
                }
                cases.push(t.line);
            }
        }
        // --- encoding: every length around the block sizes, every backend and API, invalid bytes
        let mut enc_lengths: Vec<usize> = (0..=130).collect();
        enc_lengths.extend(990..=1060);
        for &l in &enc_lengths {
            for (bi, b) in backends_for(32, "encode").iter().enumerate() {
                if l > 130 && (l + bi) % 2 == 1 && !cfg.thorough {
                    continue;
                }
                let mut t = Track::new(alpha, 32, rng.next() % 1_000_000);
                for api in apis {
                    t.encode(b, api, l, 0);
                }
                if l > 0 {
                    t.encode(b, *rng.pick(&apis), l, 1 + rng.below(l));
                    t.encode(b, *rng.pick(&apis), l, l);
                }
                if b.ends_with("avx2") || *b == "generic" {
                    t.stripe("avx2", true);
                }
                cases.push(t.line);
            }
        }
        // --- scoring: widths, wraps (exactly M-1 and more), row ranges (full, partial, empty, last
        //     rows), reused score buffers, both column counts
        for c in [32usize, 16] {
            for m in (1usize..=12).chain([15usize, 16, 17, 31, 32, 33, 40]) {
                for l in [0usize, 1, m.saturating_sub(1), m, m + 1, 31, 32, 33, 64, 100, 1000, 1024, 1025] {
                    let mut t = Track::new(alpha, c, rng.next() % 1_000_000);
                    if rng.chance(1, 4) {
                        t.sampled(l);
                    } else {
                        t.symbols(l);
                        t.stripe(if c == 32 { "avx2" } else { "generic" }, true);
                    }
                    t.pssm(m);
                    if rng.chance(1, 2) {
                        t.configure();
                    } else {
                        t.wrap(m - 1 + rng.below(3));
                    }
                    // exact capacities (see above): the last wrap row is the last row of the allocation
                    t.push("C".into());
                    let r = t.seq_rows();
                    for b in backends_for(c, "score") {
                        for ty in ["f32", "u8"] {
                            if ty == "u8" && !dna {
                                continue;
                            }
                            t.score_full(b, ty);
                            t.maxop(b, ty, *rng.pick(&["max", "argmax", "thr"]));
                            let a = rng.range(0, r);
                            let e = rng.range(a, r);
                            t.score_rows(b, ty, a, e);
                            t.maxop(b, ty, *rng.pick(&["max", "argmax"]));
                            if r > 0 {
                                t.score_rows(b, ty, r - 1, r);
                                t.maxop(b, ty, "argmax");
                            }
                        }
                    }
                    if rng.chance(1, 3) {
                        t.push("C".into());
                        t.score_full(backends_for(c, "score")[1], "f32");
                    }
                    cases.push(t.line);
                }
            }
        }
        // --- row ranges that leave the sequence rows (reach into / beyond the wrap rows), user-built
        //     matrices with exact capacity: last op of the case
        for c in [32usize, 16] {
            for m in [1usize, 2, 3, 5, 9] {
                for rows in [1usize, 2, 5, 33] {
                    for b in backends_for(c, "score") {
                        for ty in ["f32", "u8"] {
                            if ty == "u8" && !dna {
                                continue;
                            }
                            let mut t = Track::new(alpha, c, rng.next() % 1_000_000);
                            t.user_matrix(rows, rows * c - rng.below(c));
                            t.pssm(m);
                            t.wrap(m - 1 + rng.below(2));
                            let (_, rm, w) = t.st;
                            let r = rm - w;
                            let (a, e) = match rng.below(4) {
                                0 => (r - 1, rm),
                                1 => (rm - 1, rm),
                                2 => (0, rm),
                                _ => (r, r + 1),
                            };
                            t.score_rows(b, ty, a, e);
                            cases.push(t.line);
                        }
                    }
                }
            }
        }
        // --- max / argmax / threshold on user-sized score buffers
        for c in [32usize, 16] {
            for rows in [0usize, 1, 2, 3, 31, 32, 33, 100, 257] {
                let mut t = Track::new(alpha, c, rng.next() % 1_000_000);
                for ty in ["f32", "u8"] {
                    t.resize_scores(ty, rows);
                    for b in backends_for(c, "max") {
                        for which in ["max", "argmax", "thr"] {
                            t.maxop(b, ty, which);
                        }
                    }
                }
                t.push("C".into());
                t.maxop(backends_for(c, "max")[1], "f32", "argmax");
                cases.push(t.line);
            }
        }
        // --- scanner (DNA) and sampler through the three forced dispatcher arms
        for arm in ["disp-generic", "disp-sse2", "disp-avx2"] {
            if dna {
                for l in [0usize, 5, 31, 32, 33, 64, 100, 993, 1024, 1056, 2047] {
                    for block in [1usize, 2, 7, 256] {
                        if l > 200 && block < 7 {
                            continue;
                        }
                        let mut t = Track::new(alpha, 32, rng.next() % 1_000_000);
                        t.symbols(l);
                        t.stripe(arm, true);
                        t.pssm(rng.range(1, 12));
                        t.configure();
                        t.push("C".into());
                        t.scan(arm, "collect", block);
                        t.scan(arm, "max", block);
                        cases.push(t.line);
                    }
                }
            }
            for (n, l, w, steps) in [(3usize, 40usize, 5usize, 12usize), (4, 100, 8, 10), (2, 1030, 12, 4), (5, 33, 1, 10)] {
                let mut t = Track::new(alpha, 32, rng.next() % 1_000_000);
                t.push(format!("M {} {} {} {} {}", arm, n, l, w, steps));
                cases.push(t.line);
            }
        }
        // --- dense matrix construction
        for ty in ["u8", "u32", "f32"] {
            for cols in [5usize, 16, 21, 32, 43] {
                let mut t = Track::new(alpha, 32, rng.next() % 1_000_000);
                for rows in [0usize, 1, 2, 7, 64] {
                    t.push(format!("D {} {} {}", ty, cols, rows));
                }
                if dna {
                    cases.push(t.line);
                }
            }
        }
        // --- random op sequences on one state
        let count = (if cfg.thorough { 3000 } else { 500 }) * cfg.boost;
        let maxlen = if cfg.thorough { 70_000 } else { 4_000 };
        let grid = lengths(false);
        for n in 0..count {
            let c = if rng.chance(1, 5) { 16 } else { 32 };
            let mut t = Track::new(alpha, c, rng.next() % 1_000_000);
            let nops = rng.range(3, 14);
            t.symbols(rng.range(0, 100));
            t.stripe(*rng.pick(&backends_for(c, "stripe")), true);
            t.pssm(rng.range(1, 10));
            for _ in 0..nops {
                match rng.below(12) {
                    0 => {
                        let l = if n % 7 == 0 { rng.range(0, maxlen) } else { *rng.pick(&grid) };
                        let b = *rng.pick(&backends_for(c, "encode"));
                        t.encode(b, *rng.pick(&apis), l, 0);
                    }
                    1 => {
                        let l = if n % 7 == 0 { rng.range(0, maxlen) } else if rng.chance(1, 2) { *rng.pick(&grid) } else { rng.range(0, 200) };
                        if rng.chance(1, 4) {
                            t.sampled(l);
                        } else {
                            t.symbols(l);
                        }
                    }
                    2 | 3 => t.stripe(*rng.pick(&backends_for(c, "stripe")), rng.chance(1, 3)),
                    4 => t.wrap(if rng.chance(1, 6) { rng.range(0, 80) } else { rng.range(0, 12) }),
                    5 => t.pssm(if rng.chance(1, 8) { rng.range(1, 45) } else { rng.range(1, 12) }),
                    6 => t.configure(),
                    7 | 8 => {
                        if !t.in_contract() {
                            t.configure();
                        }
                        if !t.in_contract() {
                            continue;
                        }
                        let b = *rng.pick(&backends_for(c, "score"));
                        let ty = if dna && rng.chance(1, 3) { "u8" } else { "f32" };
                        if rng.chance(1, 2) {
                            t.score_full(b, ty);
                        } else {
                            let r = t.seq_rows();
                            let a = rng.range(0, r);
                            t.score_rows(b, ty, a, rng.range(a, r));
                        }
                        t.maxop(*rng.pick(&backends_for(c, "max")), ty, *rng.pick(&["max", "argmax", "thr"]));
                    }
                    9 => {
                        let ty = if rng.chance(1, 2) { "u8" } else { "f32" };
                        t.resize_scores(ty, rng.range(0, 70));
                        t.maxop(*rng.pick(&backends_for(c, "max")), ty, *rng.pick(&["max", "argmax", "thr"]));
                    }
                    10 => t.push("C".into()),
                    _ => {
                        if dna && c == 32 && t.in_contract() {
                            let arm = *rng.pick(&["disp-generic", "disp-sse2", "disp-avx2"]);
                            t.scan(arm, *rng.pick(&["collect", "max"]), *rng.pick(&[1usize, 3, 16, 256]));
                        }
                    }
                }
            }
            cases.push(t.line);
        }
    }
    cases
}

pub fn run(cfg: &Cfg) {
    let cases = crate::replay_cases(cfg).unwrap_or_else(|| generate(cfg));
    let mut out = Out::new(&cfg.out);
    for c in &cases {
        out.announce(c);
        let (ans, o, nt) = exec(c);
        let t: Vec<&str> = c.split(' ').collect();
        out.stat(&format!("{}/C{}", t[1], t[2]));
        for k in 4..t.len().saturating_sub(1) {
            if matches!(t[k], "E" | "S" | "X" | "Y" | "A" | "K" | "M") && (t[k + 1].ends_with("sse2") || t[k + 1].ends_with("avx2") || t[k + 1].ends_with("generic")) {
                out.stat(&format!("op/{}/{}", t[k], t[k + 1]));
            }
        }
        out.case(c, &ans, o, nt);
    }
    out.finish(&cfg.out);
}
