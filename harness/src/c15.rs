//! C15 — motif file readers never panic or hang on malformed input.
//!
//! case:   c15 <jaspar|jaspar16|transfac|uniprobe> <dna|protein> <k> <chunk sizes × k> <hex bytes | ->
//! answer: outcome class of `new` and of every call of `next`, joined by " ; ":
//!           rec | err-nom | err-io | err-data | end | panic | new-panic | hang
//!         The consumer calls `next` until the first `end` (or panic), keeps going for two more calls
//!         after the first error (the property is about *each* request), and reports `hang` when
//!         more calls succeed than the input has bytes.
//!
//! Oracle (from the property text): no call may panic, and the consumer must terminate.
//!
//! Alternative entry points (`c14::alt`, on the cases whose line hash is even, same chunk schedule):
//! `Reader::new` instead of the free `read`; every call of `next` through an `Iterator` adaptor;
//! `collect::<Result<Vec<_>, _>>()` terminates with the first error of the main route (or as many
//! records); `size_hint()`; the accessors / conversions of the records read before the first error.
//! None of them may panic, and each must answer like the main route.
use crate::c14::*;
use crate::out::*;
use crate::rng::Rng;
use crate::Cfg;

const EXTRA: usize = 2;

fn mutate(rng: &mut Rng, base: &[u8]) -> Vec<u8> {
    let mut v = base.to_vec();
    const SPECIAL: &[u8] = b">\n\r\t []:/.0123456789eE+-ACGTNPVXO\xff\x80\xc2\xe2\x00";
    let byte = |rng: &mut Rng| if rng.chance(2, 3) { *rng.pick(SPECIAL) } else { rng.below(256) as u8 };
    match rng.below(3) {
        0 if !v.is_empty() => {
            let i = rng.below(v.len());
            v[i] = byte(rng);
        }
        1 => {
            let i = rng.below(v.len() + 1);
            let b = byte(rng);
            v.insert(i, b);
        }
        _ if !v.is_empty() => {
            let i = rng.below(v.len());
            v.remove(i);
        }
        _ => {}
    }
    v
}

fn handwritten(fmt: &str) -> Vec<&'static [u8]> {
    let mut v: Vec<&'static [u8]> = vec![b"", b"\n", b" ", b">", b">>", b"//", b"//\n", b"\xff", b"\xc2", b"abc", b"  \n\n"];
    match fmt {
        "jaspar" => v.extend_from_slice(&[
            b">a\n1 2\n1\n1 2\n1 2\n" as &[u8],
            b">a\n1 2\n1 2\n1 2\n",
            b">a\n",
            b">a",
            b">a\n1 2\n1 2\n1 2\n1 2",
            b">a\n1 2\n1 2\n1 2\n1 2\n>",
            b">a\n4294967296\n1\n1\n1\n",
            b">a\n1 \n1\n1\n1\n",
            b">bad>\n1\n1\n1\n1\nZZ",
            b">a\n\n\n\n\n",
            b"x>a\n1\n1\n1\n1\n>b\n2\n2\n2\n2\n",
            b">a\n1\n1\n1\n1\n\n>b\n2\n2\n2\n2\n",
            b">a\xff\n1\n1\n1\n1\n",
        ]),
        "jaspar16" => v.extend_from_slice(&[
            b">a\nA [1 2]\nC [1]\n" as &[u8],
            b">a\nA [1 2]\nA [1 2]\n",
            b">a\n",
            b">a",
            b">a\nA [1 2]",
            b">a\nA [1 2\n",
            b">a\nZ [1 2]\n",
            b">a\nA [ ]\n",
            b">a\nA[1]\n",
            b">bad>\nA [1]\nZZ",
            b">a\n\xc3\xa9 [1]\n",
            b">a\nA [1]\n\n>b\nC [2]\n",
        ]),
        "uniprobe" => v.extend_from_slice(&[
            b"ID\n" as &[u8],
            b"ID",
            b"ID\nfoo\n",
            b"ID\nA:\t0.5\t0.5\nC:\t0.5\n",
            b"ID\nA:\t1.0\nA:\t1.0\n",
            b"ID\nA:\t0.3\n",
            b"ID\nA:\t1.0",
            b"ID\nA:\t1e\n",
            b"ID\nA:\tnan\n",
            b"ID\nA:\tinfinity\n",
            b"ID\r\nA:\t1\r\n",
            b"ID\rX\n",
            b"A:\t1.0\n",
            b"ID\n\xff\nA:\t1\n",
            b"ID\nA:\t1\n\xff\n",
        ]),
        _ => v.extend_from_slice(&[
            b"P0" as &[u8],
            b"PO",
            b"P0 A",
            b"P0 A  ",
            b"AC x\nP0 A  ",
            b"P0 A\n",
            b"P0 A\n01 1\n",
            b"P0 A\n01 1\n//",
            b"P0 A\n01 1\n//\n",
            b"P0 A C\n01 1\n//\n",
            b"P0 A A\n01 1 2\n//\n",
            b"VV",
            b"VV x",
            b"VV x\n",
            b"VV x\n//\n",
            b"AC\n//\n",
            b"A",
            b"AC",
            b"ZZ x\n//\n",
            b"DT 1.2.3 (created); x.\n//\n",
            b"DT 1.2.3 (foo); x.\n//\n",
            b"DT 300.2.3 (created); x.\n//\n",
            b"RN [1]\n//\n",
            b"RN [1]; x.\n//\n",
            b"RN [1]; x\n//\n",
            b"RN [1]\nR",
            b"RN [1]\nRX PUBMED: 1.\nRA a\nRT t\nRL l\n//\n",
            b"RN [1]\nRX PUBMED: 1\n//\n",
            b"CC a\nCC b\n//\n",
            b"CC",
            b"XX\n//\n//\n",
            b"AC a\n\xff\n//\n",
            b"\xc3\xa9\xc3\xa9 x\n//\n",
            b"AC x\n\n//\n",
        ]),
    }
    v
}

pub fn generate(cfg: &Cfg) -> Vec<String> {
    let mut rng = Rng::new(cfg.seed ^ 0xC15);
    let mut cases = Vec::new();
    let scale = (if cfg.thorough { 12 } else { 1 }) * cfg.boost;
    for &fmt in FORMATS {
        for &alpha in alphas(fmt) {
            let mut batch: Vec<String> = Vec::new();
            let mut push = |rng: &mut Rng, data: &[u8]| {
                let sched = if rng.chance(1, 3) { vec![] } else { gen_sched(rng, data.len().max(1)) };
                batch.push(case_line("c15", fmt, alpha, &sched, data));
            };
            // hand-written corner cases, whole and byte by byte
            for h in handwritten(fmt) {
                push(&mut rng, h);
                cases.push(case_line("c15", fmt, alpha, &vec![1; h.len() + 1], h));
                cases.push(case_line("c15", fmt, alpha, &vec![2; h.len() + 1], h));
            }
            // every prefix of valid files
            for _ in 0..2 * scale {
                let records = rng.range(1, 2);
                let u = rng.chance(1, 3);
                let base = gen_file(&mut rng, fmt, alpha, records, u);
                let base = if base.len() > 400 { base[..400].to_vec() } else { base };
                for n in 0..=base.len() {
                    push(&mut rng, &base[..n]);
                }
            }
            // single-byte substitutions / insertions / deletions (sometimes two of them)
            for _ in 0..220 * scale {
                let records = rng.range(1, 3);
                let u = rng.chance(1, 3);
                let base = gen_file(&mut rng, fmt, alpha, records, u);
                let mut m = mutate(&mut rng, &base);
                if rng.chance(1, 5) {
                    m = mutate(&mut rng, &m);
                }
                push(&mut rng, &m);
            }
            // structural damage: dropped lines, duplicated lines, missing final newline
            for _ in 0..80 * scale {
                let records = rng.range(1, 3);
                let base = gen_file(&mut rng, fmt, alpha, records, false);
                let mut lines: Vec<&[u8]> = base.split_inclusive(|&b| b == b'\n').collect();
                match rng.below(4) {
                    0 if lines.len() > 1 => {
                        let i = rng.below(lines.len());
                        lines.remove(i);
                    }
                    1 => {
                        let i = rng.below(lines.len());
                        let l = lines[i];
                        lines.insert(i, l);
                    }
                    2 => {
                        let i = rng.below(lines.len());
                        let j = rng.below(lines.len());
                        lines.swap(i, j);
                    }
                    _ => {}
                }
                let mut m: Vec<u8> = lines.concat();
                if rng.chance(1, 2) {
                    while m.last() == Some(&b'\n') || m.last() == Some(&b'\r') {
                        m.pop();
                    }
                }
                push(&mut rng, &m);
            }
            // invalid UTF-8 planted in a valid file
            for _ in 0..30 * scale {
                let base = gen_file(&mut rng, fmt, alpha, 2, true);
                let mut m = base.clone();
                let i = rng.below(m.len() + 1);
                let bad: &[u8] = *rng.pick(&[b"\xff" as &[u8], b"\xc0\x80", b"\xed\xa0\x80", b"\xf4\x90\x80\x80", b"\xe2\x82", b"\x80"]);
                for (k, b) in bad.iter().enumerate() {
                    m.insert(i + k, *b);
                }
                push(&mut rng, &m);
            }
            // ragged matrices whose deviations cancel out: one token moved from the end of a line to the
            // end of another (total count unchanged), sometimes twice
            for _ in 0..60 * scale {
                let nrec = rng.range(1, 2);
                let base = gen_file(&mut rng, fmt, alpha, nrec, false);
                let text = String::from_utf8_lossy(&base).to_string();
                let mut lines: Vec<String> = text.split_inclusive('\n').map(|l| l.to_string()).collect();
                for _ in 0..rng.range(1, 2) {
                    let cand: Vec<usize> = (0..lines.len()).filter(|&i| lines[i].split_whitespace().count() >= 3).collect();
                    if cand.len() >= 2 {
                        let i = *rng.pick(&cand);
                        let j = *rng.pick(&cand);
                        if i != j {
                            let eol_i: String = lines[i].chars().rev().take_while(|c| *c == '\n' || *c == '\r').collect::<String>().chars().rev().collect();
                            let body_i = lines[i].trim_end_matches(|c| c == '\n' || c == '\r').to_string();
                            let eol_j: String = lines[j].chars().rev().take_while(|c| *c == '\n' || *c == '\r').collect::<String>().chars().rev().collect();
                            let body_j = lines[j].trim_end_matches(|c| c == '\n' || c == '\r').to_string();
                            // keep a closing bracket (JASPAR 2016) at the end of both lines
                            let (bi, close_i) = match body_i.trim_end().strip_suffix(']') { Some(b) => (b.trim_end().to_string(), " ]"), None => (body_i.trim_end().to_string(), "") };
                            let (bj, close_j) = match body_j.trim_end().strip_suffix(']') { Some(b) => (b.trim_end().to_string(), " ]"), None => (body_j.trim_end().to_string(), "") };
                            if let Some(pos) = bi.rfind(|c: char| c == ' ' || c == '\t') {
                                let tok = bi[pos + 1..].to_string();
                                let sep = if bi.contains('\t') { "\t" } else { " " };
                                lines[i] = format!("{}{}{}", &bi[..pos], close_i, eol_i);
                                lines[j] = format!("{}{}{}{}{}", bj, sep, tok, close_j, eol_j);
                            }
                        }
                    }
                }
                let m: Vec<u8> = lines.concat().into_bytes();
                push(&mut rng, &m);
            }
            // a wide record followed by narrow ones (the reader's offset is far from 0 when the input
            // ends), read to the end and beyond
            if fmt == "jaspar" || fmt == "jaspar16" || fmt == "uniprobe" {
                for _ in 0..12 * scale {
                    let wide = rng.range(40, 90);
                    let mut text = String::new();
                    let mut rec = |rng: &mut Rng, name: &str, w: usize, text: &mut String| {
                        let letters = ["A", "C", "G", "T"];
                        match fmt {
                            "jaspar" => {
                                text.push_str(&format!(">{}\n", name));
                                for _ in 0..4 {
                                    let row: Vec<String> = (0..w).map(|_| rng.below(50).to_string()).collect();
                                    text.push_str(&row.join(" "));
                                    text.push('\n');
                                }
                            }
                            "jaspar16" => {
                                text.push_str(&format!(">{} {}\n", name, name));
                                for l in letters {
                                    let row: Vec<String> = (0..w).map(|_| rng.below(50).to_string()).collect();
                                    text.push_str(&format!("{} [ {} ]\n", l, row.join(" ")));
                                }
                            }
                            _ => {
                                text.push_str(&format!("{}\n", name));
                                for l in letters {
                                    let row: Vec<String> = (0..w).map(|_| format!("0.{}", rng.below(99))).collect();
                                    text.push_str(&format!("{}:\t{}\n", l, row.join("\t")));
                                }
                                text.push('\n');
                            }
                        }
                    };
                    rec(&mut rng, "wide", wide, &mut text);
                    for k in 0..rng.range(1, 3) {
                        let w = rng.range(1, 4);
                        rec(&mut rng, &format!("n{}", k), w, &mut text);
                    }
                    let bytes = text.into_bytes();
                    push(&mut rng, &bytes);
                    // and through a one-shot stream (whole file in one chunk): no compaction happens
                    cases.push(case_line("c15", fmt, alpha, &vec![], &bytes));
                }
            }
            // VALID multi-byte UTF-8 at the positions byte-offset arithmetic gets wrong: the first and
            // the second character of a line (any line of the file), and anywhere
            for _ in 0..60 * scale {
                let nrec = rng.range(1, 3);
                let base = gen_file(&mut rng, fmt, alpha, nrec, true);
                let mut m = base.clone();
                let starts: Vec<usize> = std::iter::once(0)
                    .chain(m.iter().enumerate().filter(|(_, &b)| b == b'\n').map(|(i, _)| i + 1))
                    .filter(|&i| i < m.len())
                    .collect();
                let ch: &[u8] = *rng.pick(&["\u{b5}".as_bytes(), "\u{e9}".as_bytes(), "\u{20ac}".as_bytes(), "\u{1f600}".as_bytes(), "\u{a0}".as_bytes()]);
                let at = match rng.below(4) {
                    0 => *rng.pick(&starts),
                    1 => (*rng.pick(&starts) + 1).min(m.len()),
                    2 => (*rng.pick(&starts) + 2).min(m.len()),
                    _ => rng.below(m.len() + 1),
                };
                // insert, or overwrite the byte there
                if rng.chance(1, 2) && at < m.len() && m[at] != b'\n' {
                    m.remove(at);
                }
                for (k, b) in ch.iter().enumerate() {
                    m.insert(at + k, *b);
                }
                push(&mut rng, &m);
            }
            // random bytes, random printable soup
            for _ in 0..60 * scale {
                let n = rng.range(0, 60);
                let soup = rng.chance(1, 2);
                let m: Vec<u8> = (0..n)
                    .map(|_| if soup { *rng.pick(b">\n\t []:/.019eACGTPOVX") } else { rng.below(256) as u8 })
                    .collect();
                push(&mut rng, &m);
            }
            cases.append(&mut batch);
        }
    }
    cases
}

pub fn exec(line: &str) -> (String, Option<Result<(), String>>, bool) {
    let c = parse_case(line);
    let ans = drive(&c.fmt, &c.alpha, &c.sched, &c.data, false, EXTRA);
    let o = if ans.contains("panic") {
        let call = ans.split(" ; ").position(|x| x.contains("panic")).unwrap_or(0);
        Err(if ans == "new-panic" { "Reader::new panicked".to_string() } else { format!("call {} of next panicked", call + 1) })
    } else if ans.contains("hang") {
        Err("the consumer did not terminate within |input| + 5 calls".into())
    } else {
        Ok(())
    };
    let nontrivial = c.data.is_empty() || ans.contains("err") || ans.contains("panic");
    // the alternative entry points under the same chunk schedule (c14::alt)
    let (o, alt_run) = with_alt(line, &c, &ans, Some(o), false, EXTRA, false);
    ALT_RUN.store(alt_run, std::sync::atomic::Ordering::Relaxed);
    (ans, o, nontrivial)
}

pub fn run(cfg: &Cfg) {
    let cases = crate::replay_cases(cfg).unwrap_or_else(|| generate(cfg));
    let mut out = Out::new(&cfg.out);
    for c in &cases {
        let (ans, o, nt) = exec(c);
        let t: Vec<&str> = c.splitn(4, ' ').collect();
        out.stat(&format!("{}/{}", t[1], t[2]));
        for call in ans.split(" ; ") {
            out.stat(&format!("call/{}", call));
        }
        if ans.contains("panic") {
            out.panics += 1;
        }
        if ALT_RUN.load(std::sync::atomic::Ordering::Relaxed) {
            out.stat("alternative-entry-points");
        }
        out.case(c, &ans, o, nt);
    }
    out.finish(&cfg.out);
}
