//! C09 — count -> frequency -> weight -> log-odds conversions obey their definitions.
//!
//! Floats cross the protocol as `f32::to_bits()` in decimal (a NaN is written `nan`).
//!
//! cases (alpha = dna | protein, K = 5 | 21, symbols as indices):
//!   c09seqs  <alpha> <nseq> {<len> <syms…>}                       CountMatrix::from_sequences
//!            -> ok <n> <rows> <counts…> | err
//!   c09pipe  <alpha> <rows> <counts rows*K> <pseudo> <bg> <base bits> <bg2>
//!            pseudo: pu <bits> | pa <K bits>       bg: bn | bu | bw <K bits> | bc <K counts>
//!            CountMatrix::new -> to_freq -> to_weight -> to_scoring_with_base ; to_scoring (one step) ;
//!            rescale(bg2) ; min_score / max_score of the two-step matrix
//!            -> bgerr | n <n> F <…> W <…> S <…> S1 <…> R <…|bgerr> mn <bits|panic> mx <bits|panic>
//!   c09bg    <alpha> new <K bits> | counts <K counts> | seq <unknown> <len> <syms…>
//!            | seqs <unknown> <nseq> {<len> <syms…>} | uniform        -> ok <K bits> | err
//!   c09fnew  <alpha> <rows> <bits rows*K>                            -> ok | err
//!   c09score <alpha> <rows> <bits rows*K> <L> <syms…> <pos>          ScoringMatrix::new + min/max/score_position
//!            -> mn <bits|panic> mx <bits|panic> sc <bits>
//!   c09cs    <alpha> <L> <syms…>                                     count_symbol / count_symbols
//!            -> <K counts> | <K counts>
//!   c09laws  -                                                       2.0==2.0, log2/log10/ln of 0.0, -inf, empty sum, 0.01, 10.0
//!
//! Alternative entry points (oracle only, no change of the case lines or of the answers): on a share of
//! the cases chosen by a hash of the case line (`share`), every other public way of reaching the same
//! functionality is driven too and must agree with the main route — see `pipe_alt`, `seqs_alt`,
//! `bg_alt`, `fnew_alt`, `score_alt`.  A disagreement is an oracle failure naming the entry point.
use crate::out::*;
use crate::rng::Rng;
use crate::Cfg;
use generic_array::GenericArray;
use lightmotif::abc::Alphabet;
use lightmotif::abc::Background;
use lightmotif::abc::Dna;
use lightmotif::abc::Protein;
use lightmotif::abc::Pseudocounts;
use lightmotif::dense::DenseMatrix;
use lightmotif::dense::MatrixElement;
use lightmotif::pli::Pipeline;
use lightmotif::pli::Stripe;
use lightmotif::pwm::CountMatrix;
use lightmotif::pwm::FrequencyMatrix;
use lightmotif::pwm::ScoringMatrix;
use lightmotif::seq::EncodedSequence;
use lightmotif::seq::StripedSequence;
use lightmotif::seq::SymbolCount;
use lightmotif::pwm::WeightMatrix;
use std::sync::atomic::{AtomicUsize, Ordering};
use typenum::Unsigned;
use typenum::U32;

// ------------------------------------------------------------------------------------ helpers

pub fn fb(x: f32) -> String {
    if x.is_nan() {
        "nan".into()
    } else {
        x.to_bits().to_string()
    }
}

/// input side: raw bits, NaN payload included
pub fn ib(x: f32) -> String {
    x.to_bits().to_string()
}

pub fn ibs<'a>(xs: impl IntoIterator<Item = &'a f32>) -> String {
    join(xs.into_iter().map(|x| ib(*x)))
}

pub fn fbs<'a>(xs: impl IntoIterator<Item = &'a f32>) -> String {
    join(xs.into_iter().map(|x| fb(*x)))
}

pub struct Tok<'a> {
    t: Vec<&'a str>,
    i: usize,
    pub line: &'a str,
}

impl<'a> Tok<'a> {
    pub fn new(line: &'a str) -> Self {
        Tok { t: line.split_whitespace().collect(), i: 0, line }
    }
    pub fn next(&mut self) -> &'a str {
        let x = self.t[self.i];
        self.i += 1;
        x
    }
    pub fn nat(&mut self) -> usize {
        self.next().parse().unwrap()
    }
    pub fn f32(&mut self) -> f32 {
        f32::from_bits(self.next().parse::<u32>().unwrap())
    }
    pub fn nats(&mut self, n: usize) -> Vec<usize> {
        (0..n).map(|_| self.nat()).collect()
    }
    pub fn f32s(&mut self, n: usize) -> Vec<f32> {
        (0..n).map(|_| self.f32()).collect()
    }
    pub fn seqs(&mut self, n: usize) -> Vec<Vec<usize>> {
        (0..n)
            .map(|_| {
                let l = self.nat();
                self.nats(l)
            })
            .collect()
    }
}

pub fn dense<T: MatrixElement, A: Alphabet>(rows: usize, flat: &[T]) -> DenseMatrix<T, A::K> {
    let k = A::K::USIZE;
    let mut m = DenseMatrix::<T, A::K>::new(rows);
    for i in 0..rows {
        for j in 0..k {
            m[i][j] = flat[i * k + j];
        }
    }
    m
}

pub fn flat<T: MatrixElement, A: Alphabet>(m: &DenseMatrix<T, A::K>) -> Vec<T> {
    let mut v = Vec::new();
    for i in 0..m.rows() {
        for j in 0..A::K::USIZE {
            v.push(m[i][j]);
        }
    }
    v
}

pub fn garr<T: Clone, A: Alphabet>(v: &[T]) -> GenericArray<T, A::K> {
    GenericArray::<T, A::K>::from_iter(v.iter().cloned())
}

pub fn encoded<A: Alphabet>(s: &[usize]) -> EncodedSequence<A> {
    EncodedSequence::<A>::new(s.iter().map(|&i| A::symbols()[i]).collect())
}

pub fn striped<A: Alphabet>(s: &[usize]) -> StripedSequence<A, U32> {
    let syms: Vec<A::Symbol> = s.iter().map(|&i| A::symbols()[i]).collect();
    Pipeline::<A, _>::generic().stripe(&syms)
}

#[derive(Clone, Debug)]
pub enum Pseudo {
    U(f32),
    A(Vec<f32>),
}

#[derive(Clone, Debug)]
pub enum Bg {
    None,
    Uniform,
    New(Vec<f32>),
    Counts(Vec<usize>),
}

pub fn parse_pseudo(t: &mut Tok, k: usize) -> Pseudo {
    match t.next() {
        "pu" => Pseudo::U(t.f32()),
        "pa" => Pseudo::A(t.f32s(k)),
        x => panic!("bad pseudo token {}", x),
    }
}

pub fn parse_bg(t: &mut Tok, k: usize) -> Bg {
    match t.next() {
        "bn" => Bg::None,
        "bu" => Bg::Uniform,
        "bw" => Bg::New(t.f32s(k)),
        "bc" => Bg::Counts(t.nats(k)),
        x => panic!("bad background token {}", x),
    }
}

pub fn make_pseudo<A: Alphabet>(p: &Pseudo) -> Pseudocounts<A> {
    match p {
        Pseudo::U(c) => Pseudocounts::<A>::from(*c),
        Pseudo::A(v) => Pseudocounts::<A>::from(garr::<f32, A>(v)),
    }
}

/// `Err(())` = the library rejected the background
pub fn make_bg<A: Alphabet>(b: &Bg) -> Result<Option<Background<A>>, ()> {
    match b {
        Bg::None => Ok(None),
        Bg::Uniform => Ok(Some(Background::<A>::uniform())),
        Bg::New(v) => Background::<A>::new(garr::<f32, A>(v)).map(Some).map_err(|_| ()),
        Bg::Counts(c) => Background::<A>::from_counts(&garr::<usize, A>(c)).map(Some).map_err(|_| ()),
    }
}

// ---- what the property text says these inputs mean (independent of the library), in f64

/// a scalar pseudocount applies to every symbol but the wildcard (last symbol)
pub fn spec_pseudo(p: &Pseudo, k: usize) -> Vec<f64> {
    match p {
        Pseudo::U(c) => (0..k).map(|j| if j + 1 == k { 0.0 } else { *c as f64 }).collect(),
        Pseudo::A(v) => v.iter().map(|x| *x as f64).collect(),
    }
}

/// `None` when the background is invalid by the property text
pub fn spec_bg(b: &Bg, k: usize) -> Option<Vec<f64>> {
    match b {
        Bg::None | Bg::Uniform => Some((0..k).map(|j| if j + 1 == k { 0.0 } else { 1.0 / (k as f64 - 1.0) }).collect()),
        Bg::New(v) => {
            if bg_invalid(v) {
                None
            } else {
                Some(v.iter().map(|x| *x as f64).collect())
            }
        }
        Bg::Counts(c) => {
            let tot: usize = c.iter().sum();
            if tot == 0 {
                None
            } else {
                Some(c.iter().map(|x| *x as f64 / tot as f64).collect())
            }
        }
    }
}

/// definitely invalid by the property text: an entry outside [0,1] (or NaN) or a sum that is not
/// one (beyond what single-precision rounding of the entries can explain)
pub fn bg_invalid(v: &[f32]) -> bool {
    if v.iter().any(|f| !(*f >= 0.0 && *f <= 1.0)) {
        return true;
    }
    let s: f64 = v.iter().map(|x| *x as f64).sum();
    (s - 1.0).abs() > 1e-5
}

fn close(a: f64, b: f64, tol: f64) -> bool {
    if a.is_nan() || b.is_nan() {
        return false;
    }
    if a.is_infinite() || b.is_infinite() {
        return a == b;
    }
    (a - b).abs() <= tol * (1.0 + a.abs().max(b.abs()))
}

fn logb(x: f64, base: f64) -> f64 {
    if base == 2.0 {
        x.log2()
    } else if base == 10.0 {
        x.log10()
    } else {
        x.ln() / base.ln()
    }
}

fn answer_of(r: Result<f32, ()>) -> String {
    match r {
        Ok(x) => fb(x),
        Err(()) => "panic".into(),
    }
}

pub type Verdict = (String, Option<Result<(), String>>, bool);

// ------------------------------------------------------------------------------------ c09seqs

fn seqs_main<A: Alphabet>(t: &mut Tok) -> Verdict {
    let k = A::K::USIZE;
    let n = t.nat();
    let seqs = t.seqs(n);
    let enc: Vec<EncodedSequence<A>> = seqs.iter().map(|s| encoded::<A>(s)).collect();
    let r = guarded(|| {
        let a = CountMatrix::<A>::from_sequences(enc.iter());
        // the `FromIterator` route must be the same function
        let b: Result<CountMatrix<A>, _> = enc.iter().cloned().collect();
        match (&a, &b) {
            (Ok(x), Ok(y)) => assert!(x.sequence_count() == y.sequence_count() && x.len() == y.len() && flat::<u32, A>(x.matrix()) == flat::<u32, A>(y.matrix())),
            (Err(_), Err(_)) => {}
            _ => panic!("from_sequences and collect() disagree"),
        }
        a.map(|c| (c.sequence_count(), c.len(), flat::<u32, A>(c.matrix())))
    });
    let unequal = seqs.iter().any(|s| s.len() != seqs[0].len());
    let nontrivial = n >= 2;
    match r {
        Err(()) => ("panic".into(), Some(Err("panic".into())), nontrivial),
        Ok(Err(_)) => {
            let o = if unequal { Ok(()) } else { Err("equal-length sequences rejected".to_string()) };
            ("err".into(), Some(o), nontrivial)
        }
        Ok(Ok((cn, rows, data))) => {
            let ans = format!("ok {} {} {}", cn, rows, join(data.iter()));
            let o = (|| {
                if unequal {
                    return Err("sequences of unequal lengths accepted".to_string());
                }
                let len = seqs.first().map(|s| s.len()).unwrap_or(0);
                if rows != len {
                    return Err(format!("{} rows for sequences of length {}", rows, len));
                }
                if cn != n {
                    return Err(format!("sequence_count {} for {} sequences", cn, n));
                }
                for i in 0..len {
                    for a in 0..k {
                        let want = seqs.iter().filter(|s| s[i] == a).count();
                        if data[i * k + a] as usize != want {
                            return Err(format!("count[{}][{}] = {} but {} sequences have that symbol there", i, a, data[i * k + a], want));
                        }
                    }
                }
                Ok(())
            })();
            (ans, Some(o), nontrivial)
        }
    }
}

// ------------------------------------------------------------------------------------ c09pipe

struct PipeOut {
    n: usize,
    f: Vec<f32>,
    w: Vec<f32>,
    s: Vec<f32>,
    s1: Vec<f32>,
    r: Option<Vec<f32>>,
    mn: Result<f32, ()>,
    mx: Result<f32, ()>,
    bg_kept: bool,
}

fn pipe_run<A: Alphabet>(rows: usize, counts: &[u32], p: &Pseudo, bg: &Bg, base: f32, bg2: &Bg) -> Option<PipeOut> {
    let c = CountMatrix::<A>::new(dense::<u32, A>(rows, counts)).unwrap();
    let background = match make_bg::<A>(bg) {
        Err(()) => return None,
        Ok(b) => b,
    };
    let f = c.to_freq(make_pseudo::<A>(p));
    let w = f.to_weight(background.clone());
    let s = w.to_scoring_with_base(base);
    let s1 = f.to_scoring(background.clone());
    // the background travels unchanged with the weight and scoring matrices
    let want_bg = background.clone().unwrap_or_default();
    let wb = fbs(want_bg.frequencies());
    let bg_kept = fbs(w.background().frequencies()) == wb && fbs(s.background().frequencies()) == wb && fbs(s1.background().frequencies()) == wb;
    // `to_scoring()` is `to_scoring_with_base(2.0)`, `From<WeightMatrix>` is `to_scoring()`
    let r = match make_bg::<A>(bg2) {
        Err(()) => None,
        Ok(b2) => Some(flat::<f32, A>(w.rescale(b2).matrix())),
    };
    let mn = guarded(|| s.min_score());
    let mx = guarded(|| s.max_score());
    Some(PipeOut {
        n: c.sequence_count(),
        f: flat::<f32, A>(f.matrix()),
        w: flat::<f32, A>(w.matrix()),
        s: flat::<f32, A>(s.matrix()),
        s1: flat::<f32, A>(s1.matrix()),
        r,
        mn,
        mx,
        bg_kept,
    })
}

fn pipe_oracle(k: usize, rows: usize, counts: &[u32], p: &Pseudo, bg: &Bg, base: f32, bg2: &Bg, o: &PipeOut) -> Result<(), String> {
    let ps = spec_pseudo(p, k);
    let b = spec_bg(bg, k).ok_or("an invalid background was accepted")?;
    if !o.bg_kept {
        return Err("the background of the weight/scoring matrix is not the one given".into());
    }
    let want_n = (0..rows).map(|i| counts[i * k..(i + 1) * k].iter().map(|x| *x as usize).sum::<usize>()).max().unwrap_or(0);
    if o.n != want_n {
        return Err(format!("sequence_count {} but the largest row sum is {}", o.n, want_n));
    }
    let b2 = spec_bg(bg2, k);
    if b2.is_none() && o.r.is_some() {
        return Err("rescale: an invalid background was accepted".into());
    }
    if b2.is_some() && o.r.is_none() && !matches!(bg2, Bg::New(_)) {
        // (a `Background::new` argument that is valid only up to rounding may be rejected)
        return Err("rescale: a valid background was rejected".into());
    }
    let basef = base as f64;
    for i in 0..rows {
        let tot: f64 = (0..k).map(|j| counts[i * k + j] as f64 + ps[j]).sum();
        if !(tot > 0.0) {
            continue; // the property requires a non-zero row total
        }
        let mut rowsum = 0.0f64;
        for j in 0..k {
            let x = i * k + j;
            let fr = (counts[x] as f64 + ps[j]) / tot;
            rowsum += o.f[x] as f64;
            if !close(o.f[x] as f64, fr, 1e-5) {
                return Err(format!("freq[{}][{}] = {} but (count+pseudo)/total = {}", i, j, o.f[x], fr));
            }
            // weight = frequency / background, zero where the background is zero
            if b[j] == 0.0 {
                if o.w[x] != 0.0 {
                    return Err(format!("weight[{}][{}] = {} but the background is zero", i, j, o.w[x]));
                }
                if o.s[x] != f32::NEG_INFINITY || o.s1[x] != f32::NEG_INFINITY {
                    return Err(format!("score[{}][{}] = {} / {} (two-step / one-step) but the background is zero", i, j, o.s[x], o.s1[x]));
                }
            } else if (fr / b[j]).abs() > f32::MAX as f64 {
                // the exact quotient is not representable in f32 (a subnormal background frequency):
                // the weight rounds to +inf and its logarithm is +inf on both routes; nothing finer
                // can be asked of f32 arithmetic
                if !(o.w[x] == f32::INFINITY && o.s[x] == f32::INFINITY && o.s1[x] == f32::INFINITY) {
                    return Err(format!("weight[{}][{}] = {} (scores {} / {}) but freq/bg overflows f32: +inf expected", i, j, o.w[x], o.s[x], o.s1[x]));
                }
            } else {
                let wt = fr / b[j];
                if !close(o.w[x] as f64, wt, 1e-5) {
                    return Err(format!("weight[{}][{}] = {} but freq/bg = {}", i, j, o.w[x], wt));
                }
                // exact step from the library's own frequency
                if !close(o.w[x] as f64, o.f[x] as f64 / b[j], 1e-6) {
                    return Err(format!("weight[{}][{}] = {} but its own freq/bg = {}", i, j, o.w[x], o.f[x] as f64 / b[j]));
                }
                let sc = logb(wt, basef);
                let tol = 1e-5 + 1e-4 / (1.0 + sc.abs());
                if !close(o.s[x] as f64, sc, tol) {
                    return Err(format!("score[{}][{}] = {} but log_base(freq/bg) = {}", i, j, o.s[x], sc));
                }
                let sc2 = wt.log2();
                if !close(o.s1[x] as f64, sc2, 1e-5 + 1e-4 / (1.0 + sc2.abs())) {
                    return Err(format!("one-step score[{}][{}] = {} but log2(freq/bg) = {}", i, j, o.s1[x], sc2));
                }
            }
            // the two routes agree (same value, bit for bit, when the base is 2)
            if base == 2.0 && fb(o.s[x]) != fb(o.s1[x]) {
                return Err(format!("one-step and two-step scores differ at [{}][{}]: {} vs {}", i, j, o.s1[x], o.s[x]));
            }
            // rescaling: the weight with respect to the new background (where the old background
            // kept the information, i.e. was not zero)
            if let (Some(r), Some(b2)) = (&o.r, &b2) {
                if b2[j] == 0.0 {
                    if r[x] != 0.0 {
                        return Err(format!("rescaled weight[{}][{}] = {} but the new background is zero", i, j, r[x]));
                    }
                } else if b[j] != 0.0
                    && (fr / b[j]).abs() <= f32::MAX as f64
                    && (fr / b2[j]).abs() <= f32::MAX as f64
                    // rescale multiplies by old/new: when that ratio itself overflows f32 (subnormal new
                    // frequency) the result is inf or 0*inf = NaN; rescaling is not a clause of C09 and the
                    // point is reported in the stats only
                    && (b[j] / b2[j]).abs() <= f32::MAX as f64
                    && !close(r[x] as f64, fr / b2[j], 1e-5)
                {
                    return Err(format!("rescaled weight[{}][{}] = {} but freq/new bg = {}", i, j, r[x], fr / b2[j]));
                }
            }
        }
        if (rowsum - 1.0).abs() > 1e-5 {
            return Err(format!("frequency row {} sums to {}", i, rowsum));
        }
    }
    // min_score / max_score of the two-step matrix
    let nan = (0..rows).any(|i| (0..k - 1).any(|j| o.s[i * k + j].is_nan()));
    if !nan {
        let (mn, mx) = match (o.mn, o.mx) {
            (Ok(a), Ok(b)) => (a as f64, b as f64),
            _ => return Err("min_score/max_score panicked on a matrix without NaN".into()),
        };
        let mut lo = 0.0f64;
        let mut hi = 0.0f64;
        let mut mag = 0.0f64;
        for i in 0..rows {
            let row = &o.s[i * k..i * k + k - 1];
            let a = row.iter().cloned().fold(f32::INFINITY, f32::min) as f64;
            let b = row.iter().cloned().fold(f32::NEG_INFINITY, f32::max) as f64;
            lo += a;
            hi += b;
            mag += if a.is_finite() { a.abs() } else { 0.0 } + if b.is_finite() { b.abs() } else { 0.0 };
        }
        let eps = 1e-5 * (1.0 + mag);
        if !(lo.is_nan() || (mn.is_infinite() && mn == lo) || (mn - lo).abs() <= eps) {
            return Err(format!("min_score = {} but the sum of row minima is {}", mn, lo));
        }
        if !(hi.is_nan() || (mx.is_infinite() && mx == hi) || (mx - hi).abs() <= eps) {
            return Err(format!("max_score = {} but the sum of row maxima is {}", mx, hi));
        }
    }
    Ok(())
}

fn pipe_main<A: Alphabet>(t: &mut Tok) -> Verdict {
    let k = A::K::USIZE;
    let rows = t.nat();
    let counts: Vec<u32> = t.nats(rows * k).iter().map(|x| *x as u32).collect();
    let p = parse_pseudo(t, k);
    let bg = parse_bg(t, k);
    let base = t.f32();
    let bg2 = parse_bg(t, k);
    let nontrivial = rows >= 1 && (matches!(bg, Bg::New(_) | Bg::Counts(_)) || matches!(p, Pseudo::A(_)) || base != 2.0);
    match guarded(|| pipe_run::<A>(rows, &counts, &p, &bg, base, &bg2)) {
        Err(()) => ("panic".into(), Some(Err("panic".into())), nontrivial),
        Ok(None) => {
            let o = if spec_bg(&bg, k).is_none() || matches!(bg, Bg::New(_)) {
                // rejected: fine when invalid; a background that is valid only up to rounding may
                // be rejected (the property demands rejection of invalid input, nothing else)
                Ok(())
            } else {
                Err("a valid background was rejected".to_string())
            };
            ("bgerr".into(), Some(o), true)
        }
        Ok(Some(o)) => {
            let ans = format!(
                "n {} F {} W {} S {} S1 {} R {} mn {} mx {}",
                o.n,
                fbs(&o.f),
                fbs(&o.w),
                fbs(&o.s),
                fbs(&o.s1),
                match &o.r {
                    Some(r) => fbs(r),
                    None => "bgerr".into(),
                },
                answer_of(o.mn),
                answer_of(o.mx)
            );
            let v = pipe_oracle(k, rows, &counts, &p, &bg, base, &bg2, &o);
            (ans, Some(v), nontrivial)
        }
    }
}

// ------------------------------------------------------------------------------------ c09bg

fn bg_main<A: Alphabet>(t: &mut Tok) -> Verdict {
    let k = A::K::USIZE;
    let kind = t.next();
    let lin = |s: &[usize], unknown: bool| -> Vec<usize> {
        (0..k).map(|a| if unknown || a + 1 != k { s.iter().filter(|x| **x == a).count() } else { 0 }).collect()
    };
    // (library result, expected frequencies by the property text or None = must be rejected,
    //  "rejection may also be caused by rounding")
    let (r, want, lenient): (Result<Result<Vec<f32>, ()>, ()>, Option<Vec<f64>>, bool) = match kind {
        "new" => {
            let v = t.f32s(k);
            let r = guarded(|| Background::<A>::new(garr::<f32, A>(&v)).map(|b| b.frequencies().to_vec()).map_err(|_| ()));
            (r, spec_bg(&Bg::New(v), k), true)
        }
        "counts" => {
            let c = t.nats(k);
            let r = guarded(|| Background::<A>::from_counts(&garr::<usize, A>(&c)).map(|b| b.frequencies().to_vec()).map_err(|_| ()));
            (r, spec_bg(&Bg::Counts(c), k), false)
        }
        "seq" => {
            let unknown = t.nat() == 1;
            let l = t.nat();
            let s = t.nats(l);
            let e = encoded::<A>(&s);
            let r = guarded(|| {
                let a = Background::<A>::from_sequence(e.clone(), unknown).map(|b| b.frequencies().to_vec()).map_err(|_| ());
                // the slice implementation of SymbolCount must give the same background
                let syms: Vec<A::Symbol> = e.iter().cloned().collect();
                let b = Background::<A>::from_sequence(&syms[..], unknown).map(|b| b.frequencies().to_vec()).map_err(|_| ());
                assert!(a.as_ref().map(|v| fbs(v)) == b.as_ref().map(|v| fbs(v)));
                a
            });
            (r, spec_bg(&Bg::Counts(lin(&s, unknown)), k), false)
        }
        "seqs" => {
            let unknown = t.nat() == 1;
            let n = t.nat();
            let ss = t.seqs(n);
            let es: Vec<EncodedSequence<A>> = ss.iter().map(|s| encoded::<A>(s)).collect();
            let r = guarded(|| Background::<A>::from_sequences(es.iter().cloned(), unknown).map(|b| b.frequencies().to_vec()).map_err(|_| ()));
            let all: Vec<usize> = ss.concat();
            (r, spec_bg(&Bg::Counts(lin(&all, unknown)), k), false)
        }
        _ => {
            let r = guarded(|| Ok(Background::<A>::uniform().frequencies().to_vec()));
            (r, spec_bg(&Bg::Uniform, k), false)
        }
    };
    let nontrivial = kind != "uniform";
    match r {
        Err(()) => ("panic".into(), Some(Err("panic".into())), nontrivial),
        Ok(Err(())) => {
            let o = if want.is_none() || lenient { Ok(()) } else { Err("valid input rejected".to_string()) };
            ("err".into(), Some(o), nontrivial)
        }
        Ok(Ok(f)) => {
            let o = match want {
                None => Err("invalid background accepted".to_string()),
                Some(w) => {
                    if (0..k).all(|j| close(f[j] as f64, w[j], 1e-6)) {
                        Ok(())
                    } else {
                        Err(format!("frequencies {:?} but expected {:?}", f, w))
                    }
                }
            };
            (format!("ok {}", fbs(&f)), Some(o), nontrivial)
        }
    }
}

// ------------------------------------------------------------------------------------ c09fnew

fn fnew_main<A: Alphabet>(t: &mut Tok) -> Verdict {
    let k = A::K::USIZE;
    let rows = t.nat();
    let d = t.f32s(rows * k);
    let r = guarded(|| FrequencyMatrix::<A>::new(dense::<f32, A>(rows, &d)).map(|f| flat::<f32, A>(f.matrix())).map_err(|_| ()));
    let dev: Vec<f64> = (0..rows).map(|i| (d[i * k..(i + 1) * k].iter().map(|x| *x as f64).sum::<f64>() - 1.0).abs()).collect();
    let must_reject = dev.iter().any(|x| !(*x <= 0.01 + 1e-4));
    let must_accept = dev.iter().all(|x| *x < 0.01 - 1e-4);
    match r {
        Err(()) => ("panic".into(), Some(Err("panic".into())), true),
        Ok(Err(())) => ("err".into(), Some(if must_accept { Err("rows within 0.01 of one rejected".to_string()) } else { Ok(()) }), true),
        Ok(Ok(f)) => {
            let o = if must_reject {
                Err("a row further than 0.01 from one accepted".to_string())
            } else if fbs(&f) != fbs(&d) {
                Err("data altered".to_string())
            } else {
                Ok(())
            };
            ("ok".into(), Some(o), true)
        }
    }
}

// ------------------------------------------------------------------------------------ c09score

fn score_main<A: Alphabet>(t: &mut Tok) -> Verdict {
    let k = A::K::USIZE;
    let rows = t.nat();
    let d = t.f32s(rows * k);
    let l = t.nat();
    let s = t.nats(l);
    let pos = t.nat();
    assert!(pos + rows <= l);
    let m = ScoringMatrix::<A>::new(Background::<A>::uniform(), dense::<f32, A>(rows, &d));
    let st = striped::<A>(&s);
    let mn = guarded(|| m.min_score());
    let mx = guarded(|| m.max_score());
    let sc = guarded(|| m.score_position(&st, pos));
    let ans = match sc {
        Ok(x) => format!("mn {} mx {} sc {}", answer_of(mn), answer_of(mx), fb(x)),
        Err(()) => "panic".into(),
    };
    let window = &s[pos..pos + rows];
    let wild = window.iter().any(|x| x + 1 == k);
    // NaN, +inf and magnitudes whose sums overflow single precision: outside "up to floating-point"
    let weird = d.iter().any(|x| x.is_nan() || *x == f32::INFINITY || (x.is_finite() && x.abs() > 1e30));
    let nontrivial = rows >= 2 && !wild && !weird;
    let o = (|| {
        let nan = (0..rows).any(|i| (0..k - 1).any(|j| d[i * k + j].is_nan()));
        if nan {
            return Ok(()); // min/max of a matrix with NaN are not defined by the property
        }
        let (mn, mx, sc) = match (mn, mx, sc) {
            (Ok(a), Ok(b), Ok(c)) => (a as f64, b as f64, c as f64),
            _ => return Err("panic on a matrix without NaN".to_string()),
        };
        if wild || weird {
            return Ok(());
        }
        // exact definitions in f64
        let mut lo = 0.0f64;
        let mut hi = 0.0f64;
        let mut want = 0.0f64;
        let mut mag = 0.0f64;
        for i in 0..rows {
            let row = &d[i * k..i * k + k - 1];
            lo += row.iter().cloned().fold(f32::INFINITY, f32::min) as f64;
            hi += row.iter().cloned().fold(f32::NEG_INFINITY, f32::max) as f64;
            want += row[window[i]] as f64;
            mag += row.iter().filter(|x| x.is_finite()).map(|x| x.abs() as f64).fold(0.0, f64::max);
        }
        let eps = 1e-5 * (1.0 + mag);
        let le = |a: f64, b: f64| a <= b + eps;
        if !close(sc, want, 1e-5) && (sc - want).abs() > eps {
            return Err(format!("score {} but the sum of the window's entries is {}", sc, want));
        }
        if !(close(mn, lo, 1e-5) || (mn - lo).abs() <= eps) {
            return Err(format!("min_score {} but the sum of row minima is {}", mn, lo));
        }
        if !(close(mx, hi, 1e-5) || (mx - hi).abs() <= eps) {
            return Err(format!("max_score {} but the sum of row maxima is {}", mx, hi));
        }
        if !le(mn, sc) || !le(sc, mx) {
            return Err(format!("window score {} outside [min_score, max_score] = [{}, {}]", sc, mn, mx));
        }
        Ok(())
    })();
    (ans, Some(o), nontrivial)
}

// ------------------------------------------------------------------------------------ c09cs

fn cs_case<A: Alphabet>(t: &mut Tok) -> Verdict {
    let k = A::K::USIZE;
    let l = t.nat();
    let s = t.nats(l);
    let e = encoded::<A>(&s);
    let syms: Vec<A::Symbol> = e.iter().cloned().collect();
    let st = striped::<A>(&s);
    let r = guarded(|| {
        let one: Vec<usize> = A::symbols().iter().map(|c| e.count_symbol(*c)).collect();
        let all: Vec<usize> = e.count_symbols().to_vec();
        let others = vec![
            A::symbols().iter().map(|c| SymbolCount::<A>::count_symbol(&&syms[..], *c)).collect::<Vec<_>>(),
            SymbolCount::<A>::count_symbols(&&syms[..]).to_vec(),
            A::symbols().iter().map(|c| st.count_symbol(*c)).collect::<Vec<_>>(),
            st.count_symbols().to_vec(),
        ];
        (one, all, others)
    });
    match r {
        Err(()) => ("panic".into(), Some(Err("panic".into())), l > 0),
        Ok((one, all, others)) => {
            let want: Vec<usize> = (0..k).map(|a| s.iter().filter(|x| **x == a).count()).collect();
            let o = if one != want || all != want {
                Err(format!("counts {:?} / {:?} but the sequence has {:?}", one, all, want))
            } else if others.iter().any(|v| v != &want) {
                Err(format!("slice/striped counts {:?} but the sequence has {:?}", others, want))
            } else {
                Ok(())
            };
            (format!("{} | {}", join(one.iter()), join(all.iter())), Some(o), l > 0)
        }
    }
}

// ------------------------------------------------------------------------------------ alternative entry points
//
// The main clauses above drive ONE route to each result (the one whose answer is compared with the
// model).  The library offers others: secondary constructors, `From`/`Into`/`Default`/`Clone`/
// `PartialEq`/`Index`/`AsRef` impls, by-value twins of by-reference conversions.  They are driven here
// on a share of the cases and must give what the main route gave; nothing of this reaches the answer
// string, a disagreement is an oracle failure that names the entry point.

/// number of cases on which the alternative entry points were driven (reported in the stats)
pub static ALT: AtomicUsize = AtomicUsize::new(0);

/// one case in `den`, chosen by a hash of the case line (so that a replayed line behaves the same)
pub fn share(line: &str, den: u64) -> bool {
    fnv_nats(line.bytes().map(|b| b as usize)) % den == 0
}

/// the alternative-entry-point clause `f`, evaluated only when the main clause holds
pub fn with_alt(main: Result<(), String>, f: impl FnOnce() -> Result<(), String>) -> Result<(), String> {
    main?;
    ALT.fetch_add(1, Ordering::Relaxed);
    match guarded(f) {
        Ok(r) => r.map_err(|e| format!("alternative entry point: {}", e)),
        Err(()) => Err("alternative entry point: panic".into()),
    }
}

/// cell identity: the value, every NaN being the same cell
pub trait CellKey: MatrixElement {
    fn key(&self) -> u64;
}
impl CellKey for u32 {
    fn key(&self) -> u64 {
        *self as u64
    }
}
impl CellKey for u8 {
    fn key(&self) -> u64 {
        *self as u64
    }
}
impl CellKey for f32 {
    fn key(&self) -> u64 {
        if self.is_nan() {
            u64::MAX
        } else {
            self.to_bits() as u64
        }
    }
}
pub fn keys<T: CellKey>(xs: &[T]) -> Vec<u64> {
    xs.iter().map(|x| x.key()).collect()
}
pub fn mkeys<T: CellKey, A: Alphabet>(m: &DenseMatrix<T, A::K>) -> Vec<u64> {
    keys(&flat::<T, A>(m))
}

/// `matrix()`, `len()`, `is_empty()`, `Index<usize>`, `AsRef<DenseMatrix>`, `AsRef<Self>`, `Clone`
/// and `PartialEq` of one of the matrix types (they share no trait: a macro)
#[macro_export]
macro_rules! c09_accessors {
    ($A:ty, $t:ty, $mx:ident, $m:expr) => {{
        let m: &$mx<$A> = &$m;
        let what = stringify!($mx);
        let d: &DenseMatrix<$t, <$A as Alphabet>::K> = m.matrix();
        let r: &DenseMatrix<$t, <$A as Alphabet>::K> = m.as_ref();
        let me: &$mx<$A> = m.as_ref();
        let rows = d.rows();
        if m.len() != rows || r.rows() != rows || me.len() != rows {
            return Err(format!("{}: len() = {}, as_ref() has {} rows but matrix() has {} rows", what, m.len(), r.rows(), rows));
        }
        if m.is_empty() != (rows == 0) {
            return Err(format!("{}: is_empty() = {} with {} rows", what, m.is_empty(), rows));
        }
        for i in 0..rows {
            if $crate::c09::keys(&m[i]) != $crate::c09::keys(&d[i]) || $crate::c09::keys(&r[i]) != $crate::c09::keys(&d[i]) {
                return Err(format!("{}: row {} through Index<usize> / AsRef differs from matrix()", what, i));
            }
        }
        let c = m.clone();
        let cells = $crate::c09::mkeys::<$t, $A>(d);
        if $crate::c09::mkeys::<$t, $A>(c.matrix()) != cells {
            return Err(format!("{}: clone() has other cells", what));
        }
        if !cells.contains(&u64::MAX) && c != *m {
            return Err(format!("{}: clone() is not equal to the original (PartialEq)", what));
        }
    }};
}

fn bgkeys<A: Alphabet + PartialEq>(b: &Background<A>) -> Vec<u64>
where
    A::K: PartialEq,
{
    keys(b.frequencies())
}

/// the accessors of a background: `frequencies()`, both `AsRef`, `Index<Symbol>`, `Clone`, `PartialEq`
pub fn bg_accessors<A: Alphabet + PartialEq>(b: &Background<A>) -> Result<(), String>
where
    A::K: PartialEq,
{
    let f = b.frequencies();
    let s: &[f32] = b.as_ref();
    let g: &GenericArray<f32, A::K> = b.as_ref();
    if f.len() != A::K::USIZE || keys(s) != keys(f) || keys(&g[..]) != keys(f) {
        return Err("Background: as_ref() differs from frequencies()".into());
    }
    for (j, sym) in A::symbols().iter().enumerate() {
        if b[*sym].key() != f[j].key() {
            return Err(format!("Background: Index<Symbol> gives {} for symbol {} but frequencies()[{}] = {}", b[*sym], j, j, f[j]));
        }
    }
    let c = b.clone();
    if bgkeys(&c) != keys(f) || c != *b {
        return Err("Background: clone() differs from the original".into());
    }
    Ok(())
}

/// `n` aligned sequences whose count matrix is `counts` (every row total is `n`)
fn seqs_of_counts<A: Alphabet>(rows: usize, counts: &[u32], n: usize) -> Vec<EncodedSequence<A>> {
    let k = A::K::USIZE;
    let cols: Vec<Vec<usize>> = (0..rows).map(|i| (0..k).flat_map(|a| std::iter::repeat(a).take(counts[i * k + a] as usize)).collect()).collect();
    // a different rotation in every column: the sequences are not sorted
    (0..n).map(|j| encoded::<A>(&(0..rows).map(|i| cols[i][(j + i) % n]).collect::<Vec<_>>())).collect()
}

fn same_counts<A: Alphabet + PartialEq>(name: &str, a: &Result<CountMatrix<A>, lightmotif::err::InvalidData>, b: &Result<CountMatrix<A>, lightmotif::err::InvalidData>) -> Result<(), String>
where
    A::K: PartialEq,
{
    match (a, b) {
        (Ok(x), Ok(y)) => {
            if mkeys::<u32, A>(x.matrix()) != mkeys::<u32, A>(y.matrix()) || x.sequence_count() != y.sequence_count() || x != y {
                return Err(format!("{} gives another count matrix than from_sequences(iter of references)", name));
            }
        }
        (Err(_), Err(_)) => {}
        _ => return Err(format!("{} accepts/rejects differently from from_sequences(iter of references)", name)),
    }
    Ok(())
}

fn seqs_alt<A: Alphabet + PartialEq>(enc: &[EncodedSequence<A>]) -> Result<(), String>
where
    A::K: PartialEq,
{
    let a = CountMatrix::<A>::from_sequences(enc.iter());
    let v: Vec<EncodedSequence<A>> = enc.to_vec();
    same_counts("from_sequences(&Vec)", &a, &CountMatrix::<A>::from_sequences(&v))?;
    same_counts("from_sequences(slice)", &a, &CountMatrix::<A>::from_sequences(enc))?;
    same_counts("from_sequences(Vec) by value", &a, &CountMatrix::<A>::from_sequences(v))?;
    if let Ok(x) = &a {
        c09_accessors!(A, u32, CountMatrix, *x);
        if x.len() > 0 {
            // the same counts through `new`: every row total is the number of sequences
            let y = CountMatrix::<A>::new(x.matrix().clone()).map_err(|_| "CountMatrix::new rejects the counts of from_sequences".to_string())?;
            if y.sequence_count() != x.sequence_count() || y != *x {
                return Err(format!("CountMatrix::new on the counts of from_sequences: sequence_count {} vs {} or not equal (PartialEq)", y.sequence_count(), x.sequence_count()));
            }
            // PartialEq sees one sequence less
            if let Ok(z) = CountMatrix::<A>::from_sequences(enc[..enc.len() - 1].iter()) {
                if z == *x {
                    return Err("CountMatrix: PartialEq holds between the matrices of n and n-1 sequences".into());
                }
            }
        }
    }
    Ok(())
}

fn pipe_alt<A: Alphabet + PartialEq>(rows: usize, counts: &[u32], p: &Pseudo, bg: &Bg, base: f32, bg2: &Bg) -> Result<(), String>
where
    A::K: PartialEq,
{
    let k = A::K::USIZE;
    let data = dense::<u32, A>(rows, counts);
    let c = CountMatrix::<A>::new(data.clone()).map_err(|_| "CountMatrix::new rejected".to_string())?;
    if mkeys::<u32, A>(c.matrix()) != keys(counts) {
        return Err("CountMatrix::new: matrix() is not the data given".into());
    }
    c09_accessors!(A, u32, CountMatrix, c);
    if rows > 0 {
        let mut other = data.clone();
        other[rows - 1][0] = other[rows - 1][0].wrapping_add(1);
        if CountMatrix::<A>::new(other).map(|o| o == c).unwrap_or(false) {
            return Err("CountMatrix: PartialEq holds between matrices that differ in one cell".into());
        }
    }
    // counts of aligned sequences: `from_sequences` on such sequences is the same matrix
    let sums: Vec<usize> = (0..rows).map(|i| counts[i * k..(i + 1) * k].iter().map(|x| *x as usize).sum()).collect();
    if rows > 0 && sums[0] >= 1 && sums[0] <= 64 && sums.iter().all(|s| *s == sums[0]) {
        let seqs = seqs_of_counts::<A>(rows, counts, sums[0]);
        match CountMatrix::<A>::from_sequences(seqs.iter()) {
            Ok(x) if x == c && x.sequence_count() == c.sequence_count() => {}
            _ => return Err("from_sequences on sequences with these counts is not CountMatrix::new of the counts".into()),
        }
    }

    // ---- pseudocounts: From<f32>, From<array>, Default, counts(), AsRef/AsMut
    let pc = make_pseudo::<A>(p);
    let want: Vec<f32> = match p {
        Pseudo::U(x) => (0..k).map(|j| if j + 1 == k { 0.0 } else { *x }).collect(),
        Pseudo::A(v) => v.clone(),
    };
    let as_slice: &[f32] = pc.as_ref();
    if keys(&pc.counts()[..]) != keys(&want) || keys(as_slice) != keys(&want) {
        return Err(format!("Pseudocounts: counts() = {:?} but {:?} were given", pc.counts(), want));
    }
    let mut pm = Pseudocounts::<A>::default();
    if pm.counts().iter().any(|x| x.to_bits() != 0) || pm != Pseudocounts::<A>::from(0.0) {
        return Err(format!("Pseudocounts::default() = {:?}, not zero", pm.counts()));
    }
    // a default filled in through AsMut is the array constructor
    AsMut::<[f32]>::as_mut(&mut pm).copy_from_slice(&want);
    if keys(&pm.counts()[..]) != keys(&want) || (!want.iter().any(|x| x.is_nan()) && (pm != pc || pc.clone() != pc)) {
        return Err("Pseudocounts: default() + as_mut() / clone() is not equal to the constructed one".into());
    }
    let f = c.to_freq(pc.clone());
    let fk = mkeys::<f32, A>(f.matrix());
    let f2 = match p {
        Pseudo::U(x) => c.to_freq(*x),
        Pseudo::A(v) => c.to_freq(garr::<f32, A>(v)),
    };
    if mkeys::<f32, A>(f2.matrix()) != fk {
        return Err("to_freq(f32 / array) differs from to_freq(Pseudocounts)".into());
    }
    if mkeys::<f32, A>(c.to_freq(Pseudocounts::<A>::from(garr::<f32, A>(&want))).matrix()) != fk || mkeys::<f32, A>(c.to_freq(pm).matrix()) != fk {
        return Err("to_freq with the scalar pseudocount differs from to_freq with the equivalent array".into());
    }
    if want.iter().all(|x| x.to_bits() == 0) && mkeys::<f32, A>(c.to_freq(Pseudocounts::<A>::default()).matrix()) != fk {
        return Err("to_freq(Pseudocounts::default()) differs from to_freq(0.0)".into());
    }
    c09_accessors!(A, f32, FrequencyMatrix, f);

    // ---- weight / scoring routes
    let b = match make_bg::<A>(bg) {
        Err(()) => return Ok(()),
        Ok(b) => b,
    };
    let bgobj = b.clone().unwrap_or_default();
    bg_accessors(&bgobj)?;
    let w = f.to_weight(b.clone());
    let wk = mkeys::<f32, A>(w.matrix());
    let s1 = f.to_scoring(b.clone());
    let s1k = mkeys::<f32, A>(s1.matrix());
    // the background given as an object / as Some(object) / (when it is the default one) as None,
    // Background::default(), Background::uniform()
    let mut bgs: Vec<(&str, Option<Background<A>>)> = vec![("Some(background)", Some(bgobj.clone()))];
    if matches!(bg, Bg::None | Bg::Uniform) {
        bgs.push(("None", None));
        bgs.push(("Background::default()", Some(Background::<A>::default())));
        bgs.push(("Background::uniform()", Some(Background::<A>::uniform())));
    }
    for (name, x) in &bgs {
        let w2 = f.to_weight(x.clone());
        if mkeys::<f32, A>(w2.matrix()) != wk || bgkeys(w2.background()) != bgkeys(&bgobj) {
            return Err(format!("to_weight({}) differs from to_weight of the background of the case", name));
        }
        let s2 = f.to_scoring(x.clone());
        let s3 = f.clone().into_scoring(x.clone());
        if mkeys::<f32, A>(s2.matrix()) != s1k || mkeys::<f32, A>(s3.matrix()) != s1k || bgkeys(s2.background()) != bgkeys(&bgobj) || bgkeys(s3.background()) != bgkeys(&bgobj) {
            return Err(format!("to_scoring({}) / into_scoring({}) differs from to_scoring of the background of the case", name, name));
        }
    }
    if let Some(x) = &b {
        // passed without the Option
        if mkeys::<f32, A>(f.to_weight(x.clone()).matrix()) != wk || mkeys::<f32, A>(f.to_scoring(x.clone()).matrix()) != s1k || mkeys::<f32, A>(f.clone().into_scoring(x.clone()).matrix()) != s1k {
            return Err("to_weight / to_scoring / into_scoring (background passed directly) differs from the Option route".into());
        }
    }
    // one step = two steps in base 2, whatever the base of the case
    let t = w.to_scoring();
    let t2 = w.to_scoring_with_base(2.0);
    if mkeys::<f32, A>(t.matrix()) != mkeys::<f32, A>(t2.matrix()) || bgkeys(t.background()) != bgkeys(&bgobj) {
        return Err("WeightMatrix::to_scoring() differs from to_scoring_with_base(2.0)".into());
    }
    if mkeys::<f32, A>(t.matrix()) != s1k {
        return Err("to_weight(..).to_scoring() differs from FrequencyMatrix::to_scoring".into());
    }
    // the From impls between weight and scoring matrices keep the background (their cells are the
    // business of the c09x stream)
    if bgkeys(WeightMatrix::<A>::from(s1.clone()).background()) != bgkeys(&bgobj) || bgkeys(ScoringMatrix::<A>::from(w.clone()).background()) != bgkeys(&bgobj) {
        return Err("WeightMatrix::from(ScoringMatrix) / ScoringMatrix::from(WeightMatrix) does not keep the background".into());
    }
    // rescaling to the background the matrix already has is the identity; the result carries the
    // background asked for
    let r0 = w.rescale(w.background().clone());
    if mkeys::<f32, A>(r0.matrix()) != wk || bgkeys(r0.background()) != bgkeys(&bgobj) {
        return Err("rescale(own background) is not the identity".into());
    }
    if matches!(bg, Bg::None | Bg::Uniform) {
        let r1 = w.rescale(None);
        if mkeys::<f32, A>(r1.matrix()) != wk || bgkeys(r1.background()) != bgkeys(&bgobj) {
            return Err("rescale(None) of a matrix over the default background is not the identity".into());
        }
    }
    if let Ok(b2) = make_bg::<A>(bg2) {
        let r = w.rescale(b2.clone());
        // (as numbers: a background equal to the old one up to the sign of a zero keeps the old object)
        if r.background().frequencies() != b2.clone().unwrap_or_default().frequencies() {
            return Err("rescale: background() of the result is not the background asked for".into());
        }
        if let Some(x) = b2 {
            if mkeys::<f32, A>(w.rescale(x).matrix()) != mkeys::<f32, A>(r.matrix()) {
                return Err("rescale(background passed directly) differs from rescale(Some(background))".into());
            }
        }
        c09_accessors!(A, f32, WeightMatrix, r);
    }
    let s = w.to_scoring_with_base(base);
    c09_accessors!(A, f32, WeightMatrix, w);
    c09_accessors!(A, f32, ScoringMatrix, s);
    c09_accessors!(A, f32, ScoringMatrix, s1);
    // min_score / max_score do not depend on how the matrix was reached
    let rebuilt = ScoringMatrix::<A>::new(s.background().clone(), s.matrix().clone());
    for (name, g) in [("min_score", ScoringMatrix::<A>::min_score as fn(&ScoringMatrix<A>) -> f32), ("max_score", ScoringMatrix::<A>::max_score as fn(&ScoringMatrix<A>) -> f32)] {
        let x = guarded(|| g(&s)).map(|x| x.key());
        if guarded(|| g(&rebuilt)).map(|x| x.key()) != x || guarded(|| g(&s.clone())).map(|x| x.key()) != x {
            return Err(format!("{} of ScoringMatrix::new(background(), matrix()) / of a clone differs", name));
        }
    }
    // PartialEq of the f32 matrices sees a changed cell and a changed background
    if rows > 0 && !s1k.contains(&u64::MAX) {
        let mut d = s1.matrix().clone();
        d[0][0] = if d[0][0] == 1.0 { 2.0 } else { 1.0 };
        if ScoringMatrix::<A>::new(bgobj.clone(), d) == s1 {
            return Err("ScoringMatrix: PartialEq holds between matrices that differ in one cell".into());
        }
        let mut pm = vec![0.0f32; k];
        pm[if bgobj.frequencies()[0] == 1.0 { 1 } else { 0 }] = 1.0;
        let other = Background::<A>::new(garr::<f32, A>(&pm)).map_err(|_| "Background::new rejects a point mass".to_string())?;
        if ScoringMatrix::<A>::new(other.clone(), s1.matrix().clone()) == s1 || other == bgobj {
            return Err("ScoringMatrix / Background: PartialEq holds between different backgrounds".into());
        }
    }
    Ok(())
}

fn same_bg<A: Alphabet + PartialEq>(name: &str, main: &Result<Vec<f32>, ()>, alt: Result<Background<A>, lightmotif::err::InvalidData>) -> Result<(), String>
where
    A::K: PartialEq,
{
    match (main, alt) {
        (Ok(f), Ok(b)) => {
            if keys(f) != bgkeys(&b) {
                return Err(format!("{} gives {:?} but the constructor of the case gave {:?}", name, b.frequencies(), f));
            }
            bg_accessors(&b)
        }
        (Err(()), Err(_)) => Ok(()),
        (Ok(_), Err(_)) => Err(format!("{} rejects what the constructor of the case accepted", name)),
        (Err(()), Ok(_)) => Err(format!("{} accepts what the constructor of the case rejected", name)),
    }
}

/// the other constructors on the same symbol counts: `ss` = the sequences, `main_*` = what the
/// constructor of the case gave with / what `from_counts` must give for `unknown`
fn bg_routes<A: Alphabet + PartialEq>(ss: &[Vec<usize>], unknown: bool, main: &Result<Vec<f32>, ()>) -> Result<(), String>
where
    A::K: PartialEq,
{
    let k = A::K::USIZE;
    let all: Vec<usize> = ss.concat();
    let lin: Vec<usize> = (0..k).map(|a| if unknown || a + 1 != k { all.iter().filter(|x| **x == a).count() } else { 0 }).collect();
    let u = if unknown { "true" } else { "false" };
    same_bg::<A>(&format!("from_counts(symbol counts, unknown = {})", u), main, Background::<A>::from_counts(&garr::<usize, A>(&lin)))?;
    let whole = encoded::<A>(&all);
    let syms: Vec<A::Symbol> = whole.iter().cloned().collect();
    same_bg::<A>(&format!("from_sequence(EncodedSequence, {})", u), main, Background::<A>::from_sequence(whole.clone(), unknown))?;
    same_bg::<A>(&format!("from_sequence(slice, {})", u), main, Background::<A>::from_sequence(&syms[..], unknown))?;
    same_bg::<A>(&format!("from_sequence(StripedSequence, {})", u), main, Background::<A>::from_sequence(striped::<A>(&all), unknown))?;
    let es: Vec<EncodedSequence<A>> = ss.iter().map(|s| encoded::<A>(s)).collect();
    let sl: Vec<Vec<A::Symbol>> = es.iter().map(|e| e.iter().cloned().collect()).collect();
    same_bg::<A>(&format!("from_sequences(EncodedSequence…, {})", u), main, Background::<A>::from_sequences(es.clone(), unknown))?;
    same_bg::<A>(&format!("from_sequences(slice…, {})", u), main, Background::<A>::from_sequences(sl.iter().map(|v| &v[..]), unknown))?;
    same_bg::<A>(&format!("from_sequences(StripedSequence…, {})", u), main, Background::<A>::from_sequences(ss.iter().map(|s| striped::<A>(s)), unknown))?;
    // cut elsewhere: one sequence, and the concatenation split in two
    same_bg::<A>(&format!("from_sequences([whole], {})", u), main, Background::<A>::from_sequences(std::iter::once(whole), unknown))?;
    let (x, y) = syms.split_at(syms.len() / 2);
    same_bg::<A>(&format!("from_sequences([half, half], {})", u), main, Background::<A>::from_sequences([x, y], unknown))?;
    Ok(())
}

fn bg_alt<A: Alphabet + PartialEq>(line: &str, main: &Result<Vec<f32>, ()>) -> Result<(), String>
where
    A::K: PartialEq,
{
    let k = A::K::USIZE;
    let mut t = Tok::new(line);
    t.next();
    t.next();
    let from_counts = |c: &[usize]| Background::<A>::from_counts(&garr::<usize, A>(c)).map(|b| b.frequencies().to_vec()).map_err(|_| ());
    match t.next() {
        "new" => {
            let v = t.f32s(k);
            let b = Background::<A>::new(garr::<f32, A>(&v));
            same_bg::<A>("Background::new (again)", main, b.clone())?;
            if let Ok(b) = b {
                if keys(b.frequencies()) != keys(&v) {
                    return Err("Background::new: frequencies() are not the ones given".into());
                }
                // dyadic frequencies n/1024: `from_counts` of the numerators is the same background
                let n: Vec<f32> = v.iter().map(|x| x * 1024.0).collect();
                if n.iter().all(|x| x.fract() == 0.0) && n.iter().sum::<f32>() == 1024.0 {
                    let c: Vec<usize> = n.iter().map(|x| *x as usize).collect();
                    match Background::<A>::from_counts(&garr::<usize, A>(&c)) {
                        Ok(o) if o.frequencies().iter().zip(&v).all(|(a, b)| a == b) => {}
                        _ => return Err("from_counts of the numerators of dyadic frequencies differs from Background::new of the frequencies".into()),
                    }
                }
                let uni = Background::<A>::uniform();
                if (b == uni) != (keys(b.frequencies()) == bgkeys(&uni)) && !v.iter().any(|x| x.to_bits() == (-0.0f32).to_bits()) {
                    return Err("Background: PartialEq with the uniform background is wrong".into());
                }
            }
        }
        "counts" => {
            let c = t.nats(k);
            if c.iter().sum::<usize>() <= 30_000 {
                // sequences with exactly these counts, the wildcard counted; and not counted
                let all: Vec<usize> = (0..c.iter().cloned().max().unwrap_or(0)).flat_map(|i| (0..k).filter(|a| c[*a] > i).collect::<Vec<_>>()).collect();
                let cut = all.len() / 3;
                let ss = vec![all[..cut].to_vec(), Vec::new(), all[cut..].to_vec()];
                bg_routes::<A>(&ss, true, main)?;
                let mut c0 = c.clone();
                c0[k - 1] = 0;
                bg_routes::<A>(&ss, false, &from_counts(&c0))?;
            }
        }
        kind @ ("seq" | "seqs") => {
            let unknown = t.nat() == 1;
            let ss = if kind == "seq" {
                let l = t.nat();
                vec![t.nats(l)]
            } else {
                let n = t.nat();
                t.seqs(n)
            };
            bg_routes::<A>(&ss, unknown, main)?;
            // the other value of `unknown` on the same sequences
            let all: Vec<usize> = ss.concat();
            let lin: Vec<usize> = (0..k).map(|a| if !unknown || a + 1 != k { all.iter().filter(|x| **x == a).count() } else { 0 }).collect();
            bg_routes::<A>(&ss, !unknown, &from_counts(&lin))?;
        }
        _ => {
            same_bg::<A>("Background::default()", main, Ok(Background::<A>::default()))?;
            same_bg::<A>("Option::<Background>::None.unwrap_or_default()", main, Ok(Option::<Background<A>>::None.unwrap_or_default()))?;
            if Background::<A>::default() != Background::<A>::uniform() {
                return Err("Background::default() != Background::uniform()".into());
            }
        }
    }
    Ok(())
}

fn fnew_alt<A: Alphabet + PartialEq>(rows: usize, d: &[f32]) -> Result<(), String>
where
    A::K: PartialEq,
{
    if let Ok(f) = FrequencyMatrix::<A>::new(dense::<f32, A>(rows, d)) {
        c09_accessors!(A, f32, FrequencyMatrix, f);
        // a matrix accepted by `new` converts like the same frequencies reached in any other way:
        // weight over the default background = frequency * (K-1), 0 for the wildcard
        let w = f.to_weight(None);
        let u = Background::<A>::uniform();
        for i in 0..rows {
            for j in 0..A::K::USIZE {
                let want = if u.frequencies()[j] == 0.0 { 0.0 } else { f[i][j] / u.frequencies()[j] };
                if w[i][j].key() != want.key() {
                    return Err(format!("FrequencyMatrix::new(..).to_weight(None)[{}][{}] = {} but freq/bg = {}", i, j, w[i][j], want));
                }
            }
        }
        if rows > 0 && !d.iter().any(|x| x.is_nan()) {
            let mut e = d.to_vec();
            e[0] = if e[0] == 0.5 { 0.5 + 1.0 / 1024.0 } else { 0.5 };
            if let Ok(g) = FrequencyMatrix::<A>::new(dense::<f32, A>(rows, &e)) {
                if g == f {
                    return Err("FrequencyMatrix: PartialEq holds between matrices that differ in one cell".into());
                }
            }
        }
    }
    Ok(())
}

fn score_alt<A: Alphabet + PartialEq>(rows: usize, d: &[f32], s: &[usize], pos: usize, sc: Result<f32, ()>) -> Result<(), String>
where
    A::K: PartialEq,
{
    let k = A::K::USIZE;
    let uni = Background::<A>::uniform();
    let m = ScoringMatrix::<A>::new(uni.clone(), dense::<f32, A>(rows, d));
    if mkeys::<f32, A>(m.matrix()) != keys(d) || bgkeys(m.background()) != bgkeys(&uni) {
        return Err("ScoringMatrix::new: matrix() / background() are not the ones given".into());
    }
    c09_accessors!(A, f32, ScoringMatrix, m);
    // a non-default background is kept too
    let mut pm = vec![0.0f32; k];
    pm[rows % (k - 1)] = 1.0;
    let other = Background::<A>::new(garr::<f32, A>(&pm)).map_err(|_| "Background::new rejects a point mass".to_string())?;
    let m2 = ScoringMatrix::<A>::new(other.clone(), m.matrix().clone());
    if bgkeys(m2.background()) != keys(&pm) || mkeys::<f32, A>(m2.matrix()) != keys(d) {
        return Err("ScoringMatrix::new: a non-default background is not kept".into());
    }
    // the sequence by value / by reference / through as_ref(); the matrix through a clone
    let st = striped::<A>(s);
    let want = sc.map(|x| x.key());
    let by_value = guarded(|| m.score_position(st.clone(), pos)).map(|x| x.key());
    let by_asref = guarded(|| m.score_position(AsRef::<StripedSequence<A, U32>>::as_ref(&st), pos)).map(|x| x.key());
    let of_clone = guarded(|| m2.score_position(&st, pos)).map(|x| x.key());
    if by_value != want || by_asref != want || of_clone != want {
        return Err("score_position (sequence by value / as_ref(), matrix rebuilt with another background) differs".into());
    }
    Ok(())
}


/// add the alternative-entry-point clause `f` to the verdict of the main clause
pub fn alt_on(v: Verdict, on: bool, f: impl FnOnce() -> Result<(), String>) -> Verdict {
    match v {
        (a, Some(o), nt) if on && a != "panic" => (a, Some(with_alt(o, f)), nt),
        v => v,
    }
}

fn parse_fb(x: &str) -> f32 {
    if x == "nan" {
        f32::NAN
    } else {
        f32::from_bits(x.parse().unwrap())
    }
}

fn seqs_case<A: Alphabet + PartialEq>(t: &mut Tok) -> Verdict
where
    A::K: PartialEq,
{
    let line = t.line;
    alt_on(seqs_main::<A>(t), share(line, 2), || {
        let mut t = Tok::new(line);
        let (_, _, n) = (t.next(), t.next(), t.nat());
        let enc: Vec<EncodedSequence<A>> = t.seqs(n).iter().map(|s| encoded::<A>(s)).collect();
        seqs_alt::<A>(&enc)
    })
}

fn pipe_case<A: Alphabet + PartialEq>(t: &mut Tok) -> Verdict
where
    A::K: PartialEq,
{
    let line = t.line;
    alt_on(pipe_main::<A>(t), share(line, 2), || {
        let k = A::K::USIZE;
        let mut t = Tok::new(line);
        let (_, _, rows) = (t.next(), t.next(), t.nat());
        let counts: Vec<u32> = t.nats(rows * k).iter().map(|x| *x as u32).collect();
        let p = parse_pseudo(&mut t, k);
        let bg = parse_bg(&mut t, k);
        let base = t.f32();
        let bg2 = parse_bg(&mut t, k);
        pipe_alt::<A>(rows, &counts, &p, &bg, base, &bg2)
    })
}

fn bg_case<A: Alphabet + PartialEq>(t: &mut Tok) -> Verdict
where
    A::K: PartialEq,
{
    let line = t.line;
    let v = bg_main::<A>(t);
    let main: Result<Vec<f32>, ()> = match v.0.strip_prefix("ok ") {
        Some(bits) => Ok(bits.split(' ').map(parse_fb).collect()),
        None => Err(()),
    };
    alt_on(v, share(line, 2), || bg_alt::<A>(line, &main))
}

fn fnew_case<A: Alphabet + PartialEq>(t: &mut Tok) -> Verdict
where
    A::K: PartialEq,
{
    let line = t.line;
    alt_on(fnew_main::<A>(t), share(line, 2), || {
        let mut t = Tok::new(line);
        let (_, _, rows) = (t.next(), t.next(), t.nat());
        let d = t.f32s(rows * A::K::USIZE);
        fnew_alt::<A>(rows, &d)
    })
}

fn score_case<A: Alphabet + PartialEq>(t: &mut Tok) -> Verdict
where
    A::K: PartialEq,
{
    let line = t.line;
    let v = score_main::<A>(t);
    let sc: Result<f32, ()> = match v.0.rsplit_once("sc ") {
        Some((_, x)) => Ok(parse_fb(x)),
        None => Err(()),
    };
    alt_on(v, share(line, 2), || {
        let mut t = Tok::new(line);
        let (_, _, rows) = (t.next(), t.next(), t.nat());
        let d = t.f32s(rows * A::K::USIZE);
        let l = t.nat();
        let s = t.nats(l);
        let pos = t.nat();
        score_alt::<A>(rows, &d, &s, pos, sc)
    })
}

// ------------------------------------------------------------------------------------ exec

pub fn exec(line: &str) -> Verdict {
    let mut t = Tok::new(line);
    let op = t.next();
    let alpha = t.next();
    macro_rules! go {
        ($f:ident) => {
            if alpha == "dna" {
                $f::<Dna>(&mut t)
            } else {
                $f::<Protein>(&mut t)
            }
        };
    }
    match op {
        "c09seqs" => go!(seqs_case),
        "c09pipe" => go!(pipe_case),
        "c09bg" => go!(bg_case),
        "c09fnew" => go!(fnew_case),
        "c09score" => go!(score_case),
        "c09cs" => go!(cs_case),
        "c09laws" => {
            // the laws named by the structural theorems, on the machine's f32
            let z = std::hint::black_box(0.0f32);
            let two = std::hint::black_box(2u32) as f32;
            let empty: Vec<f32> = Vec::new();
            let ans = format!(
                "{} {} {} {} {} {} {} {}",
                two == 2.0,
                fb(z.log2()),
                fb(z.log10()),
                fb(z.ln()),
                fb(f32::NEG_INFINITY),
                fb(empty.iter().sum::<f32>()),
                fb(std::hint::black_box(0.01f32)),
                fb(std::hint::black_box(10u32) as f32)
            );
            let ok = z.log2() == f32::NEG_INFINITY && z.log10() == f32::NEG_INFINITY && z.ln() == f32::NEG_INFINITY;
            (ans, Some(if ok { Ok(()) } else { Err("log 0 is not -inf".into()) }), false)
        }
        _ => panic!("unknown op {}", op),
    }
}

// ------------------------------------------------------------------------------------ generators

pub fn seq_tokens(s: &[usize]) -> String {
    if s.is_empty() {
        "0".into()
    } else {
        format!("{} {}", s.len(), join(s.iter()))
    }
}

pub fn rand_seq(rng: &mut Rng, k: usize, l: usize, wild: bool) -> Vec<usize> {
    (0..l).map(|_| if wild && rng.chance(1, 12) { k - 1 } else { rng.below(k - 1) }).collect()
}

/// a background accepted by `Background::new`: dyadic fractions n_j / 1024 (every partial sum is
/// exact); `zeros` forces some entries (possibly non-wildcard ones) to zero
pub fn dyadic_bg(rng: &mut Rng, k: usize, zeros: bool, wildcard_mass: bool) -> Vec<f32> {
    let mut live: Vec<usize> = (0..k - 1).collect();
    if wildcard_mass {
        live.push(k - 1);
    }
    if zeros {
        let drop = rng.range(1, (live.len() - 1).min(3));
        for _ in 0..drop {
            let i = rng.below(live.len());
            live.remove(i);
        }
    }
    let mut n = vec![1usize; live.len()];
    for _ in 0..(1024 - live.len()) {
        // skewed: some symbols get most of the mass
        let i = if rng.chance(1, 2) { rng.below(live.len()) } else { rng.below(1 + live.len() / 3) };
        n[i] += 1;
    }
    let mut v = vec![0.0f32; k];
    for (i, j) in live.iter().enumerate() {
        v[*j] = n[i] as f32 / 1024.0;
    }
    // the "null frequency" test must be `== 0.0`, nothing else: sometimes a dead entry is -0.0 (still
    // null) or a SUBNORMAL, non-zero frequency (valid: in [0,1], and too small to move the f32 sum
    // away from 1.0), which must be treated like any other non-zero frequency
    if rng.chance(1, 4) {
        let dead: Vec<usize> = (0..k).filter(|j| v[*j] == 0.0).collect();
        if !dead.is_empty() {
            let j = *rng.pick(&dead);
            v[j] = match rng.below(3) {
                0 => -0.0,
                1 => f32::from_bits(rng.range(1, 0x007f_ffff) as u32),
                _ => f32::from_bits(1),
            };
        }
    }
    v
}

pub fn bg_tokens(b: &Bg) -> String {
    match b {
        Bg::None => "bn".into(),
        Bg::Uniform => "bu".into(),
        Bg::New(v) => format!("bw {}", ibs(v)),
        Bg::Counts(c) => format!("bc {}", join(c.iter())),
    }
}

pub fn pseudo_tokens(p: &Pseudo) -> String {
    match p {
        Pseudo::U(c) => format!("pu {}", ib(*c)),
        Pseudo::A(v) => format!("pa {}", ibs(v)),
    }
}

pub fn rand_bg(rng: &mut Rng, k: usize) -> Bg {
    match rng.below(8) {
        0 => Bg::None,
        1 => Bg::Uniform,
        2 | 3 => Bg::New(dyadic_bg(rng, k, false, false)),
        4 => Bg::New(dyadic_bg(rng, k, true, false)),
        5 => {
            let z = rng.chance(1, 2);
            Bg::New(dyadic_bg(rng, k, z, true))
        }
        6 => Bg::Counts((0..k).map(|j| if j + 1 == k || rng.chance(1, 6) { 0 } else { rng.range(1, 500) }).collect()),
        _ => {
            // decimal fractions: valid only up to rounding (accepted or not, both sides must agree)
            let mut w: Vec<f32> = (0..k - 1).map(|_| rng.range(1, 9) as f32).collect();
            let s: f32 = w.iter().sum();
            for x in w.iter_mut() {
                *x /= s;
            }
            w.push(0.0);
            Bg::New(w)
        }
    }
}

pub fn rand_pseudo(rng: &mut Rng, k: usize) -> Pseudo {
    match rng.below(6) {
        0 => Pseudo::U(0.0),
        1 => Pseudo::U(*rng.pick(&[0.1f32, 0.25, 1.0, 0.001, 0.5])),
        2 => Pseudo::U((rng.f64() * 3.0) as f32),
        3 => Pseudo::A((0..k).map(|j| if j + 1 == k { 0.0 } else { (rng.f64() * 2.0) as f32 }).collect()),
        4 => Pseudo::A((0..k).map(|_| if rng.chance(1, 4) { 0.0 } else { (rng.f64() * 2.0) as f32 }).collect()),
        _ => Pseudo::A((0..k).map(|_| *rng.pick(&[0.0f32, 0.1, 0.25, 1.0, 1e-6, 8.0])).collect()),
    }
}

pub fn rand_counts(rng: &mut Rng, k: usize, rows: usize) -> Vec<u32> {
    let style = rng.below(5);
    let n = rng.range(1, 40);
    let mut v = vec![0u32; rows * k];
    for i in 0..rows {
        match style {
            // counts of n aligned sequences
            0 | 1 => {
                for _ in 0..n {
                    let a = if rng.chance(1, 20) { k - 1 } else { rng.below(k - 1) };
                    v[i * k + a] += 1;
                }
            }
            // sparse: most symbols absent, some rows entirely empty
            2 => {
                if !rng.chance(1, 5) {
                    for _ in 0..rng.range(1, 3) {
                        v[i * k + rng.below(k)] += rng.range(1, 9) as u32;
                    }
                }
            }
            // unequal row totals
            3 => {
                for j in 0..k {
                    v[i * k + j] = rng.below(30) as u32;
                }
            }
            // large values: `as f32` rounds
            _ => {
                for j in 0..k - 1 {
                    v[i * k + j] = match rng.below(4) {
                        0 => u32::MAX - rng.below(3) as u32,
                        1 => 16_777_217 + rng.below(1000) as u32,
                        2 => 0,
                        _ => rng.next() as u32,
                    };
                }
            }
        }
    }
    v
}

const BASES: [f32; 6] = [2.0, 10.0, std::f32::consts::E, 3.0, 2.0, 1.5];

pub fn pipe_line(alpha: &str, rows: usize, counts: &[u32], p: &Pseudo, bg: &Bg, base: f32, bg2: &Bg) -> String {
    let c = if counts.is_empty() { String::new() } else { format!(" {}", join(counts.iter())) };
    format!("c09pipe {} {}{} {} {} {} {}", alpha, rows, c, pseudo_tokens(p), bg_tokens(bg), ib(base), bg_tokens(bg2))
}

pub fn rand_scores(rng: &mut Rng, k: usize, rows: usize, weird: bool) -> Vec<f32> {
    let mut d = vec![0.0f32; rows * k];
    let wildcard_style = rng.below(3);
    for i in 0..rows {
        for j in 0..k {
            let x = if j + 1 == k {
                match wildcard_style {
                    0 => f32::NEG_INFINITY,
                    1 => 0.0,
                    _ => (rng.f64() * 4.0 - 3.0) as f32,
                }
            } else if rng.chance(1, 15) {
                f32::NEG_INFINITY
            } else if rng.chance(1, 10) {
                // ties inside a row
                -1.0
            } else {
                (rng.f64() * 12.0 - 9.0) as f32
            };
            d[i * k + j] = x;
        }
    }
    if weird && rows > 0 {
        for _ in 0..rng.range(1, 3) {
            let x = rng.below(rows * k);
            d[x] = *rng.pick(&[f32::NAN, f32::INFINITY, -0.0, 0.0, f32::MIN_POSITIVE, f32::MAX, -f32::MAX]);
        }
    }
    d
}

pub fn generate(cfg: &Cfg) -> Vec<String> {
    let mut rng = Rng::new(cfg.seed ^ 0xC09);
    let mut cases = Vec::new();
    let mult = (if cfg.thorough { 30 } else { 1 }) * cfg.boost;
    cases.push("c09laws -".to_string());
    for (alpha, k) in [("dna", 5usize), ("protein", 21usize)] {
        // ---------------- from_sequences: boundary (0, 1 sequences; empty sequences; the unequal one
        // first / last / in the middle; shorter and longer), then random
        cases.push(format!("c09seqs {} 0", alpha));
        cases.push(format!("c09seqs {} 1 0", alpha));
        cases.push(format!("c09seqs {} 3 0 0 0", alpha));
        cases.push(format!("c09seqs {} 2 0 1 0", alpha));
        cases.push(format!("c09seqs {} 2 1 0 0", alpha));
        for n in [1usize, 2, 3, 7] {
            for l in [1usize, 2, 15, 33] {
                let ss: Vec<Vec<usize>> = (0..n).map(|_| rand_seq(&mut rng, k, l, true)).collect();
                cases.push(format!("c09seqs {} {} {}", alpha, n, join(ss.iter().map(|s| seq_tokens(s)))));
                if n >= 2 {
                    for bad in [0, n / 2, n - 1] {
                        for delta in [-1i64, 1] {
                            let mut tt = ss.clone();
                            let l2 = (l as i64 + delta) as usize;
                            tt[bad] = rand_seq(&mut rng, k, l2, true);
                            cases.push(format!("c09seqs {} {} {}", alpha, n, join(tt.iter().map(|s| seq_tokens(s)))));
                        }
                    }
                }
            }
        }
        for _ in 0..30 * mult {
            let n = rng.range(1, 25);
            let l = rng.range(0, 40);
            let mut ss: Vec<Vec<usize>> = (0..n).map(|_| rand_seq(&mut rng, k, l, true)).collect();
            if rng.chance(1, 4) {
                let bad = rng.below(n);
                let l2 = if rng.chance(1, 2) { l + rng.range(1, 3) } else { l.saturating_sub(rng.range(1, 3)) };
                ss[bad] = rand_seq(&mut rng, k, l2, true);
            }
            cases.push(format!("c09seqs {} {} {}", alpha, n, join(ss.iter().map(|s| seq_tokens(s)))));
        }

        // ---------------- the conversion pipeline: boundary
        let uni = Bg::None;
        // empty matrix, single row, the README motif shape
        cases.push(pipe_line(alpha, 0, &[], &Pseudo::U(0.1), &uni, 2.0, &Bg::Uniform));
        for base in BASES {
            for p in [Pseudo::U(0.0), Pseudo::U(0.1), Pseudo::A((0..k).map(|j| (j % 3) as f32 * 0.5).collect())] {
                let rows = rng.range(1, 6);
                let c = rand_counts(&mut rng, k, rows);
                let b1 = Bg::New(dyadic_bg(&mut rng, k, false, false));
                let b2 = Bg::New(dyadic_bg(&mut rng, k, true, false));
                let b3 = Bg::New(dyadic_bg(&mut rng, k, false, true));
                cases.push(pipe_line(alpha, rows, &c, &p, &uni, base, &b1));
                cases.push(pipe_line(alpha, rows, &c, &p, &b1, base, &b1));
                cases.push(pipe_line(alpha, rows, &c, &p, &b1, base, &b3));
                cases.push(pipe_line(alpha, rows, &c, &p, &b2, base, &b1));
                cases.push(pipe_line(alpha, rows, &c, &p, &b3, base, &b2));
                cases.push(pipe_line(alpha, rows, &c, &p, &b1, base, &Bg::None));
            }
        }
        // an all-zero count row with zero pseudocounts (row total 0: outside the property, still mirrored)
        cases.push(pipe_line(alpha, 2, &vec![0u32; 2 * k], &Pseudo::U(0.0), &uni, 2.0, &Bg::Uniform));
        // rejected backgrounds in the pipeline
        {
            let c = rand_counts(&mut rng, k, 2);
            let mut bad = dyadic_bg(&mut rng, k, false, false);
            bad[0] += 0.5;
            cases.push(pipe_line(alpha, 2, &c, &Pseudo::U(0.1), &Bg::New(bad.clone()), 2.0, &Bg::None));
            cases.push(pipe_line(alpha, 2, &c, &Pseudo::U(0.1), &Bg::None, 2.0, &Bg::New(bad)));
            cases.push(pipe_line(alpha, 2, &c, &Pseudo::U(0.1), &Bg::Counts(vec![0; k]), 2.0, &Bg::None));
        }
        // ---------------- the conversion pipeline: random
        for _ in 0..(if k == 5 { 150 } else { 60 }) * mult {
            let rows = if rng.chance(1, 10) { rng.range(13, 40) } else { rng.range(0, 12) };
            let c = rand_counts(&mut rng, k, rows);
            let p = rand_pseudo(&mut rng, k);
            let bg = rand_bg(&mut rng, k);
            let bg2 = if rng.chance(1, 6) { bg.clone() } else { rand_bg(&mut rng, k) };
            let base = *rng.pick(&BASES);
            cases.push(pipe_line(alpha, rows, &c, &p, &bg, base, &bg2));
        }

        // ---------------- Background constructors
        cases.push(format!("c09bg {} uniform", alpha));
        let valid = dyadic_bg(&mut rng, k, false, false);
        cases.push(format!("c09bg {} new {}", alpha, ibs(&valid)));
        cases.push(format!("c09bg {} new {}", alpha, ibs(&dyadic_bg(&mut rng, k, true, true))));
        // a point mass
        let mut pm = vec![0.0f32; k];
        pm[1] = 1.0;
        cases.push(format!("c09bg {} new {}", alpha, ibs(&pm)));
        // all zero; every entry of a valid one pushed outside [0,1] / to NaN / to -0.0; sum off by one ulp,
        // by 0.01, by 0.5; entries > 1 whose sum wraps to one
        cases.push(format!("c09bg {} new {}", alpha, ibs(&vec![0.0f32; k])));
        for j in [0, k / 2, k - 1] {
            for bad in [-0.25f32, 1.5, f32::NAN, f32::INFINITY, f32::NEG_INFINITY, -1e-30, -0.0, 1.0000001] {
                let mut v = valid.clone();
                v[j] = bad;
                cases.push(format!("c09bg {} new {}", alpha, ibs(&v)));
            }
            for d in [f32::EPSILON, -f32::EPSILON / 2.0, 0.01, -0.01, 0.5, 1e-4] {
                let mut v = valid.clone();
                v[j] = (v[j] + d).max(0.0);
                cases.push(format!("c09bg {} new {}", alpha, ibs(&v)));
            }
        }
        {
            let mut v = vec![0.0f32; k];
            v[0] = 2.0;
            v[1] = -1.0;
            cases.push(format!("c09bg {} new {}", alpha, ibs(&v)));
            let mut v = vec![0.0f32; k];
            v[0] = 0.5;
            v[1] = 0.25;
            cases.push(format!("c09bg {} new {}", alpha, ibs(&v)));
        }
        for _ in 0..20 * mult {
            let b = match rand_bg(&mut rng, k) {
                Bg::New(v) => v,
                _ => dyadic_bg(&mut rng, k, true, true),
            };
            cases.push(format!("c09bg {} new {}", alpha, ibs(&b)));
            let c: Vec<usize> = (0..k).map(|_| if rng.chance(1, 4) { 0 } else { rng.range(0, 1000) }).collect();
            cases.push(format!("c09bg {} counts {}", alpha, join(c.iter())));
        }
        cases.push(format!("c09bg {} counts {}", alpha, join(vec![0usize; k].iter())));
        {
            let mut c = vec![0usize; k];
            c[k - 1] = 7;
            cases.push(format!("c09bg {} counts {}", alpha, join(c.iter())));
            c[0] = 16_777_217;
            c[1] = 3_000_000_000;
            cases.push(format!("c09bg {} counts {}", alpha, join(c.iter())));
        }
        // from_sequence(s): empty, wildcards only (rejected unless counted), mixed
        for unknown in [0, 1] {
            cases.push(format!("c09bg {} seq {} 0", alpha, unknown));
            cases.push(format!("c09bg {} seq {} {}", alpha, unknown, seq_tokens(&vec![k - 1; 4])));
            cases.push(format!("c09bg {} seqs {} 0", alpha, unknown));
            cases.push(format!("c09bg {} seqs {} 2 0 {}", alpha, unknown, seq_tokens(&vec![k - 1; 3])));
            for _ in 0..8 * mult {
                let l = rng.range(1, 120);
                let s = rand_seq(&mut rng, k, l, true);
                cases.push(format!("c09bg {} seq {} {}", alpha, unknown, seq_tokens(&s)));
                let n = rng.range(1, 5);
                let ss: Vec<Vec<usize>> = (0..n).map(|_| { let l = rng.range(0, 40); rand_seq(&mut rng, k, l, true) }).collect();
                cases.push(format!("c09bg {} seqs {} {} {}", alpha, unknown, n, join(ss.iter().map(|s| seq_tokens(s)))));
            }
        }

        // ---------------- FrequencyMatrix::new: rows off by less / more than 0.01, either side
        cases.push(format!("c09fnew {} 0", alpha));
        for _ in 0..6 * mult {
            for dev in [0.0f32, 0.005, -0.005, 0.0099, -0.0099, 0.0101, -0.0101, 0.02, -0.02, 0.5, -0.5, 1.0, f32::NAN, f32::INFINITY] {
                let rows = rng.range(1, 6);
                let badrow = rng.below(rows);
                let mut d = Vec::new();
                for i in 0..rows {
                    let (z, wm) = (rng.chance(1, 3), rng.chance(1, 3));
                    let mut r = dyadic_bg(&mut rng, k, z, wm);
                    if i == badrow {
                        let j = rng.below(k);
                        r[j] += dev;
                    }
                    d.extend(r);
                }
                cases.push(format!("c09fnew {} {} {}", alpha, rows, ibs(&d)));
            }
        }

        // ---------------- min_score <= window score <= max_score
        cases.push(format!("c09score {} 0 0 0", alpha));
        cases.push(format!("c09score {} 0 3 0 1 2 3", alpha));
        for it in 0..(if k == 5 { 60 } else { 25 }) * mult {
            let rows = rng.range(1, 14);
            let weird = it % 6 == 5;
            let d = rand_scores(&mut rng, k, rows, weird);
            let l = rows + rng.range(0, 20);
            let s = rand_seq(&mut rng, k, l, it % 5 == 4);
            let pos = rng.range(0, l - rows);
            cases.push(format!("c09score {} {} {} {} {} {}", alpha, rows, ibs(&d), l, join(s.iter()), pos));
        }
        // the extreme windows: the consensus and the anti-consensus reach the bounds
        for _ in 0..6 * mult {
            let rows = rng.range(1, 10);
            let d = rand_scores(&mut rng, k, rows, false);
            for want_max in [true, false] {
                let s: Vec<usize> = (0..rows)
                    .map(|i| {
                        let row = &d[i * k..i * k + k - 1];
                        let mut best = 0;
                        for j in 1..k - 1 {
                            if (want_max && row[j] > row[best]) || (!want_max && row[j] < row[best]) {
                                best = j;
                            }
                        }
                        best
                    })
                    .collect();
                cases.push(format!("c09score {} {} {} {} {} 0", alpha, rows, ibs(&d), rows, join(s.iter())));
            }
        }

        // ---------------- count_symbol(s)
        cases.push(format!("c09cs {} 0", alpha));
        for _ in 0..12 * mult {
            let l = rng.range(1, 150);
            let s = rand_seq(&mut rng, k, l, true);
            cases.push(format!("c09cs {} {} {}", alpha, l, join(s.iter())));
        }
    }
    cases
}

pub fn run(cfg: &Cfg) {
    let cases = crate::replay_cases(cfg).unwrap_or_else(|| match std::panic::catch_unwind(|| generate(cfg)) {
        Ok(c) => c,
        Err(e) => {
            eprintln!("generator panicked: {:?}", e.downcast_ref::<String>().map(|s| s.as_str()).or(e.downcast_ref::<&str>().copied()));
            std::process::exit(3)
        }
    });
    let mut out = Out::new(&cfg.out);
    for c in &cases {
        let alt0 = ALT.load(Ordering::Relaxed);
        let (ans, o, nt) = match std::panic::catch_unwind(|| exec(c)) {
            Ok(v) => v,
            Err(e) => {
                eprintln!("harness bug on case `{}`: {:?}", c, e.downcast_ref::<String>().map(|s| s.as_str()).or(e.downcast_ref::<&str>().copied()));
                std::process::exit(3)
            }
        };
        let t: Vec<&str> = c.splitn(3, ' ').collect();
        out.stat(&format!("{}/{}", t[0], t[1]));
        let kind = if ans == "panic" {
            "panic"
        } else if ans.contains("panic") {
            "minmax-panic"
        } else if ans.starts_with("err") || ans.starts_with("bgerr") {
            "rejected"
        } else {
            "ok"
        };
        out.stat(&format!("outcome/{}", kind));
        if ALT.load(Ordering::Relaxed) != alt0 {
            out.stat("alternative-entry-points");
        }
        if ans == "panic" {
            out.panics += 1;
        }
        out.case(c, &ans, o, nt);
    }
    out.finish(&cfg.out);
}
