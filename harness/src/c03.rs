//! C03 — the scanner's best hit is a maximum-scoring position that meets the threshold.
//!
//! case:   c03 <dev|release> <arm> <block> <threshold f32 bits> <k> <M> <5·M f32 bit patterns> <W> <L> <L symbols> [H <h>…]
//!         (H …: the configure history of the sequence object before `configure_wrap(W)`, see c02.rs)
//!         the scanner is asked `next()` k times (stopping at the first None), then `max()`
//! answer: ret <n> <position:score-bits of the hits returned by next, sorted by position> | max <position:score-bits | none>
//!         or panic
//!
//! oracle (from the property text): Q = {(i, score(i)) : i in [0, L−M], score(i) >= threshold} with
//! score(i) the f32 sum in the order of `score_position`; the hits returned by `next` are distinct
//! members of Q; `max()` is None exactly when Q minus the returned hits is empty, and otherwise a
//! member of it whose score equals the maximum score over it.  No panic.
use crate::c02::{build_seq_hist, used_buffer, gen_block_len, gen_history, gen_threshold, in_contract, parse, qualifying, Case, BLOCKS};
use crate::c08::{bits, build_pssm, gen_matrix, gen_seq, profile, scalar_score};
use crate::out::*;
use crate::rng::Rng;
use crate::Cfg;
use lightmotif::abc::Dna;
use lightmotif::pli::verif;
use lightmotif::scan::Hit;
use lightmotif::scan::Scanner;

fn run_impl(c: &Case) -> Result<(Vec<(usize, u32)>, Option<(usize, u32)>), ()> {
    let pssm = build_pssm::<Dna>(c.m, &c.vals);
    // (the scans of the history are judged in C02; here the history only shapes the sequence object)
    let (st, _) = build_seq_hist(c);
    // a share of the scanners gets a caller-provided, previously used score buffer (`Scanner::scores`)
    let mut used = if (c.syms.len() + c.k + c.block) % 3 == 0 { Some(used_buffer(c)) } else { None };
    assert!(verif::force_backend(&c.arm));
    let r = guarded(|| {
        let mut sc = Scanner::new(&pssm, &st);
        if let Some(b) = used.as_mut() {
            sc.scores(b);
        }
        sc.threshold(c.thr);
        sc.block_size(c.block);
        let mut ret: Vec<Hit> = Vec::new();
        for _ in 0..c.k {
            match sc.next() {
                Some(h) => ret.push(h),
                None => break,
            }
        }
        let best = sc.max();
        (ret, best)
    });
    verif::clear();
    r.map(|(ret, best)| (ret.iter().map(|h| (h.position(), h.score().to_bits())).collect(), best.map(|h| (h.position(), h.score().to_bits()))))
}

pub fn exec(line: &str) -> (String, Option<Result<(), String>>, bool) {
    let t: Vec<&str> = line.split_whitespace().collect();
    assert_eq!(t[0], "c03");
    let c = parse(&t, true);
    let r = run_impl(&c);
    let answer = match &r {
        Err(()) => "panic".to_string(),
        Ok((ret, best)) => {
            let mut v = ret.clone();
            v.sort();
            format!(
                "ret {}{} | max {}",
                v.len(),
                v.iter().map(|(p, s)| format!(" {}:{}", p, s)).collect::<String>(),
                match best {
                    Some((p, s)) => format!("{}:{}", p, s),
                    None => "none".into(),
                }
            )
        }
    };
    if !in_contract(&c) {
        return (answer, None, false);
    }
    let q = qualifying(&c);
    let rows = (c.syms.len() + 31) / 32;
    let npos = (c.syms.len() + 1).saturating_sub(c.m);
    let nontrivial = !q.is_empty() && q.len() < npos && rows > c.block;
    let verdict = match &r {
        Err(()) => Err(format!("the scanner panics (L={} M={} rows={} wrap={} block={} threshold={} k={})", c.syms.len(), c.m, rows, c.wrap(), c.block, c.thr, c.k)),
        Ok((ret, best)) => (|| {
            let mut seen = std::collections::BTreeSet::new();
            for (p, s) in ret {
                match q.iter().find(|(i, _)| i == p) {
                    Some((_, e)) if e.to_bits() == *s => {}
                    Some((_, e)) => return Err(format!("next() returned position {} with score bits {} but its exact score is {} ({})", p, s, e, e.to_bits())),
                    None => return Err(format!("next() returned position {} which does not score >= threshold (or lies past L-M)", p)),
                }
                if !seen.insert(*p) {
                    return Err(format!("next() returned position {} twice", p));
                }
            }
            if ret.len() < c.k.min(q.len()) {
                return Err(format!("next() returned only {} hits of {} although k = {}", ret.len(), q.len(), c.k));
            }
            let rest: Vec<&(usize, f32)> = q.iter().filter(|(i, _)| !seen.contains(i)).collect();
            match (rest.is_empty(), best) {
                (true, None) => Ok(()),
                (true, Some((p, s))) => Err(format!("max() returned position {} (score {}) although no not-yet-returned position in [0, L-M] scores >= threshold {}", p, f32::from_bits(*s), c.thr)),
                (false, None) => Err(format!("max() returned None although {} not-yet-returned positions score >= threshold", rest.len())),
                (false, Some((p, s))) => {
                    let mx = rest.iter().map(|(_, s)| *s).fold(f32::NEG_INFINITY, f32::max);
                    let at = rest.iter().find(|(_, s)| *s == mx).unwrap().0;
                    match rest.iter().find(|(i, _)| i == p) {
                        None => Err(format!("max() returned position {} which is not a not-yet-returned position scoring >= threshold", p)),
                        Some((_, e)) if e.to_bits() != *s => Err(format!("max() returned position {} with score bits {} but its exact score is {}", p, s, e)),
                        Some((_, e)) if *e != mx => Err(format!("max() returned position {} scoring {} but position {} scores {} (maximum over the not-yet-returned positions)", p, e, at, mx)),
                        Some(_) => Ok(()),
                    }
                }
            }
        })(),
    };
    (answer, Some(verdict), nontrivial)
}

/// a matrix and a sequence with two planted words `a`, `b`: score(b) > score(a) by less than one
/// 8-bit step while the sum of 8-bit cells of `b` is LOWER than that of `a`, `a` visited first.
fn gen_near_tie(rng: &mut Rng) -> Option<(usize, Vec<f32>, Vec<usize>)> {
    let m = rng.range(3, 9);
    let (mut vals, _) = gen_matrix(rng, 5, m);
    for i in 0..m {
        vals[i * 5 + 4] = f32::NEG_INFINITY;
    }
    let pssm = build_pssm::<Dna>(m, &vals);
    let dm = pssm.to_discrete();
    let cell = |j: usize, a: usize| dm.matrix()[j][a] as u32;
    // sample words, keep (score, sum of cells)
    let mut words: Vec<(f32, u32, Vec<usize>)> = Vec::new();
    for _ in 0..300 {
        let w: Vec<usize> = (0..m).map(|_| rng.below(4)).collect();
        let s = scalar_score(&vals, 5, m, &w, 0);
        let d: u32 = (0..m).map(|j| cell(j, w[j])).sum();
        words.push((s, d, w));
    }
    words.sort_by(|x, y| y.0.partial_cmp(&x.0).unwrap());
    // the best-scoring pair (b above a) with inverted 8-bit images and no saturation
    for bi in 0..words.len() {
        for ai in bi + 1..(bi + 12).min(words.len()) {
            let (sb, db, wb) = &words[bi];
            let (sa, da, wa) = &words[ai];
            if sb > sa && db < da && *da <= 255 {
                // filler: the worst symbol of each column, cyclically
                let worst: Vec<usize> = (0..m).map(|j| (0..4).min_by(|&x, &y| vals[j * 5 + x].partial_cmp(&vals[j * 5 + y]).unwrap()).unwrap()).collect();
                let rows = rng.range(2, 12);
                let l = 32 * rows - rng.below(32);
                let r = (l + 31) / 32;
                let mut s: Vec<usize> = (0..l).map(|i| worst[i % m]).collect();
                // a in row ra, b in row rb > ra (or the same row, a later column)
                if r < 2 || l < 4 * m + 64 {
                    return None;
                }
                let ra = rng.below(r - 1);
                let rb = rng.range(ra + 1, r - 1);
                let ca = rng.below(30);
                let cb = rng.below(30);
                let pa = ca * r + ra;
                let pb = cb * r + rb;
                if pa + m > l || pb + m > l || (pa < pb + m && pb < pa + m) {
                    return None;
                }
                s[pa..pa + m].copy_from_slice(wa);
                s[pb..pb + m].copy_from_slice(wb);
                return Some((m, vals, s));
            }
        }
    }
    None
}

pub fn generate(cfg: &Cfg) -> Vec<String> {
    let mut rng = Rng::new(cfg.seed ^ 0xC03);
    let mut hrng = Rng::new(cfg.seed ^ 0xC03_0100);
    let mut cases = Vec::new();
    let prof = profile();
    let arms = ["generic", "sse2", "avx2"];
    let count = (if cfg.thorough { 8_000 } else { 700 }) * cfg.boost;
    for n in 0..count {
        let arm = arms[n % 3];
        if n % 4 == 3 {
            // planted near-ties, every small k, several block sizes on the same input
            if let Some((m, vals, syms)) = gen_near_tie(&mut rng) {
                let thr = if rng.chance(1, 2) { gen_threshold(&mut rng, &vals, m, &syms) } else { -1.0e30 };
                for block in [1usize, *rng.pick(&[2usize, 3, 7]), 256] {
                    let k = if rng.chance(2, 3) { 0 } else { rng.range(1, 3) };
                    let hist = if hrng.chance(1, 3) { gen_history(&mut hrng, m, m - 1) } else { String::new() };
                    cases.push(format!("c03 {} {} {} {} {} {} {} {} {} {}{}", prof, arm, block, thr.to_bits(), k, m, bits(&vals), m - 1, syms.len(), join(syms.iter()), hist));
                }
                continue;
            }
        }
        let m = match n % 13 {
            0 => 1,
            1 => rng.range(25, 40),
            _ => rng.range(1, 16),
        };
        let (vals, cons) = gen_matrix(&mut rng, 5, m);
        let (block, l) = gen_block_len(&mut rng, m, if cfg.thorough { 20_000 } else { 1200 });
        let l = if l > 12_000 && !cfg.thorough { l % 12_000 } else { l };
        let syms = gen_seq(&mut rng, 5, l, &cons);
        let thr = gen_threshold(&mut rng, &vals, m, &syms);
        let w = match rng.below(16) {
            0 => m - 1 + rng.range(1, 4),
            1 if m > 1 => rng.range(0, m - 2),
            _ => m - 1,
        };
        let hist = if n % 3 == 1 { gen_history(&mut hrng, m, w) } else { String::new() };
        let body = format!("{} {} {} {} {}{}", m, bits(&vals), w, l, join(syms.iter()), hist);
        if n % 5 == 0 {
            // all small k on one input
            for k in 0..=4 {
                cases.push(format!("c03 {} {} {} {} {} {}", prof, arm, block, thr.to_bits(), k, body));
            }
        } else if n % 5 == 1 {
            // the same input under several block sizes (k = 0: the answer's score must not depend on it)
            for b in [1usize, 2, 7, 256, block] {
                cases.push(format!("c03 {} {} {} {} 0 {}", prof, arm, b, thr.to_bits(), body));
            }
        } else {
            let k = *rng.pick(&[0usize, 0, 1, 2, 3, 5, 8, 50]);
            cases.push(format!("c03 {} {} {} {} {} {}", prof, arm, block, thr.to_bits(), k, body));
        }
    }
    cases
}

pub fn run(cfg: &Cfg) {
    let cases = crate::replay_cases(cfg).unwrap_or_else(|| generate(cfg));
    let mut out = Out::new(&cfg.out);
    for c in &cases {
        let mut t: Vec<&str> = c.split(' ').collect();
        t[1] = profile();
        let c = t.join(" ");
        out.announce(&c);
        let (ans, o, nt) = exec(&c);
        out.stat(&format!("arm/{}", t[2]));
        let b: usize = t[3].parse().unwrap();
        out.stat(&format!("block/{}", if BLOCKS.contains(&b) { t[3].to_string() } else { "other".into() }));
        out.stat(&format!("k/{}", if t[5].len() > 1 { "10+" } else { t[5] }));
        if o.is_none() {
            out.stat("out-of-contract(wrap<M-1)");
        }
        if let Some(h) = c.split(" H ").nth(1) {
            out.stat("history/any");
            for x in h.split(' ') {
                out.stat(&format!("history/{}", &x[..1]));
            }
        }
        if ans == "panic" {
            out.panics += 1;
            out.stat("panic");
        } else if ans.ends_with("max none") {
            out.stat("max-none");
        }
        out.case(&c, &ans, o, nt);
    }
    out.finish(&cfg.out);
}
