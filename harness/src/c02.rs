//! C02 — the scanner yields exactly the positions scoring at or above the threshold.
//!
//! case:   c02 <dev|release> <arm> <block> <threshold f32 bits> <M> <5·M f32 bit patterns, row-major> <W> <L> <L symbols> [H <h>…]
//!         arm: generic | sse2 | avx2   (the arm `Pipeline::dispatch()` is forced to select in `Scanner::new`)
//!         the sequence is striped (32 columns) and given W wrap rows (`configure` gives W = M−1)
//!         H … : what happened to the SAME striped sequence object before that final `configure_wrap(W)` (one
//!         sequence shared by several motifs), in order:  w<n> = `configure_wrap(n)`;  c<n> = `configure(&pssm')`
//!         with pssm' the first n rows of the matrix (n = 0: the empty matrix);  s<n> = `configure(&pssm')` and
//!         a scanner over pssm' run to exhaustion (same arm, block size and threshold; its hits are judged by the
//!         oracle with the same rule).  Short-then-long and wide-then-narrow histories.
//! answer: hits <n> <position:score-bits …, sorted by position>      or      panic
//!
//! oracle (from the property text): with score(i) = the f32 sum of the matrix entries of window i in
//! the order of `score_position`, the scanner must not panic and must yield exactly the pairs
//! (i, score(i)) for i in [0, L−M] with score(i) >= threshold, each once.
use crate::c08::{bits, build_pssm, build_seq, gen_matrix, gen_seq, profile, scalar_score};
use crate::out::*;
use crate::rng::Rng;
use crate::Cfg;
use lightmotif::abc::Dna;
use lightmotif::pli::verif;
use lightmotif::scan::Hit;
use lightmotif::scan::Scanner;
use lightmotif::num::U32;
use lightmotif::pli::Pipeline;
use lightmotif::pli::Score;
use lightmotif::pwm::DiscreteMatrix;
use lightmotif::scores::StripedScores;
use lightmotif::seq::StripedSequence;

pub struct Case {
    pub arm: String,
    pub block: usize,
    pub thr: f32,
    pub k: usize,
    pub m: usize,
    pub vals: Vec<f32>,
    pub w: usize,
    pub syms: Vec<usize>,
    /// configure history of the sequence object before the final `configure_wrap(w)`: (kind, n)
    pub hist: Vec<(char, usize)>,
}

/// parse `<arm> <block> <thr> [<k>] <M> <vals> <W> <L> <syms>` starting at token 2
pub fn parse(t: &[&str], with_k: bool) -> Case {
    let arm = t[2].to_string();
    let block: usize = t[3].parse().unwrap();
    let thr = f32::from_bits(t[4].parse::<u32>().unwrap());
    let mut p = 5;
    let k = if with_k {
        p += 1;
        t[5].parse().unwrap()
    } else {
        0
    };
    let m: usize = t[p].parse().unwrap();
    p += 1;
    let vals: Vec<f32> = t[p..p + 5 * m].iter().map(|x| f32::from_bits(x.parse::<u32>().unwrap())).collect();
    p += 5 * m;
    let w: usize = t[p].parse().unwrap();
    let l: usize = t[p + 1].parse().unwrap();
    p += 2;
    let syms: Vec<usize> = t[p..p + l].iter().map(|x| x.parse().unwrap()).collect();
    p += l;
    let mut hist = Vec::new();
    if t.get(p) == Some(&"H") {
        for h in &t[p + 1..] {
            hist.push((h.chars().next().unwrap(), h[1..].parse().unwrap()));
        }
    }
    Case { arm, block, thr, k, m, vals, w, syms, hist }
}

impl Case {
    /// the wrap rows the sequence ends up with: `configure_wrap` never shrinks
    pub fn wrap(&self) -> usize {
        self.hist.iter().map(|&(k, n)| if k == 'w' { n } else { n.saturating_sub(1) }).fold(self.w, usize::max)
    }
    /// the sub-case of a history scan: the first n rows of the matrix
    fn prefix(&self, n: usize, wrap: usize) -> Case {
        Case { arm: self.arm.clone(), block: self.block, thr: self.thr, k: 0, m: n, vals: self.vals[..5 * n].to_vec(), w: wrap, syms: self.syms.clone(), hist: vec![] }
    }
}

/// a score buffer that was used before, for another sequence (a reversed prefix) and the same motif
pub fn used_buffer(c: &Case) -> StripedScores<f32, U32> {
    let n = c.syms.len().min(40 + c.syms.len() % 64);
    let other: Vec<usize> = c.syms[..n].iter().rev().cloned().collect();
    let vals = c.vals.clone();
    let m = c.m;
    let r = guarded(move || {
        let pssm = build_pssm::<Dna>(m, &vals);
        let mut st = build_seq::<Dna>(&other, 0);
        st.configure(&pssm);
        let mut buf = StripedScores::<f32, U32>::default();
        Pipeline::<Dna, _>::generic().score_into(&pssm, &st, &mut buf);
        buf
    });
    r.unwrap_or_else(|_| StripedScores::empty())
}

/// stripe, replay the configure history on the one sequence object (scans of the history are judged
/// by the oracle: first failure in `Err`), then `configure_wrap(W)`
pub fn build_seq_hist(c: &Case) -> (StripedSequence<Dna, U32>, Result<(), String>) {
    let mut st = build_seq::<Dna>(&c.syms, 0);
    let mut verdict = Ok(());
    let mut wrap = 0;
    for &(kind, n) in &c.hist {
        if kind == 'w' {
            st.configure_wrap(n);
            wrap = wrap.max(n);
            continue;
        }
        let sub = c.prefix(n, wrap.max(n.saturating_sub(1)));
        let pssm = build_pssm::<Dna>(n, &sub.vals);
        st.configure(&pssm);
        wrap = sub.w;
        if kind == 's' && n >= 1 {
            assert!(verif::force_backend(&c.arm));
            let r = guarded(|| {
                let mut sc = Scanner::new(&pssm, &st);
                sc.threshold(c.thr);
                sc.block_size(c.block);
                sc.collect::<Vec<Hit>>()
            });
            verif::clear();
            if verdict.is_ok() && in_contract(&sub) {
                verdict = match r {
                    Err(()) => Err(format!("history scan with the first {} rows panics", n)),
                    Ok(h) => {
                        let mut got: Vec<(usize, u32)> = h.iter().map(|h| (h.position(), h.score().to_bits())).collect();
                        got.sort();
                        let exp: Vec<(usize, u32)> = qualifying(&sub).iter().map(|(p, s)| (*p, s.to_bits())).collect();
                        if got == exp { Ok(()) } else { Err(format!("history scan with the first {} rows: {} hits expected, {} yielded", n, exp.len(), got.len())) }
                    }
                };
            }
        }
    }
    st.configure_wrap(c.w);
    (st, verdict)
}

pub fn fmt_hits(h: &[(usize, u32)]) -> String {
    let mut v = h.to_vec();
    v.sort();
    format!("hits {}{}", v.len(), v.iter().map(|(p, s)| format!(" {}:{}", p, s)).collect::<String>())
}

/// the positions the property demands, with their exact scores
pub fn qualifying(c: &Case) -> Vec<(usize, f32)> {
    let l = c.syms.len();
    let mut q = Vec::new();
    if l >= c.m {
        for i in 0..=l - c.m {
            let s = scalar_score(&c.vals, 5, c.m, &c.syms, i);
            if s >= c.thr {
                q.push((i, s));
            }
        }
    }
    q
}

pub fn in_contract(c: &Case) -> bool {
    c.m >= 1 && c.wrap() + 1 >= c.m && c.block >= 1 && !c.vals.iter().any(|x| x.is_nan()) && !c.thr.is_nan()
}

pub fn exec(line: &str) -> (String, Option<Result<(), String>>, bool) {
    let t: Vec<&str> = line.split_whitespace().collect();
    assert_eq!(t[0], "c02");
    let c = parse(&t, false);
    let pssm = build_pssm::<Dna>(c.m, &c.vals);
    let (st, hist_verdict) = build_seq_hist(&c);
    // a share of the scanners gets a caller-provided score buffer (`Scanner::scores`) that was
    // used for another sequence before: the hits are judged by the same rule / the same model
    let sel = (c.syms.len() + c.m + c.block) % 8;
    let mut used = used_buffer(&c);
    assert!(verif::force_backend(&c.arm));
    let scan = |buf: Option<&mut StripedScores<f32, U32>>| {
        guarded(|| {
            let mut sc = Scanner::new(&pssm, &st);
            if let Some(b) = buf {
                sc.scores(b);
            }
            sc.threshold(c.thr);
            sc.block_size(c.block);
            sc.collect::<Vec<Hit>>()
        })
    };
    let r = if sel < 3 { scan(Some(&mut used)) } else { scan(None) };
    // … and now and then both kinds are run: identical hits, in the same order
    let mut hist_verdict = hist_verdict;
    if sel == 0 {
        let plain = scan(None);
        let key = |x: &Result<Vec<Hit>, ()>| x.as_ref().map(|h| h.iter().map(|h| (h.position(), h.score().to_bits())).collect::<Vec<_>>()).map_err(|_| ());
        if key(&plain) != key(&r) && hist_verdict.is_ok() {
            hist_verdict = Err("a scanner with a caller-provided score buffer (Scanner::scores) does not yield what a plain scanner yields".into());
        }
    }
    verif::clear();
    // `DiscreteMatrix::from(&pssm)` / `from(pssm.clone())` are `pssm.to_discrete()`
    if sel % 4 == 1 && hist_verdict.is_ok() {
        let show = |x: Result<DiscreteMatrix<Dna>, ()>| x.map(|d| format!("{:?}", d)).unwrap_or_else(|_| "panic".into());
        let a = show(guarded(|| pssm.to_discrete()));
        let b = show(guarded(|| DiscreteMatrix::from(&pssm)));
        let d = show(guarded(|| DiscreteMatrix::from(pssm.clone())));
        if a != b || a != d {
            hist_verdict = Err("DiscreteMatrix::from(&pssm) / from(pssm) differ from pssm.to_discrete()".into());
        }
    }
    let answer = match &r {
        Err(()) => "panic".to_string(),
        Ok(h) => fmt_hits(&h.iter().map(|h| (h.position(), h.score().to_bits())).collect::<Vec<_>>()),
    };
    if !in_contract(&c) {
        return (answer, None, false);
    }
    let want = qualifying(&c);
    let rows = (c.syms.len() + 31) / 32;
    let npos = (c.syms.len() + 1).saturating_sub(c.m);
    let nontrivial = !want.is_empty() && want.len() < npos && rows > c.block;
    let verdict = match &r {
        Err(()) => Err(format!("the scanner panics (L={} M={} rows={} wrap={} block={} threshold={})", c.syms.len(), c.m, rows, c.wrap(), c.block, c.thr)),
        Ok(h) => {
            let mut got: Vec<(usize, u32)> = h.iter().map(|h| (h.position(), h.score().to_bits())).collect();
            got.sort();
            let exp: Vec<(usize, u32)> = want.iter().map(|(p, s)| (*p, s.to_bits())).collect();
            if got == exp {
                Ok(())
            } else {
                let missing: Vec<&(usize, u32)> = exp.iter().filter(|x| !got.contains(x)).collect();
                let extra: Vec<&(usize, u32)> = got.iter().filter(|x| !exp.contains(x)).collect();
                let dup = got.windows(2).any(|w| w[0].0 == w[1].0);
                Err(format!(
                    "{} hits expected, {} yielded; missing (position, score bits) {:?}; not expected {:?}{}",
                    exp.len(),
                    got.len(),
                    &missing[..missing.len().min(4)],
                    &extra[..extra.len().min(4)],
                    if dup { "; a position is yielded twice" } else { "" }
                ))
            }
        }
    };
    (answer, Some(verdict.and(hist_verdict)), nontrivial)
}

/// a configure history for a sequence that ends up scanned with a motif of width m and
/// `configure_wrap(w)`: mostly short-then-long (narrower motifs / fewer wrap rows first, growing),
/// also wide-then-narrow and mixed
pub fn gen_history(rng: &mut Rng, m: usize, w: usize) -> String {
    let mut h: Vec<String> = Vec::new();
    let steps = rng.range(1, 3);
    let narrow = |rng: &mut Rng, h: &mut Vec<String>, lo: usize| -> usize {
        // a motif narrower than m (prefix rows), or fewer wrap rows than w; returns the width reached
        if m >= 2 && rng.chance(2, 3) {
            let n = rng.range(lo.min(m - 1), m - 1);
            h.push(format!("{}{}", if rng.chance(1, 2) { "s" } else { "c" }, n));
            n
        } else {
            let n = rng.range(0, w.max(1) - if w >= 1 { 1 } else { 0 });
            h.push(format!("w{}", n));
            n + 1
        }
    };
    match rng.below(6) {
        // wide then narrow: more wrap rows than the final call asks for
        0 => h.push(format!("w{}", w + rng.range(1, 6))),
        // mixed: wide, then narrow (a no-op), then the final one
        1 => {
            h.push(format!("w{}", w + rng.range(1, 3)));
            narrow(rng, &mut h, 0);
        }
        // short then long, one to three growing steps
        _ => {
            let mut lo = 0;
            for _ in 0..steps {
                lo = narrow(rng, &mut h, lo);
            }
        }
    }
    format!(" H {}", h.join(" "))
}

/// thresholds: below / at the minimum, above / at the maximum, attained scores, in between
pub fn gen_threshold(rng: &mut Rng, vals: &[f32], m: usize, syms: &[usize]) -> f32 {
    let mut mn = 0f32;
    let mut mx = 0f32;
    for i in 0..m {
        let row = &vals[i * 5..i * 5 + 4];
        mn += row.iter().cloned().fold(f32::INFINITY, f32::min);
        mx += row.iter().cloned().fold(f32::NEG_INFINITY, f32::max);
    }
    let l = syms.len();
    let attained = |rng: &mut Rng| {
        if l >= m {
            // prefer a high attained score
            let mut best = f32::NEG_INFINITY;
            let mut any = mn;
            for _ in 0..6 {
                let i = rng.below(l - m + 1);
                let s = scalar_score(vals, 5, m, syms, i);
                if s > best {
                    best = s;
                }
                any = s;
            }
            if rng.chance(1, 2) && best.is_finite() {
                best
            } else {
                any
            }
        } else {
            mn
        }
    };
    match rng.below(12) {
        0 => mn - 1.0,
        1 => mn,
        2 => mx,
        3 => mx + 1.0,
        4 => mn - 100.0,
        5 | 6 | 7 => attained(rng),
        8 => {
            let s = attained(rng);
            f32::from_bits(if s > 0.0 { s.to_bits() + 1 } else { s.to_bits().wrapping_sub(1) })
        }
        9 => mn + (mx - mn) * 0.85,
        _ => mn + (mx - mn) * (rng.f64() as f32),
    }
}

pub const BLOCKS: [usize; 7] = [1, 2, 3, 7, 255, 256, 257];

/// (block, L): sequence rows within M of a multiple of the block size, or plain random
pub fn gen_block_len(rng: &mut Rng, m: usize, big: usize) -> (usize, usize) {
    let block = if rng.chance(2, 3) { *rng.pick(&BLOCKS) } else { rng.range(1, 40) };
    let l = match rng.below(8) {
        0 => rng.range(0, m.saturating_sub(1)),
        1 => *rng.pick(&[0usize, 0, 1, m, m + 1, 31, 32, 33]),
        2 | 3 | 4 => {
            // rows = q·block + d, d in [−M, M]
            let q = if block > 100 { rng.range(1, 2) } else { rng.range(1, 6) };
            let d = rng.range(0, 2 * m) as isize - m as isize;
            let rows = ((q * block) as isize + d).max(1) as usize;
            (32 * rows).saturating_sub(rng.below(32))
        }
        _ => rng.range(0, big),
    };
    (block, l)
}

pub fn generate(cfg: &Cfg) -> Vec<String> {
    let mut rng = Rng::new(cfg.seed ^ 0xC02);
    let mut hrng = Rng::new(cfg.seed ^ 0xC02_0100);
    let mut cases = Vec::new();
    let prof = profile();
    let arms = ["generic", "sse2", "avx2"];
    let count = (if cfg.thorough { 10_000 } else { 1_000 }) * cfg.boost;
    for n in 0..count {
        let arm = arms[n % 3];
        let m = match n % 13 {
            0 => 1,
            1 => rng.range(25, 40),
            _ => rng.range(1, 16),
        };
        let (vals, cons) = gen_matrix(&mut rng, 5, m);
        let (block, l) = gen_block_len(&mut rng, m, if cfg.thorough { 20_000 } else { 1500 });
        let l = if l > 12_000 && !cfg.thorough { l % 12_000 } else { l };
        let syms = gen_seq(&mut rng, 5, l, &cons);
        let thr = gen_threshold(&mut rng, &vals, m, &syms);
        let w = match rng.below(16) {
            0 => m - 1 + rng.range(1, 4),
            1 if m > 1 => rng.range(0, m - 2),
            _ => m - 1,
        };
        // every third case: the sequence object has a configure history (its own random state: the
        // rest of the stream is what it was before)
        let hist = if n % 3 == 1 { gen_history(&mut hrng, m, w) } else { String::new() };
        cases.push(format!("c02 {} {} {} {} {} {} {} {} {}{}", prof, arm, block, thr.to_bits(), m, bits(&vals), w, l, join(syms.iter()), hist));
    }
    cases
}

pub fn run(cfg: &Cfg) {
    let cases = crate::replay_cases(cfg).unwrap_or_else(|| generate(cfg));
    let mut out = Out::new(&cfg.out);
    for c in &cases {
        let mut t: Vec<&str> = c.split(' ').collect();
        t[1] = profile();
        let c = t.join(" ");
        out.announce(&c);
        let (ans, o, nt) = exec(&c);
        out.stat(&format!("arm/{}", t[2]));
        let b: usize = t[3].parse().unwrap();
        out.stat(&format!("block/{}", if BLOCKS.contains(&b) { t[3].to_string() } else { "other".into() }));
        if o.is_none() {
            out.stat("out-of-contract(wrap<M-1)");
        }
        if let Some(h) = c.split(" H ").nth(1) {
            out.stat("history/any");
            for x in h.split(' ') {
                out.stat(&format!("history/{}", &x[..1]));
            }
        }
        if ans == "panic" {
            out.panics += 1;
            out.stat("panic");
        } else if ans == "hits 0" {
            out.stat("no-hit");
        }
        out.case(&c, &ans, o, nt);
    }
    out.finish(&cfg.out);
}
