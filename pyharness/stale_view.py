#!/usr/bin/env python3
"""pyharness/stale_view.py [L] [M] — the dangling-view finding (C18 / C06), as a stand-alone script.

A memoryview of a StripedSequence keeps the pointer it was given at export.  `calculate()` (and
`Scanner(...)` / `scan(...)`) call `configure()` on the same object, which grows the row storage by
the look-ahead rows of the motif; when the storage is reallocated the exported view reads freed
memory — here re-used by bytearrays filled with 0xAA, so the view shows 170s where the sequence
had symbols 0..4.  Nothing but safe Python is involved.

Run with the package directory on the path (pyharness/run.sh exports LMV_PYPKG):
    LMV_PYPKG=.build/py-pkg-release python3 pyharness/stale_view.py
Prints `same` (the allocator did not move / re-use the block), `differs <cells> first=<c>,<r>,<value>` (the defect as
found), or `refused …` (the code as repaired by /repo 34d1e9e: calculate() raises BufferError while the view is alive).
"""
import os, sys

if os.environ.get("LMV_PYPKG"):
    sys.path.insert(0, os.environ["LMV_PYPKG"])
import lightmotif


def probe(L=8000, M=4000):
    seq = lightmotif.stripe("ACGT" * (L // 4))
    rows = (L + 31) // 32
    before = memoryview(seq)                       # exported BEFORE the object is reused
    snapshot = before.tolist()
    wide = lightmotif.ScoringMatrix({a: [0.0] * M for a in "ACTG"})
    try:
        wide.calculate(seq)                        # configure_wrap(M - 1): the storage grows and moves
    except BufferError:                            # repaired (/repo 34d1e9e): refused while `before` is alive
        return None, memoryview(seq).tolist() == snapshot and before.tolist() == snapshot
    junk = [bytearray(b"\xAA" * (rows * 32)) for _ in range(64)]
    after = before.tolist()                        # read through the stale pointer
    bad = [(c, r, after[c][r]) for c in range(32) for r in range(rows) if after[c][r] != snapshot[c][r]]
    fresh_ok = memoryview(seq).tolist() == snapshot
    del junk
    return bad, fresh_ok


if __name__ == "__main__":
    L = int(sys.argv[1]) if len(sys.argv) > 1 else 8000
    M = int(sys.argv[2]) if len(sys.argv) > 2 else 4000
    bad, fresh_ok = probe(L, M)
    if bad is None:
        print(f"refused (BufferError while the view is exported) view_intact={fresh_ok}")
    elif bad:
        c, r, v = bad[0]
        print(f"differs {len(bad)} first={c},{r},{v} fresh_view_ok={fresh_ok}")
    else:
        print(f"same fresh_view_ok={fresh_ok}")
