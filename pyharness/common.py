"""pyharness/common.py — shared pieces of the CPython-side harness (C17, C18).

  Out        the four output files, in exactly the formats of harness/src/out.rs
  Rng        SplitMix64 (same generator as harness/src/rng.rs); all randomness from --seed
  guarded    run a call against the extension module; exceptions are outcomes
  Core       line protocol to pyharness/core (the CORE library on the same data)
  f32/f64    IEEE helpers: values cross every boundary as bit patterns
"""
import json, os, struct, subprocess, sys

MASK = (1 << 64) - 1

DNA = "ACTGN"
PROTEIN = "ACDEFGHIKLMNPQRSTVWYX"


def letters(alpha):
    return DNA if alpha == "dna" else PROTEIN


# ------------------------------------------------------------------ floats
def f32_bits(x):
    """bit pattern of the f32 nearest to the Python float x (x is normally already an f32 value)"""
    return struct.unpack("<I", struct.pack("<f", x))[0]


def bits_f32(b):
    return struct.unpack("<f", struct.pack("<I", b))[0]


def f64_bits(x):
    return struct.unpack("<Q", struct.pack("<d", x))[0]


def bits_f64(b):
    return struct.unpack("<d", struct.pack("<Q", b))[0]


def r32(x):
    """round a Python float (f64) to f32 — for + - * / of two f32 values this is the IEEE f32 result"""
    try:
        return struct.unpack("<f", struct.pack("<f", x))[0]
    except OverflowError:
        return float("inf") if x > 0 else float("-inf")


# ------------------------------------------------------------------ rng
class Rng:
    def __init__(self, seed):
        self.s = (seed ^ 0x9E3779B97F4A7C15) & MASK

    def next(self):
        self.s = (self.s + 0x9E3779B97F4A7C15) & MASK
        z = self.s
        z = ((z ^ (z >> 30)) * 0xBF58476D1CE4E5B9) & MASK
        z = ((z ^ (z >> 27)) * 0x94D049BB133111EB) & MASK
        return z ^ (z >> 31)

    def below(self, n):
        return self.next() % n

    def range(self, lo, hi):
        return lo + self.below(hi - lo + 1)

    def chance(self, num, den):
        return self.next() % den < num

    def pick(self, xs):
        return xs[self.below(len(xs))]

    def f64(self):
        return (self.next() >> 11) / float(1 << 53)


# ------------------------------------------------------------------ hashing (same as harness/src/out.rs)
def fnv(s):
    h = 0xCBF29CE484222325
    for b in s.encode():
        h ^= b
        h = (h * 0x100000001B3) & MASK
    return h


def fnv_nats(xs):
    """FNV-1a over numbers fed as 8 little-endian bytes — harness/src/out.rs::fnv_nats, LMV.Driver.fnvNats"""
    h = 0xCBF29CE484222325
    for x in xs:
        for k in range(8):
            h ^= (x >> (8 * k)) & 0xFF
            h = (h * 0x100000001B3) & MASK
    return h


def hexs(s):
    if isinstance(s, str):
        s = s.encode()
    return s.hex() if s else "-"


def opt_hexs(s):
    return "~" if s is None else hexs(s)


# ------------------------------------------------------------------ outcomes
def guarded(f):
    """('ok', value) or (<exception name>, message); a Rust panic (pyo3_runtime.PanicException, a
    BaseException) is the outcome 'panic'"""
    try:
        return "ok", f()
    except (KeyboardInterrupt, SystemExit):
        raise
    except BaseException as e:  # noqa: BLE001 — PanicException derives from BaseException
        name = type(e).__name__
        if name == "PanicException":
            name = "panic"
        return name, str(e)[:160]


ORDINARY = {"ValueError", "TypeError", "IndexError", "OverflowError", "RuntimeError", "OSError",
            "BufferError", "StopIteration", "FileNotFoundError", "UnicodeDecodeError"}


# ------------------------------------------------------------------ output files
class Out:
    def __init__(self, d):
        os.makedirs(d, exist_ok=True)
        self.dir = d
        self.cases = open(os.path.join(d, "cases.txt"), "w")
        self.imp = open(os.path.join(d, "impl.txt"), "w")
        self.oracle = open(os.path.join(d, "oracle.txt"), "w")
        self.next_id = 0
        self.evaluations = 0
        self.nontrivial = set()
        self.stats = {}
        self.samples = []
        self.oracle_fail = 0
        self.panics = 0
        self._mark = None

    def announce(self, case):
        """write (and flush) a provisional case line BEFORE the implementation runs, so that a crash of
        the whole process leaves the input named by the case line without an answer"""
        self._mark = self.cases.tell()
        self.cases.write(f"{self.next_id} {case}\n")
        self.cases.flush()
        self.imp.flush()
        self.oracle.flush()

    def case(self, case, answer, oracle, nontrivial):
        """oracle: None (not applicable) | True/'' (OK) | str (FAIL text)"""
        i = self.next_id
        self.next_id += 1
        self.evaluations += 1
        if self._mark is not None:
            # the final line may carry the observation made by the run: replace the provisional one
            self.cases.seek(self._mark)
            self.cases.truncate()
            self._mark = None
        self.cases.write(f"{i} {case}\n")
        self.imp.write(f"{i} {answer}\n")
        if oracle is None:
            pass
        elif oracle is True or oracle == "":
            self.oracle.write(f"{i} OK\n")
        else:
            self.oracle_fail += 1
            self.oracle.write(f"{i} FAIL {' '.join(str(oracle).split())}\n")
        if nontrivial:
            self.nontrivial.add(fnv(case))
        if len(self.samples) < 3 or (len(self.samples) < 6 and nontrivial and len(case) < 400):
            c = case if len(case) <= 400 else case[:400] + " ..."
            a = answer if len(answer) <= 200 else answer[:200] + " ..."
            self.samples.append(f"{c} => {a}")

    def stat(self, key, n=1):
        self.stats[key] = self.stats.get(key, 0) + n

    def finish(self):
        for f in (self.cases, self.imp, self.oracle):
            f.flush()
            f.close()
        with open(os.path.join(self.dir, "stats.json"), "w") as f:
            json.dump({"evaluations": self.evaluations, "distinct_nontrivial": len(self.nontrivial),
                       "oracle_fail": self.oracle_fail, "panics": self.panics,
                       "distribution": dict(sorted(self.stats.items())), "samples": self.samples}, f, indent=1)
            f.write("\n")


# ------------------------------------------------------------------ the core library
class Core:
    """persistent lmv-pycore process: one request line -> one answer line.  A request the core library
    does not answer within `timeout` seconds is answered `hang` (the process is replaced)."""

    def __init__(self, timeout=4.0):
        self.exe = os.environ["LMV_PYCORE"]
        self.timeout = timeout
        self.start()

    def start(self):
        self.p = subprocess.Popen([self.exe], stdin=subprocess.PIPE, stdout=subprocess.PIPE, bufsize=0)

    def ask(self, backend, op, alpha, args):
        import select
        req = f"{backend} {op} {alpha} {args}\n".encode()
        try:
            self.p.stdin.write(req)
            self.p.stdin.flush()
        except BrokenPipeError:
            self.start()
            return "died"
        buf = b""
        fd = self.p.stdout.fileno()
        deadline = self.timeout
        import time
        t0 = time.time()
        while not buf.endswith(b"\n"):
            left = deadline - (time.time() - t0)
            r, _, _ = select.select([fd], [], [], max(0.0, left))
            if not r:
                self.p.kill()
                self.p.wait()
                self.start()
                return "hang"
            chunk = os.read(fd, 1 << 16)
            if not chunk:
                self.p.wait()
                self.start()
                return "died"
            buf += chunk
        return buf.decode().rstrip("\n")

    def close(self):
        try:
            self.p.stdin.close()
            self.p.wait(timeout=5)
        except Exception:
            self.p.kill()


def set_backend(b):
    """steer Pipeline::dispatch() of the extension module (verif-hooks build reads the variable at
    every dispatch)"""
    if b == "auto":
        os.environ.pop("LIGHTMOTIF_VERIF_BACKEND", None)
    else:
        os.environ["LIGHTMOTIF_VERIF_BACKEND"] = b


def import_module():
    sys.path.insert(0, os.environ["LMV_PYPKG"])
    import lightmotif  # noqa: E402
    return lightmotif


def replay_cases(path):
    return [l[5:].rstrip("\n") for l in open(path) if l.startswith("CASE ")]


def pkw(alpha):
    """keyword arguments selecting the alphabet: the documented default (`protein=False`) is LEFT OUT for
    DNA, so that the defaults of every constructor / function are part of what is observed"""
    return {"protein": True} if alpha == "protein" else {}
