"""pyharness/c17.py — C17: Python results equal the results of the core library on the same data.

Every case runs one entry point of the extension module, asks pyharness/core (the CORE library, same
forced dispatcher arm) for the result on the same data, and evaluates a definition-level oracle
written from the property text.  Case lines (see lean/LMV/Driver/C17.lean for the part the model
reads; everything after `|` is reconstruction data):

  c17normalize <obs> <alpha> <pyarg> | <M> <counts>
  c17logodds   <obs> <alpha> <pyarg> <base bits> | <M> <counts> <pseudo n|f bits>
  c17calc      <obs> <seq alpha> <k> <pssm alpha>*k | <backend> <thr bits> <L> <symbols> <pssm>*k
  c17pvalue    <obs> <alpha> <pvalue|score|maxscore> <method hex> | <x f64 bits> <pssm>
  c17rc        <obs> <alpha> | <pssm>
  c17scan      <obs> <pssm alpha> <seq alpha> | <backend> <thr bits> <block> <L> <symbols> <pssm>
  c17reuse     <obs> <k> <step kind>*k | <backend> <L> <symbols> (<thr bits> <block> <pssm>)*k
                 ONE StripedSequence object (DNA) used by k steps in order; step kind := c (calculate) | s (scan()) | S (Scanner())
                 obs = ok:chain… | <exception>@<step>
  c17create    <obs> <alpha> <n> <item>*n
  c17stripe    <obs> <alpha> <text hex>
  c17load      <obs> <file kind> <format hex> <protein> <n> (<kind> <obs>)*n | <hex file> [<chunk seed> <record boundaries b1,b2,… | ->]
                 file kind := path | missing | binary (io.BytesIO) | text | noread
                            | chunked  (a file-like class whose read(n) returns 1..min(n, 64) bytes, sometimes exactly up to a record boundary)
                            | boundary (… whose read(n) returns exactly up to the next record boundary)
                            | bytearray | memoryview (… whose read returns that type instead of bytes)
                            | greedy   (… whose read(n) returns MORE than n bytes when that many are left: an invalid
                                        argument — OSError / ValueError at the record being read, never a panic)
  c17cminit    <alpha> <column>*K
  c17sminit    <alpha> <pyarg> <column>*K

                            | latetype | lateraise | lateos (read(0) returns b"" — the probe of Loader passes — and every
                                        later read(n) returns a bytearray / raises RuntimeError / raises OSError(EIO):
                                        the exception of the file object, from load() itself or from the first
                                        record, never SystemError "returned a result with an exception set")

  obs   := ? (not run yet) | <exception name> | ok:<label>,<label>…   (which core compositions reproduce
           the value Python returned; the model says whether its composition is among them)
  pssm  := <M> <M*K f32 bits> <u | d K bits>

The oracle fails a case when (a) Python raised a panic or an exception where the definition has a
value (or the other way round), (b) the Python value differs from the core library's value on the same
data, (c) the Python value differs from the value the definition prescribes.  One degenerate point is
reported as `excluded/...` instead of failed: when every valid position scores -inf, the core's argmax
(last cell among ties) designates a cell past the last valid position.
"""
import io as _io
import math
import os
import tempfile

import common
from common import letters, f32_bits, bits_f32, f64_bits, bits_f64, r32, guarded, hexs, opt_hexs

NEG_INF = f32_bits(float("-inf"))
COMPLEMENT = {0: 2, 2: 0, 3: 1, 1: 3, 4: 4}   # A C T G N  ->  T G A C N


def K_of(alpha):
    return len(letters(alpha))


def join(xs):
    return " ".join(str(x) for x in xs)


def flat(rows):
    return [x for r in rows for x in r]


def is_nan_bits(b):
    return (b & 0x7F800000) == 0x7F800000 and (b & 0x007FFFFF) != 0


# ------------------------------------------------------------------ token streams
class Toks:
    def __init__(self, toks):
        self.t, self.i = toks, 0

    def next(self):
        x = self.t[self.i]
        self.i += 1
        return x

    def int(self):
        return int(self.next())

    def ints(self, n):
        xs = [int(x) for x in self.t[self.i:self.i + n]]
        self.i += n
        return xs

    def rest(self):
        return self.t[self.i:]


def split_bar(line):
    t = line.split()
    if "|" in t:
        k = t.index("|")
        return t[:k], t[k + 1:]
    return t, []


# ------------------------------------------------------------------ pyarg
def pyarg_tokens(a):
    """a: ('n',) | ('f', bits) | ('o',) | ('d', [(key str|None, bits|None), …])"""
    if a[0] in ("n", "o"):
        return a[0]
    if a[0] == "f":
        return f"f {a[1]}"
    return f"d {len(a[1])} " + " ".join(f"{'#' if k is None else hexs(k)} {'#' if v is None else v}" for k, v in a[1])


def parse_pyarg(tk):
    k = tk.next()
    if k in ("n", "o"):
        return (k,)
    if k == "f":
        return ("f", tk.int())
    n = tk.int()
    es = []
    for _ in range(n):
        key, val = tk.next(), tk.next()
        es.append((None if key == "#" else (b"" if key == "-" else bytes.fromhex(key)).decode("utf-8"),
                   None if val == "#" else int(val)))
    return ("d", es)


def pyarg_object(a):
    if a[0] == "n":
        return None
    if a[0] == "o":
        return [1, 2]
    if a[0] == "f":
        return bits_f32(a[1])
    d = {}
    for n, (k, v) in enumerate(a[1]):
        d[(1000 + n) if k is None else k] = "x" if v is None else bits_f32(v)
    return d


def pyarg_array(alpha, a):
    """the array the DEFINITION assigns to a dictionary (value by symbol, 0 elsewhere); None if some key
    or value is not acceptable"""
    le = letters(alpha)
    p = [0] * len(le)
    for k, v in a[1]:
        if k is None or v is None or len(k.encode()) != 1 or k not in le:
            return None
        p[le.index(k)] = v
    return p


def bg_valid(arr):
    s = 0.0
    for b in arr:
        f = bits_f32(b)
        if not (0.0 <= f <= 1.0):
            return False
        s = r32(s + f)
    return s == 1.0


def uniform_bits(alpha):
    K = K_of(alpha)
    return [f32_bits(r32(1.0 / (K - 1))) if j != K - 1 else f32_bits(0.0) for j in range(K)]


# ------------------------------------------------------------------ objects
def mk_counts(lm, alpha, rows):
    le = letters(alpha)
    return lm.CountMatrix({le[j]: [r[j] for r in rows] for j in range(len(le))}, **common.pkw(alpha))


def mk_pssm(lm, alpha, spec):
    rows, bg = spec
    le = letters(alpha)
    d = {le[j]: [bits_f32(r[j]) for r in rows] for j in range(len(le))}
    bgd = None if bg is None else {le[j]: bits_f32(bg[j]) for j in range(len(le))}
    return lm.ScoringMatrix(d, bgd, **common.pkw(alpha))


def pssm_tokens(spec):
    rows, bg = spec
    return f"{len(rows)} {join(flat(rows))} " + ("u" if bg is None else "d " + join(bg))


def parse_pssm(tk, alpha):
    K = K_of(alpha)
    M = tk.int()
    rows = [tk.ints(K) for _ in range(M)]
    bg = None if tk.next() == "u" else tk.ints(K)
    return rows, bg


def mk_striped(lm, alpha, syms):
    return lm.stripe("".join(letters(alpha)[s] for s in syms), **common.pkw(alpha))


def rows_bits(m):
    return [[f32_bits(x) for x in m[i]] for i in range(len(m))]


# ------------------------------------------------------------------ definitions
def weights_def(alpha, counts, pseudo):
    """((count + pseudo) / row total) / uniform background, in f32, in the documented order"""
    K = K_of(alpha)
    bg = [bits_f32(b) for b in uniform_bits(alpha)]
    out = []
    for row in counts:
        xs = [r32(r32(float(c)) + bits_f32(pseudo[j])) for j, c in enumerate(row)]
        s = 0.0
        for x in xs:
            s = r32(s + x)
        fr = []
        for x in xs:
            try:
                fr.append(r32(x / s))
            except ZeroDivisionError:
                fr.append(float("nan") if x == 0 or x != x else math.copysign(float("inf"), x))
        out.append([f32_bits(0.0) if bg[j] == 0.0 else f32_bits(r32(fr[j] / bg[j])) for j in range(K)])
    return out


def freqs_def(counts, pseudo):
    out = []
    for row in counts:
        xs = [float(c) + bits_f32(pseudo[j]) for j, c in enumerate(row)]
        s = sum(xs)
        out.append([x / s if s else float("nan") for x in xs])
    return out


def pseudo_array(alpha, a):
    K = K_of(alpha)
    if a[0] == "n":
        return [f32_bits(0.0)] * K
    if a[0] == "f":
        return [a[1]] * (K - 1) + [f32_bits(0.0)]
    return pyarg_array(alpha, a)


def close32(got_bits, want, rel=2e-6, absol=1e-6):
    g = bits_f32(got_bits)
    if want != want:
        return g != g
    if math.isinf(want) or math.isinf(g):
        return g == want
    return abs(g - want) <= max(absol, rel * abs(want))


def score_def(alpha, rows, syms, p):
    acc = 0.0
    for j, row in enumerate(rows):
        acc = r32(acc + bits_f32(row[syms[p + j]]))
    return f32_bits(acc)


# ------------------------------------------------------------------ observations
def norm(x):
    return " ".join(x.split())


def obs_of(outcome, labels):
    if outcome != "ok":
        return outcome
    return "ok:" + ",".join(labels)


def verdict(errs):
    errs = [e for e in errs if e]
    return errs[0] if errs else True


class Ctx:
    def __init__(self, lm, core, out):
        self.lm, self.core, self.out = lm, core, out


# ------------------------------------------------------------------ c17normalize
def exec_normalize(cx, head, tail):
    alpha = head[2]
    arg = parse_pyarg(Toks(head[3:]))
    tk = Toks(tail)
    M = tk.int()
    K = K_of(alpha)
    counts = [tk.ints(K) for _ in range(M)]
    cm = mk_counts(cx.lm, alpha, counts)
    g = guarded(lambda: rows_bits(cm.normalize(pyarg_object(arg)) if arg[0] != "n" else cm.normalize()))
    cspec = f"{M} {join(flat(counts))}"
    menu = {"pseudoDefault.toFreq.toWeight": cx.core.ask("auto", "normalize", alpha, cspec + " n")}
    if arg[0] == "f":
        menu["pseudoUniform.toFreq.toWeight"] = cx.core.ask("auto", "normalize", alpha, cspec + f" f {arg[1]}")
    arr = pyarg_array(alpha, arg) if arg[0] == "d" else None
    if arr is not None:
        menu["pseudoArray.toFreq.toWeight"] = cx.core.ask("auto", "normalize", alpha, cspec + " d " + join(arr))
    errs = []
    expect_exc = None
    if arg[0] == "o":
        expect_exc = "TypeError"
    elif arg[0] == "d" and arr is None:
        expect_exc = "ValueError/TypeError"
    if g[0] == "ok":
        got = "ok " + join(flat(g[1]))
        labels = [l for l, v in menu.items() if norm(v) == norm(got)]
        if expect_exc:
            errs.append(f"normalize({pyarg_tokens(arg)}) returned a matrix, an invalid pseudocount must raise {expect_exc}")
        else:
            want_label = {"n": "pseudoDefault", "f": "pseudoUniform", "d": "pseudoArray"}[arg[0]] + ".toFreq.toWeight"
            if want_label not in labels:
                errs.append(f"normalize: Python weights differ from the core library's to_freq(pseudo).to_weight(None) on the same data")
            want = weights_def(alpha, counts, pseudo_array(alpha, arg))
            if g[1] != want:
                errs.append("normalize: weights differ from ((count + pseudocount) / row total) / background")
    else:
        labels = []
        if g[0] == "panic":
            errs.append(f"normalize raised PanicException: {g[1]}")
        elif not expect_exc:
            errs.append(f"normalize({pyarg_tokens(arg)}) raised {g[0]}: {g[1]}")
        elif g[0] not in expect_exc.split("/"):
            errs.append(f"normalize raised {g[0]}, expected {expect_exc}")
    line = f"c17normalize {obs_of(g[0], labels)} {alpha} {pyarg_tokens(arg)} | {cspec}"
    return line, "adm-ok", verdict(errs), arg[0] in ("d", "f"), f"normalize/{arg[0]}"


# ------------------------------------------------------------------ c17logodds
def exec_logodds(cx, head, tail):
    alpha = head[2]
    tk = Toks(head[3:])
    arg = parse_pyarg(tk)
    base = tk.int()
    tk = Toks(tail)
    M = tk.int()
    K = K_of(alpha)
    counts = [tk.ints(K) for _ in range(M)]
    pseudo = parse_pyarg(tk)
    cm = mk_counts(cx.lm, alpha, counts)
    w = cm.normalize(pyarg_object(pseudo)) if pseudo[0] != "n" else cm.normalize()
    def call_log_odds():
        # the documented defaults (background=None, base=2.0) are left out when the case has them
        if bits_f32(base) == 2.0 and arg[0] == "n":
            return w.log_odds()
        if bits_f32(base) == 2.0:
            return w.log_odds(pyarg_object(arg))
        return w.log_odds(pyarg_object(arg), bits_f32(base))

    g = guarded(lambda: rows_bits(call_log_odds()))
    cspec = f"{M} {join(flat(counts))} {pyarg_tokens(pseudo)}"
    arr = pyarg_array(alpha, arg) if arg[0] == "d" else None
    valid = arg[0] == "n" or (arr is not None and bg_valid(arr))
    expect_exc = None
    if arg[0] in ("o", "f"):
        expect_exc = "TypeError"
    elif arg[0] == "d" and arr is None:
        expect_exc = "ValueError/TypeError"
    elif not valid:
        expect_exc = "ValueError"
    errs, labels, key = [], [], f"logodds/{arg[0]}"
    if valid:
        r = cx.core.ask("auto", "logodds", alpha, f"{cspec} {'n' if arg[0] == 'n' else 'd ' + join(arr)} {base}")
        a, b = r[len("ok rescale "):].split(" | clone ")
        menu = {("bgNew" if arg[0] == "d" else "bgUniform") + ".rescale.toScoringWithBase": "ok " + a,
                "clone.toScoringWithBase": "ok " + b}
    else:
        menu = {}
    if g[0] == "ok":
        got = "ok " + join(flat(g[1]))
        labels = [l for l, v in menu.items() if norm(v) == norm(got)]
        if expect_exc:
            errs.append(f"log_odds({pyarg_tokens(arg)}) returned a matrix, an invalid background must raise {expect_exc}")
        else:
            bgb = arr if arg[0] == "d" else uniform_bits(alpha)
            differs = any(bits_f32(x) != bits_f32(y) for x, y in zip(bgb, uniform_bits(alpha)))
            want_label = [l for l in menu if ("rescale" in l) == differs][0]
            if want_label not in labels:
                errs.append("log_odds: Python scores differ from the core library's rescale(background).to_scoring_with_base(base) on the same data")
            # definition: log_base(frequency / background), -inf where the ratio is 0
            fr = freqs_def(counts, pseudo_array(alpha, pseudo))
            bgf = [bits_f32(x) for x in bgb]
            bs = bits_f32(base)
            bad = None
            for i in range(M):
                for j in range(K - 1):
                    if bgf[j] == 0.0:
                        # documented convention: a null background frequency gives the odds-ratio 0
                        want0 = float("-inf") if bs > 1.0 else float("inf")
                        if bits_f32(g[1][i][j]) != want0:
                            bad = bad or f"log_odds[{i}][{j}] = {bits_f32(g[1][i][j])!r} in a column with background 0, expected {want0!r}"
                        continue
                    ratio = fr[i][j] / bgf[j]
                    want = (float("-inf") if bs > 1.0 else float("inf")) if ratio == 0 else (math.log2(ratio) if bs == 2.0 else math.log10(ratio) if bs == 10.0 else math.log(ratio) / math.log(bs))
                    if not close32(g[1][i][j], want, rel=2e-5, absol=2e-5):
                        bad = bad or f"log_odds[{i}][{j}] = {bits_f32(g[1][i][j])!r}, log_{bs}(frequency / background) = {want!r}"
            if bad:
                errs.append("log_odds under the given background: " + bad)
    else:
        if g[0] == "panic":
            errs.append(f"log_odds raised PanicException: {g[1]}")
        elif not expect_exc:
            errs.append(f"log_odds({pyarg_tokens(arg)}) raised {g[0]}: {g[1]}")
        elif g[0] not in expect_exc.split("/"):
            errs.append(f"log_odds raised {g[0]}, expected {expect_exc}")
    line = f"c17logodds {obs_of(g[0], labels)} {alpha} {pyarg_tokens(arg)} {base} | {cspec}"
    nontrivial = arg[0] == "d" and valid and any(x != y for x, y in zip(arr, uniform_bits(alpha)))
    return line, "adm-ok", verdict(errs), nontrivial, key


# ------------------------------------------------------------------ c17calc
def scores_line(sc, thr):
    n = len(sc)
    vals = [f32_bits(sc[i]) for i in range(n)]
    mx = sc.max()
    am = sc.argmax()
    th = sorted(sc.threshold(bits_f32(thr)))
    return (f"len {n} scores {join(vals)} max {'none' if mx is None else f32_bits(mx)} "
            f"argmax {'none' if am is None else am} thr {join(th)}"), vals, mx, am, th


def exec_calc(cx, head, tail):
    seq_alpha, k = head[2], int(head[3])
    alphas = head[4:4 + k]
    tk = Toks(tail)
    backend, thr, L = tk.next(), tk.int(), tk.int()
    syms = tk.ints(L)
    specs = [parse_pssm(tk, a) for a in alphas]
    common.set_backend(backend)
    seq = mk_striped(cx.lm, seq_alpha, syms)
    errs, outs, key = [], [], "calc"
    outcome = "ok"
    t = bits_f32(thr)
    for n, (a, spec) in enumerate(zip(alphas, specs)):
        pssm = mk_pssm(cx.lm, a, spec)
        g = guarded(lambda: scores_line(pssm.calculate(seq), thr))
        if g[0] != "ok":
            outcome = f"{g[0]}@{n}"
            if a == seq_alpha or g[0] != "ValueError":
                errs.append(f"calculate() with motif {n} ({a} on {seq_alpha}) raised {g[0]}: {g[1]}")
            break
        if a != seq_alpha:
            errs.append(f"calculate() of a {a} matrix on a {seq_alpha} sequence returned scores; an alphabet mismatch must raise ValueError")
        line, vals, mx, am, th = g[1]
        outs.append(line)
        # definition: per-position score = Σ_j m[j][s[i+j]] (left fold in f32), L - M + 1 positions
        rows = spec[0]
        M = len(rows)
        if a == seq_alpha and M >= 1:
            npos = max(0, L - M + 1)
            want = [score_def(a, rows, syms, p) for p in range(npos)]
            if vals != want:
                d = next((i for i in range(min(len(vals), len(want))) if vals[i] != want[i]), None)
                errs.append(f"calculate(): motif {n}: {len(vals)} scores, definition gives {len(want)}" if d is None else
                            f"calculate(): motif {n}: score[{d}] = {bits_f32(vals[d])!r}, Σ m[j][s[i+j]] = {bits_f32(want[d])!r}")
            wild_inf = all(r[-1] == NEG_INF for r in rows)
            fin = [bits_f32(v) for v in want]
            if wild_inf and npos > 0 and not any(v != v for v in fin):
                best = max(fin)
                if mx is None or mx != best:
                    errs.append(f"max() = {mx!r}, the maximum score is {best!r}")
                if best == float("-inf") and am is not None and am >= npos:
                    # every valid position scores -inf and so does every cell past the end: the core's argmax
                    # (last cell among ties, C07) designates one of those; degenerate, reported only
                    key = "excluded/core-argmax-tie-at-neg-inf-past-end"
                elif am is None or am >= npos or fin[am] != best:
                    errs.append(f"argmax() = {am!r}, not a position of the maximum {best!r}")
                if t > float("-inf"):
                    wt = [i for i, v in enumerate(fin) if v >= t]
                    if th != wt:
                        errs.append(f"threshold({t!r}) = {th[:8]}…, positions with score >= threshold = {wt[:8]}…")
            elif npos == 0 and (mx is not None or am is not None or th):
                errs.append(f"L < M: max/argmax/threshold = {mx!r}/{am!r}/{th[:4]}, expected None/None/[]")
    labels = []
    # the core library on the same data: ONE striped sequence configured and scored with the motifs in order
    prefix = []
    for i, a in enumerate(alphas):
        if a != seq_alpha:
            break
        prefix.append(i)
    if prefix:
        r = cx.core.ask(backend, "calc", seq_alpha, f"{L} {join(syms)} {thr} {len(prefix)} " + " ".join(pssm_tokens(specs[i]) for i in prefix))
        chain = [norm(x) for x in r.split(" ; ")]
        outs = [norm(x) for x in outs]
        if outs[:len(prefix)] == chain:
            labels.append("chain")
        else:
            errs.append("calculate(): Python scores / max / argmax / threshold differ from the core library on the same data (one sequence configured with the motifs in order)")
        fresh = [norm(cx.core.ask(backend, "calc", seq_alpha, f"{L} {join(syms)} {thr} 1 {pssm_tokens(specs[i])}")) for i in prefix]
        if outs[:len(prefix)] == fresh:
            labels.append("fresh")
    elif outcome == "ok":
        labels.append("chain")
    common.set_backend("auto")
    line = f"c17calc {obs_of(outcome if '@' in outcome else 'ok', labels)} {seq_alpha} {k} {' '.join(alphas)} | {backend} {thr} {L} {join(syms)} " + " ".join(pssm_tokens(s) for s in specs)
    widths = [len(s[0]) for s in specs]
    nontrivial = len(widths) >= 2 and any(x < y for x, y in zip(widths, widths[1:])) and any(x > y for x, y in zip(widths, widths[1:]))
    nontrivial = nontrivial or (len(widths) == 1 and L >= widths[0] > 1)
    return " ".join(line.split()), "adm-ok", verdict(errs), nontrivial, key


# ------------------------------------------------------------------ c17pvalue
def exec_pvalue(cx, head, tail):
    alpha, which = head[2], head[3]
    method = (b"" if head[4] == "-" else bytes.fromhex(head[4])).decode()
    tk = Toks(tail)
    x = tk.int()
    spec = parse_pssm(tk, alpha)
    pssm = mk_pssm(cx.lm, alpha, spec)
    xv = bits_f64(x)
    if which == "pvalue":
        g = guarded(lambda: f64_bits(pssm.pvalue(xv) if (method == "meme" and x % 2 == 0) else pssm.pvalue(xv, method)))
    elif which == "score":
        g = guarded(lambda: f64_bits(pssm.score(xv) if (method == "meme" and x % 2 == 0) else pssm.score(xv, method)))
    else:
        g = guarded(lambda: f32_bits(pssm.max_score()))
    errs, labels, key = [], [], f"pvalue/{which}/{method if method in ('meme', 'tfmpvalue') else 'other'}"
    ps = pssm_tokens(spec)
    if which == "maxscore":
        menu = {"maxScore": cx.core.ask("auto", "maxscore", alpha, ps)}
    else:
        menu = {}
        for m, lab in (("meme", "toScoreDistribution.f64ToF32.distPvalue" if which == "pvalue" else "toScoreDistribution.distScore.f32ToF64"),
                       ("tfmpvalue", "tfmNew.tfmPvalue" if which == "pvalue" else "tfmNew.tfmScore")):
            menu[lab] = cx.core.ask("auto", which, alpha, f"{m} {x} {ps}")
    valid_method = which == "maxscore" or method in ("meme", "tfmpvalue")
    if g[0] == "ok":
        for lab, v in menu.items():
            if v == "panic":
                continue
            cv = int(v.split()[1])
            if cv == g[1]:
                labels.append(lab)
            elif lab.startswith("tfm"):
                a, b = bits_f64(cv), bits_f64(g[1])
                if a == b or abs(a - b) <= 1e-9 * max(abs(a), abs(b)):
                    labels.append(lab)
        if not valid_method:
            errs.append(f"{which}(method={method!r}) returned a value; an unknown method must raise ValueError")
        else:
            want = "maxScore" if which == "maxscore" else [l for l in menu if l.startswith("tfm") == (method == "tfmpvalue")][0]
            if want not in labels:
                errs.append(f"{which}({xv!r}, {method!r}) = {g[1]}, the core library gives {menu[want]} on the same matrix")
            # a second call uses the cached distribution: same answer
            if which != "maxscore" and method == "meme":
                g2 = guarded(lambda: f64_bits(pssm.pvalue(xv, method) if which == "pvalue" else pssm.score(xv, method)))
                if g2 != g:
                    errs.append(f"{which}: a second call (cached distribution) gave {g2[1]} instead of {g[1]}")
            if which == "maxscore":
                rows = spec[0]
                acc = 0.0
                for r in rows:
                    acc = r32(acc + max(bits_f32(v) for v in r[:-1]))
                if f32_bits(acc) != g[1]:
                    errs.append(f"max_score() = {bits_f32(g[1])!r}, Σ_i max_a m[i][a] = {acc!r}")
    else:
        if g[0] == "panic":
            errs.append(f"{which} raised PanicException: {g[1]}")
        elif valid_method or g[0] != "ValueError":
            errs.append(f"{which}(method={method!r}) raised {g[0]}: {g[1]}")
    line = f"c17pvalue {obs_of(g[0], labels)} {alpha} {which} {hexs(method)} | {x} {ps}"
    return line, "adm-ok", verdict(errs), valid_method and len(spec[0]) >= 2, key


# ------------------------------------------------------------------ c17rc
def exec_rc(cx, head, tail):
    alpha = head[2]
    spec = parse_pssm(Toks(tail), alpha)
    pssm = mk_pssm(cx.lm, alpha, spec)
    g = guarded(lambda: rows_bits(pssm.reverse_complement()))
    errs, labels = [], []
    if alpha == "dna":
        if g[0] != "ok":
            errs.append(f"reverse_complement raised {g[0]}: {g[1]}")
        else:
            r = cx.core.ask("auto", "rc", alpha, pssm_tokens(spec))
            if norm(r) == norm("ok " + join(flat(g[1]))):
                labels.append("reverseComplement")
            else:
                errs.append("reverse_complement: Python matrix differs from the core library's on the same data")
            rows = spec[0]
            M = len(rows)
            want = [[rows[M - 1 - i][COMPLEMENT[a]] for a in range(5)] for i in range(M)]
            if g[1] != want:
                errs.append("reverse_complement: entry (i, a) is not entry (M-1-i, complement(a))")
            g2 = guarded(lambda: rows_bits(pssm.reverse_complement().reverse_complement()))
            if g2[0] != "ok" or g2[1] != rows:
                errs.append("reverse_complement twice is not the identity")
            # history: p-values asked of the ORIGINAL first (whatever it caches must not leak into
            # the reverse complement): the reverse complement must answer like a fresh matrix with
            # the same rows and background
            if M >= 1:
                def history():
                    x = 0.25
                    orig = mk_pssm(cx.lm, alpha, spec)
                    orig.pvalue(x)
                    orig.score(0.1)
                    rc = orig.reverse_complement()
                    fresh = mk_pssm(cx.lm, alpha, (rows_bits(rc), spec[1]))
                    return (f64_bits(rc.pvalue(x)), f64_bits(fresh.pvalue(x)), f64_bits(float(rc.score(0.1))), f64_bits(float(fresh.score(0.1))))
                g3 = guarded(history)
                if g3[0] == "ok":
                    if g3[1][0] != g3[1][1] or g3[1][2] != g3[1][3]:
                        errs.append("p-value / score of the reverse complement taken after the original was queried differs from a fresh matrix with the same rows and background")
                elif g3[0] == "panic":
                    errs.append(f"pvalue/reverse_complement history raised PanicException: {g3[1]}")
    else:
        if g[0] == "ok":
            errs.append("reverse_complement of a protein matrix returned a value")
        elif g[0] == "panic":
            errs.append(f"reverse_complement raised PanicException: {g[1]}")
    line = f"c17rc {obs_of(g[0], labels)} {alpha} | {pssm_tokens(spec)}"
    return line, "adm-ok", verdict(errs), alpha == "dna" and len(spec[0]) >= 2, f"rc/{alpha}"


# ------------------------------------------------------------------ c17scan
def exec_scan(cx, head, tail):
    pa, sa = head[2], head[3]
    tk = Toks(tail)
    backend, thr, block, L = tk.next(), tk.int(), tk.int(), tk.int()
    syms = tk.ints(L)
    spec = parse_pssm(tk, pa)
    common.set_backend(backend)
    pssm = mk_pssm(cx.lm, pa, spec)
    seq = mk_striped(cx.lm, sa, syms)
    use_fn = (thr + block) % 2 == 0

    def run():
        t0, b0 = bits_f32(thr) == 0.0 and thr == 0, block == 256
        if t0 and b0:
            sc = cx.lm.scan(pssm, seq) if use_fn else cx.lm.Scanner(pssm, seq)
        elif b0:
            sc = cx.lm.scan(pssm, seq, threshold=bits_f32(thr)) if use_fn else cx.lm.Scanner(pssm, seq, bits_f32(thr))
        elif t0 and use_fn:
            sc = cx.lm.scan(pssm, seq, block_size=block)
        else:
            sc = (cx.lm.scan(pssm, seq, threshold=bits_f32(thr), block_size=block) if use_fn
                  else cx.lm.Scanner(pssm, seq, bits_f32(thr), block))
        return sorted((h.position, f32_bits(h.score)) for h in sc)

    g = guarded(run)
    common.set_backend("auto")
    errs, labels, key = [], [], "scan"
    ok_alpha = pa == "dna" and sa == "dna"
    if not ok_alpha:
        if g[0] == "ok":
            errs.append(f"Scanner({pa} matrix, {sa} sequence) returned hits; must raise ValueError")
        elif g[0] != "ValueError":
            errs.append(f"Scanner({pa} matrix, {sa} sequence) raised {g[0]}: {g[1]}")
        key = "scan/alphabet"
    else:
        args = f"{L} {join(syms)} {thr} {block} {pssm_tokens(spec)}"
        r = cx.core.ask(backend, "scan", "dna", args)
        if g[0] == "ok":
            got = "ok " + " ".join(f"{p}:{s}" for p, s in g[1])
            if norm(r) == norm(got):
                labels.append("configure.scannerNew.scannerThreshold.scannerBlockSize")
            else:
                errs.append(f"scan: Python hits differ from the core library's Scanner on the same data ({len(g[1])} hits vs `{r[:60]}`)")
            rows = spec[0]
            M = len(rows)
            t = bits_f32(thr)
            if M >= 1 and all(r_[-1] == NEG_INF for r_ in rows):
                want = []
                for p in range(max(0, L - M + 1)):
                    s = score_def("dna", rows, syms, p)
                    if bits_f32(s) >= t:
                        want.append((p, s))
                if g[1] != want:
                    errs.append(f"scan: {len(g[1])} hits, the positions scoring >= {t!r} are {len(want)}: first difference {next((x for x in zip(g[1] + [None], want + [None]) if x[0] != x[1]), None)}")
        elif g[0] == "panic":
            errs.append(f"scan raised PanicException (the core library answers `{r[:40]}` on the same data): {g[1]}")
        else:
            errs.append(f"scan raised {g[0]}: {g[1]}")
    line = f"c17scan {obs_of(g[0], labels)} {pa} {sa} | {backend} {thr} {block} {L} {join(syms)} {pssm_tokens(spec)}"
    nontrivial = ok_alpha and g[0] == "ok" and 0 < len(g[1]) < max(1, L - len(spec[0]) + 1)
    return " ".join(line.split()), "adm-ok", verdict(errs), nontrivial, key


# ------------------------------------------------------------------ c17reuse
def exec_reuse(cx, head, tail):
    """reuse histories of ONE striped sequence object through calculate, scan() and Scanner(): every
    step must configure the sequence for ITS motif (narrow then wide needs more look-ahead rows)"""
    k = int(head[2])
    kinds = head[3:3 + k]
    tk = Toks(tail)
    backend, L = tk.next(), tk.int()
    syms = tk.ints(L)
    steps = []
    for _ in range(k):
        thr, block = tk.int(), tk.int()
        steps.append((thr, block, parse_pssm(tk, "dna")))
    common.set_backend(backend)
    seq = mk_striped(cx.lm, "dna", syms)
    errs, outs, outcome = [], [], "ok"
    for n, (kind, (thr, block, spec)) in enumerate(zip(kinds, steps)):
        pssm = mk_pssm(cx.lm, "dna", spec)
        t = bits_f32(thr)
        rows = spec[0]
        M = len(rows)
        npos = max(0, L - M + 1)
        want = [score_def("dna", rows, syms, p) for p in range(npos)]
        if kind == "c":
            g = guarded(lambda: scores_line(pssm.calculate(seq), thr))
        else:
            def run():
                sc = (cx.lm.scan(pssm, seq, threshold=t, block_size=block) if kind == "s" else cx.lm.Scanner(pssm, seq, t, block))
                hits = sorted((h.position, f32_bits(h.score)) for h in sc)
                del sc      # the scanner refers to the sequence: gone before the sequence is used again
                return hits
            g = guarded(run)
        what = {"c": "calculate()", "s": "scan()", "S": "Scanner()"}[kind]
        hist = " -> ".join(f"{kk}:{len(st[2][0])}" for kk, st in zip(kinds[:n + 1], steps))
        if g[0] != "ok":
            outcome = f"{g[0]}@{n}"
            errs.append(f"reuse history {hist} (step kind:motif rows) on one sequence of {L}: step {n} {what} raised {g[0]}: {g[1]}")
            break
        if kind == "c":
            line, vals = g[1][0], g[1][1]
            outs.append(line)
            if vals != want:
                errs.append(f"reuse history {hist}: step {n} calculate(): scores differ from Σ m[j][s[i+j]]")
        else:
            outs.append("ok " + " ".join(f"{p}:{s}" for p, s in g[1]))
            if all(r_[-1] == NEG_INF for r_ in rows):
                wh = [(p, s) for p, s in enumerate(want) if bits_f32(s) >= t]
                if g[1] != wh:
                    errs.append(f"reuse history {hist}: step {n} {what}: {len(g[1])} hits, the positions scoring >= {t!r} are {len(wh)}: "
                                f"first difference {next((x for x in zip(g[1] + [None], wh + [None]) if x[0] != x[1]), None)}")
    common.set_backend("auto")
    labels = []
    args = f"{L} {join(syms)} {k} " + " ".join(f"{'c' if kd == 'c' else 's'} {thr} {block} {pssm_tokens(spec)}" for kd, (thr, block, spec) in zip(kinds, steps))
    r = cx.core.ask(backend, "reuse", "dna", args)
    if outcome == "ok":
        if [norm(x) for x in outs] == [norm(x) for x in r.split(" ; ")]:
            labels.append("chain")
        else:
            errs.append("reuse history: Python scores / hits differ from the core library on the same data (one sequence configured before every step)")
    line = (f"c17reuse {obs_of(outcome if '@' in outcome else 'ok', labels)} {k} {' '.join(kinds)} | {backend} {L} {join(syms)} "
            + " ".join(f"{thr} {block} {pssm_tokens(spec)}" for thr, block, spec in steps))
    widths = [len(st[2][0]) for st in steps]
    grows = any(w > max(widths[:i]) for i, w in enumerate(widths) if i and kinds[i] != "c")
    return " ".join(line.split()), "adm-ok", verdict(errs), grows, "reuse/" + "".join(kinds)


# ------------------------------------------------------------------ c17create
def motif_line(m):
    counts = m.counts
    M = len(m.pwm)
    c = "~" if counts is None else join(flat([list(counts[i]) for i in range(len(counts))]))
    return f"{M} | {c} | {join(flat(rows_bits(m.pwm)))} | {join(flat(rows_bits(m.pssm)))}"


CREATE_LABEL = "encode.fromSequences.pseudoUniform.toFreq.toWeight.toScoring.motif"


def exec_create(cx, head, tail):
    alpha, n = head[2], int(head[3])
    items = head[4:4 + n]
    objs = [7 if t == "#" else (b"" if t == "-" else bytes.fromhex(t)).decode("utf-8") for t in items]
    g = guarded(lambda: cx.lm.create(objs, name="m", **common.pkw(alpha)))
    errs, labels = [], []
    le = letters(alpha)
    # definition of the outcome: items are examined in order
    expect = None
    for o in objs:
        if not isinstance(o, str):
            expect = "TypeError"
            break
        if any(ch not in le for ch in o):
            expect = "ValueError"
            break
    strs = [o for o in objs if isinstance(o, str)]
    if expect is None and len({len(s) for s in strs}) > 1:
        expect = "ValueError"
    if g[0] == "ok":
        m = g[1]
        if expect:
            errs.append(f"create() returned a motif, expected {expect}")
        else:
            got = "ok " + motif_line(m)
            r = cx.core.ask("auto", "create", alpha, f"{n} " + " ".join(hexs(s) for s in strs))
            if norm(r) == norm(got):
                labels.append(CREATE_LABEL)
            else:
                errs.append("create: counts / weights / scores differ from the core library's from_sequences -> to_freq(0) -> to_weight(None) -> to_scoring on the same sequences")
            # definition
            M = len(strs[0]) if strs else 0
            K = len(le)
            counts = [[sum(1 for s in strs if s[i] == le[a]) for a in range(K)] for i in range(M)]
            if [list(m.counts[i]) for i in range(len(m.counts))] != counts:
                errs.append("create: counts[i][a] is not the number of sequences with symbol a at position i")
            w = weights_def(alpha, counts, [f32_bits(0.0)] * K)
            if rows_bits(m.pwm) != w:
                errs.append("create: weights differ from (count / total) / background")
            sc = rows_bits(m.pssm)
            for i in range(M):
                for a in range(K):
                    wv = bits_f32(w[i][a])
                    want = float("-inf") if wv == 0 else math.log2(wv)
                    if not close32(sc[i][a], want):
                        errs.append(f"create: score[{i}][{a}] = {bits_f32(sc[i][a])!r}, log2(weight) = {want!r}")
            if m.name != "m" or m.protein != (alpha == "protein"):
                errs.append("create: name / protein attribute not as given")
    else:
        if g[0] == "panic":
            errs.append(f"create raised PanicException: {g[1]}")
        elif expect is None:
            errs.append(f"create raised {g[0]} on valid sequences: {g[1]}")
        elif g[0] != expect:
            errs.append(f"create raised {g[0]}, expected {expect}")
    line = f"c17create {obs_of(g[0], labels)} {alpha} {n} {' '.join(items)}"
    return " ".join(line.split()), "adm-ok", verdict(errs), n >= 2 and expect is None and len(strs[0]) >= 2, f"create/{alpha}"


# ------------------------------------------------------------------ c17stripe
def exec_stripe(cx, head, tail):
    alpha = head[2]
    text = (b"" if head[3] == "-" else bytes.fromhex(head[3])).decode("utf-8")
    le = letters(alpha)

    def run():
        s = cx.lm.stripe(text, **common.pkw(alpha))
        mv = memoryview(s)
        cols = mv.tolist()
        R = mv.shape[1]
        e = cx.lm.EncodedSequence(text, **common.pkw(alpha))
        return R, [cols[c][r] for r in range(R) for c in range(32)], str(e), [e[i] for i in range(len(e))]

    g = guarded(run)
    errs, labels = [], []
    valid = all(ch in le for ch in text)
    if g[0] == "ok":
        R, cells, shown, enc = g[1]
        if not valid:
            errs.append("stripe() accepted a text with a symbol outside the alphabet")
        else:
            r = cx.core.ask("auto", "stripe", alpha, hexs(text))
            if norm(r) == norm(f"ok {len(text)} {R} {join(cells)}"):
                labels.append("encode.toStriped")
            else:
                errs.append("stripe: matrix differs from the core library's encode -> to_striped on the same text")
            L = len(text)
            want = [(le.index(text[c * R + r]) if c * R + r < L else len(le) - 1) for r in range(R) for c in range(32)]
            if R != (L + 31) // 32 or cells != want:
                errs.append("stripe: cell (r, c) is not symbol c*R + r of the sequence (wildcard past the end)")
            if shown != text or enc != [le.index(ch) for ch in text]:
                errs.append("EncodedSequence: str() / items do not reproduce the text")
    else:
        if g[0] == "panic":
            errs.append(f"stripe raised PanicException: {g[1]}")
        elif valid:
            errs.append(f"stripe raised {g[0]} on a valid text")
        elif g[0] != "ValueError":
            errs.append(f"stripe raised {g[0]}, expected ValueError")
    line = f"c17stripe {obs_of(g[0], labels)} {alpha} {hexs(text)}"
    return line, "adm-ok", verdict(errs), len(text) > 32, f"stripe/{alpha}"


# ------------------------------------------------------------------ c17load
class ShortReader:
    """a binary file-like object that is neither a path nor an io class: read(n) returns FEWER than n
    bytes before the end of the data (legal for a raw stream; only b"" means end of file).
      chunked  : 1..min(n, 64) bytes (seeded), one time in three exactly up to the next record boundary
      boundary : exactly up to the next record boundary (the rest of the data after the last one)
      greedy   : n + 1..7 bytes (as far as the data goes): MORE than asked, which no reader may do
    `wrap` converts what read returns (bytes, bytearray, memoryview)."""

    def __init__(self, data, mode, seed, cuts, wrap=bytes):
        self.data, self.pos, self.mode, self.wrap = data, 0, mode, wrap
        self.rng = common.Rng(seed)
        self.cuts = sorted(c for c in cuts if 0 < c < len(data)) + [len(data)]
        self.calls = 0
        self.short = 0      # reads that returned fewer bytes than asked although data was left
        self.over = 0       # reads that returned MORE bytes than asked

    def read(self, n=-1):
        self.calls += 1
        left = len(self.data) - self.pos
        if n is None or n < 0:
            n = left
        if self.mode == "greedy" and 0 < n < left:
            out = self.data[self.pos:self.pos + n + self.rng.range(1, 7)]
            self.over += 1
            self.pos += len(out)
            return self.wrap(out)
        n = min(n, left)
        if n > 0 and self.mode != "greedy":
            to_cut = next(c for c in self.cuts if c > self.pos) - self.pos
            if self.mode == "boundary":
                k = min(n, to_cut)
            elif self.rng.chance(1, 3) and to_cut <= n:
                k = to_cut
            else:
                k = self.rng.range(1, min(n, 64))
            if k < n:
                self.short += 1
            n = k
        out = self.data[self.pos:self.pos + n]
        self.pos += n
        return self.wrap(out)


class LateBad:
    """passes the `read(0)` probe of Loader, fails at every later read"""

    def __init__(self, mode):
        self.mode, self.calls = mode, 0

    def read(self, n=-1):
        if n == 0:
            return b""
        self.calls += 1
        if self.mode == "latetype":
            return bytearray(b">x\n")
        if self.mode == "lateraise":
            raise RuntimeError("boom")
        raise OSError(5, "Input/output error")


LATE = {"latetype": ("TypeError", "pytype"), "lateraise": ("RuntimeError", "pyraise"), "lateos": ("OSError", "io")}
FILELIKE = ("binary", "chunked", "boundary", "greedy")          # read(0) returns bytes: accepted
NOT_BYTES = ("text", "bytearray", "memoryview")        # read(0) returns something else: TypeError
READERS = {"jaspar": "readJaspar", "jaspar16": "readJaspar16", "transfac": "readTransfac", "uniprobe": "readUniprobe"}
FROM_COUNTS = ".pseudoUniform.toFreq.toWeight.toScoring.motif"


def record_label(fmt, has_counts=True):
    if fmt == "uniprobe":
        return "noCounts.recordIntoFreqs.toWeight.toScoring.motif"
    if fmt == "transfac":
        return "recordToCounts" + FROM_COUNTS
    return "recordIntoCounts" + FROM_COUNTS


def exec_load(cx, head, tail):
    kind = head[2]
    fmt = (b"" if head[3] == "-" else bytes.fromhex(head[3])).decode()
    protein = head[4] == "1"
    data = b"" if tail[0] == "-" else bytes.fromhex(tail[0])
    cseed = int(tail[1]) if len(tail) > 1 else 0
    cuts = [int(x) for x in tail[2].split(",")] if len(tail) > 2 and tail[2] != "-" else []
    extra = "".join(" " + x for x in tail[1:3])
    alpha = "protein" if protein else "dna"
    tmp = None
    if kind in ("path", "missing"):
        fd, tmp = tempfile.mkstemp(prefix="lmv-c17-", dir=cx.out.dir)
        os.write(fd, data)
        os.close(fd)
        fobj = tmp
        if kind == "missing":
            os.unlink(tmp)
            tmp = None
    elif kind == "binary":
        fobj = _io.BytesIO(data)
    elif kind == "text":
        fobj = _io.StringIO(data.decode("latin-1"))
    elif kind in ("chunked", "boundary", "greedy"):
        fobj = ShortReader(data, kind, cseed, cuts)
    elif kind in LATE:
        fobj = LateBad(kind)
    elif kind in ("bytearray", "memoryview"):
        fobj = ShortReader(data, "chunked", cseed, cuts, wrap=(bytearray if kind == "bytearray" else memoryview))
    else:
        fobj = 12345
    errs, key = [], f"load/{fmt if fmt in READERS else 'other'}/{kind}"
    core_all = None
    if kind in ("path",) + FILELIKE and fmt in READERS and not (fmt == "jaspar" and protein):
        core_all = cx.core.ask("auto", "load", alpha, f"{fmt} {hexs(data)}")
    if core_all in ("hang", "died"):
        # the core reader does not terminate on this input (C15): Python is not run; not applicable to C17
        if tmp:
            os.unlink(tmp)
        line = f"c17load ok:{READERS[fmt]} {kind} {hexs(fmt)} {1 if protein else 0} 0 | {hexs(data)}{extra}"
        return " ".join(line.split()), "adm-ok", None, False, "excluded/core-reader-" + core_all
    # the same request through the three spellings of the entry point (one per case, chosen by the data):
    # load(file, format, protein=…), the Loader class itself, and the documented DEFAULTS (protein=False,
    # format="jaspar") left out
    route = (len(data) + len(fmt)) % 3

    def open_it():
        if route == 1:
            return cx.lm.Loader(fobj, fmt, protein=True) if protein else cx.lm.Loader(fobj, fmt)
        if route == 2 and not protein:
            return cx.lm.load(fobj) if fmt == "jaspar" else cx.lm.load(fobj, fmt)
        return cx.lm.load(fobj, fmt, protein=protein)

    cx.out.stat(f"load/route/{('load', 'Loader', 'defaults')[route]}")
    g = guarded(open_it)
    if kind in LATE:
        # the file object fails after the probe: ITS exception (or the ValueError of the format), from load()
        # or from the first record; never a panic, never SystemError (a result with an exception pending)
        exc, rk = LATE[kind]
        recs, init_obs = [], g[0]
        bad_format = fmt not in READERS or (fmt == "jaspar" and protein)
        if g[0] == "ok":
            init_obs = "ok:" + READERS.get(fmt, "?")
            e = guarded(lambda: next(g[1]))
            recs.append((rk, e[0] if e[0] != "ok" else "ok:"))
            if bad_format:
                errs.append("load() succeeded with an unknown format")
            elif e[0] != exc:
                errs.append(f"load: a file object whose read fails with {exc} after the probe: the first record gives {e[0]} ({e[1] if len(e) > 1 else ''})")
        elif bad_format:
            if g[0] != "ValueError":
                errs.append(f"load raised {g[0]}, expected ValueError (format)")
        elif g[0] != exc:
            errs.append(f"load: a file object whose read fails with {exc} after the probe: load() raised {g[0]}: {g[1]}")
        line = (f"c17load {init_obs} {kind} {hexs(fmt)} {1 if protein else 0} {len(recs)} "
                + " ".join(f"{k} {o}" for k, o in recs) + f" | {hexs(data)}{extra}")
        return " ".join(line.split()), "adm-ok", verdict(errs), not bad_format, key
    # expected outcome of opening, by the documented order: the file first, then the format
    expect = None
    if kind == "missing":
        expect = ("FileNotFoundError", "OSError")
    elif kind in NOT_BYTES:
        expect = ("TypeError",)
    elif kind == "noread":
        expect = ("AttributeError", "TypeError")
    elif fmt not in READERS or (fmt == "jaspar" and protein):
        expect = ("ValueError",)
    recs = []
    init_obs = g[0]
    if g[0] == "ok":
        if expect:
            errs.append(f"load() succeeded, expected {expect[0]}")
        core_recs = (core_all if core_all is not None else "end").split(" ; ")
        init_obs = "ok:" + READERS.get(fmt, "?")
        loader = g[1]
        for cr in core_recs:
            if cr == "panic":
                e = guarded(lambda: next(loader))
                errs.append(f"load: the core reader panics on this file; Python gives {e[0]}")
                break
            if cr == "end":
                e = guarded(lambda: next(loader))
                if e[0] != "StopIteration":
                    errs.append(f"load: Python yields {e[0]} after the core reader is exhausted")
                break
            e = guarded(lambda: next(loader))
            if kind == "greedy" and fobj.over > 0 and e[0] in ("OSError", "ValueError"):
                # the file object broke the contract of read() (whatever the core reader would have said
                # of this record, given all the bytes): an ordinary exception at the record being read
                recs.append(("io", "OSError") if e[0] == "OSError" else ("parse", "ValueError"))
                break
            if cr.startswith("err"):
                rk = {"err io": "io", "err data": "data", "err parse": "parse", "err counts": "nocounts"}[cr]
                want = "OSError" if rk == "io" else "ValueError"
                recs.append((rk, e[0] if e[0] != "ok" else "ok:"))
                if e[0] != want:
                    errs.append(f"load: record {len(recs) - 1}: core reader reports `{cr}`, Python gives {e[0]}")
                break
            if kind == "greedy" and fobj.over > 0 and e[0] in ("OSError", "ValueError"):
                # the file object broke the contract of read(): an I/O error at the record being read, or
                # (the error having been met while a reader was looking for the start of a record) a
                # parse error at the bytes that follow — an ordinary exception either way
                recs.append(("io", "OSError") if e[0] == "OSError" else ("parse", "ValueError"))
                break
            if e[0] != "ok":
                recs.append(("ok", e[0]))
                errs.append(f"load: record {len(recs) - 1} raised {e[0]} ({e[1]}), the core reader parses it")
                break
            m = e[1]
            t = cr.split(" ", 5)
            got = (f"rec {opt_hexs(m.name)} {opt_hexs(getattr(m, 'description', None))} {opt_hexs(getattr(m, 'id', None))} "
                   f"{opt_hexs(getattr(m, 'accession', None))} {motif_line(m)}")
            if norm(got) == norm(cr):
                recs.append(("ok", "ok:" + record_label(fmt)))
            else:
                recs.append(("ok", "ok:"))
                d = next((i for i, (x, y) in enumerate(zip(got.split(), cr.split())) if x != y), -1)
                errs.append(f"load: record {len(recs) - 1} ({fmt}): Python motif differs from the core library's record -> counts -> to_freq(0) -> to_weight(None) -> to_scoring (token {d})")
            cls = type(m).__name__
            if cls != {"jaspar": "JasparMotif", "jaspar16": "JasparMotif", "transfac": "TransfacMotif", "uniprobe": "UniprobeMotif"}[fmt]:
                errs.append(f"load: record class {cls}")
    else:
        if g[0] == "panic":
            errs.append(f"load raised PanicException: {g[1]}")
        elif expect is None:
            errs.append(f"load raised {g[0]}: {g[1]}")
        elif g[0] not in expect:
            errs.append(f"load raised {g[0]}, expected {expect[0]}")
        if g[0] in ("FileNotFoundError", "PermissionError", "IsADirectoryError"):
            init_obs = "OSError"
    if tmp:
        os.unlink(tmp)
    line = (f"c17load {init_obs} {kind} {hexs(fmt)} {1 if protein else 0} {len(recs)} "
            + " ".join(f"{k} {o}" for k, o in recs) + f" | {hexs(data)}{extra}")
    if kind in ("chunked", "boundary") and g[0] == "ok":
        cx.out.stat("load/short-reads", fobj.short)
    if kind == "greedy" and g[0] == "ok":
        cx.out.stat("load/over-long-reads", fobj.over)
        if fobj.over > 0 and not (recs and recs[-1][0] in ("io", "parse")) and not errs:
            errs.append("load: a read() returned more bytes than requested and no record raised OSError / ValueError (bytes silently dropped)")
    nontrivial = (kind == "greedy" and g[0] == "ok" and fobj.over > 0) or len(recs) >= 2 or (kind in ("chunked", "boundary") and len(recs) >= 1 and fobj.short >= 1)
    return " ".join(line.split()), "adm-ok", verdict(errs), nontrivial, key


# ------------------------------------------------------------------ c17cminit / c17sminit (exact answers)
def parse_columns(tk, K):
    cols = []
    for _ in range(K):
        t = tk.next()
        if t in ("-", "#"):
            cols.append(t)
        else:
            n = int(t)
            cols.append([tk.next() for _ in range(n)])
    return cols


def columns_tokens(cols):
    return " ".join(c if isinstance(c, str) else f"{len(c)} {' '.join(c)}" for c in cols)


def exec_cminit(cx, head, tail):
    alpha = head[1]
    le = letters(alpha)
    cols = parse_columns(Toks(head[2:]), len(le))
    d = {}
    for j, c in enumerate(cols):
        if c == "-":
            continue
        d[le[j]] = 5 if c == "#" else tuple(("x" if e == "x" else int(e)) for e in c) if j % 2 else [("x" if e == "x" else int(e)) for e in c]
    d["z"] = [1, 2, 3, 4, 5, 6, 7]      # keys that name no symbol are ignored
    g = guarded(lambda: (lambda m: [list(m[i]) for i in range(len(m))])(cx.lm.CountMatrix(d, **common.pkw(alpha))))
    errs = []
    # definition
    present = [(j, c) for j, c in enumerate(cols) if c != "-"]
    expect, want = None, None
    rows = None
    for j, c in present:
        if c == "#":
            expect = "TypeError"
            break
        if rows is None:
            rows = len(c)
            want = [[0] * len(le) for _ in range(rows)]
        if len(c) != rows:
            expect = "ValueError"
            break
        bad = None
        for i, e in enumerate(c):
            if e == "x":
                bad = "TypeError"
                break
            if not (0 <= int(e) < 2**32):
                bad = "OverflowError"
                break
            want[i][j] = int(e)
        if bad:
            expect = bad
            break
    if expect is None and rows is None:
        expect = "ValueError"
    if g[0] == "ok":
        ans = f"ok {len(g[1])} {join(flat(g[1]))}".strip()
        if expect:
            errs.append(f"CountMatrix(dict) returned a matrix, expected {expect}")
        elif g[1] != want:
            errs.append("CountMatrix(dict): entry (i, a) is not values[letter a][i] (0 for missing letters)")
    else:
        ans = g[0]
        if g[0] == "panic":
            errs.append(f"CountMatrix(dict) raised PanicException: {g[1]}")
        elif expect is None:
            errs.append(f"CountMatrix(dict) raised {g[0]} on valid columns: {g[1]}")
        elif g[0] != expect:
            errs.append(f"CountMatrix(dict) raised {g[0]}, expected {expect}")
    line = f"c17cminit {alpha} {columns_tokens(cols)}"
    return line, ans, verdict(errs), len(present) >= 2, "cminit"


def exec_sminit(cx, head, tail):
    alpha = head[1]
    le = letters(alpha)
    tk = Toks(head[2:])
    bg = parse_pyarg(tk)
    cols = parse_columns(tk, len(le))
    d = {}
    for j, c in enumerate(cols):
        if c == "-":
            continue
        d[le[j]] = (1.0, 2.0) if c == "#" else [("x" if e == "x" else bits_f32(int(e))) for e in c]
    g = guarded(lambda: rows_bits(cx.lm.ScoringMatrix(d, pyarg_object(bg), **common.pkw(alpha))))
    errs = []
    arr = pyarg_array(alpha, bg) if bg[0] == "d" else None
    expect, want, rows = None, None, None
    if bg[0] in ("o", "f"):
        expect = "TypeError"
    elif bg[0] == "d" and arr is None:
        expect = "ValueError/TypeError"
    elif bg[0] == "d" and not bg_valid(arr):
        expect = "ValueError"
    if expect is None:
        present = [(j, c) for j, c in enumerate(cols) if c != "-"]
        for j, c in present:
            if c == "#":
                expect = "TypeError"
                break
            if rows is None:
                rows = len(c)
                want = [[0] * len(le) for _ in range(rows)]
            if len(c) != rows:
                expect = "ValueError"
                break
            if "x" in c:
                expect = "TypeError"
                break
            for i, e in enumerate(c):
                want[i][j] = int(e)
        if expect is None and rows is None:
            expect = "ValueError"
    if g[0] == "ok":
        ans = f"ok {len(g[1])} {join(flat(g[1]))}".strip()
        if expect:
            errs.append(f"ScoringMatrix(dict) returned a matrix, expected {expect}")
        elif g[1] != want:
            errs.append("ScoringMatrix(dict): entry (i, a) is not values[letter a][i]")
    else:
        ans = g[0]
        if g[0] == "panic":
            errs.append(f"ScoringMatrix(dict) raised PanicException: {g[1]}")
        elif expect is None:
            errs.append(f"ScoringMatrix(dict) raised {g[0]} on valid columns: {g[1]}")
        elif g[0] not in expect.split("/"):
            errs.append(f"ScoringMatrix(dict) raised {g[0]}, expected {expect}")
    line = f"c17sminit {alpha} {pyarg_tokens(bg)} {columns_tokens(cols)}"
    return line, ans, verdict(errs), True, "sminit"


EXEC = {"c17normalize": exec_normalize, "c17logodds": exec_logodds, "c17calc": exec_calc, "c17pvalue": exec_pvalue,
        "c17rc": exec_rc, "c17scan": exec_scan, "c17reuse": exec_reuse, "c17create": exec_create, "c17stripe": exec_stripe, "c17load": exec_load,
        "c17cminit": exec_cminit, "c17sminit": exec_sminit}


def exec_line(cx, line):
    head, tail = split_bar(line)
    return EXEC[head[0]](cx, head, tail)


# ------------------------------------------------------------------ generators
BACKENDS = ["generic", "sse2", "avx2", "auto"]


def rand_syms(rng, alpha, n, wild=True):
    K = K_of(alpha)
    return [rng.below(K if wild and rng.chance(1, 10) else K - 1) for _ in range(n)]


def rand_counts(rng, alpha, M, top=20):
    K = K_of(alpha)
    rows = []
    for _ in range(M):
        row = [rng.below(top) if rng.chance(3, 4) else 0 for _ in range(K - 1)] + [rng.below(3) if rng.chance(1, 6) else 0]
        if sum(row) == 0:
            row[rng.below(K - 1)] = 1 + rng.below(5)
        rows.append(row)
    return rows


def grid_bg(rng, alpha, wild_mass):
    """frequencies k/64 summing to exactly 1.0 in f32 in any order"""
    K = K_of(alpha)
    ks = [1] * (K - 1) + [1 if wild_mass else 0]
    for _ in range(64 - sum(ks)):
        ks[rng.below(K - 1)] += 1
    return [f32_bits(k / 64.0) for k in ks]


def near_uniform_bg(rng, alpha):
    """a background that differs from uniform by a few units of 1/4096 per symbol (sums to exactly 1.0):
    "different from uniform" must be decided exactly, not up to a tolerance"""
    K = K_of(alpha)
    n = K - 1
    if n == 4 and rng.chance(1, 2):
        # one or two units in the last place of 0.25 (2^-25 is the spacing just above 0.25): sums to exactly one
        eps = rng.pick([2.0 ** -23, 2.0 ** -24, 2.0 ** -22])
        i, j = rng.pick([(0, 1), (2, 3), (0, 3), (1, 2)])
        f = [0.25] * 4
        f[i] += eps
        f[j] -= eps
        return [f32_bits(r32(x)) for x in f] + [f32_bits(0.0)]
    den = 4096 * n
    ks = [4096] * n                       # uniform = 4096 / den
    for _ in range(rng.range(1, 3)):
        i, j = rng.below(n), rng.below(n)
        if i != j:
            d = rng.range(1, 40)
            ks[i] += d
            ks[j] -= d
    return [f32_bits(r32(k / den)) for k in ks] + [f32_bits(0.0)]


def dict_of(alpha, arr, drop_zero=True):
    le = letters(alpha)
    return ("d", [(le[j], arr[j]) for j in range(len(le)) if not (drop_zero and bits_f32(arr[j]) == 0.0)])


def logodds_pssm(rng, alpha, M, wild_inf=True, pseudo=0.5):
    """a realistic PSSM: log2(((count + pseudo) / total) / background), wildcard column -inf or finite"""
    K = K_of(alpha)
    rows = []
    for _ in range(M):
        c = [rng.below(12) for _ in range(K - 1)]
        tot = sum(c) + pseudo * (K - 1)
        row = [f32_bits(r32(math.log2(((x + pseudo) / tot) * (K - 1)))) if (x + pseudo) > 0 else NEG_INF for x in c]
        row.append(NEG_INF if wild_inf else f32_bits(r32(-1.0 - rng.f64())))
        rows.append(row)
    return rows


def rand_pssm(rng, alpha, M, wild_inf=True):
    K = K_of(alpha)
    rows = []
    for _ in range(M):
        row = [NEG_INF if rng.chance(1, 15) else f32_bits(r32((rng.f64() - 0.7) * 6.0)) for _ in range(K - 1)]
        row.append(NEG_INF if wild_inf else f32_bits(r32((rng.f64() - 0.9) * 3.0)))
        rows.append(row)
    return rows


def bad_dicts(rng, alpha):
    le = letters(alpha)
    v = f32_bits(0.5)
    return [("d", [("AB", v)]), ("d", [("Z" if alpha == "dna" else "B", v)]), ("d", [("a", v)]), ("d", [("", v)]),
            ("d", [(None, v)]), ("d", [(le[0], None)]), ("d", [(le[1], v), ("é", v)]), ("d", [("?", None)]),
            ("d", [(le[0], v), (None, None)])]


def render_file(fmt, alpha, recs, rng):
    """recs: list of (name, description, counts rows).  Returns the bytes of a well-formed file."""
    le = letters(alpha)
    K = len(le)
    out = []
    for n, (name, desc, rows) in enumerate(recs):
        M = len(rows)
        if fmt == "jaspar":
            out.append(f">{name} {desc}\n" if desc else f">{name}\n")
            for a in (0, 1, 3, 2):   # file order A C G T
                out.append(" ".join(str(rows[i][a]) for i in range(M)) + "\n")
        elif fmt == "jaspar16":
            out.append(f">{name}\t{desc}\n" if desc else f">{name}\n")
            order = (0, 1, 3, 2) if alpha == "dna" else range(K - 1)
            for a in order:
                out.append(f"{le[a]}  [ " + " ".join(f"{rows[i][a]:>5}" for i in range(M)) + " ]\n")
        elif fmt == "transfac":
            out.append(f"AC {name}\nXX\nID id{n}\nXX\n")
            if desc:
                out.append(f"DE {desc}\n")
            out.append(f"NA nm{n}\nXX\n")
            order = (0, 1, 3, 2) if alpha == "dna" else range(K - 1)
            out.append("PO\t" + "\t".join(le[a] for a in order) + "\n")
            for i in range(M):
                out.append(f"{i + 1:02d}\t" + "\t".join(f"{float(rows[i][a]):.1f}" for a in order) + "\n")
            out.append("XX\n//\n")
        else:  # uniprobe: frequencies
            out.append(f"{name}\n")
            order = (0, 1, 3, 2) if alpha == "dna" else range(K - 1)
            for a in order:
                vals = []
                for i in range(M):
                    tot = sum(rows[i][b] for b in order) or 1
                    vals.append(repr(rows[i][a] / tot))
                out.append(f"{le[a]}:\t" + "\t".join(vals) + "\n")
            out.append("\n")
    return "".join(out).encode()


def boundaries(fmt, alpha, recs, rng):
    """offsets at which a record of the rendered file ends"""
    return [len(render_file(fmt, alpha, recs[:i], rng)) for i in range(1, len(recs))]


def load_cases(rng, fmt, prot, data, cuts):
    """the same bytes through every way of handing a file to load(): a path, io.BytesIO, file-like
    objects with short reads (random chunks / chunks ending on record boundaries), and a file-like
    object whose read returns bytearray / memoryview"""
    c = ",".join(str(x) for x in cuts) or "-"
    kinds = ["path", "binary", "chunked", "boundary", rng.pick(["bytearray", "memoryview"])]
    out = [f"c17load ? {k} {hexs(fmt)} {prot} 0 | {hexs(data)} {rng.below(1 << 32)} {c}" for k in kinds]
    if rng.chance(1, 3):
        out.append(f"c17load ? {rng.pick(list(LATE))} {hexs(fmt)} {prot} 0 | {hexs(data)} 0 -")
    if data and rng.chance(1, 4):
        # the file repeated past the reader's buffer size (read(n) then returns exactly n bytes): through
        # io.BytesIO, a path, and a file object returning more than asked
        big = data * (9000 // len(data) + rng.range(1, 3))
        out.append(f"c17load ? greedy {hexs(fmt)} {prot} 0 | {hexs(big)} {rng.below(1 << 32)} -")
        out.append(f"c17load ? {rng.pick(['binary', 'path'])} {hexs(fmt)} {prot} 0 | {hexs(big)} 0 -")
        # … and through a file object with short reads (the reader's buffer is refilled across many reads)
        out.append(f"c17load ? chunked {hexs(fmt)} {prot} 0 | {hexs(big)} {rng.below(1 << 32)} -")
    return out


def generate(cfg, core, out):
    rng = common.Rng(cfg.seed ^ 0xC17)
    cases = []
    big = cfg.thorough
    reps = 3 if not big else 12
    for alpha in ("dna", "protein"):
        K = K_of(alpha)
        le = letters(alpha)
        # ---- normalize: pseudocount None / float / dict (valid and invalid) / other type
        for _ in range(reps):
            M = rng.range(1, 9)
            counts = rand_counts(rng, alpha, M)
            cspec = f"{M} {join(flat(counts))}"
            full = [f32_bits(r32(rng.f64() * 2)) for _ in range(K - 1)] + [f32_bits(0.25 if rng.chance(1, 2) else 0.0)]
            part = [full[j] if rng.chance(1, 2) else f32_bits(0.0) for j in range(K)]
            args = [("n",), ("o",), ("f", f32_bits(0.0)), ("f", f32_bits(0.5)), ("f", f32_bits(1.0)), ("f", f32_bits(r32(rng.f64() * 3))),
                    dict_of(alpha, full), dict_of(alpha, part), dict_of(alpha, full, drop_zero=False), ("d", [])] + bad_dicts(rng, alpha)
            for a in args:
                cases.append(f"c17normalize ? {alpha} {pyarg_tokens(a)} | {cspec}")
        # ---- log_odds: background None / equal to uniform / different (with and without wildcard mass) / invalid
        for _ in range(reps):
            M = rng.range(1, 9)
            counts = rand_counts(rng, alpha, M)
            uni = uniform_bits(alpha)
            bgs = [("n",), ("o",), ("f", f32_bits(0.25)), dict_of(alpha, uni), dict_of(alpha, grid_bg(rng, alpha, False)),
                   dict_of(alpha, grid_bg(rng, alpha, True)), dict_of(alpha, grid_bg(rng, alpha, False)),
                   dict_of(alpha, near_uniform_bg(rng, alpha)), dict_of(alpha, near_uniform_bg(rng, alpha)),
                   ("d", [(le[0], f32_bits(0.5)), (le[1], f32_bits(0.25))]),          # sums to 0.75
                   ("d", [(le[0], f32_bits(1.5)), (le[1], f32_bits(-0.5))]),          # outside [0, 1]
                   ("d", [(le[0], f32_bits(1.0))]), ("d", [])] + bad_dicts(rng, alpha)[:5]
            for b in bgs:
                base = rng.pick([2.0, 2.0, 10.0, math.e, 3.0, 0.5])
                pseudo = rng.pick([("n",), ("f", f32_bits(0.5)), ("f", f32_bits(1.0))])
                cases.append(f"c17logodds ? {alpha} {pyarg_tokens(b)} {f32_bits(r32(base))} | {M} {join(flat(counts))} {pyarg_tokens(pseudo)}")
        # ---- constructors from dictionaries of columns
        for _ in range(reps * 4):
            rows = rng.range(0, 5)
            cols = []
            for j in range(K):
                r = rng.below(12)
                if r < 3:
                    cols.append("-")
                elif r == 3:
                    cols.append("#")
                elif r == 4:
                    cols.append([str(rng.below(50)) for _ in range(rows + 1)])
                else:
                    ents = [str(rng.below(1000)) for _ in range(rows)]
                    if ents and rng.chance(1, 12):
                        ents[rng.below(rows)] = rng.pick(["x", "-1", "4294967296", "4294967295"])
                    cols.append(ents)
            if rng.chance(2, 3):
                cols = [c if not isinstance(c, str) or c == "-" or rng.chance(1, 4) else "-" for c in cols]
            cases.append(f"c17cminit {alpha} {columns_tokens(cols)}")
        cases.append(f"c17cminit {alpha} {columns_tokens(['-'] * K)}")
        for _ in range(reps * 4):
            rows = rng.range(0, 5)
            cols = []
            for j in range(K):
                r = rng.below(12)
                if r < 3:
                    cols.append("-")
                elif r == 3 and rng.chance(1, 3):
                    cols.append("#")
                elif r == 4 and rng.chance(1, 3):
                    cols.append([str(f32_bits(1.0))] * (rows + 1))
                else:
                    ents = [str(f32_bits(r32((rng.f64() - 0.5) * 8))) for _ in range(rows)]
                    if ents and rng.chance(1, 15):
                        ents[rng.below(rows)] = "x"
                    cols.append(ents)
            bg = rng.pick([("n",), ("n",), dict_of(alpha, grid_bg(rng, alpha, rng.chance(1, 2))), ("o",), ("f", f32_bits(0.5)),
                           ("d", [(le[0], f32_bits(0.5))]), bad_dicts(rng, alpha)[rng.below(5)]])
            cases.append(f"c17sminit {alpha} {pyarg_tokens(bg)} {columns_tokens(cols)}")
        cases.append(f"c17sminit {alpha} n {columns_tokens(['-'] * K)}")
        # ---- calculate: one striped sequence reused with motifs of increasing and decreasing width
        Ls = [0, 1, 5, 31, 32, 33, 64, 100, 257, 1000] + ([1024, 1025, 4000] if big else [])
        for L in Ls:
            for backend in BACKENDS:
                syms = rand_syms(rng, alpha, L)
                k = rng.range(1, 5)
                widths = [rng.pick([1, 2, 3, 5, 8, 13, 21, 30]) for _ in range(k)]
                if backend == "generic":
                    widths = [2, 9, 4, 15, 1][:max(k, 3)]
                specs = []
                for M in widths:
                    kind = rng.below(4)
                    rows = logodds_pssm(rng, alpha, M, wild_inf=(kind != 3)) if kind else rand_pssm(rng, alpha, M, wild_inf=rng.chance(3, 4))
                    bg = None if rng.chance(3, 4) else grid_bg(rng, alpha, True)
                    specs.append((rows, bg))
                thr = f32_bits(r32((rng.f64() - 0.5) * 10))
                cases.append(f"c17calc ? {alpha} {len(specs)} {' '.join([alpha] * len(specs))} | {backend} {thr} {L} {join(syms)} "
                             + " ".join(pssm_tokens(s) for s in specs))
        # all-negative score matrices (the maximum must not be 0.0)
        for backend in BACKENDS:
            syms = rand_syms(rng, alpha, 70, wild=False)
            rows = [[f32_bits(r32(-0.5 - rng.f64() * 3)) for _ in range(K - 1)] + [NEG_INF] for _ in range(4)]
            cases.append(f"c17calc ? {alpha} 1 {alpha} | {backend} {f32_bits(-6.0)} 70 {join(syms)} {pssm_tokens((rows, None))}")
        # alphabet mismatch at the first / a later motif
        other = "protein" if alpha == "dna" else "dna"
        for pattern in ([other], [alpha, other], [alpha, alpha, other, alpha]):
            syms = rand_syms(rng, alpha, 50)
            specs = [(rand_pssm(rng, a, 3), None) for a in pattern]
            cases.append(f"c17calc ? {alpha} {len(pattern)} {' '.join(pattern)} | auto {f32_bits(0.0)} 50 {join(syms)} "
                         + " ".join(pssm_tokens(s) for s in specs))
        # ---- p-value / score conversions, max_score
        for rep in range(max(reps, 2)):
            M = rng.range(1, 6 if alpha == "dna" else 3)
            # every other matrix carries its own non-uniform background (the p-value must use it)
            spec = (logodds_pssm(rng, alpha, M), None if rep % 2 == 0 else grid_bg(rng, alpha, False))
            ps = pssm_tokens(spec)
            mx = sum(max(bits_f32(v) for v in r[:-1]) for r in spec[0])
            for method in (["meme", "tfmpvalue", "foo", ""] if alpha == "dna" else ["meme", "bar"]):
                for x in (mx - 0.5, mx * 0.5, 0.0):
                    cases.append(f"c17pvalue ? {alpha} pvalue {hexs(method)} | {f64_bits(x)} {ps}")
                for pv in (0.1, 1e-3):
                    cases.append(f"c17pvalue ? {alpha} score {hexs(method)} | {f64_bits(pv)} {ps}")
            cases.append(f"c17pvalue ? {alpha} maxscore - | 0 {ps}")
        # ---- reverse complement
        for M in [0, 1, 2, 5, 12]:
            spec = (rand_pssm(rng, alpha, M, wild_inf=rng.chance(1, 2)), None)
            cases.append(f"c17rc ? {alpha} | {pssm_tokens(spec)}")
        # ... with a non-uniform (not strand-symmetric) background, as log-odds matrices
        for M in [1, 2, 3, 5]:
            spec = (logodds_pssm(rng, alpha, M), grid_bg(rng, alpha, False))
            cases.append(f"c17rc ? {alpha} | {pssm_tokens(spec)}")
        # ---- create / stripe
        for _ in range(reps * 3):
            n = rng.range(1, 7)
            M = rng.range(1, 13)
            seqs = ["".join(le[s] for s in rand_syms(rng, alpha, M)) for _ in range(n)]
            cases.append(f"c17create ? {alpha} {n} {' '.join(hexs(s) for s in seqs)}")
            bad = list(seqs)
            r = rng.below(5)
            i = rng.below(n)
            if r == 0:
                bad[i] = bad[i][:-1] + "z"
            elif r == 1:
                bad[i] = bad[i] + le[0]
            elif r == 2:
                bad[i] = None
            elif r == 3:
                bad[i] = bad[i].lower()
            else:
                bad[i] = None
                bad[rng.below(n)] = "?"
            cases.append(f"c17create ? {alpha} {n} {' '.join('#' if s is None else hexs(s) for s in bad)}")
        cases.append(f"c17create ? {alpha} 0")
        cases.append(f"c17create ? {alpha} 2 - -")
        for L in [0, 1, 31, 32, 33, 100, 1025]:
            text = "".join(le[s] for s in rand_syms(rng, alpha, L))
            cases.append(f"c17stripe ? {alpha} {hexs(text)}")
            if L:
                t2 = list(text)
                t2[rng.below(L)] = rng.pick(["z", "?", " ", "é", text[0].lower()])
                cases.append(f"c17stripe ? {alpha} {hexs(''.join(t2))}")
    # ---- scanner (DNA): block sizes, thresholds, arms
    for _ in range(reps * 8):
        L = rng.pick([20, 64, 100, 257, 700, 1500] + ([6000, 20000] if big else []))
        M = rng.range(2, 12)
        syms = rand_syms(rng, "dna", L, wild=rng.chance(1, 3))
        rows = logodds_pssm(rng, "dna", M, pseudo=rng.pick([0.1, 0.5, 1.0]))
        scores = sorted(bits_f32(score_def("dna", rows, syms, p)) for p in range(L - M + 1))
        finite = [x for x in scores if x > float("-inf")] or [0.0]
        thr = rng.pick([scores[-1], scores[-1] + 1.0, scores[int(len(scores) * 0.98)], scores[int(len(scores) * 0.9)], scores[-1] - 0.5,
                        finite[0], finite[0] - 1.0, scores[len(scores) // 2]])
        R = (L + 31) // 32
        W = M - 1
        # every alignment of block boundaries with the sequence rows and the look-ahead rows
        block = rng.pick([1, 2, 3, 7, 16, 64, 255, 256, 257, max(1, R - 1), R, R + 1, R + W, 1000])
        cases.append(f"c17scan ? dna dna | {rng.pick(BACKENDS)} {f32_bits(r32(thr))} {block} {L} {join(syms)} {pssm_tokens((rows, None))}")
    # the documented defaults (threshold = 0.0, block_size = 256): left out by the call when the case has them
    for L, M, thr, block in [(700, 6, 0.0, 256), (9000, 4, 0.0, 256), (300, 5, 0.0, 7), (9000, 5, 2.5, 256), (100, 3, 0.0, 256)]:
        syms = rand_syms(rng, "dna", L)
        cases.append(f"c17scan ? dna dna | {rng.pick(BACKENDS)} {f32_bits(thr)} {block} {L} {join(syms)} {pssm_tokens((logodds_pssm(rng, 'dna', M), None))}")
    # block boundary inside the look-ahead rows; L < M; empty sequence
    for L, M, block in [(64, 5, 1), (100, 8, 4), (3, 6, 256), (0, 3, 256), (40, 2, 1)]:
        syms = rand_syms(rng, "dna", L)
        cases.append(f"c17scan ? dna dna | auto {f32_bits(1.0)} {block} {L} {join(syms)} {pssm_tokens((logodds_pssm(rng, 'dna', M), None))}")
    for pa, sa in [("protein", "protein"), ("dna", "protein"), ("protein", "dna")]:
        syms = rand_syms(rng, sa, 40)
        cases.append(f"c17scan ? {pa} {sa} | auto {f32_bits(0.0)} 256 40 {join(syms)} {pssm_tokens((rand_pssm(rng, pa, 3), None))}")
    # ---- ONE striped sequence object reused through calculate / scan() / Scanner() with motifs of
    #      different widths: narrow then wide (more look-ahead rows needed), wide then narrow, three and four steps
    histories = [("cs", "nw"), ("cS", "nw"), ("ss", "nw"), ("SS", "nw"), ("sS", "wn"), ("cs", "wn"), ("sc", "nw"),
                 ("sSs", "nwm"), ("csc", "nmw"), ("sScS", "nwnw"), ("Scs", "wnx")]
    for rep in range(1 if not big else 4):
        for kinds, shape in histories:
            L = rng.pick([40, 64, 100, 257, 700] + ([1500, 5000] if big else []))
            syms = rand_syms(rng, "dna", L, wild=rng.chance(1, 3))
            R = (L + 31) // 32
            steps = []
            for sh in shape:
                M = {"n": rng.range(2, 6), "m": rng.range(7, 11), "w": rng.range(12, 22), "x": rng.range(23, 30)}[sh]
                rows = logodds_pssm(rng, "dna", M, pseudo=rng.pick([0.1, 0.5, 1.0]))
                scores = sorted(bits_f32(score_def("dna", rows, syms, p)) for p in range(L - M + 1))
                finite = [x for x in scores if x > float("-inf")] or [0.0]
                thr = rng.pick([scores[int(len(scores) * 0.9)], scores[len(scores) // 2], scores[-1], finite[0] - 1.0])
                block = rng.pick([1, 3, 16, 256, max(1, R - 1), R, R + M - 1])
                steps.append(f"{f32_bits(r32(thr))} {block} {pssm_tokens((rows, None))}")
            cases.append(f"c17reuse ? {len(kinds)} {' '.join(kinds)} | {rng.pick(BACKENDS)} {L} {join(syms)} " + " ".join(steps))
    # ---- files in the four formats
    for fmt in ("jaspar", "jaspar16", "transfac", "uniprobe"):
        for rep in range(reps):
            n = rng.range(1, 4)
            recs = []
            for i in range(n):
                M = rng.range(1, 14)
                rows = rand_counts(rng, "dna", M, top=200)
                rows = [r[:4] + [0] for r in rows]
                recs.append((f"MA{rng.below(10000):04d}.{i}", rng.pick(["", "desc", "AGL3"]), rows))
            data = render_file(fmt, "dna", recs, rng)
            r = core.ask("auto", "load", "dna", f"{fmt} {hexs(data)}")
            if r in ("hang", "died"):
                out.stat("excluded/core-reader-" + r)
                continue
            cuts = boundaries(fmt, "dna", recs, rng)
            cases += load_cases(rng, fmt, 0, data, cuts)
            if rep == 0:
                # a damaged copy: the error of the core reader must surface as an ordinary exception
                k = max(i for i, ch in enumerate(data) if chr(ch).isdigit())
                for cut in (data[:k] + b"q" + data[k + 1:], data[: len(data) * 2 // 3]):
                    r = core.ask("auto", "load", "dna", f"{fmt} {hexs(cut)}")
                    if r not in ("hang", "died"):
                        cases += load_cases(rng, fmt, 0, cut, cuts)[:4]
                    else:
                        out.stat("excluded/core-reader-" + r)
        cases.append(f"c17load ? missing {hexs(fmt)} 0 0 | -")
    small = render_file("jaspar16", "dna", [("M1", "d", [[1, 2, 3, 4, 0]])], rng)
    for kind, fmt, prot in [("text", "jaspar16", 0), ("noread", "jaspar16", 0), ("binary", "foo", 0), ("binary", "", 0),
                            ("binary", "jaspar", 1), ("path", "JASPAR", 0), ("missing", "foo", 0)]:
        cases.append(f"c17load ? {kind} {hexs(fmt)} {prot} 0 | {hexs(small)}")
    prot_recs = [(f"P{i}", "", [[rng.below(9) for _ in range(20)] + [0] for _ in range(3)]) for i in (1, 2)]
    for fmt in ("jaspar16", "transfac", "uniprobe"):
        data = render_file(fmt, "protein", prot_recs, rng)
        if core.ask("auto", "load", "protein", f"{fmt} {hexs(data)}") not in ("hang", "died"):
            cases += load_cases(rng, fmt, 1, data, boundaries(fmt, "protein", prot_recs, rng))
    # ---- random stream
    count = (400 if big else 40) * cfg.boost
    for _ in range(count):
        alpha = rng.pick(["dna", "dna", "protein"])
        K = K_of(alpha)
        kind = rng.below(3)
        if kind == 0:
            L = rng.range(0, 600 if not big else 5000)
            k = rng.range(1, 6)
            specs = [(rand_pssm(rng, alpha, rng.range(1, 25), wild_inf=rng.chance(3, 4)), None) for _ in range(k)]
            cases.append(f"c17calc ? {alpha} {k} {' '.join([alpha] * k)} | {rng.pick(BACKENDS)} {f32_bits(r32((rng.f64() - 0.5) * 12))} {L} "
                         f"{join(rand_syms(rng, alpha, L))} " + " ".join(pssm_tokens(s) for s in specs))
        elif kind == 1:
            M = rng.range(1, 10)
            counts = rand_counts(rng, alpha, M)
            bg = dict_of(alpha, grid_bg(rng, alpha, rng.chance(1, 2)))
            cases.append(f"c17logodds ? {alpha} {pyarg_tokens(bg)} {f32_bits(r32(rng.pick([2.0, 10.0, math.e])))} | {M} {join(flat(counts))} "
                         + pyarg_tokens(rng.pick([("n",), ("f", f32_bits(r32(rng.f64())))])))
        else:
            M = rng.range(1, 10)
            counts = rand_counts(rng, alpha, M)
            arr = [f32_bits(r32(rng.f64() * 2)) if rng.chance(2, 3) else f32_bits(0.0) for _ in range(K)]
            cases.append(f"c17normalize ? {alpha} {pyarg_tokens(dict_of(alpha, arr))} | {M} {join(flat(counts))}")
    return [" ".join(c.split()) for c in cases]


def run(cfg, lm):
    core = common.Core()
    out = common.Out(cfg.out)
    cx = Ctx(lm, core, out)
    cases = common.replay_cases(cfg.replay) if cfg.replay else generate(cfg, core, out)
    for c in cases:
        out.announce(c)
        line, ans, orc, nontrivial, key = exec_line(cx, c)
        out.stat(key)
        t = line.split()
        obs = t[1] if not t[0] in ("c17cminit", "c17sminit") else ans.split()[0]
        if "panic" in obs or key.endswith("-panic"):
            out.panics += 1
        out.stat("outcome/" + (obs.split(":")[0].split("@")[0]))
        out.case(line, ans, orc, nontrivial)
    core.close()
    out.finish()
