//! lmv-pycore — the CORE side of the Python properties (C17, C18).
//!
//! Reads request lines on stdin, answers each with one line on stdout (flushed).  A request is
//!     <backend> <op> <alphabet> <args…>
//! backend ∈ generic | sse2 | avx2 | auto : forced through `pli::verif::force_backend` (the Python
//! module is steered to the same arm through LIGHTMOTIF_VERIF_BACKEND).  alphabet ∈ dna | protein.
//! Numbers are decimal; f32/f64 values are IEEE bit patterns in decimal; texts are hex strings
//! (`-` = empty).  The canonical answer formats are reproduced by pyharness/c17.py from the
//! objects of the Python module and compared as strings.
//!
//!   pssm spec  := <M> <M*K f32 bits, row major> <bg>       bg := u | d <K f32 bits>
//!   pseudo     := n | f <f32 bits> | d <K f32 bits>
//!   seq        := <L> <L symbol indices>
//!
//!   sf        <pssm>                          -> ok <n> <f64 bits…>
//!   create    <n> <hex text>…                 -> ok <M> | <counts> | <weights> | <scores>      | err symbol | err length
//!   normalize <M> <counts M*K> <pseudo>       -> ok <weights>
//!   logodds   <M> <counts M*K> <pseudo> <bg'> <base bits>   (bg' := n | d <K bits>)
//!                                             -> ok rescale <scores> | clone <scores>           | err background
//!   calc      <seq> <thr bits> <k> <pssm>…    -> per motif `len <n> scores <bits…> max <bits|none> argmax <i|none> thr <sorted i…>`, joined by ` ; `
//!                                                (ONE striped sequence configured and scored with the k motifs in order)
//!   pvalue    <meme|tfmpvalue> <f64 bits> <pssm>  -> ok <f64 bits>
//!   score     <meme|tfmpvalue> <f64 bits> <pssm>  -> ok <f64 bits>
//!   rc        <pssm>                          -> ok <scores>
//!   maxscore  <pssm>                          -> ok <f32 bits>
//!   scan      <seq> <thr bits> <block> <pssm> -> ok <pos>:<bits> … (sorted by position)
//!   reuse     <seq> <k> (<c|s> <thr bits> <block> <pssm>)*k   (DNA)
//!                                             -> per step the `calc` line (c) or the `scan` answer (s), joined by ` ; `
//!                                                (ONE striped sequence configured before every step, scored / scanned in order)
//!   stripe    <hex text>                      -> ok <L> <rows> <rows*32 cells, row major>      | err symbol
//!   load      <format> <hex file>             -> records joined by ` ; `, each
//!                                                `rec <hex name|~> <hex description|~> <hex id|~> <hex accession|~> <M> | <counts or ~> | <weights> | <scores>`
//!                                                or `err <io|data|parse|counts>`; a trailing `end`
//! A panic inside the core library is answered with `panic`.
use std::io::BufRead;
use std::io::Write;

use lightmotif::abc::Alphabet;
use lightmotif::abc::Background;
use lightmotif::abc::Dna;
use lightmotif::abc::Protein;
use lightmotif::abc::Pseudocounts;
use lightmotif::abc::Symbol;
use lightmotif::dense::DenseMatrix;
use lightmotif::num::Unsigned;
use lightmotif::pli::verif;
use lightmotif::pli::Pipeline;
use lightmotif::pli::Score;
use lightmotif::pwm::CountMatrix;
use lightmotif::pwm::FrequencyMatrix;
use lightmotif::pwm::ScoringMatrix;
use lightmotif::pwm::WeightMatrix;
use lightmotif::seq::EncodedSequence;
use lightmotif::seq::StripedSequence;
use lightmotif_tfmpvalue::TfmPvalue;

use generic_array::GenericArray;

struct Toks<'a> {
    t: Vec<&'a str>,
    i: usize,
}

impl<'a> Toks<'a> {
    fn next(&mut self) -> &'a str {
        let x = self.t[self.i];
        self.i += 1;
        x
    }
    fn usize(&mut self) -> usize {
        self.next().parse().unwrap()
    }
    fn f32(&mut self) -> f32 {
        f32::from_bits(self.next().parse::<u32>().unwrap())
    }
    fn f64(&mut self) -> f64 {
        f64::from_bits(self.next().parse::<u64>().unwrap())
    }
    fn text(&mut self) -> Vec<u8> {
        unhex(self.next())
    }
}

fn unhex(s: &str) -> Vec<u8> {
    if s == "-" {
        return Vec::new();
    }
    (0..s.len() / 2).map(|i| u8::from_str_radix(&s[2 * i..2 * i + 2], 16).unwrap()).collect()
}

fn hex(s: &str) -> String {
    if s.is_empty() {
        return "-".into();
    }
    s.bytes().map(|b| format!("{:02x}", b)).collect()
}

fn opt_hex(s: Option<&str>) -> String {
    match s {
        None => "~".into(),
        Some(x) => hex(x),
    }
}

fn join<T: std::fmt::Display>(xs: impl IntoIterator<Item = T>) -> String {
    let mut s = String::new();
    for (i, x) in xs.into_iter().enumerate() {
        if i > 0 {
            s.push(' ');
        }
        s.push_str(&x.to_string());
    }
    s
}

fn fmat<A: Alphabet>(m: &DenseMatrix<f32, A::K>) -> String {
    join(m.iter().flat_map(|r| r.iter().map(|x| x.to_bits()).collect::<Vec<_>>()))
}

fn umat<A: Alphabet>(m: &DenseMatrix<u32, A::K>) -> String {
    join(m.iter().flat_map(|r| r.iter().cloned().collect::<Vec<_>>()))
}

fn read_karray<A: Alphabet>(t: &mut Toks) -> GenericArray<f32, A::K> {
    (0..A::K::USIZE).map(|_| t.f32()).collect()
}

fn read_bg<A: Alphabet>(t: &mut Toks) -> Result<Background<A>, ()> {
    match t.next() {
        "u" | "n" => Ok(Background::uniform()),
        _ => Background::new(read_karray::<A>(t)).map_err(|_| ()),
    }
}

fn read_pseudo<A: Alphabet>(t: &mut Toks) -> Pseudocounts<A> {
    match t.next() {
        "n" => Pseudocounts::default(),
        "f" => Pseudocounts::from(t.f32()),
        _ => Pseudocounts::from(read_karray::<A>(t)),
    }
}

fn read_pssm<A: Alphabet>(t: &mut Toks) -> Result<ScoringMatrix<A>, ()> {
    let m = t.usize();
    let mut data = DenseMatrix::<f32, A::K>::new(m);
    for i in 0..m {
        for j in 0..A::K::USIZE {
            data[i][j] = t.f32();
        }
    }
    let bg = read_bg::<A>(t)?;
    Ok(ScoringMatrix::new(bg, data))
}

fn read_counts<A: Alphabet>(t: &mut Toks) -> CountMatrix<A> {
    let m = t.usize();
    let mut data = DenseMatrix::<u32, A::K>::new(m);
    for i in 0..m {
        for j in 0..A::K::USIZE {
            data[i][j] = t.next().parse().unwrap();
        }
    }
    CountMatrix::new(data).unwrap()
}

fn read_seq<A: Alphabet>(t: &mut Toks) -> EncodedSequence<A> {
    let l = t.usize();
    let syms = A::symbols();
    EncodedSequence::new((0..l).map(|_| syms[t.usize()]).collect())
}

fn motif_line<A: Alphabet>(counts: Option<&CountMatrix<A>>, weights: &WeightMatrix<A>, scoring: &ScoringMatrix<A>) -> String {
    format!(
        "{} | {} | {} | {}",
        weights.matrix().rows(),
        match counts {
            Some(c) => umat::<A>(c.matrix()),
            None => "~".into(),
        },
        fmat::<A>(weights.matrix()),
        fmat::<A>(scoring.matrix())
    )
}

fn from_counts<A: Alphabet>(counts: &CountMatrix<A>) -> String {
    let weights = counts.to_freq(0.0).to_weight(None);
    let scoring = weights.to_scoring();
    motif_line(Some(counts), &weights, &scoring)
}

fn from_freqs<A: Alphabet>(freqs: &FrequencyMatrix<A>) -> String {
    let weights = freqs.to_weight(None);
    let scoring = weights.to_scoring();
    motif_line::<A>(None, &weights, &scoring)
}

fn io_err(e: &lightmotif_io::error::Error) -> &'static str {
    match e {
        lightmotif_io::error::Error::InvalidData => "err data",
        lightmotif_io::error::Error::Io(_) => "err io",
        lightmotif_io::error::Error::Nom(_) => "err parse",
    }
}

/// Records up to and including the first error (a consumer stops at the first error: the readers
/// may keep yielding the same error without advancing).
fn load<A: Alphabet>(format: &str, data: Vec<u8>, is_dna: bool) -> String {
    let b = std::io::Cursor::new(data);
    let mut out: Vec<String> = Vec::new();
    match format {
        "jaspar" => {
            assert!(is_dna);
            for r in lightmotif_io::jaspar::read(b) {
                out.push(match r {
                    Err(e) => io_err(&e).to_string(),
                    Ok(rec) => {
                        let name = hex(rec.id());
                        let desc = opt_hex(rec.description());
                        let counts: CountMatrix<Dna> = rec.into();
                        format!("rec {} {} ~ ~ {}", name, desc, from_counts(&counts))
                    }
                });
                if out.last().map_or(false, |x| x.starts_with("err")) {
                    break;
                }
            }
        }
        "jaspar16" => {
            for r in lightmotif_io::jaspar16::read::<_, A>(b) {
                out.push(match r {
                    Err(e) => io_err(&e).to_string(),
                    Ok(rec) => {
                        let name = hex(rec.id());
                        let desc = opt_hex(rec.description());
                        let counts = rec.into_matrix();
                        format!("rec {} {} ~ ~ {}", name, desc, from_counts(&counts))
                    }
                });
                if out.last().map_or(false, |x| x.starts_with("err")) {
                    break;
                }
            }
        }
        "transfac" => {
            for r in lightmotif_io::transfac::read::<_, A>(b) {
                out.push(match r {
                    Err(e) => io_err(&e).to_string(),
                    Ok(rec) => match rec.to_counts() {
                        None => "err counts".to_string(),
                        Some(counts) => format!(
                            "rec {} {} {} {} {}",
                            opt_hex(rec.name()),
                            opt_hex(rec.description()),
                            opt_hex(rec.id()),
                            opt_hex(rec.accession()),
                            from_counts(&counts)
                        ),
                    },
                });
                if out.last().map_or(false, |x| x.starts_with("err")) {
                    break;
                }
            }
        }
        "uniprobe" => {
            for r in lightmotif_io::uniprobe::read::<_, A>(b) {
                out.push(match r {
                    Err(e) => io_err(&e).to_string(),
                    Ok(rec) => {
                        let name = hex(rec.id());
                        let freqs = rec.into_matrix();
                        format!("rec {} ~ ~ ~ {}", name, from_freqs(&freqs))
                    }
                });
                if out.last().map_or(false, |x| x.starts_with("err")) {
                    break;
                }
            }
        }
        _ => return "err format".into(),
    }
    out.push("end".into());
    out.join(" ; ")
}

fn scores_line(scores: &lightmotif::scores::StripedScores<f32>, thr: f32) -> String {
    let n = scores.max_index();
    let vals: Vec<u32> = (0..n).map(|i| scores[i].to_bits()).collect();
    let mx = match scores.max() {
        None => "none".to_string(),
        Some(x) => x.to_bits().to_string(),
    };
    let am = match scores.argmax() {
        None => "none".to_string(),
        Some(x) => x.to_string(),
    };
    let mut th = scores.threshold(thr);
    th.sort();
    format!("len {} scores {} max {} argmax {} thr {}", n, join(vals), mx, am, join(th))
}

fn handle<A: Alphabet>(op: &str, t: &mut Toks, is_dna: bool) -> String
where
    Pipeline<A, lightmotif::pli::dispatch::Dispatch>: Score<f32, A, lightmotif::num::U32>,
{
    match op {
        "sf" => match read_pssm::<A>(t) {
            Err(()) => "err background".into(),
            Ok(p) => {
                let d = p.to_score_distribution();
                format!("ok {} {}", d.sf().len(), join(d.sf().iter().map(|x| x.to_bits())))
            }
        },
        "create" => {
            let n = t.usize();
            let mut enc = Vec::new();
            for _ in 0..n {
                match EncodedSequence::<A>::encode(t.text()) {
                    Ok(e) => enc.push(e),
                    Err(_) => return "err symbol".into(),
                }
            }
            match CountMatrix::<A>::from_sequences(enc) {
                Err(_) => "err length".into(),
                Ok(c) => format!("ok {}", from_counts(&c)),
            }
        }
        "normalize" => {
            let c = read_counts::<A>(t);
            let p = read_pseudo::<A>(t);
            let w = c.to_freq(p).to_weight(None);
            format!("ok {}", fmat::<A>(w.matrix()))
        }
        "logodds" => {
            let c = read_counts::<A>(t);
            let p = read_pseudo::<A>(t);
            let w = c.to_freq(p).to_weight(None);
            let bg = match read_bg::<A>(t) {
                Ok(b) => b,
                Err(()) => return "err background".into(),
            };
            let base = t.f32();
            let a = w.rescale(bg).to_scoring_with_base(base);
            let b = w.clone().to_scoring_with_base(base);
            format!("ok rescale {} | clone {}", fmat::<A>(a.matrix()), fmat::<A>(b.matrix()))
        }
        "calc" => {
            let enc = read_seq::<A>(t);
            let thr = t.f32();
            let k = t.usize();
            let mut striped: StripedSequence<A> = enc.to_striped();
            let mut out = Vec::new();
            for _ in 0..k {
                let p = match read_pssm::<A>(t) {
                    Ok(p) => p,
                    Err(()) => return "err background".into(),
                };
                let pli = Pipeline::<A, _>::dispatch();
                striped.configure(&p);
                let scores = pli.score(&p, &striped);
                out.push(scores_line(&scores, thr));
            }
            out.join(" ; ")
        }
        "pvalue" | "score" => {
            let method = t.next();
            let x = t.f64();
            let p = match read_pssm::<A>(t) {
                Ok(p) => p,
                Err(()) => return "err background".into(),
            };
            let r = match (op, method) {
                ("pvalue", "meme") => p.to_score_distribution().pvalue(x as f32),
                ("pvalue", _) => TfmPvalue::new(&p).pvalue(x),
                ("score", "meme") => p.to_score_distribution().score(x) as f64,
                (_, _) => TfmPvalue::new(&p).score(x),
            };
            format!("ok {}", r.to_bits())
        }
        "maxscore" => match read_pssm::<A>(t) {
            Err(()) => "err background".into(),
            Ok(p) => format!("ok {}", p.max_score().to_bits()),
        },
        "stripe" => match EncodedSequence::<A>::encode(t.text()) {
            Err(_) => "err symbol".into(),
            Ok(e) => {
                let s: StripedSequence<A> = e.to_striped();
                let m = s.matrix();
                format!(
                    "ok {} {} {}",
                    s.len(),
                    m.rows(),
                    join(m.iter().flat_map(|r| r.iter().map(|x| x.as_index()).collect::<Vec<_>>()))
                )
            }
        },
        "load" => {
            let format = t.next().to_string();
            load::<A>(&format, t.text(), is_dna)
        }
        _ => "err op".into(),
    }
}

fn handle_dna(op: &str, t: &mut Toks) -> String {
    match op {
        "rc" => match read_pssm::<Dna>(t) {
            Err(()) => "err background".into(),
            Ok(p) => format!("ok {}", fmat::<Dna>(p.reverse_complement().matrix())),
        },
        "scan" => {
            let enc = read_seq::<Dna>(t);
            let thr = t.f32();
            let block = t.usize();
            let p = match read_pssm::<Dna>(t) {
                Ok(p) => p,
                Err(()) => return "err background".into(),
            };
            let mut striped: StripedSequence<Dna> = enc.to_striped();
            striped.configure(&p);
            let mut scanner = lightmotif::scan::Scanner::<Dna, _, _>::new(&p, &striped);
            scanner.threshold(thr);
            scanner.block_size(block);
            let mut hits: Vec<(usize, u32)> = scanner.map(|h| (h.position(), h.score().to_bits())).collect();
            hits.sort();
            format!("ok {}", join(hits.iter().map(|(p, s)| format!("{}:{}", p, s))))
        }
        "reuse" => {
            let enc = read_seq::<Dna>(t);
            let k = t.usize();
            let mut striped: StripedSequence<Dna> = enc.to_striped();
            let mut out = Vec::new();
            for _ in 0..k {
                let kind = t.next().to_string();
                let thr = t.f32();
                let block = t.usize();
                let p = match read_pssm::<Dna>(t) {
                    Ok(p) => p,
                    Err(()) => return "err background".into(),
                };
                striped.configure(&p);
                if kind == "c" {
                    let pli = Pipeline::<Dna, _>::dispatch();
                    let scores = pli.score(&p, &striped);
                    out.push(scores_line(&scores, thr));
                } else {
                    let mut scanner = lightmotif::scan::Scanner::<Dna, _, _>::new(&p, &striped);
                    scanner.threshold(thr);
                    scanner.block_size(block);
                    let mut hits: Vec<(usize, u32)> = scanner.map(|h| (h.position(), h.score().to_bits())).collect();
                    hits.sort();
                    out.push(format!("ok {}", join(hits.iter().map(|(p, s)| format!("{}:{}", p, s)))));
                }
            }
            out.join(" ; ")
        }
        _ => handle::<Dna>(op, t, true),
    }
}

fn main() {
    std::panic::set_hook(Box::new(|_| {}));
    let stdin = std::io::stdin();
    let stdout = std::io::stdout();
    for line in stdin.lock().lines() {
        let line = line.unwrap();
        let toks: Vec<&str> = line.split_whitespace().collect();
        if toks.len() < 3 {
            let mut o = stdout.lock();
            writeln!(o, "err request").unwrap();
            o.flush().unwrap();
            continue;
        }
        let backend = toks[0];
        let op = toks[1];
        let alpha = toks[2];
        let answer = std::panic::catch_unwind(std::panic::AssertUnwindSafe(|| {
            if backend == "auto" {
                verif::clear();
            } else {
                assert!(verif::force_backend(backend));
            }
            let mut t = Toks { t: toks.clone(), i: 3 };
            if alpha == "dna" {
                handle_dna(op, &mut t)
            } else {
                handle::<Protein>(op, &mut t, false)
            }
        }))
        .unwrap_or_else(|_| "panic".to_string());
        verif::clear();
        let mut o = stdout.lock();
        writeln!(o, "{}", answer).unwrap();
        o.flush().unwrap();
    }
}
