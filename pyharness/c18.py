"""pyharness/c18.py — C18: Python indexing and buffer views expose exactly the logical contents.

Case lines (the Lean driver LMV/Driver/C18.lean reads the part before the tail; the tail lets a
replay rebuild the object):

  c18idx <cls> <width> <rows> <len> <idx> <len*width values> <tail>
      cls ∈ enc | counts | weights | scoring | scores;  answer: len <n> ok <element> | len <n> IndexError | …
  c18buf <cls> <rows> <cols> <rows*cols values> <tail>
      cls ∈ enc | dist | scoring | scores;  answer: ndim … shape … strides … itemsize … format … nbytes … items … hash …
  c18sseq <K> <L> <k> <M1…Mk> <L symbols> <tail>
      answer: the view of ONE striped sequence after 0..k calls of calculate, joined by " ; "

  c18copy <how> <a c18idx | c18buf | c18sseq line>
      the same observations made on a COPY of the object: how ∈ copy (obj.copy()) | copycopy (copy.copy(obj)) |
      deepcopy (copy.deepcopy(obj)), with the suffix +used when the object was used before the copy was taken
      (enc: striped and scored; sseq: the reuse steps are scan() / Scanner() instead of calculate()).  For
      c18sseq the copy is taken after each of the 0..k steps, so both fresh and already-configured sequences
      are copied.  answer: the answer of the inner line | <exception raised by the copy operation>

  tail := <alpha: 0 dna | 1 protein> <backend: 0 auto | 1 generic | 2 sse2 | 3 avx2> <class-specific reconstruction data>

The values on the line are the LOGICAL contents, obtained independently of the access path under
test: from the constructor arguments (enc, counts, scoring), from the definition (weights =
(count / row total) / background, scores = Σ_j m[j][s[i+j]] with integer-valued matrices, exact in
f32), or from the core library (survival function).

Oracle (from the property text): obj[i] behaves like the Python list of the logical elements
(IndexError outside -len..len-1, never a panic), len(obj) is the logical length, and
memoryview(obj).tolist() is the logical nested list (`[column][row]` for striped objects) with a
matching shape / format / itemsize / nbytes.
"""
import common
from common import letters, f32_bits, bits_f32, f64_bits, r32, fnv_nats, guarded

BACKENDS = ["auto", "generic", "sse2", "avx2"]
NEG_INF = f32_bits(float("-inf"))


def K_of(alpha):
    return len(letters(alpha))


def alpha_of(tok):
    return "protein" if tok == "1" else "dna"


# ------------------------------------------------------------------ object construction
def mk_enc(lm, alpha, syms):
    return lm.EncodedSequence("".join(letters(alpha)[s] for s in syms), **common.pkw(alpha))


def mk_counts(lm, alpha, rows):
    le = letters(alpha)
    return lm.CountMatrix({le[j]: [r[j] for r in rows] for j in range(len(le))}, **common.pkw(alpha))


def mk_scoring(lm, alpha, rows_bits):
    le = letters(alpha)
    return lm.ScoringMatrix({le[j]: [bits_f32(r[j]) for r in rows_bits] for j in range(len(le))},
                            **common.pkw(alpha))


def mk_striped(lm, alpha, syms):
    return lm.stripe("".join(letters(alpha)[s] for s in syms), **common.pkw(alpha))


# ------------------------------------------------------------------ copies
COPY_HOW = None     # None: observe the object itself; else how the observed object is derived from it


class CopyRaised(Exception):
    def __init__(self, outcome, msg):
        Exception.__init__(self, outcome)
        self.outcome, self.msg = outcome, msg


def observed(obj):
    """the object the observations are made on: `obj` itself, or a copy of it taken now"""
    if COPY_HOW is None:
        return obj
    import copy as _copy
    how = COPY_HOW.split("+")[0]
    f = {"copy": lambda: obj.copy(), "copycopy": lambda: _copy.copy(obj), "deepcopy": lambda: _copy.deepcopy(obj)}[how]
    g = guarded(f)
    if g[0] != "ok":
        raise CopyRaised(g[0], g[1])
    if g[1] is obj or type(g[1]) is not type(obj):
        raise CopyRaised("not-a-copy", f"{how} returned {'the object itself' if g[1] is obj else type(g[1]).__name__}")
    return g[1]


def used_first():
    return COPY_HOW is not None and COPY_HOW.endswith("+used")


# ------------------------------------------------------------------ definitions (independent of the module)
def weights_by_definition(alpha, rows):
    """(count / row total) / uniform background, in f32 in the documented order of operations"""
    K = K_of(alpha)
    bg = [r32(1.0 / (K - 1)) if j != K - 1 else 0.0 for j in range(K)]
    out = []
    for row in rows:
        xs = [r32(float(c)) for c in row]
        s = 0.0
        for x in xs:
            s = r32(s + x)
        fr = [r32(x / s) if s != 0.0 else float("nan") for x in xs]
        out.append([f32_bits(0.0 if bg[j] == 0.0 else r32(fr[j] / bg[j])) for j in range(K)])
    return out


def stripe_cell(alpha, syms, R, r, c):
    p = c * R + r
    return syms[p] if p < len(syms) else K_of(alpha) - 1


_FLOATS = {}


def score_at(alpha, pssm_bits, syms, p):
    """Σ_j m[j][s[p+j]], the wildcard past the end of the sequence; left fold from +0.0.  The matrices of
    this module hold small integers and -inf only, so the f32 sum is exact and equals the f64 sum."""
    K = K_of(alpha)
    key = id(pssm_bits)
    fl = _FLOATS.get(key)
    if fl is None or fl[0] is not pssm_bits:
        fl = (pssm_bits, [[bits_f32(v) for v in row] for row in pssm_bits])
        _FLOATS.clear()
        _FLOATS[key] = fl
    acc = 0.0
    n = len(syms)
    for j, row in enumerate(fl[1]):
        q = p + j
        acc += row[syms[q] if q < n else K - 1]
    return f32_bits(acc)


def flat(rows):
    return [x for r in rows for x in r]


def join(xs):
    return " ".join(str(x) for x in xs)


# ------------------------------------------------------------------ observation helpers
def view_answer(mv, bits):
    """canonical description of a memoryview; `bits` maps an item to its bit pattern"""
    items = mv.tolist()
    if mv.ndim == 2:
        fl = [bits(x) for row in items for x in row]
    else:
        fl = [bits(x) for x in items]
    return (f"ndim {mv.ndim} shape {join(mv.shape)} strides {join(mv.strides)} itemsize {mv.itemsize} "
            f"format {mv.format} nbytes {mv.nbytes} items {len(fl)} hash {fnv_nats(fl)}"), items


def check_view(mv, items, logical, fmt, itemsize, bits, what):
    """oracle for one view: `logical` is the nested list the view must show"""
    if mv.format != fmt or mv.itemsize != itemsize:
        return f"{what}: item format {mv.format}/{mv.itemsize}, expected {fmt}/{itemsize}"
    if mv.ndim == 2:
        want_shape = (len(logical), len(logical[0]) if logical else None)
        if mv.shape[0] != want_shape[0] or (want_shape[1] is not None and mv.shape[1] != want_shape[1]):
            return f"{what}: shape {tuple(mv.shape)}, logical shape {want_shape}"
        n = mv.shape[0] * mv.shape[1]
        for i, (got, want) in enumerate(zip(items, logical)):
            gb, wb = [bits(x) for x in got], list(want)
            if gb != wb:
                j = next(k for k in range(max(len(gb), len(wb))) if k >= len(gb) or k >= len(wb) or gb[k] != wb[k])
                return f"{what}: element [{i}][{j}] of the view is {gb[j] if j < len(gb) else 'missing'}, logical element is {wb[j] if j < len(wb) else 'missing'}"
    else:
        if tuple(mv.shape) != (len(logical),):
            return f"{what}: shape {tuple(mv.shape)}, logical length {len(logical)}"
        n = mv.shape[0]
        gb = [bits(x) for x in items]
        if gb != list(logical):
            j = next(k for k in range(len(gb)) if gb[k] != logical[k])
            return f"{what}: element [{j}] of the view is {gb[j]}, logical element is {logical[j]}"
    if mv.nbytes != n * itemsize:
        return f"{what}: nbytes {mv.nbytes}, expected {n * itemsize}"
    g = guarded(lambda: len(mv.tobytes()))
    if g[0] != "ok" or g[1] != n * itemsize:
        return f"{what}: tobytes() gives {g[1] if g[0] == 'ok' else g[0]}, expected {n * itemsize} bytes"
    return None


def use_enc(lm, alpha, enc):
    """use an EncodedSequence the way a caller does before copying it: stripe it and score the result"""
    K = K_of(alpha)
    st = enc.stripe()
    mk_scoring(lm, alpha, [[f32_bits(1.0)] * K for _ in range(3)]).calculate(st)
    len(enc), str(enc)


# ------------------------------------------------------------------ c18idx
def exec_idx(lm, core, t):
    cls, w, rows, n, idx = t[1], int(t[2]), int(t[3]), int(t[4]), int(t[5])
    vals = [int(x) for x in t[6:6 + n * w]]
    tail = t[6 + n * w:]
    alpha, backend = alpha_of(tail[0]), BACKENDS[int(tail[1])]
    tail = tail[2:]
    logical = [vals[i * w:(i + 1) * w] for i in range(n)]
    common.set_backend(backend)
    if cls == "enc":
        obj = mk_enc(lm, alpha, vals)
        if used_first():
            use_enc(lm, alpha, obj)
        conv = lambda x: [x]
    elif cls == "counts":
        obj = mk_counts(lm, alpha, logical)
        conv = lambda x: list(x)
    elif cls == "weights":
        counts = [[int(x) for x in tail[i * w:(i + 1) * w]] for i in range(n)]
        obj = mk_counts(lm, alpha, counts).normalize()
        conv = lambda x: [f32_bits(v) for v in x]
    elif cls == "scoring":
        obj = mk_scoring(lm, alpha, logical)
        conv = lambda x: [f32_bits(v) for v in x]
    elif cls == "scores":
        M = int(tail[0])
        K = K_of(alpha)
        pssm = [[int(x) for x in tail[1 + i * K:1 + (i + 1) * K]] for i in range(M)]
        L = int(tail[1 + M * K])
        syms = [int(x) for x in tail[2 + M * K:2 + M * K + L]]
        obj = mk_scoring(lm, alpha, pssm).calculate(mk_striped(lm, alpha, syms))
        conv = lambda x: [f32_bits(x)]
    else:
        raise ValueError(cls)
    obj = observed(obj)
    gl = guarded(lambda: len(obj))
    length = gl[1] if gl[0] == "ok" else gl[0]
    g = guarded(lambda: obj[idx])
    common.set_backend("auto")
    if g[0] == "ok":
        got = conv(g[1])
        ans = f"len {length} ok {join(got)}"
    else:
        got = None
        ans = f"len {length} {g[0]}"
    # oracle: the Python list of the logical elements
    err = None
    if length != n:
        err = f"len() is {length}, logical length {n}"
    else:
        try:
            want = logical[idx]
        except IndexError:
            want = None
        if g[0] == "panic":
            err = f"{cls}[{idx}] (len {n}) raised PanicException: {g[1]}"
        elif want is None:
            ok_exc = ("IndexError",) if -2**63 <= idx < 2**63 else ("IndexError", "OverflowError")
            if g[0] not in ok_exc:
                err = f"{cls}[{idx}] (len {n}) gave {g[0]}, a Python sequence raises IndexError"
        elif g[0] != "ok":
            err = f"{cls}[{idx}] (len {n}) raised {g[0]}, a Python sequence returns element {idx % n}"
        elif got != want:
            err = f"{cls}[{idx}] (len {n}) returned {got}, element {idx % n} is {want}"
    nontrivial = n >= 1 and (idx < 0 or idx >= n)
    return ans, (err or True), nontrivial, f"idx/{cls}"


# ------------------------------------------------------------------ c18buf
def exec_buf(lm, core, t):
    cls, rows, cols = t[1], int(t[2]), int(t[3])
    vals = [int(x) for x in t[4:4 + rows * cols]]
    tail = t[4 + rows * cols:]
    alpha, backend = alpha_of(tail[0]), BACKENDS[int(tail[1])]
    tail = tail[2:]
    matrix = [vals[i * cols:(i + 1) * cols] for i in range(rows)]
    common.set_backend(backend)
    extra = None
    if cls == "enc":
        obj = mk_enc(lm, alpha, vals)
        if used_first():
            use_enc(lm, alpha, obj)
        obj = observed(obj)
        logical, fmt, size, bits = vals, "B", 1, (lambda x: x)
        elementwise = lambda: [obj[i] for i in range(len(obj))]
    elif cls == "scoring":
        obj = observed(mk_scoring(lm, alpha, matrix))
        logical, fmt, size, bits = matrix, "f", 4, f32_bits
        elementwise = lambda: [[f32_bits(x) for x in obj[i]] for i in range(len(obj))]
    elif cls in ("scores", "dist"):
        M = int(tail[0])
        K = K_of(alpha)
        pssm = [[int(x) for x in tail[1 + i * K:1 + (i + 1) * K]] for i in range(M)]
        p = mk_scoring(lm, alpha, pssm)
        if cls == "dist":
            obj = observed(p.score_distribution)
            logical, fmt, size, bits = vals, "d", 8, f64_bits
            elementwise = None
        else:
            L = int(tail[1 + M * K])
            syms = [int(x) for x in tail[2 + M * K:2 + M * K + L]]
            obj = observed(p.calculate(mk_striped(lm, alpha, syms)))
            # the view is [column][row]
            logical = [[matrix[r][c] for r in range(rows)] for c in range(cols)]
            fmt, size, bits = "f", 4, f32_bits
            R = rows
            elementwise = (lambda: [[f32_bits(obj[c * R + r]) if c * R + r < len(obj) else matrix[r][c]
                                     for r in range(R)] for c in range(cols)]) if R else None
    else:
        raise ValueError(cls)
    g = guarded(lambda: memoryview(obj))
    if g[0] != "ok":
        common.set_backend("auto")
        err = f"memoryview({cls} {rows}x{cols}) raised {g[0]}: {g[1]}"
        return g[0], err, rows >= 2, f"buf/{cls}"
    mv = g[1]
    g2 = guarded(lambda: view_answer(mv, bits))
    if g2[0] != "ok":
        common.set_backend("auto")
        return g2[0], f"reading memoryview({cls}) raised {g2[0]}: {g2[1]}", rows >= 2, f"buf/{cls}"
    ans, items = g2[1]
    err = check_view(mv, items, logical, fmt, size, bits, f"memoryview({cls} {rows}x{cols})")
    if err is None and elementwise is not None:
        # the logical contents obtained element by element through __getitem__
        e = guarded(elementwise)
        if e[0] != "ok":
            err = f"element-wise access to {cls} raised {e[0]}"
        elif e[1] != (logical if cls != "enc" else vals):
            err = f"memoryview({cls}) and element-wise access disagree"
    if err is None and mv.ndim == 2 and rows and cols:
        # direct multi-dimensional item access agrees with tolist()
        i, j = mv.shape[0] - 1, mv.shape[1] - 1
        if bits(mv[i, j]) != list(logical[i])[j]:
            err = f"memoryview({cls})[{i},{j}] differs from the logical element"
    mv.release()
    common.set_backend("auto")
    return ans, (err or True), rows >= 2, f"buf/{cls}"


# ------------------------------------------------------------------ c18sseq
def exec_sseq(lm, core, t):
    K, L, k = int(t[1]), int(t[2]), int(t[3])
    Ms = [int(x) for x in t[4:4 + k]]
    syms = [int(x) for x in t[4 + k:4 + k + L]]
    tail = t[4 + k + L:]
    alpha, backend = alpha_of(tail[0]), BACKENDS[int(tail[1])]
    assert K == K_of(alpha)
    common.set_backend(backend)
    R = (L + 31) // 32
    logical = [[stripe_cell(alpha, syms, R, r, c) for r in range(R)] for c in range(32)]
    seq = mk_striped(lm, alpha, syms)
    answers, err = [], None
    kept = []   # (scores object, its view, its logical contents): re-read after the sequence was reused

    copies = []
    what = "striped sequence" if COPY_HOW is None else f"{COPY_HOW} of a striped sequence"
    scanning = used_first() and alpha == "dna"      # the reuse steps go through scan() / Scanner()
    verb = "scan() / Scanner()" if scanning else "calculate()"

    def look(step, target=None):
        nonlocal err
        if target is None:
            target = observed(seq)        # the sequence itself, or a copy of it taken NOW (after `step` reuses)
            if target is not seq:
                copies.append(target)
        g = guarded(lambda: memoryview(target))
        if g[0] != "ok":
            answers.append(g[0])
            err = err or f"memoryview({what}, L={L}) after {step} {verb} raised {g[0]}: {g[1]}"
            return
        mv = g[1]
        a, items = view_answer(mv, lambda x: x)
        answers.append(a)
        e = check_view(mv, items, logical, "B", 1, (lambda x: x), f"memoryview({what} L={L}) after {step} {verb}")
        err = err or e
        # released before the object is reused: a view kept across calculate() may dangle (known finding)
        mv.release()

    look(0)
    rng = common.Rng(fnv_nats(syms + Ms))
    for n, M in enumerate(Ms):
        pssm = [[f32_bits(float(rng.range(0, 6)) - 3.0) for _ in range(K)] for _ in range(M)]
        if scanning:
            def scan_step():
                p = mk_scoring(lm, alpha, pssm)
                sc = lm.scan(p, seq, threshold=1.0) if n % 2 == 0 else lm.Scanner(p, seq, 1.0)
                hits = len(list(sc))
                del sc
                return hits
            g = guarded(scan_step)
            if g[0] != "ok":
                answers.append(g[0])
                err = err or f"scan() / Scanner() with a motif of {M} rows raised {g[0]}: {g[1]}"
                break
            look(n + 1)
            continue
        g = guarded(lambda: mk_scoring(lm, alpha, pssm).calculate(seq))
        if g[0] != "ok":
            answers.append(g[0])
            err = err or f"calculate() with a motif of {M} rows raised {g[0]}: {g[1]}"
            break
        sc = g[1]
        want = [[score_at(alpha, pssm, syms, c * R + r) for r in range(R)] for c in range(32)] if (L >= M and R) else None
        gv = guarded(lambda: memoryview(sc))
        if gv[0] == "ok" and want is not None:
            kept.append((sc, gv[1], want, M))
        elif gv[0] != "ok":
            err = err or f"memoryview(scores of a motif of {M} rows on L={L}) raised {gv[0]}: {gv[1]}"
        look(n + 1)
    # views of earlier score objects are unchanged by the later reuse of the sequence
    for sc, mv, want, M in kept:
        a, items = view_answer(mv, f32_bits)
        e = check_view(mv, items, want, "f", 4, f32_bits, f"memoryview(scores, motif of {M} rows, L={L}) re-read after reuse")
        err = err or e
        mv.release()
    if copies and err is None:
        # the copies are objects of their own: scoring one (with a motif wider than any before) changes
        # neither what it shows nor what the original and the other copies show
        wide = max(Ms + [1]) + 7
        pssm = [[f32_bits(1.0)] * K for _ in range(wide)]
        g = guarded(lambda: mk_scoring(lm, alpha, pssm).calculate(copies[-1]))
        if g[0] != "ok":
            err = f"calculate() on a {what} with a motif of {wide} rows raised {g[0]}: {g[1]}"
        else:
            n0 = len(answers)
            for target in [copies[-1], seq] + copies[:1]:
                look(f"{len(Ms)} (+1 on the last copy)", target)
            del answers[n0:]
    common.set_backend("auto")
    widths = [m for m in Ms if m > 0]
    nontrivial = len(widths) >= 2 and any(a < b for a, b in zip(widths, widths[1:])) and any(a > b for a, b in zip(widths, widths[1:]))
    return " ; ".join(answers), (err or True), nontrivial, "sseq"


def exec_stale(lm, core, t):
    """c18stale <observation> <K> <L> <M> <symbols> <tail>: a view exported before calculate(), read after it.
    The row storage must never move under an exported view: either the view still shows the sequence
    (`same`: no look-ahead row had to be added) or the reuse is refused with BufferError while the view is
    alive (and works again once it is released; a copy taken meanwhile is not blocked)."""
    K, L, M = int(t[2]), int(t[3]), int(t[4])
    syms = [int(x) for x in t[5:5 + L]]
    tail = t[5 + L:]
    alpha = alpha_of(tail[0])
    R = (L + 31) // 32
    seq = mk_striped(lm, alpha, syms)
    before = memoryview(seq)
    snapshot = before.tolist()
    pssm = [[f32_bits(0.0)] * K for _ in range(M)]
    g = guarded(lambda: mk_scoring(lm, alpha, pssm).calculate(seq))
    err = None
    if g[0] != "ok":
        obs = g[0]
    else:
        junk = [bytearray(b"\xAA" * max(1, R * 32)) for _ in range(64)]
        after = before.tolist()
        del junk
        obs = "same" if after == snapshot else "differs"
    if obs == "BufferError":
        # refused while exported: the view is intact, a copy is not blocked, scan() is refused like
        # calculate(), and after release() the object is usable again and scores like a fresh one
        # (with TWO more views alive and one of them released, the reuse is still refused)
        v2, v3 = memoryview(seq), memoryview(seq)
        v3.release()
        still = guarded(lambda: len(mk_scoring(lm, alpha, pssm).calculate(seq)))
        if still[0] != "BufferError":
            err = f"stale-view: calculate() with two of three views still alive gave {still[0]} (one release must not unlock the sequence)"
        v2.release()
        still = guarded(lambda: len(mk_scoring(lm, alpha, pssm).calculate(seq)))
        if still[0] != "BufferError":
            err = err or f"stale-view: calculate() with one view still alive gave {still[0]}"
        if before.tolist() != snapshot:
            err = err or "stale-view: the view changed although calculate() was refused"
        c = guarded(lambda: len(mk_scoring(lm, alpha, pssm).calculate(seq.copy())))
        if c[0] != "ok":
            err = err or f"calculate() on a copy taken while a view is exported raised {c[0]}"
        if alpha == "dna":
            sc = guarded(lambda: list(lm.scan(mk_scoring(lm, alpha, pssm), seq)))
            if sc[0] != "BufferError":
                err = err or f"scan() while a view is exported: {sc[0]} (calculate() raised BufferError)"
        before.release()
        again = guarded(lambda: [f32_bits(x) for x in mk_scoring(lm, alpha, pssm).calculate(seq)])
        fresh = guarded(lambda: [f32_bits(x) for x in mk_scoring(lm, alpha, pssm).calculate(mk_striped(lm, alpha, syms))])
        if again[0] != "ok" or again != fresh:
            err = err or f"calculate() after the view was released: {again[0]} (a fresh sequence gives {fresh[0]})"
        if memoryview(seq).tolist() != snapshot:
            err = err or "stale-view: a new view after the reuse does not show the sequence"
    else:
        before.release()
    line = " ".join(["c18stale", obs] + t[2:])
    if obs == "differs":
        err = (f"stale-view: a memoryview of a striped sequence (L={L}) exported before calculate() with a motif of {M} rows "
               "shows foreign memory after it (the row storage was reallocated under the exported pointer)")
    elif obs not in ("same", "BufferError"):
        err = f"calculate() raised {obs}"
    return line, "adm-ok", (err or True), True, "stale"


def exec_copy(lm, core, t):
    """c18copy <how> <inner line>: the observations of the inner line made on a copy of the object"""
    global COPY_HOW
    COPY_HOW = t[1]
    cls = "sseq" if t[2] == "c18sseq" else t[3]
    try:
        ans, orc, nontrivial, key = exec_line_(lm, core, t[2:])
    except CopyRaised as e:
        # which classes can be copied is the model's business; the property only forbids a panic / a non-copy
        ans = e.outcome
        orc = True if e.outcome in ("TypeError", "AttributeError") else f"{COPY_HOW} of {cls}: {e.outcome}: {e.msg}"
        nontrivial, key = False, f"{cls}"
    else:
        if cls == "sseq":
            # a copy of a sequence that already carries look-ahead rows
            nontrivial = any(int(m) >= 2 for m in t[6:6 + int(t[5])])
    finally:
        how, COPY_HOW = COPY_HOW, None
        common.set_backend("auto")
    return ans, orc, nontrivial, f"copy/{how}/{key.split('/')[-1]}"


def exec_line(lm, core, line):
    t = line.split()
    if t[0] == "c18stale":
        return exec_stale(lm, core, t)
    return (line,) + exec_line_(lm, core, t)


def exec_line_(lm, core, t):
    if t[0] == "c18idx":
        return exec_idx(lm, core, t)
    if t[0] == "c18buf":
        return exec_buf(lm, core, t)
    if t[0] == "c18sseq":
        return exec_sseq(lm, core, t)
    if t[0] == "c18copy":
        return exec_copy(lm, core, t)
    raise ValueError("unknown op " + t[0])


# ------------------------------------------------------------------ generators
def rand_syms(rng, alpha, n, wild=True):
    K = K_of(alpha)
    return [rng.below(K if wild and rng.chance(1, 8) else K - 1) for _ in range(n)]


def int_pssm(rng, alpha, M):
    """integer-valued scores (sums are exact in f32 in any order), some -inf, a finite or -inf wildcard column"""
    K = K_of(alpha)
    wild_inf = rng.chance(1, 2)
    rows = []
    for _ in range(M):
        row = [NEG_INF if rng.chance(1, 12) else f32_bits(float(rng.range(0, 16)) - 8.0) for _ in range(K - 1)]
        row.append(NEG_INF if wild_inf else f32_bits(float(rng.range(0, 4)) - 2.0))
        rows.append(row)
    return rows


def rand_f32_bits(rng):
    k = rng.below(10)
    if k == 0:
        return NEG_INF
    if k == 1:
        return f32_bits(0.0)
    if k == 2:
        return f32_bits(-0.0)
    return f32_bits(r32((rng.f64() - 0.5) * 40.0))


def tail_scores(alpha, backend, pssm, syms):
    return f"{1 if alpha == 'protein' else 0} {backend} {len(pssm)} {join(flat(pssm))} {len(syms)} {join(syms)}"


def indices(n):
    xs = list(range(-n - 2, n + 2))
    return xs


def generate(cfg, core):
    rng = common.Rng(cfg.seed)
    cases = []
    lens = [0, 1, 2, 3, 5, 8, 17, 33] if not cfg.thorough else [0, 1, 2, 3, 4, 5, 8, 16, 17, 31, 32, 33, 64, 100]
    extremes = [2**63 - 1, -2**63, 2**63, -2**63 - 1, 2**31, -2**31 - 1, 2**64 - 1, -2**64 + 1]
    for alpha in ("dna", "protein"):
        K = K_of(alpha)
        a = 1 if alpha == "protein" else 0
        for n in lens:
            # --- index streams: every index -len-2 .. len+1 on every class
            syms = rand_syms(rng, alpha, n)
            counts = [[rng.below(9) for _ in range(K)] for _ in range(n)]
            # rows whose total is a power of two make every weight exactly predictable
            wcounts = []
            for _ in range(n):
                row = [0] * K
                for _ in range(16):
                    row[rng.below(K - 1)] += 1
                wcounts.append(row)
            weights = weights_by_definition(alpha, wcounts)
            scoring = [[rand_f32_bits(rng) for _ in range(K)] for _ in range(n)]
            # scores: a sequence of L symbols and a motif of M rows with L - M + 1 = n positions
            M = rng.range(1, 6)
            L = n + M - 1 if n > 0 else rng.range(0, M - 1)
            ssyms = rand_syms(rng, alpha, L)
            pssm = int_pssm(rng, alpha, M)
            R = (L + 31) // 32
            svals = [score_at(alpha, pssm, ssyms, p) for p in range(n)]
            for idx in indices(n) + (extremes if n in (0, 3) else [rng.pick(extremes)]):
                cases.append(f"c18idx enc 1 0 {n} {idx} {join(syms)} {a} 0".replace("  ", " "))
                cases.append(f"c18idx counts {K} 0 {n} {idx} {join(flat(counts))} {a} 0".replace("  ", " "))
                cases.append(f"c18idx weights {K} 0 {n} {idx} {join(flat(weights))} {a} 0 {join(flat(wcounts))}".replace("  ", " "))
                cases.append(f"c18idx scoring {K} 0 {n} {idx} {join(flat(scoring))} {a} 0".replace("  ", " "))
                b = 1 + (idx % 3)
                cases.append(f"c18idx scores 1 {R} {n} {idx} {join(svals)} {tail_scores(alpha, b, pssm, ssyms)}".replace("  ", " "))
        # --- index stream on longer score vectors (several rows per column, look-ahead rows present)
        for L in [31, 32, 33, 64, 65, 100, 300] + ([1024, 1025, 5000] if cfg.thorough else [1025]):
            M = rng.range(1, 12)
            ssyms = rand_syms(rng, alpha, L)
            pssm = int_pssm(rng, alpha, M)
            n = L - M + 1
            R = (L + 31) // 32
            svals = [score_at(alpha, pssm, ssyms, p) for p in range(n)]
            for idx in [0, -1, n - 1, -n, n, -n - 1, R - 1, R, -R, n // 2, -(n // 2) - 1]:
                cases.append(f"c18idx scores 1 {R} {n} {idx} {join(svals)} {tail_scores(alpha, 1 + rng.below(3), pssm, ssyms)}")
        # --- buffer streams
        for n in [0, 1, 2, 5, 31, 32, 33, 100] + ([1000, 5000] if cfg.thorough else [700]):
            syms = rand_syms(rng, alpha, n)
            cases.append(f"c18buf enc {n} 1 {join(syms)} {a} 0".replace("  ", " "))
        for M in list(range(0, 18)) + [24, 31, 32, 33, 40]:
            scoring = [[rand_f32_bits(rng) for _ in range(K)] for _ in range(M)]
            cases.append(f"c18buf scoring {M} {K} {join(flat(scoring))} {a} 0".replace("  ", " "))
        for L in [0, 1, 5, 31, 32, 33, 63, 64, 65, 96, 100, 200, 1000] + ([1024, 1025, 4000, 9000] if cfg.thorough else [1025]):
            for M in sorted({1, 2, rng.range(3, 9), rng.range(10, 20)}):
                ssyms = rand_syms(rng, alpha, L)
                pssm = int_pssm(rng, alpha, M)
                R = (L + 31) // 32 if L >= M else 0
                matrix = [[score_at(alpha, pssm, ssyms, c * R + r) for c in range(32)] for r in range(R)]
                cases.append(f"c18buf scores {R} 32 {join(flat(matrix))} {tail_scores(alpha, 1 + rng.below(3), pssm, ssyms)}".replace("  ", " "))
        for M in ([1, 2, 3, 5] if alpha == "dna" else [1, 2]):
            pssm = int_pssm(rng, alpha, M)
            spec = f"{M} {join(flat(pssm))} u"
            r = core.ask("auto", "sf", alpha, spec).split()
            if r[0] != "ok":
                raise RuntimeError("core sf failed: " + " ".join(r)[:200])
            n = int(r[1])
            cases.append(f"c18buf dist {n} 1 {join(r[2:2 + n])} {a} 0 {M} {join(flat(pssm))}")
        # --- one striped sequence reused with motifs of increasing and decreasing width
        Ls = [0, 1, 5, 31, 32, 33, 64, 65, 100, 257, 1000, 1025] + ([2047, 2048, 2049, 6000] if cfg.thorough else [])
        for L in Ls:
            for rep in range(2 if not cfg.thorough else 5):
                k = rng.range(0, 6)
                Ms = [rng.pick([1, 2, 3, 5, 8, 13, 21, 33, 40]) for _ in range(k)]
                if rep == 0:
                    Ms = [2, 7, 3, 20, 1, 33][:max(k, 3)]
                syms = rand_syms(rng, alpha, L)
                cases.append(f"c18sseq {K} {L} {len(Ms)} {join(Ms)} {join(syms)} {a} {rng.below(4)}".replace("  ", " "))
    # --- random stream
    count = (1500 if cfg.thorough else 150) * cfg.boost
    for _ in range(count):
        alpha = rng.pick(["dna", "protein"])
        K = K_of(alpha)
        a = 1 if alpha == "protein" else 0
        kind = rng.below(4)
        if kind == 0:
            n = rng.range(0, 60)
            cls = rng.pick(["enc", "counts", "scoring"])
            idx = rng.range(0, 2 * n + 5) - n - 3
            if cls == "enc":
                cases.append(f"c18idx enc 1 0 {n} {idx} {join(rand_syms(rng, alpha, n))} {a} 0".replace("  ", " "))
            elif cls == "counts":
                cases.append(f"c18idx counts {K} 0 {n} {idx} {join(rng.below(1000) for _ in range(n * K))} {a} 0".replace("  ", " "))
            else:
                cases.append(f"c18idx scoring {K} 0 {n} {idx} {join(rand_f32_bits(rng) for _ in range(n * K))} {a} 0".replace("  ", " "))
        elif kind == 1:
            L = rng.range(0, 400)
            M = rng.range(1, 25)
            ssyms = rand_syms(rng, alpha, L)
            pssm = int_pssm(rng, alpha, M)
            n = max(0, L - M + 1)
            R = (L + 31) // 32
            svals = [score_at(alpha, pssm, ssyms, p) for p in range(n)]
            idx = rng.range(0, 2 * n + 5) - n - 3
            cases.append(f"c18idx scores 1 {R} {n} {idx} {join(svals)} {tail_scores(alpha, 1 + rng.below(3), pssm, ssyms)}".replace("  ", " "))
        elif kind == 2:
            L = rng.range(0, 700)
            M = rng.range(1, 30)
            ssyms = rand_syms(rng, alpha, L)
            pssm = int_pssm(rng, alpha, M)
            R = (L + 31) // 32 if L >= M else 0
            matrix = [[score_at(alpha, pssm, ssyms, c * R + r) for c in range(32)] for r in range(R)]
            cases.append(f"c18buf scores {R} 32 {join(flat(matrix))} {tail_scores(alpha, 1 + rng.below(3), pssm, ssyms)}".replace("  ", " "))
        else:
            L = rng.range(0, 1500)
            k = rng.range(0, 7)
            Ms = [rng.range(1, 45) for _ in range(k)]
            cases.append(f"c18sseq {K} {L} {k} {join(Ms)} {join(rand_syms(rng, alpha, L))} {a} {rng.below(4)}".replace("  ", " "))
    return [" ".join(c.split()) for c in cases]


def copy_stream(cfg, core):
    """the observations of the streams above on COPIES: obj.copy(), copy.copy(obj), copy.deepcopy(obj) of fresh
    objects and of objects already used for scoring / scanning (own generator: the other streams are unchanged)"""
    rng = common.Rng(cfg.seed ^ 0xC0B1)
    cases = []
    hows = ["copy", "copycopy", "copy+used", "copycopy+used"]
    for alpha in ("dna", "protein"):
        K = K_of(alpha)
        a = 1 if alpha == "protein" else 0
        # --- striped sequences: a copy after each of 0..k reuses (calculate; +used: scan() / Scanner() for DNA)
        Ls = [0, 1, 31, 33, 64, 100, 257, 1025] + ([2049, 6000] if cfg.thorough else [])
        for i, L in enumerate(Ls):
            for j in range(2 if not cfg.thorough else 4):
                how = hows[(i + j * 3 + a) % 4]
                k = rng.range(1, 5)
                Ms = [2, 15, 3, 33][:k] if j == 0 else [rng.pick([1, 2, 3, 5, 8, 13, 21, 40]) for _ in range(k)]
                syms = rand_syms(rng, alpha, L)
                cases.append(f"c18copy {how} c18sseq {K} {L} {len(Ms)} {join(Ms)} {join(syms)} {a} {rng.below(4)}")
        cases.append(f"c18copy deepcopy c18sseq {K} 40 1 5 {join(rand_syms(rng, alpha, 40))} {a} 0")
        # --- encoded sequences: view, len and every index of the copy
        for i, n in enumerate([0, 1, 5, 33, 100] + ([1000] if cfg.thorough else [])):
            syms = rand_syms(rng, alpha, n)
            for how in (hows[i % 4], hows[(i + 2) % 4]):
                cases.append(f"c18copy {how} c18buf enc {n} 1 {join(syms)} {a} 0")
                for idx in sorted({0, -1, n - 1, n, -n, -n - 1, 2**63}):
                    cases.append(f"c18copy {how} c18idx enc 1 0 {n} {idx} {join(syms)} {a} 0")
        cases.append(f"c18copy deepcopy c18buf enc 5 1 {join(rand_syms(rng, alpha, 5))} {a} 0")
        # --- the classes without copy(): the attempt is an ordinary exception
        counts = [[rng.below(9) for _ in range(K)] for _ in range(3)]
        scoring = [[rand_f32_bits(rng) for _ in range(K)] for _ in range(3)]
        pssm = int_pssm(rng, alpha, 2)
        ssyms = rand_syms(rng, alpha, 40)
        matrix = [[score_at(alpha, pssm, ssyms, c * 2 + r) for c in range(32)] for r in range(2)]
        for how in ("copy", "copycopy", "deepcopy"):
            cases.append(f"c18copy {how} c18idx counts {K} 0 3 1 {join(flat(counts))} {a} 0")
            cases.append(f"c18copy {how} c18buf scoring 3 {K} {join(flat(scoring))} {a} 0")
            cases.append(f"c18copy {how} c18buf scores 2 32 {join(flat(matrix))} {tail_scores(alpha, 1, pssm, ssyms)}")
    # --- random stream
    for _ in range((200 if cfg.thorough else 20) * cfg.boost):
        alpha = rng.pick(["dna", "dna", "protein"])
        K = K_of(alpha)
        a = 1 if alpha == "protein" else 0
        L = rng.range(0, 1500)
        k = rng.range(0, 5)
        Ms = [rng.range(1, 45) for _ in range(k)]
        cases.append(f"c18copy {rng.pick(hows)} c18sseq {K} {L} {k} {join(Ms)} {join(rand_syms(rng, alpha, L))} {a} {rng.below(4)}")
    return [" ".join(c.split()) for c in cases]


def stale_stream(cfg, out):
    """Views exported BEFORE the object is reused (the dangling-view defect, repaired in /repo 34d1e9e:
    known_findings.json `fixed`): the reuse is refused while the view is alive, or leaves the storage where
    it is.  Should the defect return, the `differs` observation reads freed memory — that IS the violation
    being reported."""
    rng = common.Rng(cfg.seed ^ 0x5157)
    cases = []
    for L, M in [(1000, 300), (8000, 4000), (64, 2), (2000, 1), (500, 33), (rng.range(1, 3000), rng.range(1, 600)), (rng.range(1, 3000), rng.range(1, 40))]:
        cases.append(f"c18stale ? 5 {L} {M} {join(rand_syms(rng, 'dna', L))} 0 0")
    return cases


def run(cfg, lm):
    core = common.Core()
    out = common.Out(cfg.out)
    cases = common.replay_cases(cfg.replay) if cfg.replay else generate(cfg, core)
    if not cfg.replay:
        cases += copy_stream(cfg, core)
        cases += stale_stream(cfg, out)
    for c in cases:
        out.announce(c)
        c, ans, orc, nontrivial, key = exec_line(lm, core, c)
        out.stat(key)
        first = ans.split(" ; ")[0].split()
        if "panic" in ans.split():
            out.panics += 1
            out.stat("outcome/panic")
        elif "IndexError" in first:
            out.stat("outcome/IndexError")
        elif "OverflowError" in first:
            out.stat("outcome/OverflowError")
        elif first and first[0] in ("TypeError", "AttributeError"):
            out.stat("outcome/" + first[0])
        else:
            out.stat("outcome/ok")
        out.case(c, ans, orc, nontrivial)
    core.close()
    out.finish()
