#!/usr/bin/env python3
"""pyharness/driver.py <token> --tier quick|thorough --seed N --out DIR [--boost K] [--replay F] [--profile P]

The implementation side of the Python properties: generates case lines, executes them against the
freshly built extension module (imported from $LMV_PYPKG), asks pyharness/core ($LMV_PYCORE) for
the results of the core library on the same data where the property compares with it, evaluates the
property oracle, and writes DIR/cases.txt, impl.txt, oracle.txt, stats.json (formats of
harness/src/out.rs).  Started by pyharness/run.sh.
"""
import os, sys

HERE = os.path.dirname(os.path.abspath(__file__))
sys.path.insert(0, HERE)
import common  # noqa: E402


class Cfg:
    thorough = False
    seed = 0
    out = "."
    replay = None
    boost = 1
    profile = "release"


def main():
    a = sys.argv[1:]
    if not a:
        print("usage: driver.py <token> --tier T --seed N --out DIR", file=sys.stderr)
        return 2
    token = a[0]
    cfg = Cfg()
    i = 1
    while i < len(a):
        k = a[i]
        if k == "--tier":
            cfg.thorough = a[i + 1] == "thorough"
        elif k == "--seed":
            cfg.seed = int(a[i + 1])
        elif k == "--out":
            cfg.out = a[i + 1]
        elif k == "--replay":
            cfg.replay = a[i + 1]
        elif k == "--boost":
            cfg.boost = int(a[i + 1])
        elif k == "--profile":
            cfg.profile = a[i + 1]
        else:
            print("unknown argument", k, file=sys.stderr)
            return 2
        i += 2
    os.makedirs(cfg.out, exist_ok=True)
    # Rust panic messages go to fd 2: keep them out of the orchestrator's log
    log = os.open(os.path.join(cfg.out, "stderr.log"), os.O_WRONLY | os.O_CREAT | os.O_TRUNC, 0o644)
    saved = os.dup(2)
    os.dup2(log, 2)
    try:
        if token == "c18":
            import c18 as mod
        elif token == "c17":
            import c17 as mod
        else:
            os.dup2(saved, 2)
            print("unknown property", token, file=sys.stderr)
            return 2
        lm = common.import_module()
        mod.run(cfg, lm)
    except BaseException:
        os.dup2(saved, 2)
        raise
    return 0


if __name__ == "__main__":
    sys.exit(main())
