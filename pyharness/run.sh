#!/bin/sh
# pyharness/run.sh <token> --tier T --seed N --out DIR --boost K [--replay F] --profile P
#
# Runner of the properties whose implementation side is the Python extension module (C17, C18).
# Same command line as lmv-harness (+ --profile); writes DIR/{cases,impl,oracle}.txt and stats.json
# in the formats of harness/src/out.rs.
#
#  1. builds lightmotif-py from $LMV_REPO (offline, features extension-module + lightmotif/verif-hooks)
#     into .build/py-target, against the CPython interpreter that will run the driver
#     ($LMV_PYTHON, default: the `python3` on PATH; pyo3 is told through PYO3_PYTHON);
#  2. installs liblightmotif_py.so as lightmotif/lib.so next to the package's *.py files in
#     .build/py-pkg-<profile>/;
#  3. builds pyharness/core (a small Rust program that answers the same requests with the CORE
#     library: the "core side" of C17 and the survival function of C18) into .build/py-core-target;
#  4. runs pyharness/driver.py with that interpreter.
set -e
HERE=$(cd "$(dirname "$0")" && pwd)
ROOT=$(dirname "$HERE")
REPO=${LMV_REPO:-/repo}
BUILD="$ROOT/.build"
PROFILE=release
prev=
for a in "$@"; do
    [ "$prev" = "--profile" ] && PROFILE="$a"
    prev="$a"
done
PY=${LMV_PYTHON:-python3}
PY=$("$PY" -c 'import sys; print(sys.executable)')
mkdir -p "$BUILD"
export CARGO_NET_OFFLINE=true RUST_BACKTRACE=0 PYO3_PYTHON="$PY"

if [ "$PROFILE" = "release" ]; then RELFLAG=--release; PDIR=release; else RELFLAG=; PDIR=debug; fi
PKG="$BUILD/py-pkg-$PROFILE"
LOG="$BUILD/py-build-$PROFILE.log"
(
    # one build at a time (C17 and C18 may be checked concurrently)
    flock 9
    if ! (cd "$REPO" && CARGO_TARGET_DIR="$BUILD/py-target" cargo build --offline $RELFLAG -p lightmotif-py \
            --features extension-module,lightmotif/verif-hooks) >"$LOG" 2>&1; then
        echo "pyharness: cargo build of lightmotif-py failed:" >&2; tail -n 30 "$LOG" >&2; exit 3
    fi
    mkdir -p "$PKG/lightmotif"
    SO="$BUILD/py-target/$PDIR/liblightmotif_py.so"
    if ! cmp -s "$SO" "$PKG/lightmotif/lib.so"; then cp "$SO" "$PKG/lightmotif/lib.so.tmp" && mv "$PKG/lightmotif/lib.so.tmp" "$PKG/lightmotif/lib.so"; fi
    for f in "$REPO"/lightmotif-py/lightmotif/*.py; do
        cmp -s "$f" "$PKG/lightmotif/$(basename "$f")" || cp "$f" "$PKG/lightmotif/"
    done
    # the core-side helper: Cargo.toml is generated (path dependencies on $REPO), sources stay in pyharness/core
    CORE="$BUILD/py-core"
    mkdir -p "$CORE"
    sed -e "s|@REPO@|$REPO|g" -e "s|@SRC@|$HERE/core|g" "$HERE/core/Cargo.toml.in" >"$CORE/Cargo.toml.new"
    cmp -s "$CORE/Cargo.toml.new" "$CORE/Cargo.toml" || mv "$CORE/Cargo.toml.new" "$CORE/Cargo.toml"
    cmp -s "$REPO/Cargo.lock" "$CORE/Cargo.lock.src" || { cp "$REPO/Cargo.lock" "$CORE/Cargo.lock"; cp "$REPO/Cargo.lock" "$CORE/Cargo.lock.src"; }
    if ! (cd "$CORE" && CARGO_TARGET_DIR="$BUILD/py-core-target" cargo build --offline $RELFLAG) >>"$LOG" 2>&1; then
        echo "pyharness: cargo build of pyharness/core failed:" >&2; tail -n 30 "$LOG" >&2; exit 3
    fi
) 9>"$BUILD/py-build.lock"

export LMV_PYPKG="$PKG" LMV_PYCORE="$BUILD/py-core-target/$PDIR/lmv-pycore" LMV_REPO="$REPO"
exec "$PY" -B "$HERE/driver.py" "$@"
