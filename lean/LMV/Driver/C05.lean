import LMV.Model.Encode
import LMV.Driver.Util

namespace LMV.Driver.C05
open LMV LMV.Encode LMV.Driver

def ops : List String := ["enc", "c05chr"]

def alphabetOf (s : String) : Alphabet := if s == "dna" then dna else protein

/-- which model a backend token selects; the public entry points (`fromstr`) go through the
    dispatcher like every other `disp-*` case -/
def runModel (A : Alphabet) (backend : String) (s : List UInt8) : Except UInt8 (List Nat) :=
  match backend with
  | "generic" => generic A s
  | "sse2" => sse2 A s
  | "avx2" => avx2 A s
  | "disp-generic" => dispatch A .generic s
  | "disp-sse2" => dispatch A .sse2 s
  | "disp-avx2" => dispatch A .avx2 s
  | _ => .error 0

def handle (toks : List String) : String :=
  match toks with
  | "c05chr" :: alpha :: cp :: _ =>
    match (alphabetOf alpha).fromChar (parseNat! cp) with
    | some a => s!"ok {a}"
    | none => "err"
  | "enc" :: alpha :: backend :: _api :: n :: rest =>
    let A := alphabetOf alpha
    let s := (rest.take (parseNat! n)).map (fun t => (parseNat! t).toUInt8)
    match runModel A backend s with
    | .error e => s!"err {e.toNat}"
    | .ok v =>
      match display A v with
      | some d => s!"ok {joinNat v} | {joinNat (d.map (·.toNat))}"
      | none => s!"ok {joinNat v} | <no-display>"
  | _ => "bad-case"

end LMV.Driver.C05
