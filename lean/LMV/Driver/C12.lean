import LMV.Driver.TfmCommon

namespace LMV.Driver.C12
open LMV LMV.Tfm LMV.Driver LMV.Driver.TfmCommon

def ops : List String := ["c12pv"]

/-- observed iterations: `<g> <pmin> <pmax> <conv>` each -/
def parseObs : Nat → List String → List (Float × Float × Float × Bool)
  | 0, _ => []
  | n + 1, g :: a :: b :: c :: t => (f64 g, f64 a, f64 b, c == "1") :: parseObs n t
  | _ + 1, _ => []

def handle (toks : List String) : String :=
  match toks with
  | "c12pv" :: rest =>
    match parse rest with
    | none => "bad-case"
    | some (inp, obs) =>
      let perm := (obs.take inp.m).map parseNat!
      match obs.drop inp.m with
      | ns :: pn :: its =>
        let n := parseNat! ns
        let seen := parseObs n its
        if !(admissiblePerm (ranges inp) perm) then "adm-bad permutation not sorted by decreasing row range"
        else
          let model := approximatePvalue (permute (rowsF inp) perm) (bgF inp) inp.q inp.maxit
          let ans := s!"adm-ok n={model.length} panic=0 g={bitsList (model.map (·.granularity))} conv={flags (model.map (·.converged))}"
          if pn != "0" then ans           -- the model never panics: the answers differ
          else if model.length != seen.length then ans
          else
            let bad := (model.zip seen).filter (fun (m, (_, a, b, _)) => !(close m.start a && close m.stop b))
            match bad with
            | [] => ans
            | (m, (g, a, b, _)) :: _ =>
              s!"adm-bad range at g={g}: implementation [{a}, {b}] model [{m.start}, {m.stop}]"
      | _ => "bad-case"
  | _ => "bad-case"

end LMV.Driver.C12
