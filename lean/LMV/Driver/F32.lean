/-
  LMV.Driver.F32 — `str::parse::<f32>` on the lexemes nom's `float` recognises, as an exact
  computation on naturals (round to nearest, ties to even), and the two f32 predicates the readers
  use (`FrequencyMatrix::new`'s row-sum test, `to_counts`' integrality test).  No proofs here: these
  are the driver's instances of the parameters `conv`, `freqOk`, `asCount` of the reader models.
-/
import LMV.Model.Mat
import LMV.Model.Nom

namespace LMV.Driver.F32
open LMV

/-- binary32 bits of the positive rational `num / den`, correctly rounded -/
def ratBits (num den : Nat) : UInt32 :=
  let est : Int := (Nat.log2 num : Int) - (Nat.log2 den : Int)
  let below : Bool := if est ≥ 0 then num < den * 2 ^ est.toNat else num * 2 ^ (-est).toNat < den
  let e2 : Int := if below then est - 1 else est
  let sub := e2 < -126
  let s : Int := if sub then 149 else 23 - e2
  let n' := if s ≥ 0 then num * 2 ^ s.toNat else num
  let d' := if s ≥ 0 then den else den * 2 ^ (-s).toNat
  let q0 := n' / d'
  let r := n' % d'
  let q := if 2 * r > d' ∨ (2 * r = d' ∧ q0 % 2 = 1) then q0 + 1 else q0
  if sub then q.toUInt32
  else
    let (q, e2) := if q = 2 ^ 24 then (2 ^ 23, e2 + 1) else (q, e2)
    if e2 > 127 then 0x7f800000
    else ((e2 + 127).toNat * 2 ^ 23 + (q - 2 ^ 23)).toUInt32

def digitsVal (ds : List UInt8) : Nat := ds.foldl (fun v b => v * 10 + (b.toNat - 48)) 0

/-- bits of `lexeme.parse::<f32>()` -/
def parseBits (lex : List UInt8) : UInt32 :=
  let low := lex.map Nom.lower
  if low == [0x6E, 0x61, 0x6E] then 0x7fc00000
  else if low == [0x69, 0x6E, 0x66] ∨ low == [0x69, 0x6E, 0x66, 0x69, 0x6E, 0x69, 0x74, 0x79] then 0x7f800000
  else
    let (neg, body) := match lex with
      | 0x2D :: r => (true, r)
      | 0x2B :: r => (false, r)
      | r => (false, r)
    let sign : UInt32 := if neg then 0x80000000 else 0
    let ip := body.takeWhile Nom.isDigit
    let r1 := body.dropWhile Nom.isDigit
    let (fp, r2) := match r1 with
      | 0x2E :: r => (r.takeWhile Nom.isDigit, r.dropWhile Nom.isDigit)
      | r => ([], r)
    let exp : Int := match r2 with
      | _ :: r =>
        let (eneg, ed) := match r with
          | 0x2D :: d => (true, d)
          | 0x2B :: d => (false, d)
          | d => (false, d)
        -- clamp absurd exponents (the value is 0 or infinite long before)
        let v : Int := if ed.length > 8 then 100000000 else digitsVal ed
        if eneg then -v else v
      | [] => 0
    let m := digitsVal (ip ++ fp)
    if m = 0 then sign
    else
      let nd : Int := (toString m).length
      let e10 : Int := exp - fp.length
      if e10 + nd > 45 then sign ||| 0x7f800000
      else if e10 + nd < -50 then sign
      else
        let bits := if e10 ≥ 0 then ratBits (m * 10 ^ e10.toNat) 1 else ratBits m (10 ^ (-e10).toNat)
        sign ||| bits

def conv (lex : List UInt8) : Option Float32 := some (Float32.ofBits (parseBits lex))

/-- `data.iter().all(|row| (row.iter().sum::<f32>() - 1.0).abs() < 0.01)` -/
def freqOk {K : Nat} (m : Mat Float32 K) : Bool :=
  m.toLists.all fun row =>
    let s := row.foldl (· + ·) (Float32.ofBits 0x80000000)
    (s - 1.0).abs < Float32.ofBits 0x3C23D70A

/-- `if x.round() != x { return None }; x.round() as u32` -/
def asCount (x : Float32) : Option Nat :=
  if x.round != x then none else some x.round.toUInt32.toNat

end LMV.Driver.F32
