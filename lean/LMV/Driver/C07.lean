import LMV.Model.Maximum
import LMV.Driver.Util

/-
  Driver of C07: see harness/src/c07.rs for the case-line format.
  `c07 <f32|u8> <backend>[+c|+e|+s<k>|+l<k>] <C> <max|argmax|threshold> <rows> <max_index> <t|-> <impl|-> <cells…>`
-/
namespace LMV.Driver.C07
open LMV LMV.Maximum LMV.Driver

def ops : List String := ["c07", "c07isa", "c07e2e"]

/-- IEEE comparisons of `f32` -/
def cmpF32 : Cmp Float32 where
  le a b := decide (a ≤ b)
  lt a b := decide (a < b)
  zero := Float32.ofBits 0
  negInf := Float32.ofBits 0xFF800000

def cmpU8 : Cmp UInt8 where
  le a b := decide (a ≤ b)
  lt a b := decide (a < b)
  zero := 0
  negInf := 0

/-! cell tokens -/

def gold : UInt64 := 0x9E3779B97F4A7C15

def mix (seed k : UInt64) : UInt64 :=
  let z := seed + (k + 1) * gold
  let z := (z ^^^ (z >>> 30)) * 0xBF58476D1CE4E5B9
  let z := (z ^^^ (z >>> 27)) * 0x94D049BB133111EB
  z ^^^ (z >>> 31)

def expandTok (acc : Array Nat) (t : String) : Array Nat :=
  if t.startsWith "g:" then
    match (t.drop 2).toString.splitOn ":" with
    | [n, seed, md, base] =>
      let n := parseNat! n
      let seed := (parseNat! seed).toUInt64
      let md := (parseNat! md).toUInt64
      let base := parseNat! base
      (List.range n).foldl (fun a k => a.push (base + (mix seed k.toUInt64 % md).toNat)) acc
    | _ => acc
  else if t.startsWith "o:" then
    match (t.drop 2).toString.splitOn ":" with
    | [i, v] => acc.setIfInBounds (parseNat! i) (parseNat! v)
    | _ => acc
  else acc.push (parseNat! t)

def expand (toks : List String) : Array Nat := toks.foldl expandTok #[]

def keyHash (keys : Array Nat) : UInt64 :=
  keys.foldl (fun h k => (h ^^^ k.toUInt64) * 0x100000001b3) 0xcbf29ce484222325

def thrAnswer (keys : List Nat) : String :=
  let a := keys.toArray.qsort (· < ·)
  if a.size > 4096 then s!"n {a.size} h {(keyHash a).toNat}"
  else if a.size = 0 then "n 0"
  else s!"n {a.size} {joinNat a.toList}"

def backendOf (s : String) : Backend :=
  if s == "sse2" || s == "disp-sse2" then .sse2
  else if s == "avx2" || s == "disp-avx2" then .avx2
  else .generic

/-- the implementation's arg-maximum, decoded to coordinates -/
def decodeArg (backend : String) (rows : Nat) (impl : String) : Option Coord :=
  if backend == "scores" then impl.toNat?.map fun p => (p, 0)
  else if backend.startsWith "disp-" then
    impl.toNat?.bind fun p => if rows = 0 then none else some (p % rows, p / rows)
  else
    match impl.splitOn ":" with
    | [r, c] => (r.toNat?).bind fun r => (c.toNat?).map fun c => (r, c)
    | _ => none

/-- admissibility of the implementation's arg-maximum against the model's: same emptiness, same
    panic, and the designated cell is inside the matrix and holds a value equivalent to the one the
    model's arg-maximum holds (any cell holding the maximum is acceptable) -/
def admissible {α : Type} (o : Cmp α) (rows C : Nat) (f : Nat → Nat → α)
    (model : Except String (Option Coord)) (backend impl : String) : String :=
  match model with
  | .error _ => if impl == "panic" then "panic" else "adm-bad model-panics"
  | .ok none => if impl == "none" then "adm-ok" else s!"adm-bad model-none impl-{impl}"
  | .ok (some m) =>
    match decodeArg backend rows impl with
    | none => s!"adm-bad model-some impl-{impl}"
    | some p =>
      if p.1 < rows ∧ p.2 < C then
        if o.le (f p.1 p.2) (f m.1 m.2) && o.le (f m.1 m.2) (f p.1 p.2) then "adm-ok"
        else s!"adm-bad cell-{p.1}:{p.2}-does-not-hold-the-value-of-model-argmax-{m.1}:{m.2}"
      else s!"adm-bad out-of-range-{p.1}:{p.2}"

def showMax {α : Type} (canon : α → Nat) : Option α → String
  | none => "none"
  | some v => s!"some {canon v}"

def showMaxE {α : Type} (canon : α → Nat) : Except String (Option α) → String
  | .error _ => "panic"
  | .ok v => showMax canon v

def canonF32 (x : Float32) : Nat :=
  let b := x.toBits.toNat
  if b = 0x80000000 then 0 else b

/-- pipelines on a `rows × C` matrix given by its cell function -/
def runPipeF32 (b : Backend) (op : String) (C rows mi : Nat) (f : Nat → Nat → Float32)
    (t : Float32) (backend impl : String) : String :=
  let o := cmpF32
  match op with
  | "max" => showMaxE canonF32 (pipeMaxF32 o b C mi rows f)
  | "argmax" => admissible o rows C f (pipeArgmaxF32 o b C mi rows f) backend impl
  | _ => thrAnswer ((thresholdGeneric o C rows f t).map fun p => p.1 * C + p.2)

def runPipeU8 (b : Backend) (op : String) (C rows : Nat) (f : Nat → Nat → UInt8)
    (t : UInt8) (backend impl : String) : String :=
  let o := cmpU8
  match op with
  | "max" => showMax (·.toNat) (pipeMaxU8 o b C rows f)
  | "argmax" => admissible o rows C f (pipeArgmaxU8 o b C rows f) backend impl
  | _ => thrAnswer ((thresholdGeneric o C rows f t).map fun p => p.1 * C + p.2)

/-- the `StripedScores` API with a forced dispatcher arm -/
def runDispF32 (arm : Backend) (op : String) (s : Striped Float32 32) (t : Float32)
    (backend impl : String) : String :=
  let o := cmpF32
  match op with
  | "max" => showMax canonF32 (s.maxF32 o arm)
  | "argmax" =>
    -- admissibility is judged on coordinates; `Striped.argmaxF32` is `offset ∘ dispArgmaxF32`
    let m := dispArgmaxF32 o arm s.maxIndex s.data.rows (s.cell o)
    match s.argmaxF32 o arm, m with
    | .ok (some p), .ok (some c) =>
      if p = s.offset c then admissible o s.data.rows 32 (s.cell o) m backend impl else "adm-bad offset"
    | _, _ => admissible o s.data.rows 32 (s.cell o) m backend impl
  | _ => thrAnswer (s.threshold o arm t)

def runDispU8 (arm : Backend) (op : String) (s : Striped UInt8 32) (t : UInt8)
    (backend impl : String) : String :=
  let o := cmpU8
  match op with
  | "max" => showMax (·.toNat) (s.maxU8 o arm)
  | "argmax" =>
    let m := dispArgmaxU8 o arm s.data.rows (s.cell o)
    match s.argmaxU8 o arm, m with
    | .ok (some p), .ok (some c) =>
      if p = s.offset c then admissible o s.data.rows 32 (s.cell o) m backend impl else "adm-bad offset"
    | _, _ => admissible o s.data.rows 32 (s.cell o) m backend impl
  | _ => thrAnswer (s.threshold o arm t)

def runScores {α : Type} (o : Cmp α) (canon : α → Nat) (op : String) (l : List α) (t : α)
    (impl : String) : String :=
  match op with
  | "max" => showMax canon (scoresMax o l)
  | "argmax" =>
    admissible o l.length 1 (fun r _ => l.getD r o.zero)
      (.ok ((scoresArgmax o l).map fun i => (i, 0))) "scores" impl
  | _ => thrAnswer (scoresThreshold o l t)

def handle (toks : List String) : String :=
  match toks with
  | "c07e2e" :: _ => "oracle-only"   -- end-to-end stream decided by the oracle; its Lean side is LMV.Props.Bridge
  | "c07" :: ty :: backend :: c :: op :: rows :: mi :: t :: impl :: cells =>
    -- `<backend>+c`, `+e`, `+s<k>`, `+l<k>`: the matrix reached the call through `clone()` / `clone_from()`
    -- into an empty / smaller / larger buffer; a copy is the same matrix, so the model is the same
    let backend := (backend.splitOn "+").headD backend
    let C := parseNat! c
    let rows := parseNat! rows
    let mi := parseNat! mi
    let raw := expand cells
    if raw.size ≠ rows * C then "bad-case cell-count" else
    let b := backendOf backend
    if ty == "f32" then
      let arr : Array Float32 := raw.map fun n => Float32.ofBits n.toUInt32
      let f := fun (r c : Nat) => arr.getD (r * C + c) (Float32.ofBits 0)
      let t := Float32.ofBits (parseNat! t).toUInt32
      if backend == "scores" then runScores cmpF32 canonF32 op arr.toList t impl
      else if backend.startsWith "disp-" then
        runDispF32 b op ⟨Mat.ofFn rows f, mi⟩ t backend impl
      else runPipeF32 b op C rows mi f t backend impl
    else
      let arr : Array UInt8 := raw.map fun n => n.toUInt8
      let f := fun (r c : Nat) => arr.getD (r * C + c) 0
      let t := (parseNat! t).toUInt8
      if backend == "scores" then runScores cmpU8 (·.toNat) op arr.toList t impl
      else if backend.startsWith "disp-" then
        runDispU8 b op ⟨Mat.ofFn rows f, mi⟩ t backend impl
      else runPipeU8 b op C rows f t backend impl
  -- ISA validation of the two rearranging intrinsics of argmax_u8_avx2
  | "c07isa" :: "unpack" :: hi :: bytes =>
    let v := (bytes.map parseNat!).toArray
    let a := fun i => v.getD i 0
    let b := fun i => v.getD (32 + i) 0
    joinNat ((List.range 32).map fun d =>
      let s := unpackEpi8Src (hi == "hi") d
      if s.1 then b s.2 else a s.2)
  | "c07isa" :: "perm" :: imm :: lanes =>
    let v := lanes.map parseNat!
    joinNat (LMV.Gen.MaxK.Src.lanes 0 16 v (.perm 0 1 (parseNat! imm)))
  | _ => "bad-case"

end LMV.Driver.C07
