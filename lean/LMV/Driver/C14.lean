import LMV.Driver.Readers

namespace LMV.Driver.C14

def ops : List String := ["c14"]

/-- full records; a consumer that stops at the first error -/
def handle (toks : List String) : String := Readers.handle true 0 toks

end LMV.Driver.C14
