/-
  LMV.Driver.C09 — line-protocol front end of the C09 models (IEEE `Float32` instance).

  Floats cross the protocol as `f32::to_bits()` in decimal; a NaN is printed as `nan` on both sides
  (sign and payload of a NaN are not observables of the property).
-/
import LMV.Model.Pwm
import LMV.Model.Abc
import LMV.Driver.Util

namespace LMV.Driver.C09
open LMV LMV.Pwm LMV.Driver

def ops : List String := ["c09seqs", "c09pipe", "c09bg", "c09fnew", "c09score", "c09cs", "c09laws"]

def alphabetOf (s : String) : Alphabet := if s == "dna" then dna else protein

def f32OfTok (t : String) : Float32 := Float32.ofBits (parseNat! t).toUInt32

def showF (x : Float32) : String := if x.isNaN then "nan" else toString x.toBits.toNat

def joinF (xs : List Float32) : String := " ".intercalate (xs.map showF)

def takeF (toks : List String) (n : Nat) : List Float32 × List String :=
  ((toks.take n).map f32OfTok, toks.drop n)

def matOfList {β : Type} (K rows : Nat) (l : List β) (d : β) : Mat β K :=
  let a := l.toArray
  Mat.ofFn rows fun i j => a.getD (i * K + j) d

def matToList {β : Type} [Inhabited β] {K : Nat} (m : Mat β K) : List β :=
  (List.range m.rows).flatMap fun i => (List.range K).map fun j => m.get i j

/-- `n` sequences, each `<len> <syms…>` -/
def takeSeqs : Nat → List String → List (List Nat) × List String
  | 0, toks => ([], toks)
  | n + 1, toks =>
    match toks with
    | [] => ([], [])
    | l :: rest =>
      let len := parseNat! l
      let (s, rest) := takeNats rest len
      let (ss, rest) := takeSeqs n rest
      (s :: ss, rest)

/-- pseudocounts: `pu <bits>` (one value for every non-default symbol) | `pa <K bits>` -/
def takePseudo (K dflt : Nat) (toks : List String) : List Float32 × List String :=
  match toks with
  | "pu" :: c :: rest => (pseudoUniform K dflt (f32OfTok c), rest)
  | "pa" :: rest => takeF rest K
  | _ => ([], [])

/-- background: `bn` (None) | `bu` (uniform) | `bw <K bits>` (`Background::new`) |
    `bc <K counts>` (`from_counts`) -/
def takeBg (K dflt : Nat) (toks : List String) : Except Unit (List Float32) × List String :=
  match toks with
  | "bn" :: rest => (.ok (bgUniform K dflt), rest)
  | "bu" :: rest => (.ok (bgUniform K dflt), rest)
  | "bw" :: rest => let (f, rest) := takeF rest K; (bgNew f, rest)
  | "bc" :: rest =>
    let (c, rest) := takeNats rest K
    (bgFromCounts K (fun j => c.getD j 0), rest)
  | _ => (.error (), [])

def showOut : Except String Float32 → String
  | .ok x => showF x
  | .error _ => "panic"

def handle (toks : List String) : String :=
  match toks with
  | "c09seqs" :: alpha :: n :: rest =>
    let A := alphabetOf alpha
    let (seqs, _) := takeSeqs (parseNat! n) rest
    match fromSequences (K := A.K) seqs with
    | .error _ => "err"
    | .ok c => s!"ok {c.n} {c.data.rows} {joinNat (matToList c.data)}"
  | "c09pipe" :: alpha :: rows :: rest =>
    let A := alphabetOf alpha
    let K := A.K
    let rows := parseNat! rows
    let (cs, rest) := takeNats rest (rows * K)
    let c := countNew (matOfList K rows cs 0)
    let (p, rest) := takePseudo K A.dflt rest
    let (bg, rest) := takeBg K A.dflt rest
    match rest with
    | [] => "bad-case"
    | base :: rest =>
    let base := f32OfTok base
    let (bg2, _) := takeBg K A.dflt rest
    match bg with
    | .error _ => "bgerr"
    | .ok bg =>
      let f : Mat Float32 K := toFreq c.data (fnOf p)
      let w := toWeight f (fnOf bg)
      let s := toScoringWithBase w base
      let s1 := intoScoring f (fnOf bg)
      let r := match bg2 with
        | .error _ => "bgerr"
        | .ok bg2 => joinF (matToList (rescale w (fnOf bg) (fnOf bg2)))
      s!"n {c.n} F {joinF (matToList f)} W {joinF (matToList w)} S {joinF (matToList s)} S1 {joinF (matToList s1)} R {r} mn {showOut (minScore s)} mx {showOut (maxScore s)}"
  | "c09bg" :: alpha :: kind :: rest =>
    let A := alphabetOf alpha
    let K := A.K
    let r : Except Unit (List Float32) :=
      match kind with
      | "new" => bgNew (takeF rest K).1
      | "counts" => let c := (takeNats rest K).1; bgFromCounts K (fun j => c.getD j 0)
      | "seq" =>
        match rest with
        | u :: l :: rest => bgFromSequence K A.dflt (takeNats rest (parseNat! l)).1 (u == "1")
        | _ => .error ()
      | "seqs" =>
        match rest with
        | u :: n :: rest => bgFromSequences K A.dflt (takeSeqs (parseNat! n) rest).1 (u == "1")
        | _ => .error ()
      | "uniform" => .ok (bgUniform K A.dflt)
      | _ => .error ()
    match r with
    | .error _ => "err"
    | .ok f => s!"ok {joinF f}"
  | "c09fnew" :: alpha :: rows :: rest =>
    let A := alphabetOf alpha
    let rows := parseNat! rows
    let (d, _) := takeF rest (rows * A.K)
    match freqNew (matOfList A.K rows d (0 : Float32)) with
    | .error _ => "err"
    | .ok _ => "ok"
  | "c09score" :: alpha :: rows :: rest =>
    let A := alphabetOf alpha
    let rows := parseNat! rows
    let (d, rest) := takeF rest (rows * A.K)
    let m : Mat Float32 A.K := matOfList A.K rows d 0
    match rest with
    | l :: rest =>
      let (s, rest) := takeNats rest (parseNat! l)
      let pos := parseNat! (rest.headD "0")
      let sa := s.toArray
      let sc := scorePosition m (fun i => sa.getD i 0) pos
      s!"mn {showOut (minScore m)} mx {showOut (maxScore m)} sc {showF sc}"
    | [] => "bad-case"
  | "c09cs" :: alpha :: l :: rest =>
    let A := alphabetOf alpha
    let (s, _) := takeNats rest (parseNat! l)
    s!"{joinNat ((List.range A.K).map (countSymbol s))} | {joinNat (countSymbols A.K s)}"
  | "c09laws" :: _ =>
    -- the laws the structural theorems name, evaluated on the IEEE instance:
    -- `2.0 == 2.0`, `log2 0.0`, `log10 0.0`, `ln 0.0` (all `-∞`), the empty `Sum`, `0.01`
    let z : Float32 := zero
    let two : Float32 := Arith.ofNat 2
    s!"{Arith.beq two two} {showF (log2 z)} {showF (log10 z)} {showF (ln z)} {showF (negInf : Float32)} {showF (sumRange 0 (fun _ => z))} {showF (hundredth : Float32)} {showF (Arith.ofNat 10 : Float32)}"
  | _ => "bad-case"

end LMV.Driver.C09
