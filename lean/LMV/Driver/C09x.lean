import LMV.Driver.Util

/-! C09, alternative entry points (`From` / `FromIterator` impls).
    mirrors: lightmotif/src/pwm/mod.rs::{From<ScoringMatrix> for WeightMatrix (2f32.powf(x)),
             From<WeightMatrix> for ScoringMatrix (= to_scoring, log2),
             FromIterator<EncodedSequence> for Result<CountMatrix, InvalidData> (= from_sequences)} -/
namespace LMV.Driver.C09x
open LMV.Driver

def ops : List String := ["c09pow", "c09collect"]

def kOf (alpha : String) : Nat := if alpha == "dna" then 5 else 21

/-- `CountMatrix::from_sequences`: the matrix takes the length of the first sequence; any sequence
    of another length is rejected; entry (i, a) counts the sequences with symbol `a` at `i` -/
def collect (K : Nat) (seqs : List (List Nat)) : Option (Nat × Nat × List Nat) :=
  match seqs with
  | [] => some (0, 0, [])
  | q :: _ =>
    if seqs.all (·.length == q.length) then
      some (seqs.length, q.length,
        (List.range q.length).flatMap fun i => (List.range K).map fun a =>
          (seqs.filter fun s => s.getD i K == a).length)
    else none

partial def readSeqs : Nat → List String → List (List Nat) → List (List Nat)
  | 0, _, acc => acc.reverse
  | n + 1, l :: rest, acc =>
    let (syms, rest') := takeNats rest (parseNat! l)
    readSeqs n rest' (syms :: acc)
  | _, [], acc => acc.reverse

def handle (toks : List String) : String :=
  match toks with
  | "c09pow" :: alpha :: rows :: rest =>
    let n := parseNat! rows * kOf alpha
    let xs := (rest.take n).map fun t => Float32.ofBits (parseNat! t).toUInt32
    let w := xs.map Float32.exp2
    let back := w.map Float32.log2
    joinNat (w.map (·.toBits.toNat)) ++ " | " ++ joinNat (back.map (·.toBits.toNat))
  | "c09collect" :: alpha :: n :: rest =>
    match collect (kOf alpha) (readSeqs (parseNat! n) rest []) with
    | none => "err"
    | some (cnt, rows, cells) => s!"ok {cnt} {rows} {joinNat cells}"
  | _ => "bad-case"

end LMV.Driver.C09x
