import LMV.Model.Discrete
import LMV.Driver.Util

/-!
  driver of C08.

  case:   c08 <dev|release> <backend> <K> <M> <K·M f32 bit patterns, row-major> <W> <L> <L symbols>
              <nq> <nq f32 bit patterns>
          backend: generic | avx2 | disp-generic | disp-sse2 | disp-avx2     (C = 32)
  answer: dm <hash of cells> [cells] | un <bits of unscale 0 1 2 127 255> | sc <scale q …>
          | score <rows> <max_index> <hash of cells> | pos <hash of score_position(i), i ≤ L−M>
          (`score panic` / `pos panic` when that part panics, `panic-discrete` when to_discrete does)
-/
namespace LMV.Driver.C08
open LMV LMV.Driver LMV.Disc

def ops : List String := ["c08"]

def f32 (s : String) : Float32 := Float32.ofBits (parseNat! s).toUInt32

def parseMat (K M : Nat) (toks : List String) : Mat Float32 K :=
  let arr := (toks.take (K * M)).toArray
  Mat.ofFn M fun i j => f32 (arr.getD (i * K + j) "0")

def cellsOf {C : Nat} (m : Mat UInt8 C) : List Nat :=
  (List.range m.rows).flatMap fun r => (List.range C).map fun c => (m.get r c).toNat

def scoreRowsBackend {K : Nat} (backend : String) (mode : AddMode) (dm : Mat UInt8 K)
    (st : Striped 32) (lo hi : Nat) : Except String (Scores 32) :=
  match backend with
  | "generic" => scoreRowsGeneric mode dm st lo hi
  | "avx2" => scoreRowsAvx2 dm st lo hi
  | "disp-avx2" => scoreRowsDispatch .avx2 mode dm st lo hi
  | "disp-sse2" => scoreRowsDispatch .sse2 mode dm st lo hi
  | _ => scoreRowsDispatch .generic mode dm st lo hi

def run (K : Nat) (profile backend : String) (M : Nat) (rest : List String) : String :=
  let p : Mat Float32 K := parseMat K M rest
  let rest := rest.drop (K * M)
  match rest with
  | w :: l :: rest =>
    let (syms, rest) := takeNats rest (parseNat! l)
    let queries := match rest with
      | nq :: qs => (qs.take (parseNat! nq)).map f32
      | [] => []
    let mode := accOf (profile == "dev")
    match toDiscrete p with
    | .error _ => "panic-discrete"
    | .ok dm =>
      let cells := cellsOf dm.data
      let dump := if cells.length ≤ 256 then " [" ++ joinNat cells ++ "]" else ""
      let un := [0, 1, 2, 127, 255].map fun b : Nat => (dm.unscale b.toUInt8).toBits.toNat
      let sc := queries.map fun q => (dm.scale q).toNat
      let st : Striped 32 := (Striped.stripeGeneric (K - 1) syms Striped.empty).configureWrap (K - 1) (parseNat! w)
      -- `score_into`: rows = matrix.rows() - wrap
      let score := match scoreRowsBackend backend mode dm.data st 0 st.seqRows with
        | .error _ => "panic"
        | .ok s => s!"{s.data.rows} {s.maxIndex} {fnvNats (cellsOf s.data)}"
      let npos := syms.length + 1 - M
      let pos := (List.range npos).foldl (fun acc i =>
          match acc with
          | none => none
          | some xs =>
            match dscorePosition mode dm.data st i with
            | .error _ => none
            | .ok v => some (v.toNat :: xs)) (some [])
      let poss := match pos with
        | none => "panic"
        | some xs => toString (fnvNats xs.reverse)
      s!"dm {fnvNats cells}{dump} | un {joinNat un} | sc {joinNat sc} | score {score} | pos {poss}"
  | _ => "bad-case"

def handle (toks : List String) : String :=
  match toks with
  | _ :: profile :: backend :: k :: m :: rest =>
    match parseNat! k with
    | 5 => run 5 profile backend (parseNat! m) rest
    | 21 => run 21 profile backend (parseNat! m) rest
    | _ => "bad-K"
  | _ => "bad-case"

end LMV.Driver.C08
