/-
  LMV.Driver.TfmCommon — parsing of the C12 / C13 case lines and the comparison of the IEEE
  instance of the mirror model (LMV.Model.Tfm at `Float`) with what the implementation did.
  No proofs here.
-/
import LMV.Model.Tfm
import LMV.Driver.Util

namespace LMV.Driver.TfmCommon
open LMV LMV.Tfm LMV.Driver

structure Input where
  m : Nat
  /-- M rows × 5 columns, f32 -/
  mat : List (List Float32)
  bg : List Float32
  q : Float
  maxit : Nat

def f32 (s : String) : Float32 := Float32.ofBits (parseNat! s).toUInt32
def f64 (s : String) : Float := Float.ofBits (parseNat! s).toUInt64

def chunk {β : Type} (n : Nat) : Nat → List β → List (List β)
  | 0, _ => []
  | k + 1, l => l.take n :: chunk n k (l.drop n)

/-- tokens after the op: `<M> <5M> <5 counts> <5 bg> <q> <maxit> | <obs…>`; returns input and obs tokens -/
def parse (toks : List String) : Option (Input × List String) :=
  match toks with
  | ms :: rest =>
    let m := parseNat! ms
    let mat := chunk 5 m ((rest.take (5 * m)).map f32)
    let rest := rest.drop (5 * m + 5)            -- skip the 5 counts (harness side only)
    let bg := (rest.take 5).map f32
    match rest.drop 5 with
    | q :: maxit :: "|" :: obs => some ({ m := m, mat := mat, bg := bg, q := f64 q, maxit := parseNat! maxit }, obs)
    | _ => none
  | [] => none

/-- the K-1 non-wildcard columns -/
def nonWild {β : Type} (r : List β) : List β := r.take 4

def rowsF (inp : Input) : List (List Float) := inp.mat.map (fun r => (nonWild r).map Float32.toFloat)
def bgF (inp : Input) : List Float := (nonWild inp.bg).map Float32.toFloat
def ranges (inp : Input) : List Float32 := inp.mat.map (fun r => rowRange32 (nonWild r))

/-- relative 1e-9: the f64 sums behind a probability are taken in hash-map order by the
    implementation and in key order by the model -/
def close (a b : Float) : Bool :=
  let d := (a - b).abs
  d ≤ 1e-9 * (if a.abs < b.abs then b.abs else a.abs) + 1e-300

def bitsList (xs : List Float) : String := ",".intercalate (xs.map (fun x => toString x.toBits.toNat))
def flags (xs : List Bool) : String := String.join (xs.map (fun b => if b then "1" else "0"))

end LMV.Driver.TfmCommon
