import LMV.Model.StripeAvx2
import LMV.Model.Abc
import LMV.Driver.Util

namespace LMV.Driver.C04
open LMV LMV.Driver

def ops : List String := ["c04", "c04isa"]

/-- observation after each op: rows, len, wrap, hash of all cells (row-major), hash of `index i`
    for all i < len, symbol counts; plus the cells themselves when there are at most 128 -/
def observe {C : Nat} (K : Nat) (st : Striped C) : String :=
  let cells := (List.range st.data.rows).flatMap fun r => (List.range C).map fun c => st.data.get r c
  let idx := (List.range st.length).map fun i =>
    match st.index i with | .ok v => v | .error _ => 999
  let counts := st.countSymbols K
  let single := (List.range K).map fun a => st.countSymbol a
  let dump := if cells.length ≤ 128 then " [" ++ joinNat cells ++ "]" else ""
  s!"{st.data.rows} {st.length} {st.wrap} {fnvNats cells} {fnvNats idx} {joinNat counts} / {joinNat single}{dump}"

def armOf (s : String) : StripeAvx2.Arm :=
  if s == "disp-avx2" then .avx2 else if s == "disp-sse2" then .sse2 else .generic

/-- run the op list on one buffer; `simd backend` is the non-generic striping function -/
partial def runOps {C : Nat} (N K : Nat) (simd : String → List Nat → Striped C → Striped C) :
    List String → Striped C → List String → List String
  | [], _, acc => acc.reverse
  | op :: rest, st, acc =>
    match op with
    | "S" | "F" =>
      match rest with
      | backend :: n :: rest' =>
        let (syms, rest'') := takeNats rest' (parseNat! n)
        let old : Striped C := if op == "F" then Striped.empty else st
        let st' : Striped C :=
          if backend == "generic" then Striped.stripeGeneric N syms old else simd backend syms old
        runOps N K simd rest'' st' (observe K st' :: acc)
      | _ => ["bad-case"]
    | "CL" =>
      -- `clone()`: a logical copy
      runOps N K simd rest st (observe K st :: acc)
    | "CF" =>
      -- `dst.clone_from(&st)`: whatever `dst` held, it is now a logical copy of `st`
      match rest with
      | n :: rest' =>
        let (_, rest'') := takeNats rest' (parseNat! n)
        runOps N K simd (rest''.drop 1) st (observe K st :: acc)
      | _ => ["bad-case"]
    | "W" =>
      match rest with
      | m :: rest' =>
        let st' := st.configureWrap N (parseNat! m)
        runOps N K simd rest' st' (observe K st' :: acc)
      | _ => ["bad-case"]
    | "G" =>
      match rest with
      | m :: rest' =>
        let st' := st.configure N (parseNat! m)
        runOps N K simd rest' st' (observe K st' :: acc)
      | _ => ["bad-case"]
    | _ => ["bad-case"]

def simd32 (N : Nat) (backend : String) (s : List Nat) (old : Striped 32) : Striped 32 :=
  if backend == "avx2" then StripeAvx2.stripe N (fun _ => 255) s old
  else StripeAvx2.dispatch N (fun _ => 255) (armOf backend) s old

/-- ISA validation: `c04isa <unpack e hi | perm imm _> <a: 32 bytes> <b: 32 bytes>` through LMV.Isa -/
def handleIsa (toks : List String) : String :=
  match toks with
  | _ :: kind :: p1 :: p2 :: rest =>
    let a := (rest.take 32).map parseNat!
    let b := ((rest.drop 32).take 32).map parseNat!
    let op : Isa.Op := if kind == "unpack" then .unpack (parseNat! p1) (parseNat! p2 == 1) else .perm (parseNat! p1)
    joinNat ((List.range 32).map fun i => Isa.apply 0 op.src (fun k => a.getD k 0) (fun k => b.getD k 0) i)
  | _ => "bad-case"

/-- `c04 <dna|protein> <C> <ops…>` -/
def handle (toks : List String) : String :=
  match toks with
  | "c04isa" :: _ => handleIsa toks
  | _ :: alpha :: c :: rest =>
    let A := if alpha == "dna" then dna else protein
    let N := A.dflt
    let K := A.K
    let out : List String :=
      match parseNat! c with
      | 1 => runOps (C := 1) N K (fun _ s o => Striped.stripeGeneric N s o) rest Striped.empty []
      | 2 => runOps (C := 2) N K (fun _ s o => Striped.stripeGeneric N s o) rest Striped.empty []
      | 4 => runOps (C := 4) N K (fun _ s o => Striped.stripeGeneric N s o) rest Striped.empty []
      | 16 => runOps (C := 16) N K (fun _ s o => Striped.stripeGeneric N s o) rest Striped.empty []
      | 32 => runOps (C := 32) N K (simd32 N) rest Striped.empty []
      | _ => ["bad-C"]
    " ; ".intercalate out
  | _ => "bad-case"

end LMV.Driver.C04
