import LMV.Model.Scanner
import LMV.Driver.Util

/-!
  driver of C02.

  case:   c02 <dev|release> <arm> <block> <threshold f32 bits> <M> <5·M f32 bit patterns> <W> <L> <L symbols> [H <h>…]
          H …: the configure history of the one striped sequence object before the final
          `configure_wrap(W)`: `w<n>` = `configure_wrap(n)`, `c<n>` / `s<n>` = `configure(&pssm')` with a
          motif of n rows (`s`: followed by a scan with that motif, which does not touch the sequence)
  answer: hits <n> <position:score-bits …, sorted by position>   or   panic
-/
namespace LMV.Driver.C02
open LMV LMV.Driver LMV.Disc LMV.Scanner

def ops : List String := ["c02"]

def f32 (s : String) : Float32 := Float32.ofBits (parseNat! s).toUInt32

def parseMat (K M : Nat) (toks : List String) : Mat Float32 K :=
  let arr := (toks.take (K * M)).toArray
  Mat.ofFn M fun i j => f32 (arr.getD (i * K + j) "0")

def armOf (s : String) : Arm :=
  if s == "avx2" then .avx2 else if s == "sse2" then .sse2 else .generic

/-- replay one entry of the configure history on the sequence model -/
def histStep (st : Striped 32) (h : String) : Striped 32 :=
  let n := parseNat! (h.drop 1).toString
  if h.startsWith "w" then st.configureWrap 4 n else st.configure 4 n

/-- the striped sequence of a case: stripe, the history (if any), then `configure_wrap(W)` -/
def stripedOf (syms : List Nat) (hist : List String) (w : Nat) : Striped 32 :=
  let st : Striped 32 := Striped.stripeGeneric 4 syms Striped.empty
  let st := match hist with
    | "H" :: hs => hs.foldl histStep st
    | _ => st
  st.configureWrap 4 w

/-- a parsed scanner case: `Scanner::new(&pssm, &striped)` (may panic in `to_discrete`) -/
structure Setup where
  k : Kernels Float32 32
  len : Nat

def setup (profile arm : String) (M : Nat) (rest : List String) : Option (Except String Setup) :=
  let p : Mat Float32 5 := parseMat 5 M rest
  match rest.drop (5 * M) with
  | w :: l :: rest =>
    let (syms, hist) := takeNats rest (parseNat! l)
    let st : Striped 32 := stripedOf syms hist (parseNat! w)
    match toDiscrete p with
    | .error e => some (.error e)
    | .ok dm => some (.ok ⟨kernels p dm st (armOf arm) (accOf (profile == "dev")), syms.length⟩)
  | _ => none

def sortHits (hs : List (Hit Float32)) : List (Nat × Nat) :=
  (hs.map fun h => (h.position, h.score.toBits.toNat)).toArray.qsort
    (fun a b => a.1 < b.1 || (a.1 == b.1 && a.2 < b.2)) |>.toList

def fmtHits (hs : List (Hit Float32)) : String :=
  String.join ((sortHits hs).map fun (p, s) => s!" {p}:{s}")

def handle (toks : List String) : String :=
  match toks with
  | _ :: profile :: arm :: block :: thr :: m :: rest =>
    match setup profile arm (parseNat! m) rest with
    | none => "bad-case"
    | some (.error _) => "panic"
    | some (.ok s) =>
      match collect s.k (f32 thr) (parseNat! block) (s.len + 2) State.init with
      | .error _ => "panic"
      | .ok hs => s!"hits {hs.length}{fmtHits hs}"
  | _ => "bad-case"

end LMV.Driver.C02
