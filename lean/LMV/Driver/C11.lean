import LMV.Model.Abc
import LMV.Model.Dist
import LMV.Driver.Util

/-
  Driver for C11 (IEEE instance of LMV.Model.Dist).

  case:   c11 <M> <n|c> <5 counts> <bg f32 bits ×5> <cells f32 bits ×5M, row major> <Q> <query>…
          query: pv <score f32 bits>            p-value of a score
                 sc <p f64 bits> <answer f32 bits>   score of a p-value, with the implementation's answer
  answer: panic
          ok <unscale(0)> <scale(unscale(0)+1)> <score(1.0)> <score(0.0)> <min_pvalue> <len> <hash of sf>
             <16 sampled sf entries> | <one answer per query: f64 bits, or adm-ok / adm-bad:<why>>
  floats are IEEE bit patterns in decimal, NaN canonicalised to `nan`.
-/
namespace LMV.Driver.C11
open LMV LMV.Dist LMV.Driver

def ops : List String := ["c11"]

def f32Cell (bits : Nat) : Option Float :=
  if bits == 0xFF800000 then none else some (Float32.ofBits bits.toUInt32).toFloat

def f32Val (bits : Nat) : Float := (Float32.ofBits bits.toUInt32).toFloat

def show64 (x : Float) : String := if x.isNaN then "nan" else toString x.toBits.toNat
def show32 (x : Float) : String := if x.isNaN then "nan" else toString x.toFloat32.toBits.toNat

def chunk (k : Nat) : Nat → List Nat → List (List Nat)
  | 0, _ => []
  | n + 1, xs => xs.take k :: chunk k n (xs.drop k)

def sfHash (sf : Array Float) : UInt64 :=
  sf.foldl (fun h x => (h ^^^ x.toBits) * 0x100000001b3) 0xcbf29ce484222325

def samples (sf : Array Float) : List String :=
  (List.range 16).map fun j => show64 (vget sf (j * (sf.size - 1) / 15))

/-- all indices `binary_search_by` may return for `p` (computed in one pass), each then certified
    with the model's own predicate -/
def candidates (d : Dist Float) (p : Float) : List Nat :=
  let n := d.sf.size
  -- first index whose entry is not `> p`; one past the last index whose entry is not `< p`
  let firstNotGt := ((List.range n).find? (fun j => !(Scalar.ltb p (vget d.sf j)))).getD n
  let afterLastNotLt := match (List.range n).reverse.find? (fun j => !(Scalar.ltb (vget d.sf j) p)) with
    | some j => j + 1
    | none => 0
  let ins := (List.range (n + 1)).filter (fun x => afterLastNotLt ≤ x && x ≤ firstNotGt)
  let eqs := (List.range n).filter (fun x => Scalar.eqb (vget d.sf x) p)
  eqs ++ ins

def answerQuery (d : Dist Float) : List String → Option (String × List String)
  | "pv" :: s :: rest => some (show64 (d.pvalue (f32Val (parseNat! s))), rest)
  | "sc" :: p :: ans :: rest =>
    let pv := Float.ofBits (parseNat! p).toUInt64
    let r :=
      match Dist.scoreBranch pv with
      | .search =>
        let cs := (candidates d pv).filter (fun x => show32 (d.score pv x) == ans)
        match cs with
        | [] => "adm-bad:no-admissible-index-gives-this-score"
        | x :: _ => if d.searchAdmissibleB pv x then "adm-ok" else "adm-bad:driver-candidate-not-admissible"
      | _ => if show32 (d.score pv 0) == ans then "adm-ok" else s!"adm-bad:expected-{show32 (d.score pv 0)}"
    some (r, rest)
  | _ => none

partial def answerQueries (d : Dist Float) (toks : List String) (acc : List String) : List String :=
  match answerQuery d toks with
  | some (r, rest) => answerQueries d rest (r :: acc)
  | none => acc.reverse

def handle (toks : List String) : String :=
  match toks with
  | "c11" :: m :: _mode :: rest0 =>
    let rest := rest0.drop 5     -- the counts (used by the harness to rebuild a `from_counts` background)
    let M := parseNat! m
    let K := dna.K
    let nums := (rest.take (K + K * M)).map parseNat!
    let bg := (nums.take K).map f32Val
    let cells := (chunk K M (nums.drop K)).map (fun row => row.map f32Cell)
    let qs := (rest.drop (K + K * M)).drop 1
    match buildDefault dna.symbols bg cells with
    | none => "panic"
    | some d =>
      let u0 := d.unscale 0
      let sfac := d.scaleScore (Scalar.addF32 u0 Scalar.one)
      let head := [show32 u0, toString sfac, show32 (d.score 1.0 0), show32 (d.score 0.0 0),
                   show64 d.minPvalue, toString d.sf.size, toString (sfHash d.sf).toNat] ++ samples d.sf
      "ok " ++ " ".intercalate head ++ " | " ++ " ".intercalate (answerQueries d qs [])
  | _ => "bad-case"

end LMV.Driver.C11
