/-
  LMV.Driver.Util — helpers of the line-protocol driver (parsing / printing).  No proofs here.
-/
namespace LMV.Driver

def joinNat (xs : List Nat) : String := " ".intercalate (xs.map toString)

def parseNat! (s : String) : Nat := s.toNat?.getD 0

/-- parse a signed decimal -/
def parseInt! (s : String) : Int :=
  if s.startsWith "-" then - Int.ofNat ((s.drop 1).toNat?.getD 0) else Int.ofNat (s.toNat?.getD 0)

def takeNats (toks : List String) (n : Nat) : List Nat × List String :=
  ((toks.take n).map parseNat!, toks.drop n)

end LMV.Driver
