/-
  LMV.Driver.Util — helpers of the line-protocol driver (parsing / printing).  No proofs here.
-/
namespace LMV.Driver

def joinNat (xs : List Nat) : String := " ".intercalate (xs.map toString)

def parseNat! (s : String) : Nat := s.toNat?.getD 0

/-- parse a signed decimal -/
def parseInt! (s : String) : Int :=
  if s.startsWith "-" then - Int.ofNat ((s.drop 1).toNat?.getD 0) else Int.ofNat (s.toNat?.getD 0)

def takeNats (toks : List String) (n : Nat) : List Nat × List String :=
  ((toks.take n).map parseNat!, toks.drop n)

/-- FNV-1a over a list of numbers, each fed as 8 little-endian bytes (same function in harness/src/out.rs) -/
def fnvNats (xs : List Nat) : UInt64 :=
  xs.foldl (fun h x =>
    (List.range 8).foldl (fun h k =>
      (h ^^^ ((x.toUInt64 >>> (8 * k).toUInt64) &&& 0xff)) * 0x100000001b3) h) 0xcbf29ce484222325

end LMV.Driver
