/-
  LMV.Driver.C10 — line-protocol front end of the reverse-complement model (DNA, `Float32`/`Nat`).
-/
import LMV.Model.Pwm
import LMV.Model.Revcomp
import LMV.Driver.C09

namespace LMV.Driver.C10
open LMV LMV.Pwm LMV.Revcomp LMV.Driver LMV.Driver.C09

def ops : List String := ["c10rc", "c10rcf", "c10comm", "c10mirror"]

abbrev K : Nat := dna.K

def rcF (m : Mat Float32 K) : Mat Float32 K := rc dna (0 : Float32) m
def rcN (m : Mat Nat K) : Mat Nat K := rc dna 0 m

def showM (m : Mat Float32 K) : String := joinF (matToList m)

def handle (toks : List String) : String :=
  match toks with
  | "c10rc" :: "c" :: rows :: rest =>
    let rows := parseNat! rows
    let (cs, _) := takeNats rest (rows * K)
    let c := countNew (matOfList K rows cs 0)
    let r := rcN c.data
    s!"n {c.n} {joinNat (matToList r)} | {joinNat (matToList (rcN r))}"
  | "c10rc" :: "s" :: rows :: rest =>
    let rows := parseNat! rows
    let (d, _) := takeF rest (rows * K)
    let r := rcF (matOfList K rows d 0)
    s!"{showM r} | {showM (rcF r)}"
  | "c10rcf" :: rows :: rest =>
    let rows := parseNat! rows
    let (cs, rest) := takeNats rest (rows * K)
    let c := countNew (matOfList K rows cs 0)
    let (p, rest) := takePseudo K dna.dflt rest
    let (bg, _) := takeBg K dna.dflt rest
    match bg with
    | .error _ => "bgerr"
    | .ok bg =>
      let f : Mat Float32 K := toFreq c.data (fnOf p)
      let w := toWeight f (fnOf bg)
      let rf := rcF f
      let rw := rcF w
      s!"F {showM rf} | {showM (rcF rf)} W {showM rw} | {showM (rcF rw)}"
  | "c10comm" :: rows :: rest =>
    let rows := parseNat! rows
    let (cs, rest) := takeNats rest (rows * K)
    let c := countNew (matOfList K rows cs 0)
    let (p, rest) := takePseudo K dna.dflt rest
    let (bg, rest) := takeBg K dna.dflt rest
    let base := f32OfTok (rest.headD "0")
    match bg with
    | .error _ => "bgerr"
    | .ok bg =>
      let p := fnOf p
      let bg := fnOf bg
      let f : Mat Float32 K := toFreq c.data p
      let w := toWeight f bg
      let a1 : Mat Float32 K := toFreq (rcN c.data) p
      let b1 := rcF f
      let a2 := toWeight (rcF f) bg
      let b2 := rcF w
      let a3 := toScoringWithBase (rcF w) base
      let b3 := rcF (toScoringWithBase w base)
      let a4 := intoScoring (rcF f) bg
      let b4 := rcF (intoScoring f bg)
      let a5 := toScoringWithBase (toWeight a1 bg) base
      let b5 := b3
      s!"A1 {showM a1} B1 {showM b1} A2 {showM a2} B2 {showM b2} A3 {showM a3} B3 {showM b3} A4 {showM a4} B4 {showM b4} A5 {showM a5} B5 {showM b5}"
  | "c10mirror" :: rows :: rest =>
    let rows := parseNat! rows
    let (d, rest) := takeF rest (rows * K)
    let m : Mat Float32 K := matOfList K rows d 0
    match rest with
    | l :: rest =>
      let len := parseNat! l
      let (s, rest) := takeNats rest len
      let i := parseNat! (rest.headD "0")
      let sa := s.toArray
      let ra := (rcSeq dna s).toArray
      let x := scorePosition m (fun k => sa.getD k 0) i
      let y := scorePosition (rcF m) (fun k => ra.getD k 0) (len - rows - i)
      s!"{showF x} {showF y}"
    | [] => "bad-case"
  | _ => "bad-case"

end LMV.Driver.C10
