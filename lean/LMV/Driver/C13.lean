import LMV.Driver.TfmCommon

namespace LMV.Driver.C13
open LMV LMV.Tfm LMV.Driver LMV.Driver.TfmCommon

def ops : List String := ["c13sc"]

/-- observed iterations: `<g> <score> <range.start> <range.end> <conv>` each -/
def parseObs : Nat → List String → List (Float × Float × Float × Float × Bool)
  | 0, _ => []
  | n + 1, g :: s :: a :: b :: c :: t => (f64 g, f64 s, f64 a, f64 b, c == "1") :: parseObs n t
  | _ + 1, _ => []

def handle (toks : List String) : String :=
  match toks with
  | "c13sc" :: rest =>
    match parse rest with
    | none => "bad-case"
    | some (inp, obs) =>
      let perm := (obs.take inp.m).map parseNat!
      match obs.drop inp.m with
      | ns :: pn :: its =>
        let n := parseNat! ns
        let seen := parseObs n its
        if !(admissiblePerm (ranges inp) perm) then "adm-bad permutation not sorted by decreasing row range"
        else
          let (model, panicked) := approximateScore (permute (rowsF inp) perm) (bgF inp) inp.q inp.maxit
          let ans := s!"adm-ok n={model.length} panic={if panicked then 1 else 0} g={bitsList (model.map (·.granularity))} score={bitsList (model.map (·.score))} conv={flags (model.map (·.converged))}"
          if model.length != seen.length || (pn == "1") != panicked then ans
          else
            let bad := (model.zip seen).filter (fun (m, (_, _, a, b, _)) => !(close m.start a && close m.stop b))
            match bad with
            | [] => ans
            | (m, (g, _, a, b, _)) :: _ =>
              s!"adm-bad range at g={g}: implementation [{a}, {b}] model [{m.start}, {m.stop}]"
      | _ => "bad-case"
  | _ => "bad-case"

end LMV.Driver.C13
