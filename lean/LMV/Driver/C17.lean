import LMV.Model.PyApi
import LMV.Driver.Util

/-
  Driver of C17 (Python results equal the core library).  Case lines are written by pyharness/c17.py;
  everything after a `|` token is reconstruction data for the harness and ignored here.

  Entry points that return a composition of core operations are compared through admissibility: the
  harness evaluates a menu of candidate compositions with the CORE library on the same data and puts
  on the case line which of them reproduce the value Python returned (`ok:<label>,<label>…`, a label
  being the operations of the composition in evaluation order), or the exception raised.  The model
  answers `adm-ok` when its own composition is among them / it predicts that exception.

    pyarg := n | f <bits> | o | d <k> (<key hex | - | #> <value bits | #>)*

    c17normalize <obs> <alpha> <pyarg>
    c17logodds   <obs> <alpha> <pyarg> <base bits>
    c17calc      <obs> <seq alpha> <k> <pssm alpha>*k            obs = ok:chain… | <exception>@<step>
    c17pvalue    <obs> <alpha> <pvalue|score|maxscore> <method hex>
    c17rc        <obs> <alpha>
    c17scan      <obs> <pssm alpha> <seq alpha>
    c17reuse     <obs> <k> <c | s | S>*k        ONE striped sequence (DNA) used by k steps in order:
                                                calculate / scan() / Scanner();  obs = ok:chain… | <exception>@<step>
    c17create    <obs> <alpha> <n> <item hex | - | #>*n
    c17stripe    <obs> <alpha> <text hex | ->
    c17load      <init obs> <file kind> <format hex> <protein 0|1> <n> (<record kind> <record obs>)*n
                 file kind := path | missing | binary | chunked | boundary | greedy | latetype | lateraise | lateos | text | bytearray | memoryview | noread
    c17cminit    <alpha> <column>*K        column := - | # | <n> <int | x>*n       (exact answer)
    c17sminit    <alpha> <pyarg> <column>*K     column := - | # | <n> <bits | x>*n  (exact answer)
-/
namespace LMV.Driver.C17
open LMV LMV.PyApi LMV.Driver

def ops : List String :=
  ["c17normalize", "c17logodds", "c17calc", "c17pvalue", "c17rc", "c17scan", "c17reuse", "c17create", "c17stripe",
   "c17load", "c17cminit", "c17sminit"]

def tagOf (s : String) : Tag := if s == "protein" then .protein else .dna
def alphaOf (s : String) : Alphabet := tagAlphabet (tagOf s)

def hexVal (c : Char) : Nat :=
  if c.isDigit then c.toNat - '0'.toNat else if 'a' ≤ c ∧ c ≤ 'f' then c.toNat - 'a'.toNat + 10 else 0

def unhex (s : String) : List UInt8 :=
  if s == "-" then [] else
  let rec go : List Char → List UInt8
    | a :: b :: rest => (hexVal a * 16 + hexVal b).toUInt8 :: go rest
    | _ => []
  go s.toList

def unhexStr (s : String) : String := String.ofList ((unhex s).map fun b => Char.ofNat b.toNat)

/-- parse a pyarg; returns the argument and the remaining tokens -/
def parsePyArg : List String → PyArg × List String
  | "n" :: rest => (.none, rest)
  | "f" :: b :: rest => (.float (parseNat! b), rest)
  | "o" :: rest => (.other, rest)
  | "d" :: k :: rest =>
    let k := parseNat! k
    let rec entries : Nat → List String → List DictEntry → List DictEntry × List String
      | 0, toks, acc => (acc.reverse, toks)
      | n + 1, key :: val :: toks, acc =>
        let e : DictEntry := { key := if key == "#" then none else some (unhex key),
                               val := if val == "#" then none else some (parseNat! val) }
        entries n toks (e :: acc)
      | _, toks, acc => (acc.reverse, toks)
    let (es, rest') := entries k rest []
    (.dict es, rest')
  | rest => (.other, rest)

/-- operations of a term in evaluation order, first occurrences only, joined by `.` -/
def label (t : Term) : String :=
  let ops := t.ops.foldl (fun acc op => if acc.contains op then acc else acc ++ [op]) []
  ".".intercalate (ops.map fun op => ((reprStr op).splitOn ".").getLast!)

/-- is the model's prediction consistent with the observation? -/
def admissible (obs : String) (r : Res) : String :=
  match r with
  | .error e => if obs == e.name then "adm-ok" else s!"adm-bad model raises {e.name}, observed {obs}"
  | .ok t =>
    let l := label t
    if obs.startsWith "ok:" then
      if (((obs.drop 3).toString).splitOn ",").contains l then "adm-ok"
      else s!"adm-bad model composition {l}, observed {obs}"
    else s!"adm-bad model composition {l}, observed {obs}"

def showRows (r : Except Exc Rows) : String :=
  match r with
  | .error e => e.name
  | .ok m => if m.flatten.isEmpty then s!"ok {m.length}" else s!"ok {m.length} {joinNat m.flatten}"

/-- parse `K` columns of a count / scoring dictionary -/
def parseColumns (isInt : Bool) : Nat → List String → List (Option (Option (List (Option Int)))) → List (Option (Option (List (Option Int))))
  | 0, _, acc => acc.reverse
  | k + 1, "-" :: rest, acc => parseColumns isInt k rest (none :: acc)
  | k + 1, "#" :: rest, acc => parseColumns isInt k rest (some none :: acc)
  | k + 1, n :: rest, acc =>
    let n := parseNat! n
    let ents := (rest.take n).map fun t => if t == "x" then none else some (parseInt! t)
    parseColumns isInt k (rest.drop n) (some (some ents) :: acc)
  | _, [], acc => acc.reverse

/-- a reuse history of ONE Python `StripedSequence` (DNA): every step is `ScoringMatrix.calculate`
    (`c`) or `Scanner.__init__` (`s`: through `scan()`, `S`: the class), and leaves the sequence
    configured for its motif.  Returns the value term of every step (scores / scanner), or the
    exception and the step that raises it. -/
def reuseAll (seq : Term) : List (String × Term) → Nat → Except (Exc × Nat) (List Term)
  | [], _ => .ok []
  | (kind, pssm) :: rest, i =>
    let step : Except Exc (Term × Term) :=
      if kind == "c" then calculate .dna .dna pssm seq
      else (scannerInit .dna .dna pssm seq 0 0).map fun t => (t, Term.app2 .configure seq pssm)
    match step with
    | .error e => .error (e, i)
    | .ok (v, seq') =>
      match reuseAll seq' rest (i + 1) with
      | .error e => .error e
      | .ok vs => .ok (v :: vs)

def handle (toks : List String) : String :=
  match toks with
  | "c17normalize" :: obs :: alpha :: rest =>
    let (arg, _) := parsePyArg rest
    admissible obs (normalize (alphaOf alpha) (.arg "self") arg)
  | "c17logodds" :: obs :: alpha :: rest =>
    let A := alphaOf alpha
    let (arg, rest') := parsePyArg rest
    admissible obs (logOdds ieee A (.arg "self") (uniformBits A) arg (parseNat! (rest'.headD "0")))
  | "c17calc" :: obs :: seqAlpha :: k :: rest =>
    let motifs := ((rest.take (parseNat! k)).zip (List.range (parseNat! k))).map fun (a, i) =>
      (tagOf a, Term.arg s!"pssm{i}")
    -- the first motif whose alphabet differs stops the history with ValueError
    let rec firstBad (seqTag : Tag) : List (Tag × Term) → Nat → Option Nat
      | [], _ => none
      | (t, _) :: rest, i => if t = seqTag then firstBad seqTag rest (i + 1) else some i
    (match calculateAll (tagOf seqAlpha) (.arg "sequence") motifs, firstBad (tagOf seqAlpha) motifs 0 with
     | .ok (scores, _), _ =>
       -- every score term is `score(pssm_i, configure(… configure(sequence, pssm_0) …, pssm_i))`
       let chained := (scores.zip (List.range scores.length)).all fun (t, i) =>
         (t.ops.filter (· == Op.configure)).length == i + 1 && t.ops.getLast? == some Op.score
       if obs.startsWith "ok:" && (((obs.drop 3).toString).splitOn ",").contains "chain" && chained then "adm-ok"
       else s!"adm-bad model: {scores.length} chained scorings, observed {obs}"
     | .error e, some i =>
       if obs == s!"{e.name}@{i}" then "adm-ok" else s!"adm-bad model raises {e.name} at motif {i}, observed {obs}"
     | .error e, none => s!"adm-bad model raises {e.name}, observed {obs}")
  | "c17pvalue" :: obs :: _alpha :: which :: method :: _ =>
    let m := unhexStr method
    if which == "pvalue" then admissible obs (pvalue (.arg "self") 0 m)
    else if which == "score" then admissible obs (scoreOf (.arg "self") 0 m)
    else admissible obs (.ok (maxScore (.arg "self")))
  | "c17rc" :: obs :: alpha :: _ => admissible obs (reverseComplement (tagOf alpha) (.arg "self"))
  | "c17scan" :: obs :: pa :: sa :: _ =>
    admissible obs (scannerInit (tagOf pa) (tagOf sa) (.arg "pssm") (.arg "sequence") 0 0)
  | "c17reuse" :: obs :: k :: rest =>
    let steps := ((rest.take (parseNat! k)).zip (List.range (parseNat! k))).map fun (kind, i) =>
      (kind, Term.arg s!"pssm{i}")
    (match reuseAll (.arg "sequence") steps 0 with
     | .ok vals =>
       -- step i runs on `configure(… configure(sequence, pssm_0) …, pssm_i)`: i + 1 configurations, the
       -- last one with the motif of the step itself
       let chained := (vals.zip (List.range vals.length)).all fun (t, i) =>
         (t.ops.filter (· == Op.configure)).length == i + 1
       if obs.startsWith "ok:" && (((obs.drop 3).toString).splitOn ",").contains "chain" && chained then "adm-ok"
       else s!"adm-bad model: {vals.length} steps, each configuring the sequence for its motif; observed {obs}"
     | .error (e, i) =>
       if obs == s!"{e.name}@{i}" then "adm-ok" else s!"adm-bad model raises {e.name} at step {i}, observed {obs}")
  | "c17create" :: obs :: alpha :: n :: rest =>
    let items := (rest.take (parseNat! n)).map fun t => if t == "#" then none else some (unhex t)
    admissible obs (create (tagOf alpha) items)
  | "c17stripe" :: obs :: alpha :: text :: _ => admissible obs (stripe (tagOf alpha) (unhex text))
  | "c17load" :: obs :: kind :: format :: prot :: n :: rest =>
    let file : FileArg := match kind with
      | "path" => .path true | "missing" => .path false | "text" => .text
      -- file-like objects that are not io classes: `read(0)` returns `bytes` (whatever the size of the
      -- chunks later reads return) / returns `bytearray`, `memoryview` (not `bytes`: refused like text)
      | "binary" | "chunked" | "boundary" | "greedy" => .binary
      | "bytearray" | "memoryview" => .text
      -- `read(0)` returns `bytes`; later reads return a `bytearray` / raise RuntimeError / raise OSError(errno)
      | "latetype" => .lateBad .typeError | "lateraise" => .lateBad .runtimeError | "lateos" => .lateBad .osError
      | _ => .noRead
    let fmt := unhexStr format
    let first := admissible obs (loaderInit file fmt (prot == "1"))
    let rec recs : Nat → List String → List String → List String
      | 0, _, acc => acc.reverse
      | k + 1, kind :: o :: toks, acc =>
        let r : RecordResult := match kind with
          | "io" => .errIo | "pytype" => .errPy .typeError | "pyraise" => .errPy .runtimeError | "data" => .errData | "parse" => .errParse | "nocounts" => .ok false | _ => .ok true
        recs k toks (admissible o (convertRecord fmt r) :: acc)
      | _, _, acc => acc.reverse
    let all := first :: recs (parseNat! n) rest []
    match all.find? (· != "adm-ok") with
    | none => "adm-ok"
    | some bad => bad
  | "c17cminit" :: alpha :: rest =>
    let A := alphaOf alpha
    showRows (countMatrixInit A (parseColumns true A.K rest []))
  | "c17sminit" :: alpha :: rest =>
    let A := alphaOf alpha
    let (bg, rest') := parsePyArg rest
    let cols := (parseColumns false A.K rest' []).map fun c =>
      c.map fun c' => c'.map fun ents => ents.map fun e => e.map Int.toNat
    showRows ((scoringMatrixInit ieee A cols bg).map (·.2))
  | _ => "bad-case"

end LMV.Driver.C17
