import LMV.Driver.Readers

namespace LMV.Driver.C15

def ops : List String := ["c15"]

/-- outcome class per call; two more calls after the first error -/
def handle (toks : List String) : String := Readers.handle false 2 toks

end LMV.Driver.C15
