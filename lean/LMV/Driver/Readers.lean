/-
  LMV.Driver.Readers — runs the reader models of LMV.Model.{Jaspar,…} the way the harness runs the
  real readers (shared by the C14 and C15 drivers).  No proofs here.

  case:   <op> <format> <dna|protein> <k> <chunk sizes × k> <hex bytes | ->
  answer (detail = true,  C14): per call `R <id> <description> … <rows> <cells…>` / `err-<kind>` / `end` / `panic`, joined by " ; "
  answer (detail = false, C15): per call `rec` / `err-<kind>` / `end` / `panic`
  The harness calls `next` until the first `end` or panic, at most `extra` more times after the
  first error, and gives up (`hang`) after |input| + 2 records.
-/
import LMV.Model.Jaspar16
import LMV.Model.Uniprobe
import LMV.Model.Transfac
import LMV.Driver.F32
import LMV.Driver.Util

namespace LMV.Driver.Readers
open LMV LMV.Io LMV.Driver

def hexVal (c : Char) : Nat :=
  if '0' ≤ c ∧ c ≤ '9' then c.toNat - 48 else if 'a' ≤ c ∧ c ≤ 'f' then c.toNat - 87 else 0

def unhex (s : String) : Bytes :=
  if s == "-" then [] else
  let rec go : List Char → List UInt8 → List UInt8
    | a :: b :: r, acc => go r ((hexVal a * 16 + hexVal b).toUInt8 :: acc)
    | _, acc => acc.reverse
  go s.toList []

def hexDigit (n : Nat) : Char := if n < 10 then Char.ofNat (48 + n) else Char.ofNat (87 + n)

def hex (b : Bytes) : String :=
  if b.isEmpty then "-" else
  String.ofList (b.foldr (fun x acc => hexDigit (x.toNat / 16) :: hexDigit (x.toNat % 16) :: acc) [])

def hexOpt : Option Bytes → String
  | none => "none"
  | some b => "some:" ++ hex b

def kindStr : ErrKind → String
  | .invalidData => "err-data"
  | .io => "err-io"
  | .nom => "err-nom"

/-- a reader model packaged for the run loop -/
structure Machine (σ ρ : Type) where
  init : List Nat → Bytes → Except String σ
  step : σ → Outcome ρ × σ
  render : ρ → String

def showMat {K : Nat} (m : Mat Nat K) : String :=
  String.join (toString m.rows :: (m.toLists.flatten.map fun x => " " ++ toString x))

/-- the consumer of the harness: stop at a panic, `extra` more calls after the first error or end -/
def runLoop {σ ρ : Type} (M : Machine σ ρ) (detail : Bool) (extra : Nat) :
    Nat → σ → Option Nat → List String → List String
  | 0, _, _, acc => ("hang" :: acc).reverse
  | fuel + 1, s, afterErr, acc =>
    match afterErr with
    | some 0 => acc.reverse
    | _ =>
      let (o, s') := M.step s
      match o with
      | .done =>
        -- end of input is an answer like any other: `extra` more requests follow
        let left := match afterErr with | none => extra | some n => n - 1
        runLoop M detail extra fuel s' (some left) ("end" :: acc)
      | .panic _ => ("panic" :: acc).reverse
      | .record r =>
        runLoop M detail extra fuel s' (afterErr.map (· - 1)) ((if detail then "R " ++ M.render r else "rec") :: acc)
      | .error k =>
        let left := match afterErr with | none => extra | some n => n - 1
        runLoop M detail extra fuel s' (some left) (kindStr k :: acc)

def run {σ ρ : Type} (M : Machine σ ρ) (detail : Bool) (extra : Nat) (sched : List Nat) (data : Bytes) : String :=
  match M.init sched data with
  | .error _ => "new-panic"
  | .ok s => " ; ".intercalate (runLoop M detail extra (data.length + 3 + 2 * extra) s none [])

def jasparMachine : Machine Jaspar.State (CRecord dna.K) where
  init := fun sched data => .ok (Jaspar.new Jaspar.growAmortized sched data)
  step := Jaspar.next Jaspar.record Jaspar.growAmortized
  render := fun r => s!"{hex r.id} {hexOpt r.description} {showMat r.matrix}"

def showMatF {K : Nat} (m : Mat Float32 K) : String :=
  String.join (toString m.rows :: (m.toLists.flatten.map fun x => " " ++ toString x.toBits.toNat))

def jaspar16Machine (A : Alphabet) : Machine Jaspar.State (CRecord A.K) where
  init := fun sched data => .ok (Jaspar.new Jaspar.growAmortized sched data)
  step := Jaspar.next (Jaspar16.record A) Jaspar.growAmortized
  render := fun r => s!"{hex r.id} {hexOpt r.description} {showMat r.matrix}"

def uniprobeMachine (A : Alphabet) : Machine Uniprobe.State (Uniprobe.URecord Float32 A.K) where
  init := fun sched data => .ok (Uniprobe.new sched data)
  step := Uniprobe.next A F32.conv (0.0 : Float32) F32.freqOk
  render := fun r => s!"{hex r.id} {showMatF r.matrix}"

def showCounts : Option (List (List Nat)) → String
  | none => "nocounts"
  | some rows => String.join ("counts " :: toString rows.length :: (rows.flatten.map fun x => " " ++ toString x))

def transfacMachine (A : Alphabet) : Machine Transfac.State (Transfac.TRecord Float32 A.K) where
  init := Transfac.new
  step := Transfac.next A F32.conv (0.0 : Float32)
  render := fun r =>
    let d := match r.data with | none => "nodata" | some m => showMatF m
    s!"{hexOpt r.id} {hexOpt r.accession} {hexOpt r.name} {hexOpt r.description} {d} {showCounts (Transfac.toCounts F32.asCount r.data)}"

def handle (detail : Bool) (extra : Nat) (toks : List String) : String :=
  match toks with
  | _op :: fmt :: alpha :: k :: rest =>
    let (sched, rest) := takeNats rest (parseNat! k)
    let data := unhex (rest.headD "-")
    let A := if alpha == "dna" then dna else protein
    match fmt with
    | "jaspar" => run jasparMachine detail extra sched data
    | "jaspar16" => run (jaspar16Machine A) detail extra sched data
    | "uniprobe" => run (uniprobeMachine A) detail extra sched data
    | "transfac" => run (transfacMachine A) detail extra sched data
    | _ => "bad-format"
  | _ => "bad-case"

end LMV.Driver.Readers
