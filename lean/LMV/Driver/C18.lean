import LMV.Model.PyView
import LMV.Driver.Util

/-
  Driver of C18 (Python indexing and buffer views).  Case lines are written by pyharness/c18.py.

    c18idx <cls> <width> <rows> <len> <idx> <len*width values>
        cls ∈ enc | counts | weights | scoring (list-like: `getitem`) | scores (`scoresGetitem`, `rows` =
        rows of the score matrix, values in position order)
        -> len <n> ok <values of the element> | len <n> IndexError | len <n> OverflowError | len <n> panic
    c18buf <cls> <rows> <cols> <rows*cols values, row major>
        cls ∈ enc | dist (1-D, cols = 1) | scoring | scores (2-D over a `rows × cols` f32 matrix)
        -> ndim … shape … strides … itemsize … format … nbytes … items <n> hash <fnv of the items in view order>
    c18sseq <K> <L> <k> <M1 … Mk> <L symbols>
        one striped sequence, a fresh view after 0, 1, …, k calls of `calculate` with motifs of M1 … Mk rows
        -> the k+1 views, joined by " ; "
    c18copy <how> <a c18idx | c18buf | c18sseq line>
        the same observations on a COPY: how = copy (`obj.copy()`) | copycopy (`copy.copy(obj)`) |
        deepcopy (`copy.deepcopy(obj)`), optionally `+used` (the object was used before the copy was taken;
        for c18sseq the copy is taken after each of the 0..k reuses)
        -> the answer of the inner line | AttributeError | TypeError
    c18stale <observation> <K> <L> <M> <L symbols>
        a view exported BEFORE calculate() with a motif of M rows and read after it showed
        `same` | `differs` | `BufferError`  -> adm-ok | adm-bad …   (known finding: the stale view)
-/
namespace LMV.Driver.C18
open LMV LMV.PyView LMV.Driver

def ops : List String := ["c18idx", "c18buf", "c18sseq", "c18stale", "c18copy"]

/-- the classes with `copy()` and `__copy__` in lib.rs: `EncodedSequence` and `StripedSequence` -/
def hasCopy (cls : String) : Bool := cls == "enc" || cls == "sseq"

/-- outcome of the copy operation itself: `none` = a copy is returned (a derived `Clone`: same logical
    contents, same view).  No class defines `__deepcopy__` or `__reduce__`, so `copy.deepcopy` — and
    `copy.copy` of a class without `__copy__` — ends in `TypeError: cannot pickle`; a missing `copy`
    method is an `AttributeError`. -/
def copyOutcome (how cls : String) : Option String :=
  let h := (how.splitOn "+").headD ""
  if h == "deepcopy" then some "TypeError"
  else if hasCopy cls then none
  else if h == "copy" then some "AttributeError" else some "TypeError"

/-- alignment of `Row` on x86-64 (`repr(align(32))`) -/
def align : Nat := 32

def showOutcome (len : Nat) : Outcome (List Nat) → String
  | .ok v => s!"len {len} ok {joinNat v}"
  | .indexError => s!"len {len} IndexError"
  | .overflowError => s!"len {len} OverflowError"
  | .panic _ => s!"len {len} panic"

def chunks (w : Nat) (xs : Array Nat) (n : Nat) : List (List Nat) :=
  (List.range n).map fun i => (List.range w).map fun j => xs.getD (i * w + j) 0

/-- read every element of a 2-D view of a `rows × cols` matrix of `size`-byte elements -/
def read2 (v : View2) (rows cols size : Nat) (val : Nat → Nat → Nat) : Except String (List Nat) :=
  let pitch := Dense.rowBytes cols size align
  (List.range v.shape0).foldlM (init := ([] : List Nat)) fun acc i =>
    (List.range v.shape1).foldlM (init := acc) fun acc j =>
      match elemAt rows cols size pitch (v.offset i j) with
      | some (r, c) => .ok (val r c :: acc)
      | none => .error s!"element {i} {j} is not a matrix element"

def show2 (v : View2) (items : Except String (List Nat)) : String :=
  let head := s!"ndim 2 shape {v.shape0} {v.shape1} strides {v.stride0} {v.stride1} itemsize {v.itemsize} format {v.format} nbytes {v.len}"
  match items with
  | .ok xs => s!"{head} items {xs.length} hash {fnvNats xs.reverse}"
  | .error e => s!"{head} exposes: {e}"

def read1 (v : View1) (n : Nat) (val : Nat → Nat) : Except String (List Nat) :=
  (List.range v.items).foldlM (init := ([] : List Nat)) fun acc i =>
    match elemAt n 1 v.itemsize v.itemsize (v.offset i) with
    | some (r, _) => .ok (val r :: acc)
    | none => .error s!"element {i} is not an element of the array"

def show1 (v : View1) (items : Except String (List Nat)) : String :=
  let head := s!"ndim 1 shape {v.items} strides {v.itemsize} itemsize {v.itemsize} format {v.format} nbytes {v.len}"
  match items with
  | .ok xs => s!"{head} items {xs.length} hash {fnvNats xs.reverse}"
  | .error e => s!"{head} exposes: {e}"

/-- `copy`: the observations are made on a copy of the object (for c18sseq: taken after each reuse) -/
def handleOn (copy : Bool) (toks : List String) : String :=
  match toks with
  | "c18idx" :: cls :: w :: rows :: len :: idx :: rest =>
    let w := parseNat! w
    let rows := parseNat! rows
    let len := parseNat! len
    let idx := parseInt! idx
    let vals := (rest.map parseNat!).toArray
    if cls == "scores" then
      showOutcome len
        (match scoresGetitem rows 32 len (fun r c => [vals.getD (c * rows + r) 0]) idx with
         | .ok v => .ok v | .indexError => .indexError | .overflowError => .overflowError | .panic s => .panic s)
    else
      showOutcome len (getitem (chunks w vals len) idx)
  | "c18buf" :: cls :: rows :: cols :: rest =>
    let rows := parseNat! rows
    let cols := parseNat! cols
    let vals := (rest.map parseNat!).toArray
    let val := fun r c => vals.getD (r * cols + c) 0
    match cls with
    | "enc" => let v := encView rows; show1 v (read1 v rows (fun r => val r 0))
    | "dist" => let v := distView rows; show1 v (read1 v rows (fun r => val r 0))
    | "scoring" => let v := scoringView rows cols align; show2 v (read2 v rows cols 4 val)
    | "scores" => let v := scoresView cols rows align; show2 v (read2 v rows cols 4 val)
    | _ => "bad-case"
  | "c18sseq" :: k :: l :: n :: rest =>
    let K := parseNat! k
    let L := parseNat! l
    let n := parseNat! n
    let Ms := (rest.take n).map parseNat!
    let syms := ((rest.drop n).map parseNat!).toArray
    let cols := 32
    let R := (L + cols - 1) / cols
    let val := fun r c => if c * R + r < L then syms.getD (c * R + r) 0 else K - 1
    let step := fun (s : PySeq) =>
      let s := if copy then s.copy else s
      let v := s.view align
      show2 v (read2 v s.dataRows s.cols 1 val)
    let (_, outs) := Ms.foldl (fun (acc : PySeq × List String) M =>
        let s := acc.1.configure M
        (s, step s :: acc.2)) (PySeq.fresh cols R, [step (PySeq.fresh cols R)])
    " ; ".intercalate outs.reverse
  | "c18stale" :: obs :: _k :: l :: m :: _ =>
    -- a view exported before `calculate` with a motif of `m` rows, read after it; the observation is
    -- on the case line and the model says whether a variant of the code admits it
    let L := parseNat! l
    let s := PySeq.fresh 32 ((L + 31) / 32)
    -- the code as repaired (lightmotif-py: export counting): `same` when no look-ahead row has to be
    -- added, `BufferError` otherwise; `differs` is admitted by no variant that satisfies the property
    if (staleAdmissible .repaired s (parseNat! m)).contains obs then "adm-ok"
    else s!"adm-bad {obs} not admitted (admitted: {staleAdmissible .repaired s (parseNat! m)})"
  | _ => "bad-case"

def handle (toks : List String) : String :=
  match toks with
  | "c18copy" :: how :: op :: rest =>
    let cls := if op == "c18sseq" then "sseq" else rest.headD ""
    (match copyOutcome how cls with
     | some exc => exc
     | none => handleOn true (op :: rest))
  | _ => handleOn false toks

end LMV.Driver.C18
