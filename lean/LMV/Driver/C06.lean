import LMV.Mem.Api
import LMV.Driver.Util

namespace LMV.Driver.C06
open LMV LMV.Driver LMV.Mem

def ops : List String := ["c06"]

def whichOf (s : String) : Which :=
  if s == "max" then .max else if s == "argmax" then .argmax else .threshold

def sizeOfTy (s : String) : Nat := if s == "u8" then 1 else 4

/-- the runs of one op and the remaining tokens (`none`: malformed case line) -/
def opRuns (C K : Nat) : List String → Option (List Run × List String)
  | "E" :: b :: _api :: l :: _bad :: rest => some (encodeRuns (Backend.ofString b) (parseNat! l), rest)
  | "Q" :: _ :: rest => some ([], rest)
  | "S" :: b :: _mode :: l :: rest => some (stripeRuns (Backend.ofString b) (parseNat! l), rest)
  | "N" :: _ :: _ :: rest => some ([], rest)
  | "R" :: _ :: rest => some ([], rest)
  | "W" :: _ :: rest => some ([], rest)
  | "P" :: _ :: rest => some ([], rest)
  | "G" :: rest => some ([], rest)
  | "C" :: rest => some ([], rest)
  | "Z" :: _ :: _ :: rest => some ([], rest)
  | "X" :: b :: ty :: m :: l :: rm :: w :: a :: e :: rest =>
    let (m, l, rm, w, a, e) := (parseNat! m, parseNat! l, parseNat! rm, parseNat! w, parseNat! a, parseNat! e)
    some (if ty == "u8" then scoreU8Runs (Backend.ofString b) K m l rm w a e
          else scoreF32Runs (Backend.ofString b) C K m l rm w a e, rest)
  | "Y" :: b :: ty :: m :: l :: rm :: w :: rest =>
    -- `score_into`: rows `0 .. matrix.rows() - wrap`
    let (m, l, rm, w) := (parseNat! m, parseNat! l, parseNat! rm, parseNat! w)
    some (if ty == "u8" then scoreU8Runs (Backend.ofString b) K m l rm w 0 (rm - w)
          else scoreF32Runs (Backend.ofString b) C K m l rm w 0 (rm - w), rest)
  | "A" :: b :: ty :: which :: rows :: rest =>
    some (if ty == "u8" then maxU8Runs (Backend.ofString b) (whichOf which) (parseNat! rows)
          else maxF32Runs (Backend.ofString b) (whichOf which) C (parseNat! rows), rest)
  | "K" :: b :: _which :: m :: l :: rm :: w :: block :: rest =>
    some (scanRuns (Backend.ofString b) K (parseNat! m) (parseNat! l) (parseNat! rm) (parseNat! w) (parseNat! block), rest)
  | "M" :: b :: _n :: l :: w :: steps :: rest =>
    some (sampleRuns (Backend.ofString b) K (parseNat! l) (parseNat! w) (parseNat! steps), rest)
  | "D" :: ty :: cols :: rows :: rest =>
    some (denseRuns (parseNat! cols) (sizeOfTy ty) (parseNat! rows), rest)
  | _ => none

/-- walk the ops; the first op with an out-of-bounds / misaligned access decides the answer -/
partial def walk (C K : Nat) (n : Nat) (toks : List String) : String :=
  match toks with
  | [] => "inbounds"
  | _ =>
    match opRuns C K toks with
    | none => "bad-case"
    | some (runs, rest) =>
      match firstBadRun runs with
      | some (a, size) =>
        s!"oob {n} {a.buf.name} {a.off} {a.width} {size} align {a.align}"
      | none => walk C K (n + 1) rest

/-- `c06 <dna|protein> <C> <seed> <op>…` -/
def handle (toks : List String) : String :=
  match toks with
  | _ :: alpha :: c :: _seed :: rest =>
    let K := if alpha == "dna" then 5 else 21
    walk (parseNat! c) K 1 rest
  | _ => "bad-case"

end LMV.Driver.C06
