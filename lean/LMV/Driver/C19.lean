import LMV.Model.Dense
import LMV.Driver.Util

namespace LMV.Driver.C19
open LMV LMV.Dense LMV.Driver

def ops : List String := ["c19", "c19layout"]

def observe {C : Nat} (m : Mat Nat C) : String :=
  let cells := (List.range m.rows).flatMap fun r => (List.range C).map fun c => m.get r c
  let rev := (List.range m.rows).reverse.flatMap fun r => (List.range C).map fun c => m.get r c
  let dump := if cells.length ≤ 64 then " [" ++ joinNat cells ++ "]" else ""
  s!"{m.rows} {fnvNats cells} {fnvNats rev}{dump}"

/-- parse one op from the token stream -/
def parseOp (C : Nat) : List String → Option (Op × List String)
  | "new" :: r :: rest => some (.new (parseNat! r), rest)
  | "cap" :: r :: c :: rest => some (.withCapacity (parseNat! r) (parseNat! c), rest)
  | "resize" :: n :: rest => some (.resize (parseNat! n), rest)
  | "fill" :: v :: rest => some (.fill (parseNat! v), rest)
  | "cell" :: i :: j :: v :: rest => some (.setCell (parseNat! i) (parseNat! j) (parseNat! v), rest)
  | "itermut" :: v :: rest => some (.iterMutSet (parseNat! v), rest)
  | "itermutrev" :: v :: rest => some (.iterMutRevSet (parseNat! v), rest)
  | "clone" :: rest => some (.clone, rest)
  -- `reserve(n)`: more capacity, the same table — the identity, like `clone`
  | "reserve" :: _n :: rest => some (.clone, rest)
  -- a cell written through `ravel_mut()[i * stride + j]`: the same cell as `m[(i, j)]`
  | "ravelset" :: i :: j :: v :: rest => some (.setCell (parseNat! i) (parseNat! j) (parseNat! v), rest)
  | "clonefrom" :: r :: v :: rest => some (.cloneFrom (parseNat! r) (parseNat! v), rest)
  | "row" :: i :: n :: rest =>
    let (vals, rest') := takeNats rest (parseNat! n)
    some (.setRow (parseNat! i) vals, rest')
  | "fromrows" :: nr :: rest =>
    -- each row: <len> <vals…>
    let rec rows (k : Nat) (toks : List String) (acc : List (List Nat)) : List (List Nat) × List String :=
      match k, toks with
      | 0, toks => (acc.reverse, toks)
      | k + 1, n :: toks =>
        let (vals, toks') := takeNats toks (parseNat! n)
        rows k toks' (vals :: acc)
      | _, [] => (acc.reverse, [])
    let (rs, rest') := rows (parseNat! nr) rest []
    some (.fromRows rs, rest')
  | _ => none

partial def runOps {C : Nat} (dflt : Nat) (m : Mat Nat C) (toks : List String) (acc : List String) : List String :=
  match toks with
  | [] => acc.reverse
  | _ =>
    match parseOp C toks with
    | none => ("bad-op" :: acc).reverse
    | some (op, rest) =>
      match step dflt m op with
      | .ok m' => runOps dflt m' rest (observe m' :: acc)
      | .error _ => runOps dflt m rest (("panic " ++ observe m) :: acc)

def handle (toks : List String) : String :=
  match toks with
  | "c19" :: ty :: c :: rest =>
    let dflt := if ty == "nuc" then 4 else 0
    let out : List String :=
      match parseNat! c with
      | 1 => runOps (C := 1) dflt Mat.empty rest []
      | 5 => runOps (C := 5) dflt Mat.empty rest []
      | 7 => runOps (C := 7) dflt Mat.empty rest []
      | 16 => runOps (C := 16) dflt Mat.empty rest []
      | 21 => runOps (C := 21) dflt Mat.empty rest []
      | 32 => runOps (C := 32) dflt Mat.empty rest []
      | 43 => runOps (C := 43) dflt Mat.empty rest []
      | _ => ["bad-C"]
    " ; ".intercalate out
  | "c19layout" :: c :: size :: align :: _ =>
    -- stride, and the address offsets of rows 0..3 modulo the alignment
    let (c, size, align) := (parseNat! c, parseNat! size, parseNat! align)
    s!"{Dense.stride c size align} {joinNat ((List.range 4).map fun i => (Dense.rowAddr 0 c size align i) % align)}"
  | _ => "bad-case"

end LMV.Driver.C19
