import LMV.Model.Scanner
import LMV.Driver.Util
import LMV.Driver.C02

/-!
  driver of C03.

  case:   c03 <dev|release> <arm> <block> <threshold f32 bits> <k> <M> <5·M f32 bit patterns> <W> <L> <L symbols>
  answer: ret <n> <hits returned by k calls of next, sorted by position> | max <position:score-bits | none>   or   panic
-/
namespace LMV.Driver.C03
open LMV LMV.Driver LMV.Disc LMV.Scanner

def ops : List String := ["c03"]

def handle (toks : List String) : String :=
  match toks with
  | _ :: profile :: arm :: block :: thr :: k :: m :: rest =>
    match C02.setup profile arm (parseNat! m) rest with
    | none => "bad-case"
    | some (.error _) => "panic"
    | some (.ok s) =>
      let t := C02.f32 thr
      let b := parseNat! block
      match nextN s.k t b (parseNat! k) State.init with
      | .error _ => "panic"
      | .ok (ret, st) =>
        match Scanner.max s.k t b st with
        | .error _ => "panic"
        | .ok best =>
          let bs := match best with
            | none => "none"
            | some h => s!"{h.position}:{h.score.toBits.toNat}"
          s!"ret {ret.length}{C02.fmtHits ret} | max {bs}"
  | _ => "bad-case"

end LMV.Driver.C03
