import LMV.Model.Sampler
import LMV.Driver.Util

/-
  C16 driver.  One case line is one sampler run:

    c16run <alpha> <mode> <cols> <w> <initial> <inertia> <patience> <rngseed> <maxsteps> <wrap>
           <backend> <n> { <L> <sym>×L }×n
           | new-panic
           | ok <start>×n <ns> <seed>×ns <T> { <z> <newstart> <discard> }×T <end|more|panic>

  Everything after `|` is what the harness observed of the implementation's random draws; the
  driver checks them for admissibility, replays them through the mirror model and prints every
  integer of the state after `_new` and after every step.
-/
namespace LMV.Driver.C16
open LMV LMV.Sampler LMV.Driver

def ops : List String := ["c16run"]

def fmtMat {K : Nat} (m : Mat Nat K) : String :=
  joinNat ((List.range m.rows).flatMap fun r => (List.range K).map fun c => m.get r c)

/-- everything observable of a state: all starts (hook), `active_sequences`, `active_starts`,
    `count_matrix` (+ its sequence count), background counts (hook) -/
def fmtState {K : Nat} (s : State K) : String :=
  s!"{joinNat s.starts.toList} / {joinNat (activeSequences s)} / {joinNat (activeStarts s)} / {s.active.count} / {fmtMat s.motif} / {joinNat s.bg.toList}"

def parseSeqs : Nat → List String → List (Array Nat) × List String
  | 0, toks => ([], toks)
  | n + 1, toks =>
    match toks with
    | [] => ([], [])
    | l :: rest =>
      let len := parseNat! l
      let (syms, rest') := takeNats rest len
      let (ss, r) := parseSeqs n rest'
      (syms.toArray :: ss, r)

def parseChoices : Nat → List String → List Choice × List String
  | 0, toks => ([], toks)
  | n + 1, toks =>
    match toks with
    | z :: st :: d :: rest =>
      let (cs, r) := parseChoices n rest
      ({ z := parseNat! z, start := some (parseNat! st), discard := d == "1" } :: cs, r)
    | _ => ([], [])

/-- replay: returns the printed steps (reversed accumulation avoided: traces are short enough) -/
def replay {K : Nat} (D : Data) (P : Params) : Nat → State K → List Choice → List String → List String × Option (State K)
  | _, s, [], acc => (acc.reverse, some s)
  | k, s, c :: cs, acc =>
    if ¬ decide (Adm D P s c) then ((s!"adm-bad {k}" :: acc).reverse, none) else
    match next D P s c with
    | .error e => ((s!"panic {k} {e}" :: acc).reverse, none)
    | .ok none => ((s!"ended {k}" :: acc).reverse, none)
    | .ok (some (s', it)) =>
      replay D P (k + 1) s' cs (s!"{it.z} {it.step} {it.n} {fmtMat it.counts} / {fmtState s'}" :: acc)

/-- is there an admissible hold-out for which the next call panics? -/
def panicPossible {K : Nat} (D : Data) (P : Params) (s : State K) : Bool :=
  -- the draw itself panics (`seed.choose(..).unwrap()` on no seeds, `Uniform::new(0, 0)`) …
  (match selectHoldout P s 0 with
   | .error _ => !s.converged
   | .ok _ => false) ||
  -- … or some admissible hold-out leads to a panic
  (List.range D.n).any fun z =>
    let c : Choice := { z := z, start := none, discard := false }
    decide (Adm D P s c) &&
      (match next D P s c with
       | .error _ => true
       | .ok _ => false)

def runCase (K : Nat) (cols : Nat) (P : Params) (seqs : List (Array Nat)) (wrap : Nat)
    (obs : List String) : String :=
  match mkData K cols seqs.toArray (Array.replicate seqs.length wrap) with
  | .error e => s!"data-panic {e}"
  | .ok D =>
    match obs with
    | "new-panic" :: _ =>
      -- the constructor panicked: the model must panic for every admissible draw; the only
      -- constructor panics are independent of the draws
      match init (K := K) D P { starts := (seqs.map fun _ => 0).toArray, seeds := [] } with
      | .error _ => "new-panic"
      | .ok _ => "new-ok"
    | "ok" :: rest =>
      let (starts, rest) := takeNats rest seqs.length
      let (ns, rest) := takeNats rest 1
      let (seeds, rest) := takeNats rest (ns.headD 0)
      let (t, rest) := takeNats rest 1
      let (cs, rest) := parseChoices (t.headD 0) rest
      let ic : InitChoice := { starts := starts.toArray, seeds := seeds }
      if ¬ decide (InitAdm D P ic) then "adm-bad init" else
      match init (K := K) D P ic with
      | .error e => s!"new-panic {e}"
      | .ok s0 =>
        let cnts := " , ".intercalate (D.counts.toList.map fun c => joinNat c.toList)
        let head := s!"counts {cnts} ; init {fmtState s0}"
        let (steps, fin) := replay D P 0 s0 cs []
        let body := " ; ".intercalate (head :: steps)
        match fin with
        | none => body
        | some s =>
          let tail :=
            match rest with
            | "end" :: _ => if s.converged then "end" else "not-ended"
            | "panic" :: _ => if panicPossible D P s then "panic-possible" else "panic-impossible"
            | _ => "more"
          s!"{body} ; {tail}"
    | _ => "bad-case"

def handle (toks : List String) : String :=
  match toks with
  | "c16run" :: alpha :: mode :: cols :: w :: initial :: inertia :: patience :: _rngseed :: _max :: wrap :: _backend :: n :: rest =>
    let P : Params := { w := parseNat! w, zoops := mode == "zoops", initial := parseNat! initial,
                        inertia := parseNat! inertia, patience := parseNat! patience }
    let (seqs, rest) := parseSeqs (parseNat! n) rest
    let K := if alpha == "dna" then 5 else 21
    match rest with
    | "|" :: obs => runCase K (parseNat! cols) P seqs (parseNat! wrap) obs
    | _ => "bad-case"
  | _ => "bad-case"

end LMV.Driver.C16
