import LMV.Model.Score
import LMV.Model.Abc
import LMV.Driver.Util

/-
  Driver of C01.  Case line:

    c01 <dna|protein> <f32|u8> <M> <M·K matrix entries> <G | w> <L> <L symbols> <op>…

  The sequence is striped by the generic pipeline for C = 16 and C = 32 and configured with
  `configure(&pssm)` (`G`) or `configure_wrap(w)`.  Ops act on one score buffer per column count:

    R <pipe> <a> <b>   score_rows_into(pssm, seq, a..b, &mut buf)
    I <pipe>           score_into(pssm, seq, &mut buf)
    F <pipe>           buf = score(pssm, seq)
    S <arm>            buf32 = ScoringMatrix::score(seq)          (public API, forced dispatcher arm; f32)
    P <C> <pos>        ScoringMatrix::score_position(seq, pos)    (f32)
    M <M'> <M'·K entries>  the following calls use this motif, on the same sequence objects (configured again
                       with `configure(&pssm)` under `G`) and the same score buffers; no answer

  pipe: gen16 gen32 sse16 sse32 avx2 disp-generic disp-sse2 disp-avx2
  Answer per op (joined by " ; "): `panic`, the bits of a single score, or
  `<rows> <max_index> <hash cells> <len unstripe> <hash unstripe> <hash index(i) | X> <offset(rows-1, C-1)>[ [cells]]`.
-/
namespace LMV.Driver.C01
open LMV LMV.Driver LMV.Score

def ops : List String := ["c01", "c01isa"]

structure Carrier (α : Type) where
  zero : α
  add : α → α → α       -- `Accumulate::accumulate` of the generic code (`+` for f32, `saturating_add` for u8)
  addSat : α → α → α    -- the lane operation of the AVX2 kernel (`adds_epu8` for `u8`, `add_ps` for `f32`)
  ofNat : Nat → α
  toNat : α → Nat

def f32 : Carrier Float32 :=
  ⟨Float32.ofBits 0, (· + ·), (· + ·), fun n => Float32.ofBits n.toUInt32, fun x => x.toBits.toNat⟩

def u8 : Carrier Nat := ⟨0, u8Sat, u8Sat, fun n => n % 256, id⟩

/-- `Util.fnvNats` (FNV-1a over 8 little-endian bytes per number) without the intermediate lists -/
def fnv1 (h : UInt64) (x : UInt64) : UInt64 :=
  let step (h : UInt64) (k : UInt64) : UInt64 := (h ^^^ ((x >>> k) &&& 0xff)) * 0x100000001b3
  step (step (step (step (step (step (step (step h 0) 8) 16) 24) 32) 40) 48) 56

def fnvFast (xs : List Nat) : UInt64 := xs.foldl (fun h x => fnv1 h x.toUInt64) 0xcbf29ce484222325

def observe {α : Type} {C : Nat} (cr : Carrier α) (sc : Scores α C) : String :=
  let cells := (List.range sc.data.rows).flatMap fun r =>
    (List.range C).map fun c => cr.toNat (sc.data.getD r c cr.zero)
  let un := (unstripe cr.zero sc).map cr.toNat
  let idx : Option (List Nat) := (List.range (iterEnd sc)).foldl (fun acc i =>
    match acc, index cr.zero sc i with
    | some l, .ok v => some (cr.toNat v :: l)
    | _, _ => none) (some [])
  let idxs := match idx with | some l => toString (fnvFast l.reverse) | none => "X"
  let off := if sc.data.rows = 0 then 0 else offset sc (sc.data.rows - 1) (C - 1)
  let dump := if cells.length ≤ 64 then " [" ++ joinNat cells ++ "]" else ""
  s!"{sc.data.rows} {sc.maxIndex} {fnvFast cells} {un.length} {fnvFast un} {idxs} {off}{dump}"

def armOf (s : String) : Arm :=
  if s == "disp-avx2" || s == "avx2" then .avx2 else if s == "disp-sse2" || s == "sse2" then .sse2 else .generic

/-- `score_rows_into` of the named 32-column pipeline -/
def rows32 {α : Type} {K : Nat} (cr : Carrier α) (isU8 : Bool) (pipe : String) (pssm : Mat α K)
    (seq : Striped 32) (a b : Nat) (sc : Scores α 32) : Except String (Scores α 32) :=
  if pipe == "gen32" then scoreRowsGeneric cr.zero cr.add pssm seq a b sc
  else if pipe == "sse32" then
    (if isU8 then scoreRowsGeneric cr.zero cr.add pssm seq a b sc else Sse2.score cr.zero cr.add pssm seq a b sc)
  else if pipe == "avx2" then
    (if isU8 then Avx2.scoreU8 cr.zero cr.addSat pssm seq a b sc else Avx2.scoreF32 cr.zero cr.add pssm seq a b sc)
  else
    (if isU8 then dispatchU8 (armOf pipe) cr.zero cr.add cr.addSat pssm seq a b sc
     else dispatchF32 (armOf pipe) cr.zero cr.add pssm seq a b sc)

def rows16 {α : Type} {K : Nat} (cr : Carrier α) (isU8 : Bool) (pipe : String) (pssm : Mat α K)
    (seq : Striped 16) (a b : Nat) (sc : Scores α 16) : Except String (Scores α 16) :=
  if pipe == "sse16" && !isU8 then Sse2.score cr.zero cr.add pssm seq a b sc
  else scoreRowsGeneric cr.zero cr.add pssm seq a b sc

def is16 (pipe : String) : Bool := pipe == "gen16" || pipe == "sse16"

structure St (α : Type) where
  b16 : Scores α 16
  b32 : Scores α 32

/-- apply `f` to the buffer of the pipeline's column count; a panic leaves an empty buffer (the
    harness replaces the buffer after a caught unwind) -/
def onBuf {α : Type} (cr : Carrier α) (pipe : String) (st : St α)
    (f16 : Scores α 16 → Except String (Scores α 16)) (f32 : Scores α 32 → Except String (Scores α 32)) :
    St α × String :=
  if is16 pipe then
    match f16 st.b16 with
    | .ok sc => ({ st with b16 := sc }, observe cr sc)
    | .error _ => ({ st with b16 := Score.empty }, "panic")
  else
    match f32 st.b32 with
    | .ok sc => ({ st with b32 := sc }, observe cr sc)
    | .error _ => ({ st with b32 := Score.empty }, "panic")

/-- `M <M'> <M'·K entries>`: the motif that the following calls use -/
def readPssm {α : Type} (cr : Carrier α) (K M : Nat) (toks : List String) : Mat α K × List String :=
  let (ents, rest) := takeNats toks (M * K)
  let earr := ents.toArray
  (Mat.ofFn M fun r c => cr.ofNat (earr.getD (r * K + c) 0), rest)

/-- `configure(&pssm)` (`G`); an explicit `configure_wrap(w)` is done once, before the first call -/
def reconf {C : Nat} (A : Alphabet) (cfg : String) (M : Nat) (st : Striped C) : Striped C :=
  if cfg == "G" then st.configure A.dflt M else st

partial def runOps {α : Type} (cr : Carrier α) (isU8 : Bool) (A : Alphabet) (cfg : String) (pssm : Mat α A.K)
    (s16 : Striped 16) (s32 : Striped 32) : List String → St α → List String → List String
  | [], _, acc => acc.reverse
  | "R" :: pipe :: a :: b :: rest, st, acc =>
    let (a, b) := (parseNat! a, parseNat! b)
    let (st', o) := onBuf cr pipe st (rows16 cr isU8 pipe pssm s16 a b) (rows32 cr isU8 pipe pssm s32 a b)
    runOps cr isU8 A cfg pssm s16 s32 rest st' (o :: acc)
  | "I" :: pipe :: rest, st, acc =>
    let (st', o) := onBuf cr pipe st
      (scoreInto (fun a b sc => rows16 cr isU8 pipe pssm s16 a b sc) s16)
      (scoreInto (fun a b sc => rows32 cr isU8 pipe pssm s32 a b sc) s32)
    runOps cr isU8 A cfg pssm s16 s32 rest st' (o :: acc)
  | "F" :: pipe :: rest, st, acc =>
    let (st', o) := onBuf cr pipe st
      (fun _ => scoreFull (fun a b sc => rows16 cr isU8 pipe pssm s16 a b sc) s16)
      (fun _ => scoreFull (fun a b sc => rows32 cr isU8 pipe pssm s32 a b sc) s32)
    runOps cr isU8 A cfg pssm s16 s32 rest st' (o :: acc)
  | "S" :: arm :: rest, st, acc =>
    -- `ScoringMatrix::score` = `Pipeline::dispatch().score(self, seq)`
    let (st', o) := onBuf cr "disp" st (fun sc => .ok sc)
      (fun _ => scoreFull (fun a b sc => dispatchF32 (armOf arm) cr.zero cr.add pssm s32 a b sc) s32)
    runOps cr isU8 A cfg pssm s16 s32 rest st' (o :: acc)
  | "P" :: c :: pos :: rest, st, acc =>
    let r := if c == "16" then scorePosition cr.zero cr.add pssm s16 (parseNat! pos)
             else scorePosition cr.zero cr.add pssm s32 (parseNat! pos)
    let o := match r with | .ok v => toString (cr.toNat v) | .error _ => "panic"
    runOps cr isU8 A cfg pssm s16 s32 rest st (o :: acc)
  | "M" :: m :: rest, st, acc =>
    -- another motif on the same sequence objects and the same score buffers (the history `st` is kept:
    -- the next call resizes / overwrites the buffer the previous motif filled)
    let M := parseNat! m
    let (pssm', rest) := readPssm cr A.K M rest
    runOps cr isU8 A cfg pssm' (reconf A cfg M s16) (reconf A cfg M s32) rest st acc
  | _, _, _ => ["bad-case"]

def runCase {α : Type} (cr : Carrier α) (isU8 : Bool) (A : Alphabet) (toks : List String) : String :=
  match toks with
  | m :: rest =>
    let M := parseNat! m
    let (pssm, rest) := readPssm cr A.K M rest
    match rest with
    | cfg :: l :: rest =>
      let (syms, rest) := takeNats rest (parseNat! l)
      let conf {C : Nat} (st : Striped C) : Striped C :=
        if cfg == "G" then st.configure A.dflt M else st.configureWrap A.dflt (parseNat! cfg)
      let s16 : Striped 16 := conf (Striped.stripeGeneric A.dflt syms Striped.empty)
      let s32 : Striped 32 := conf (Striped.stripeGeneric A.dflt syms Striped.empty)
      " ; ".intercalate (runOps cr isU8 A cfg pssm s16 s32 rest ⟨Score.empty, Score.empty⟩ [])
    | _ => "bad-case"
  | _ => "bad-case"


/-! ### ISA validation: `c01isa <intrinsic> <operands…>` replayed through LMV/Isa -/

open LMV.Isa in
def handleIsa (op : String) (v : Array Nat) : String :=
  let at' (i : Nat) : Nat := v.getD i 0
  let f32of (n : Nat) : Float32 := Float32.ofBits n.toUInt32
  match op with
  | "shuf" =>
    joinNat ((List.range 32).map fun i => shuffleEpi8 0 (fun k => at' k) (fun k => at' (32 + k)) i)
  | "bcast" => joinNat ((List.range 32).map fun i => broadcastsi128 (fun k => at' k) i)
  | "dword" => joinNat ((List.range 8).map fun l => dwordLE (fun k => at' k) l)
  | "pvar" => joinNat ((List.range 8).map fun l => permutevar8x32 (fun k => at' k) (fun k => at' (8 + k)) l)
  | "p2f" =>
    joinNat ((List.range 8).map fun l =>
      Isa.apply 0 (permute2f128 (at' 0)) (fun k => at' (1 + k)) (fun k => at' (9 + k)) l)
  | "gath" =>
    let n := at' 0
    let base := at' (1 + n)
    joinNat ((List.range 8).map fun l =>
      i32gatherPs (fun (k : Int) => at' (1 + (Int.ofNat base + k).toNat)) (fun k => at' (2 + n + k)) l)
  | "unpk" =>
    joinNat ((List.range 16).map fun i =>
      Isa.apply 0 (mmUnpackEpi8 (at' 0 == 1)) (fun k => at' (1 + k)) (fun k => at' (17 + k)) i)
  | "cmpand" =>
    joinNat ((List.range 4).map fun l =>
      andPsMask 0 (at' (8 + l)) (cmpeqEpi32 (fun k => at' k) (fun k => at' (4 + k)) l))
  | "adds" => joinNat ((List.range 32).map fun i => u8Sat (at' i) (at' (32 + i)))
  | "addps" => joinNat ((List.range 8).map fun l => (f32of (at' l) + f32of (at' (8 + l))).toBits.toNat)
  | _ => "bad-op"

/-- `c01 <dna|protein> <f32|u8> …`  /  `c01isa <intrinsic> …` -/
def handle (toks : List String) : String :=
  match toks with
  | "c01isa" :: op :: rest => handleIsa op (rest.map parseNat!).toArray
  | _ :: alpha :: ty :: rest =>
    let A := if alpha == "dna" then dna else protein
    if ty == "u8" then runCase u8 true A rest else runCase f32 false A rest
  | _ => "bad-case"

end LMV.Driver.C01
