/-
  LMV.Spec.Dist — what "probability under independent background-distributed symbols" means for C11.

  A word is a list of symbol indices, one per matrix row (first symbol ↔ first row).  All words of
  length `M` over the symbol list are enumerated explicitly; a probability is the finite sum of the
  weights (products of background frequencies) of the words in an event.  Nothing here refers to
  the convolution or to the table.
-/
import LMV.Model.Dist

namespace LMV.Dist

/-- product of the background frequencies of the symbols of a word -/
def wt (bg : List Rat) : List Nat → Rat
  | [] => 1
  | a :: w => bg.getD a 0 * wt bg w

/-- all words of length `n` over the symbols `syms` -/
def words (syms : List Nat) : Nat → List (List Nat)
  | 0 => [[]]
  | n + 1 => (words syms n).flatMap (fun w => syms.map (fun a => a :: w))

/-- total weight of the words of length `M` in the event `ev` -/
def prob (syms : List Nat) (bg : List Rat) (M : Nat) (ev : List Nat → Bool) : Rat :=
  ((words syms M).map (fun w => if ev w then wt bg w else 0)).sum

/-- exact score of a word: sum of the matrix entries it selects; `none` is −∞ -/
def rscore : List (List (Option Rat)) → List Nat → Option Rat
  | [], [] => some 0
  | row :: rows, a :: w =>
    match row.getD a none, rscore rows w with
    | some x, some v => some (x + v)
    | _, _ => none
  | _, _ => none

/-- integer score of a word in the discretised matrix; `none` when it meets an `i32::MIN` cell
    (such words are skipped by the convolution) -/
def dscore : List (List Int) → List Nat → Option Nat
  | [], [] => some 0
  | row :: rows, a :: w =>
    if row.getD a 0 = I32_MIN then none
    else match dscore rows w with
      | some t => some (t + (row.getD a 0).toNat)
      | none => none
  | _, _ => none

/-- the event `S(w) ≥ x` -/
def sGe (m : List (List (Option Rat))) (x : Rat) (w : List Nat) : Bool :=
  match rscore m w with
  | some v => decide (x ≤ v)
  | none => false

/-- the event `D(w) ≥ k` (k any integer) -/
def dGe (data : List (List Int)) (k : Int) (w : List Nat) : Bool :=
  match dscore data w with
  | some t => decide (k ≤ (t : Int))
  | none => false

/-- the event `D(w) = j` -/
def dEq (data : List (List Int)) (j : Nat) (w : List Nat) : Bool :=
  match dscore data w with
  | some t => decide (t = j)
  | none => false

end LMV.Dist
