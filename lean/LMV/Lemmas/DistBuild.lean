/-
  LMV.Lemmas.DistBuild — the discretisation: every finite cell lands in `[0, R]` within half a
  step of its scaled value; exact and integer score of a word differ by at most `M/2` steps.
-/
import LMV.Lemmas.DistProb
import Mathlib.Tactic.FieldSimp
import Mathlib.Algebra.Order.Field.Basic

namespace LMV.Dist

/-- `offset` as the exact model computes it from the extreme finite cells -/
def offQ (small0 large : Rat) : Rat := offsetOf (adjustSmall small0 large)

/-- `scale` as the exact model computes it -/
def scaleQ (R : Nat) (small0 large : Rat) : Rat := scaleOf R large (offQ small0 large)

theorem offQ_eq (small0 large : Rat) :
    offQ small0 large = (((adjustSmall small0 large).floor : Int) : Rat) := rfl

theorem adjustSmall_le (small0 large : Rat) : adjustSmall small0 large ≤ small0 := by
  unfold adjustSmall
  rw [eqb_rat]
  by_cases h : small0 = large
  · simp only [h, decide_true, if_true, one_rat]; linarith
  · simp only [h, decide_false, Bool.false_eq_true, if_false]; exact le_refl _

theorem offQ_le (small0 large : Rat) : offQ small0 large ≤ small0 :=
  le_trans (floor_le' _) (adjustSmall_le small0 large)

theorem scaleQ_eq (R : Nat) (small0 large : Rat) :
    scaleQ R small0 large = ((((R : Rat) / (large - offQ small0 large)).floor : Int) : Rat) := by
  unfold scaleQ scaleOf
  simp

theorem span_pos {R : Nat} {small0 large : Rat} (hs : 0 < scaleQ R small0 large) :
    0 < large - offQ small0 large := by
  by_contra hcon
  have hle : large - offQ small0 large ≤ 0 := not_lt.mp hcon
  have h1 : (R : Rat) / (large - offQ small0 large) ≤ 0 :=
    div_nonpos_of_nonneg_of_nonpos (Nat.cast_nonneg R) hle
  have h2 : ((R : Rat) / (large - offQ small0 large)).floor ≤ 0 := by
    have := Rat.floor_monotone h1
    rw [show (0 : Rat).floor = 0 from Rat.floor_intCast 0] at this
    exact this
  rw [scaleQ_eq] at hs
  have : ((((R : Rat) / (large - offQ small0 large)).floor : Int) : Rat) ≤ 0 := by exact_mod_cast h2
  linarith

/-- a finite cell between the extremes lands in `[0, R]` after scaling -/
theorem scaled_cell_bounds {R : Nat} {small0 large x : Rat} (hs : 0 < scaleQ R small0 large)
    (hlo : small0 ≤ x) (hhi : x ≤ large) :
    0 ≤ (x - offQ small0 large) * scaleQ R small0 large ∧
    (x - offQ small0 large) * scaleQ R small0 large ≤ R := by
  have hoff := offQ_le small0 large
  have hspan := span_pos hs
  have hsle : scaleQ R small0 large ≤ (R : Rat) / (large - offQ small0 large) := by
    rw [scaleQ_eq]; exact floor_le' _
  refine ⟨mul_nonneg (by linarith) hs.le, ?_⟩
  calc (x - offQ small0 large) * scaleQ R small0 large
      ≤ (large - offQ small0 large) * scaleQ R small0 large :=
        mul_le_mul_of_nonneg_right (by linarith) hs.le
    _ ≤ (large - offQ small0 large) * ((R : Rat) / (large - offQ small0 large)) :=
        mul_le_mul_of_nonneg_left hsle hspan.le
    _ = R := by field_simp

/-- the integer cell: in `[0, R]`, not the sentinel, within half a step -/
theorem discCell_some {R : Nat} (hR : (R : Int) ≤ I32_MAX) {off sc x : Rat}
    (h0 : 0 ≤ (x - off) * sc) (h1 : (x - off) * sc ≤ R) :
    0 ≤ discCell off sc (some x) ∧ discCell off sc (some x) ≤ R ∧
    discCell off sc (some x) ≠ I32_MIN ∧
    ((discCell off sc (some x) : Int) : Rat) ≤ (x - off) * sc + 1 / 2 ∧
    (x - off) * sc - 1 / 2 ≤ ((discCell off sc (some x) : Int) : Rat) := by
  have hr0 : 0 ≤ ratRound ((x - off) * sc) := by
    have := ratRound_mono h0
    rw [show ((0 : Rat)) = ((0 : Int) : Rat) by simp, ratRound_intCast] at this
    exact this
  have hr1 : ratRound ((x - off) * sc) ≤ R := by
    have := ratRound_mono h1
    rw [show ((R : Rat)) = (((R : Int)) : Rat) by simp, ratRound_intCast] at this
    exact this
  have hcl : discCell off sc (some x) = ratRound ((x - off) * sc) := by
    show clampI32 (ratRound ((x - off) * sc)) = _
    exact clampI32_of_mem (by unfold I32_MIN; omega) (by omega)
  rw [hcl]
  refine ⟨hr0, hr1, by unfold I32_MIN; omega, ratRound_le _, le_ratRound _⟩

theorem discCell_none {off sc : Rat} (hs : 0 < sc) : discCell off sc none = I32_MIN := by
  show (if 0 < sc then I32_MIN else if sc < 0 then I32_MAX else 0) = I32_MIN
  rw [if_pos hs]

/-! ### exact score and integer score of a word -/

/-- every finite cell of the matrix scales into `[0, R]` -/
def CellsOK (R : Nat) (off sc : Rat) (m : List (List (Option Rat))) : Prop :=
  ∀ row ∈ m, ∀ x, some x ∈ row → 0 ≤ (x - off) * sc ∧ (x - off) * sc ≤ R

theorem rscore_cons (row : List (Option Rat)) (rows : List (List (Option Rat))) (a : Nat) (w : List Nat) :
    rscore (row :: rows) (a :: w) =
      match row.getD a none, rscore rows w with
      | some x, some v => some (x + v)
      | _, _ => none := by
  rw [rscore]; rfl

theorem discretize_cons (off sc : Rat) (row : List (Option Rat)) (rest : List (List (Option Rat))) :
    discretize off sc (row :: rest) = row.map (discCell off sc) :: discretize off sc rest := rfl

@[simp] theorem length_discretize (off sc : Rat) (m : List (List (Option Rat))) :
    (discretize off sc m).length = m.length := by simp [discretize]

/-- Clause (3), word level: a word scores −∞ in the matrix iff the convolution skips it; otherwise
    its integer score `t` is within `M/2` of the scaled exact score, and `0 ≤ t ≤ M·R`. -/
theorem word_scores {R : Nat} (hR : (R : Int) ≤ I32_MAX) {off sc : Rat} (hs : 0 < sc) :
    ∀ (m : List (List (Option Rat))) (w : List Nat), CellsOK R off sc m → w.length = m.length →
      (∀ row ∈ m, ∀ a ∈ w, a < row.length) →
      (rscore m w = none ∧ dscore (discretize off sc m) w = none) ∨
      ∃ v t, rscore m w = some v ∧ dscore (discretize off sc m) w = some t ∧
        (t : Rat) ≤ sc * (v - m.length * off) + (m.length : Rat) / 2 ∧
        sc * (v - m.length * off) - (m.length : Rat) / 2 ≤ t ∧ t ≤ m.length * R := by
  intro m
  induction m with
  | nil =>
    intro w _ hlen _
    have : w = [] := List.length_eq_zero_iff.mp hlen
    subst this
    right
    exact ⟨0, 0, rfl, rfl, by simp, by simp, by simp⟩
  | cons row rest ih =>
    intro w hcells hlen hcols
    cases w with
    | nil => simp at hlen
    | cons a w' =>
      have ha : a < row.length := hcols row List.mem_cons_self a List.mem_cons_self
      obtain ⟨c, hc⟩ : ∃ c, row[a]? = some c := ⟨row[a], List.getElem?_eq_getElem ha⟩
      have h1 : row.getD a none = c := by rw [List.getD_eq_getElem?_getD, hc]; rfl
      have h2 : (row.map (discCell off sc)).getD a 0 = discCell off sc c := by
        rw [List.getD_eq_getElem?_getD, List.getElem?_map, hc]; rfl
      have hmem : c ∈ row := List.mem_of_getElem? hc
      have hrest := ih w' (fun r hr x hx => hcells r (List.mem_cons_of_mem _ hr) x hx)
        (by simpa using hlen)
        (fun r hr b hb => hcols r (List.mem_cons_of_mem _ hr) b (List.mem_cons_of_mem _ hb))
      rw [rscore_cons, discretize_cons, dscore_cons, h1, h2]
      cases c with
      | none =>
        left
        refine ⟨rfl, ?_⟩
        rw [if_pos (discCell_none hs)]
      | some x =>
        obtain ⟨hb0, hb1⟩ := hcells row List.mem_cons_self x hmem
        obtain ⟨hc0, hc1, hcm, hcu, hcl⟩ := discCell_some hR hb0 hb1
        rw [if_neg hcm]
        rcases hrest with ⟨hr, hd⟩ | ⟨v, t, hr, hd, hu, hl, ht⟩
        · left
          rw [hr, hd]
          exact ⟨rfl, rfl⟩
        · right
          rw [hr, hd]
          refine ⟨x + v, t + (discCell off sc (some x)).toNat, rfl, rfl, ?_, ?_, ?_⟩
          · have hcast : (((discCell off sc (some x)).toNat : Nat) : Rat) = ((discCell off sc (some x) : Int) : Rat) := by
              have : (((discCell off sc (some x)).toNat : Nat) : Int) = discCell off sc (some x) := Int.toNat_of_nonneg hc0
              exact_mod_cast congrArg (fun i : Int => (i : Rat)) this
            simp only [List.length_cons]
            push_cast
            rw [hcast]
            nlinarith [hu, hcu]
          · have hcast : (((discCell off sc (some x)).toNat : Nat) : Rat) = ((discCell off sc (some x) : Int) : Rat) := by
              have : (((discCell off sc (some x)).toNat : Nat) : Int) = discCell off sc (some x) := Int.toNat_of_nonneg hc0
              exact_mod_cast congrArg (fun i : Int => (i : Rat)) this
            simp only [List.length_cons]
            push_cast
            rw [hcast]
            nlinarith [hl, hcl]
          · have : (discCell off sc (some x)).toNat ≤ R := by omega
            simp only [List.length_cons]
            calc t + (discCell off sc (some x)).toNat ≤ rest.length * R + R := by omega
              _ = (rest.length + 1) * R := by ring

/-! ### unpacking `build` -/

theorem mem_finiteCells {m : List (List (Option Rat))} {x : Rat} :
    x ∈ finiteCells m ↔ ∃ row ∈ m, some x ∈ row := by
  unfold finiteCells
  simp only [List.mem_filterMap, List.mem_flatten, id]
  constructor
  · rintro ⟨c, ⟨row, hrow, hc⟩, rfl⟩; exact ⟨row, hrow, hc⟩
  · rintro ⟨row, hrow, hc⟩; exact ⟨some x, ⟨row, hrow, hc⟩, rfl⟩

theorem ratTrunc_intCast (n : Int) : ratTrunc (n : Rat) = n := by
  unfold ratTrunc
  by_cases h : (0 : Rat) ≤ (n : Rat)
  · rw [if_pos h]; exact Rat.floor_intCast n
  · rw [if_neg h]
    have : (-(n : Rat)) = ((-n : Int) : Rat) := by push_cast; ring
    rw [this, Rat.floor_intCast]; omega

/-- the hypotheses of the property, for the exact model -/
structure Hyp (R : Nat) (syms : List Nat) (bg : List Rat) (m : List (List (Option Rat))) : Prop where
  /-- background frequencies of the symbols are non-negative … -/
  bg_nonneg : ∀ a ∈ syms, 0 ≤ bg.getD a 0
  /-- … and sum to at most 1 (exactly 1 for a probability distribution; a wildcard with mass and a
      −∞ score is covered) -/
  bg_sum : (syms.map (fun a => bg.getD a 0)).sum ≤ 1
  /-- every row has a column for every symbol -/
  cols : ∀ row ∈ m, ∀ a ∈ syms, a < row.length
  /-- the table length fits the `i32` index type -/
  i32_size : ((m.length * R + 1 : Nat) : Int) ≤ I32_MAX
  /-- the finite entries fit the `i32` offset -/
  i32_cells : ∀ x ∈ finiteCells m, (I32_MIN : Rat) + 1 ≤ x ∧ x ≤ (I32_MAX : Rat)

/-- what `build` returns, field by field -/
theorem build_some {R : Nat} {syms : List Nat} {bg : List Rat} {m : List (List (Option Rat))}
    {d : Dist Rat} (h : build R syms bg m = some d) :
    ∃ small0 large, minBy (finiteCells m) = some small0 ∧ maxBy (finiteCells m) = some large ∧
      d.scale = scaleQ R small0 large ∧
      d.offset = clampI32 (ratTrunc (offQ small0 large)) ∧
      d.rows = m.length ∧
      d.data = discretize (offQ small0 large) (scaleQ R small0 large) m ∧
      d.sf = (sfLoop ((pdfOf R syms bg d.data).size - 1) ⟨clipLast (pdfOf R syms bg d.data), 0, 0⟩).sf ∧
      d.minScore = (sfLoop ((pdfOf R syms bg d.data).size - 1) ⟨clipLast (pdfOf R syms bg d.data), 0, 0⟩).minScore ∧
      d.maxScore = (sfLoop ((pdfOf R syms bg d.data).size - 1) ⟨clipLast (pdfOf R syms bg d.data), 0, 0⟩).maxScore := by
  unfold build at h
  cases hmin : minBy (finiteCells m) with
  | none => rw [hmin] at h; simp at h
  | some small0 =>
    cases hmax : maxBy (finiteCells m) with
    | none => rw [hmin, hmax] at h; simp at h
    | some large =>
      rw [hmin, hmax] at h
      simp only [Option.some.injEq] at h
      subst h
      exact ⟨small0, large, rfl, rfl, rfl, rfl, rfl, rfl, rfl, rfl, rfl⟩

/-! ### tails of the integer score -/

theorem prob_dGe_succ (syms : List Nat) (bg : List Rat) (M : Nat) (data : List (List Int)) (j : Nat) :
    prob syms bg M (dGe data (j : Int)) =
      prob syms bg M (dEq data j) + prob syms bg M (dGe data ((j + 1 : Nat) : Int)) := by
  unfold prob
  rw [← List.sum_map_add]
  apply sum_map_congr
  intro w _
  unfold dGe dEq
  cases dscore data w with
  | none => simp
  | some t =>
    by_cases h1 : t = j
    · subst h1; simp
    · by_cases h2 : j + 1 ≤ t
      · have : (j : Int) ≤ t := by omega
        simp [h1, this]
        intro h; omega
      · have : ¬ (j : Int) ≤ t := by omega
        simp [h1, this]
        intro h; omega

/-- events on words that agree on every word of the space have the same probability -/
theorem prob_congr (syms : List Nat) (bg : List Rat) (M : Nat) (e1 e2 : List Nat → Bool)
    (h : ∀ w ∈ words syms M, e1 w = e2 w) : prob syms bg M e1 = prob syms bg M e2 := by
  unfold prob
  apply sum_map_congr
  intro w hw
  rw [h w hw]

theorem prob_false (syms : List Nat) (bg : List Rat) (M : Nat) (e : List Nat → Bool)
    (h : ∀ w ∈ words syms M, e w = false) : prob syms bg M e = 0 := by
  unfold prob
  apply List.sum_eq_zero
  intro x hx
  obtain ⟨w, hw, rfl⟩ := List.mem_map.mp hx
  rw [h w hw]; simp

theorem dGe_antitone (data : List (List Int)) {k1 k2 : Int} (h : k1 ≤ k2) (w : List Nat) :
    dGe data k2 w = true → dGe data k1 w = true := by
  unfold dGe
  cases dscore data w with
  | none => simp
  | some t => simp; omega

/-- Facts about a built distribution that the property theorems use.  `WordBound` says that the
    integer score of every word of the probability space lies in `0 ..= M·R`. -/
def WordBound (R : Nat) (syms : List Nat) (M : Nat) (data : List (List Int)) : Prop :=
  ∀ w ∈ words syms M, ∀ t, dscore data w = some t → t ≤ M * R

theorem prob_dGe_of_nonpos {syms : List Nat} {bg : List Rat} {M : Nat} {data : List (List Int)}
    {k : Int} (hk : k ≤ 0) : prob syms bg M (dGe data k) = prob syms bg M (dGe data 0) := by
  apply prob_congr
  intro w _
  unfold dGe
  cases dscore data w with
  | none => rfl
  | some t =>
    have h1 : k ≤ (t : Int) := by omega
    have h2 : (0 : Int) ≤ (t : Int) := by omega
    simp [h1, h2]

theorem prob_dGe_of_large {R : Nat} {syms : List Nat} {bg : List Rat} {M : Nat} {data : List (List Int)}
    (hwb : WordBound R syms M data) {k : Int} (hk : ((M * R : Nat) : Int) < k) :
    prob syms bg M (dGe data k) = 0 := by
  apply prob_false
  intro w hw
  unfold dGe
  cases hd : dscore data w with
  | none => rfl
  | some t =>
    have := hwb w hw t hd
    have : ¬ k ≤ (t : Int) := by omega
    simp [this]

/-- What the property theorems need to know about a built distribution. -/
structure Facts (R : Nat) (syms : List Nat) (bg : List Rat) (m : List (List (Option Rat)))
    (d : Dist Rat) : Prop where
  rows : d.rows = m.length
  rows_pos : 0 < m.length
  R_i32 : (R : Int) ≤ I32_MAX
  data : d.data = discretize (d.offset : Rat) d.scale m
  cells : CellsOK R (d.offset : Rat) d.scale m
  wordBound : WordBound R syms m.length d.data
  size : d.sf.size = m.length * R + 1
  pdf : ∀ j, vget (pdfOf R syms bg d.data) j = prob syms bg m.length (dEq d.data j)
  sf : ∀ j, j < d.sf.size → vget d.sf j = prob syms bg m.length (dGe d.data (j : Int))
  min_nonneg : 0 ≤ d.minScore
  min_lt : d.minScore + 1 < d.sf.size
  min_mass : ∀ j : Nat, (j : Int) < d.minScore → prob syms bg m.length (dEq d.data j) = 0
  max_nonneg : 0 ≤ d.maxScore
  max_lt : d.maxScore < d.sf.size
  max_tail : MaxInv (fun j => prob syms bg m.length (dGe d.data (j : Int))) d.sf.size 0 d.maxScore

theorem build_facts {R : Nat} {syms : List Nat} {bg : List Rat} {m : List (List (Option Rat))}
    {d : Dist Rat} (hyp : Hyp R syms bg m) (h : build R syms bg m = some d) (hs : 0 < d.scale) :
    Facts R syms bg m d := by
  obtain ⟨small0, large, hmin, hmax, hscale, hoffset, hrows, hdata, hsf, hms, hmx⟩ := build_some h
  obtain ⟨hsmem, hsle⟩ := minBy_spec hmin
  obtain ⟨hlmem, hlge⟩ := maxBy_spec hmax
  -- the matrix has a row
  have hpos : 0 < m.length := by
    obtain ⟨row, hrow, _⟩ := mem_finiteCells.mp hsmem
    exact List.length_pos_of_mem hrow
  have hRi : (R : Int) ≤ I32_MAX := by
    have h1 : R ≤ m.length * R := Nat.le_mul_of_pos_left R hpos
    have h2 := hyp.i32_size
    have : ((R : Nat) : Int) ≤ ((m.length * R + 1 : Nat) : Int) := by exact_mod_cast (by omega : R ≤ m.length * R + 1)
    omega
  -- the offset fits an i32
  have hoffQ := offQ_eq small0 large
  have hadj_lo : small0 - 1 ≤ adjustSmall small0 large := by
    unfold adjustSmall
    rw [eqb_rat]
    by_cases he : small0 = large
    · simp only [he, decide_true, if_true, one_rat]; exact le_refl _
    · simp only [he, decide_false, Bool.false_eq_true, if_false]; linarith
  have hfl_lo : I32_MIN ≤ (adjustSmall small0 large).floor := by
    apply Rat.le_floor_iff.mpr
    have := (hyp.i32_cells small0 hsmem).1
    linarith
  have hfl_hi : (adjustSmall small0 large).floor ≤ I32_MAX := by
    have h1 := floor_le' (adjustSmall small0 large)
    have h2 := adjustSmall_le small0 large
    have h3 := (hyp.i32_cells small0 hsmem).2
    have : (((adjustSmall small0 large).floor : Int) : Rat) ≤ ((I32_MAX : Int) : Rat) := by linarith
    exact_mod_cast this
  have hoff : d.offset = (adjustSmall small0 large).floor := by
    rw [hoffset, hoffQ, ratTrunc_intCast]
    exact clampI32_of_mem hfl_lo hfl_hi
  have hoffR : (d.offset : Rat) = offQ small0 large := by rw [hoff, hoffQ]
  have hsQ : 0 < scaleQ R small0 large := by rw [← hscale]; exact hs
  have hdata' : d.data = discretize (d.offset : Rat) d.scale m := by rw [hdata, hoffR, hscale]
  have hcells : CellsOK R (d.offset : Rat) d.scale m := by
    intro row hrow x hx
    have hxmem : x ∈ finiteCells m := mem_finiteCells.mpr ⟨row, hrow, hx⟩
    rw [hoffR, hscale]
    exact scaled_cell_bounds hsQ (hsle x hxmem) (hlge x hxmem)
  -- integer rows are in range
  have hrowsOK : ∀ row ∈ d.data, RowOK R syms row := by
    intro row' hrow' a ha
    rw [hdata'] at hrow'
    obtain ⟨row, hrow, rfl⟩ := List.mem_map.mp hrow'
    have halt : a < row.length := hyp.cols row hrow a ha
    obtain ⟨c, hc⟩ : ∃ c, row[a]? = some c := ⟨row[a], List.getElem?_eq_getElem halt⟩
    have h2 : (row.map (discCell (d.offset : Rat) d.scale)).getD a 0 = discCell (d.offset : Rat) d.scale c := by
      rw [List.getD_eq_getElem?_getD, List.getElem?_map, hc]; rfl
    rw [h2]
    cases c with
    | none => left; exact discCell_none hs
    | some x =>
      right
      obtain ⟨hb0, hb1⟩ := hcells row hrow x (List.mem_of_getElem? hc)
      obtain ⟨hc0, hc1, _, _, _⟩ := discCell_some hRi hb0 hb1
      exact ⟨hc0, hc1⟩
  have hlen : d.data.length = m.length := by rw [hdata']; simp
  obtain ⟨hpsz, hpval, hpsupp⟩ := pdfOf_spec R syms bg d.data hrowsOK
  rw [hlen] at hpsz hpsupp
  have hpdf : ∀ j, vget (pdfOf R syms bg d.data) j = prob syms bg m.length (dEq d.data j) := by
    intro j; rw [hpval j, specQ_delta0, hlen]
  -- integer scores of words
  have hwb : WordBound R syms m.length d.data := by
    intro w hw t ht
    obtain ⟨hwl, hwm⟩ := mem_words hw
    rcases word_scores hRi hs m w hcells hwl (fun row hrow a ha => hyp.cols row hrow a (hwm a ha)) with
      ⟨_, hd⟩ | ⟨v, t', _, hd, _, _, hb⟩
    · rw [← hdata'] at hd; rw [hd] at ht; cases ht
    · rw [← hdata'] at hd; rw [hd] at ht; cases ht; exact hb
  -- the sf loop
  let p : Nat → Rat := fun j => prob syms bg m.length (dEq d.data j)
  let G : Nat → Rat := fun j => prob syms bg m.length (dGe d.data (j : Int))
  have hp : ∀ j, 0 ≤ p j := fun j => prob_nonneg hyp.bg_nonneg _ _
  have hG : ∀ j, G j = p j + G (j + 1) := fun j => prob_dGe_succ syms bg m.length d.data j
  have hG1 : ∀ j, G j ≤ 1 := fun j => prob_le_one hyp.bg_nonneg hyp.bg_sum _ _
  have hGtop : G (m.length * R + 1) = 0 := prob_dGe_of_large hwb (by push_cast; omega)
  have hplast : p (m.length * R) ≤ 1 := by
    have := hG (m.length * R); rw [hGtop] at this; linarith [hG1 (m.length * R)]
  have hclip : ∀ j, vget (clipLast (pdfOf R syms bg d.data)) j = p j := by
    intro j
    unfold clipLast
    rw [vget_vset _ _ _ _ (by omega), hpsz]
    by_cases hj : j = m.length * R + 1 - 1
    · rw [if_pos hj, hpdf]
      have : m.length * R + 1 - 1 = m.length * R := by omega
      rw [hj, this]
      exact min1_of_le_one hplast
    · rw [if_neg hj]; exact hpdf j
  have hG0 : ∀ j, 0 ≤ G j := fun j => prob_nonneg hyp.bg_nonneg _ _
  have hspec := sfLoop_spec p G (m.length * R + 1) hp hG hG1 hG0 (m.length * R)
    ⟨clipLast (pdfOf R syms bg d.data), 0, 0⟩
    (by show (clipLast _).size = _; unfold clipLast; rw [size_vset, hpsz])
    (le_refl _)
    (by
      intro j hj1 hj2
      have : j = m.length * R := by omega
      subst this
      show vget (clipLast _) _ = _
      rw [hclip, hG (m.length * R), hGtop, add_zero])
    (fun j _ => hclip j)
    ⟨le_refl _, by
      have : 0 < m.length * R := by
        by_contra hcon
        have hz : m.length * R = 0 := by omega
        -- R = 0 contradicts scale > 0
        have hR0 : R = 0 := by
          rcases Nat.mul_eq_zero.mp hz with h0 | h0
          · omega
          · exact h0
        rw [hscale, scaleQ_eq, hR0] at hs
        have hfl0 : (0 : Rat).floor = 0 := Rat.floor_intCast 0
        simp [hfl0] at hs
      show (0 : Int) + 1 < ((m.length * R + 1 : Nat) : Int)
      omega, fun j _ hj => by simp at hj; omega⟩
    ⟨le_refl _, by show (0 : Int) < ((m.length * R + 1 : Nat) : Int); omega,
      Or.inl ⟨rfl, fun k hk hks => by omega⟩⟩
  have hsz1 : (pdfOf R syms bg d.data).size - 1 = m.length * R := by rw [hpsz]; omega
  rw [hsz1] at hsf hms hmx
  obtain ⟨hssz, hsval, ⟨hm0, hm1, hm2⟩, hx0, hx1, hx2⟩ := hspec
  rw [← hsf] at hssz hsval
  rw [← hms] at hm0 hm1 hm2
  rw [← hmx] at hx0 hx1 hx2
  exact {
    rows := hrows, rows_pos := hpos, R_i32 := hRi, data := hdata', cells := hcells, wordBound := hwb,
    size := hssz, pdf := hpdf,
    sf := fun j hj => hsval j (by rw [hssz] at hj; exact hj),
    min_nonneg := hm0, min_lt := by rw [hssz]; exact hm1, min_mass := hm2,
    max_nonneg := hx0, max_lt := by rw [hssz]; exact hx1, max_tail := by rw [hssz]; exact hx2 }

end LMV.Dist
