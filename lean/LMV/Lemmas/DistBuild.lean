/-
  LMV.Lemmas.DistBuild — the discretisation: every finite cell lands in `[0, R]` within half a
  step of its scaled value; exact and integer score of a word differ by at most `M/2` steps.
-/
import LMV.Lemmas.DistProb
import Mathlib.Tactic.FieldSimp
import Mathlib.Algebra.Order.Field.Basic

namespace LMV.Dist

/-- `offset` as the exact model computes it from the extreme finite cells -/
def offQ (small0 large : Rat) : Rat := offsetOf (adjustSmall small0 large)

/-- `scale` as the exact model computes it -/
def scaleQ (R : Nat) (small0 large : Rat) : Rat := scaleOf R large (offQ small0 large)

theorem offQ_eq (small0 large : Rat) :
    offQ small0 large = (((adjustSmall small0 large).floor : Int) : Rat) := rfl

theorem adjustSmall_le (small0 large : Rat) : adjustSmall small0 large ≤ small0 := by
  unfold adjustSmall
  rw [eqb_rat]
  by_cases h : small0 = large
  · simp only [h, decide_true, if_true, one_rat]; linarith
  · simp only [h, decide_false, Bool.false_eq_true, if_false]; exact le_refl _

theorem offQ_le (small0 large : Rat) : offQ small0 large ≤ small0 :=
  le_trans (floor_le' _) (adjustSmall_le small0 large)

theorem scaleQ_eq (R : Nat) (small0 large : Rat) :
    scaleQ R small0 large = ((((R : Rat) / (large - offQ small0 large)).floor : Int) : Rat) := by
  unfold scaleQ scaleOf
  simp

theorem span_pos {R : Nat} {small0 large : Rat} (hs : 0 < scaleQ R small0 large) :
    0 < large - offQ small0 large := by
  by_contra hcon
  have hle : large - offQ small0 large ≤ 0 := not_lt.mp hcon
  have h1 : (R : Rat) / (large - offQ small0 large) ≤ 0 :=
    div_nonpos_of_nonneg_of_nonpos (Nat.cast_nonneg R) hle
  have h2 : ((R : Rat) / (large - offQ small0 large)).floor ≤ 0 := by
    have := Rat.floor_monotone h1
    rw [show (0 : Rat).floor = 0 from Rat.floor_intCast 0] at this
    exact this
  rw [scaleQ_eq] at hs
  have : ((((R : Rat) / (large - offQ small0 large)).floor : Int) : Rat) ≤ 0 := by exact_mod_cast h2
  linarith

/-- a finite cell between the extremes lands in `[0, R]` after scaling -/
theorem scaled_cell_bounds {R : Nat} {small0 large x : Rat} (hs : 0 < scaleQ R small0 large)
    (hlo : small0 ≤ x) (hhi : x ≤ large) :
    0 ≤ (x - offQ small0 large) * scaleQ R small0 large ∧
    (x - offQ small0 large) * scaleQ R small0 large ≤ R := by
  have hoff := offQ_le small0 large
  have hspan := span_pos hs
  have hsle : scaleQ R small0 large ≤ (R : Rat) / (large - offQ small0 large) := by
    rw [scaleQ_eq]; exact floor_le' _
  refine ⟨mul_nonneg (by linarith) hs.le, ?_⟩
  calc (x - offQ small0 large) * scaleQ R small0 large
      ≤ (large - offQ small0 large) * scaleQ R small0 large :=
        mul_le_mul_of_nonneg_right (by linarith) hs.le
    _ ≤ (large - offQ small0 large) * ((R : Rat) / (large - offQ small0 large)) :=
        mul_le_mul_of_nonneg_left hsle hspan.le
    _ = R := by field_simp

/-- the integer cell: in `[0, R]`, not the sentinel, within half a step -/
theorem discCell_some {R : Nat} (hR : (R : Int) ≤ I32_MAX) {off sc x : Rat}
    (h0 : 0 ≤ (x - off) * sc) (h1 : (x - off) * sc ≤ R) :
    0 ≤ discCell off sc (some x) ∧ discCell off sc (some x) ≤ R ∧
    discCell off sc (some x) ≠ I32_MIN ∧
    ((discCell off sc (some x) : Int) : Rat) ≤ (x - off) * sc + 1 / 2 ∧
    (x - off) * sc - 1 / 2 ≤ ((discCell off sc (some x) : Int) : Rat) := by
  have hr0 : 0 ≤ ratRound ((x - off) * sc) := by
    have := ratRound_mono h0
    rw [show ((0 : Rat)) = ((0 : Int) : Rat) by simp, ratRound_intCast] at this
    exact this
  have hr1 : ratRound ((x - off) * sc) ≤ R := by
    have := ratRound_mono h1
    rw [show ((R : Rat)) = (((R : Int)) : Rat) by simp, ratRound_intCast] at this
    exact this
  have hcl : discCell off sc (some x) = ratRound ((x - off) * sc) := by
    show clampI32 (ratRound ((x - off) * sc)) = _
    exact clampI32_of_mem (by unfold I32_MIN; omega) (by omega)
  rw [hcl]
  refine ⟨hr0, hr1, by unfold I32_MIN; omega, ratRound_le _, le_ratRound _⟩

theorem discCell_none {off sc : Rat} (hs : 0 < sc) : discCell off sc none = I32_MIN := by
  show (if 0 < sc then I32_MIN else if sc < 0 then I32_MAX else 0) = I32_MIN
  rw [if_pos hs]

/-! ### exact score and integer score of a word -/

/-- every finite cell of the matrix scales into `[0, R]` -/
def CellsOK (R : Nat) (off sc : Rat) (m : List (List (Option Rat))) : Prop :=
  ∀ row ∈ m, ∀ x, some x ∈ row → 0 ≤ (x - off) * sc ∧ (x - off) * sc ≤ R

theorem rscore_cons (row : List (Option Rat)) (rows : List (List (Option Rat))) (a : Nat) (w : List Nat) :
    rscore (row :: rows) (a :: w) =
      match row.getD a none, rscore rows w with
      | some x, some v => some (x + v)
      | _, _ => none := by
  rw [rscore]; rfl

theorem discretize_cons (off sc : Rat) (row : List (Option Rat)) (rest : List (List (Option Rat))) :
    discretize off sc (row :: rest) = row.map (discCell off sc) :: discretize off sc rest := rfl

@[simp] theorem length_discretize (off sc : Rat) (m : List (List (Option Rat))) :
    (discretize off sc m).length = m.length := by simp [discretize]

/-- Clause (3), word level: a word scores −∞ in the matrix iff the convolution skips it; otherwise
    its integer score `t` is within `M/2` of the scaled exact score, and `0 ≤ t ≤ M·R`. -/
theorem word_scores {R : Nat} (hR : (R : Int) ≤ I32_MAX) {off sc : Rat} (hs : 0 < sc) :
    ∀ (m : List (List (Option Rat))) (w : List Nat), CellsOK R off sc m → w.length = m.length →
      (∀ row ∈ m, ∀ a ∈ w, a < row.length) →
      (rscore m w = none ∧ dscore (discretize off sc m) w = none) ∨
      ∃ v t, rscore m w = some v ∧ dscore (discretize off sc m) w = some t ∧
        (t : Rat) ≤ sc * (v - m.length * off) + (m.length : Rat) / 2 ∧
        sc * (v - m.length * off) - (m.length : Rat) / 2 ≤ t ∧ t ≤ m.length * R := by
  intro m
  induction m with
  | nil =>
    intro w _ hlen _
    have : w = [] := List.length_eq_zero_iff.mp hlen
    subst this
    right
    exact ⟨0, 0, rfl, rfl, by simp, by simp, by simp⟩
  | cons row rest ih =>
    intro w hcells hlen hcols
    cases w with
    | nil => simp at hlen
    | cons a w' =>
      have ha : a < row.length := hcols row List.mem_cons_self a List.mem_cons_self
      obtain ⟨c, hc⟩ : ∃ c, row[a]? = some c := ⟨row[a], List.getElem?_eq_getElem ha⟩
      have h1 : row.getD a none = c := by rw [List.getD_eq_getElem?_getD, hc]; rfl
      have h2 : (row.map (discCell off sc)).getD a 0 = discCell off sc c := by
        rw [List.getD_eq_getElem?_getD, List.getElem?_map, hc]; rfl
      have hmem : c ∈ row := List.mem_of_getElem? hc
      have hrest := ih w' (fun r hr x hx => hcells r (List.mem_cons_of_mem _ hr) x hx)
        (by simpa using hlen)
        (fun r hr b hb => hcols r (List.mem_cons_of_mem _ hr) b (List.mem_cons_of_mem _ hb))
      rw [rscore_cons, discretize_cons, dscore_cons, h1, h2]
      cases c with
      | none =>
        left
        refine ⟨rfl, ?_⟩
        rw [if_pos (discCell_none hs)]
      | some x =>
        obtain ⟨hb0, hb1⟩ := hcells row List.mem_cons_self x hmem
        obtain ⟨hc0, hc1, hcm, hcu, hcl⟩ := discCell_some hR hb0 hb1
        rw [if_neg hcm]
        rcases hrest with ⟨hr, hd⟩ | ⟨v, t, hr, hd, hu, hl, ht⟩
        · left
          rw [hr, hd]
          exact ⟨rfl, rfl⟩
        · right
          rw [hr, hd]
          refine ⟨x + v, t + (discCell off sc (some x)).toNat, rfl, rfl, ?_, ?_, ?_⟩
          · have hcast : (((discCell off sc (some x)).toNat : Nat) : Rat) = ((discCell off sc (some x) : Int) : Rat) := by
              have : (((discCell off sc (some x)).toNat : Nat) : Int) = discCell off sc (some x) := Int.toNat_of_nonneg hc0
              exact_mod_cast congrArg (fun i : Int => (i : Rat)) this
            simp only [List.length_cons]
            push_cast
            rw [hcast]
            nlinarith [hu, hcu]
          · have hcast : (((discCell off sc (some x)).toNat : Nat) : Rat) = ((discCell off sc (some x) : Int) : Rat) := by
              have : (((discCell off sc (some x)).toNat : Nat) : Int) = discCell off sc (some x) := Int.toNat_of_nonneg hc0
              exact_mod_cast congrArg (fun i : Int => (i : Rat)) this
            simp only [List.length_cons]
            push_cast
            rw [hcast]
            nlinarith [hl, hcl]
          · have : (discCell off sc (some x)).toNat ≤ R := by omega
            simp only [List.length_cons]
            calc t + (discCell off sc (some x)).toNat ≤ rest.length * R + R := by omega
              _ = (rest.length + 1) * R := by ring

end LMV.Dist
