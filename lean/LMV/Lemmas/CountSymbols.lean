/-
  LMV.Lemmas.CountSymbols — the array form of symbol counting (`StripedSequence::count_symbols`)
  is, entry by entry, the single-symbol form (`count_symbol`): both run the same two loops, one
  bumping `counts[x]` for the symbol read, the other bumping a counter when the symbol read is `k`.

  Core Lean only (no Mathlib).  The statement about the linear sequence (under the striping
  invariant of C04) is `LMV.Bridge.countSymbols_eq` in Props/Bridge.lean.
-/
import LMV.Model.Seq

namespace LMV
namespace Striped

variable {C : Nat}

/-- two folds over the same list, run in lock-step, preserve a relation between their states -/
theorem foldl_rel {σ τ ι : Type} (R : σ → τ → Prop) (f : σ → ι → σ) (g : τ → ι → τ) (l : List ι)
    (h : ∀ a b x, x ∈ l → R a b → R (f a x) (g b x)) (a : σ) (b : τ) (hab : R a b) :
    R (l.foldl f a) (l.foldl g b) := by
  induction l generalizing a b with
  | nil => exact hab
  | cons x xs ih =>
    simp only [List.foldl_cons]
    exact ih (fun a b y hy => h a b y (by simp [hy])) _ _ (h a b x (by simp) hab)

/-- bumping entry `a` of a `K`-entry array moves entry `k < K` exactly when `a = k`
    (an out-of-range `a` leaves the array alone: it is not `k`) -/
theorem getD_set_bump (cnts : List Nat) (a k : Nat) (hk : k < cnts.length) :
    (cnts.set a (cnts.getD a 0 + 1)).getD k 0 = cnts.getD k 0 + (if a = k then 1 else 0) := by
  simp only [List.getD_eq_getElem?_getD, List.getElem?_set]
  by_cases hak : a = k
  · subst hak
    simp [hk]
  · simp [hak]

/-- entry `k` of `count_symbols` is `count_symbol(k)`, and the array keeps its `K` entries — for
    every matrix content (symbols `≥ K`, which the Rust type excludes, are simply not counted) -/
theorem countSymbols_getD (K : Nat) (st : Striped C) (k : Nat) (hk : k < K) :
    (st.countSymbols K).length = K ∧ (st.countSymbols K).getD k 0 = st.countSymbol k := by
  unfold countSymbols countSymbol
  apply foldl_rel (fun (cnts : List Nat) (cnt : Nat) => cnts.length = K ∧ cnts.getD k 0 = cnt)
  · intro cnts cnt i _ hR
    apply foldl_rel (fun (cnts : List Nat) (cnt : Nat) => cnts.length = K ∧ cnts.getD k 0 = cnt)
    · intro cnts cnt j _ hR
      obtain ⟨hlen, hget⟩ := hR
      by_cases hc : j * (st.data.rows - st.wrap) + i < st.length
      · simp only [hc, if_true, true_and]
        refine ⟨by rw [List.length_set]; exact hlen, ?_⟩
        rw [getD_set_bump _ _ _ (by omega), hget]
        by_cases ha : st.data.get i j = k
        · simp [ha]
        · simp [ha]
      · simp only [hc, if_false, false_and]
        exact ⟨hlen, hget⟩
    · exact hR
  · exact ⟨List.length_replicate, by simp [List.getD_eq_getElem?_getD, hk]⟩

/-- **`count_symbols` is `count_symbol` for every symbol**, as a list of `K` entries -/
theorem countSymbols_eq_map_countSymbol (K : Nat) (st : Striped C) :
    st.countSymbols K = (List.range K).map st.countSymbol := by
  apply List.ext_getElem?
  intro k
  by_cases hk : k < K
  · obtain ⟨hlen, hget⟩ := countSymbols_getD K st k hk
    rw [List.getElem?_map, List.getElem?_range hk, Option.map_some, ← hget,
      List.getD_eq_getElem?_getD, List.getElem?_eq_getElem (by omega)]
    rfl
  · have hlen : (st.countSymbols K).length = K := by
      rcases Nat.eq_zero_or_pos K with h0 | hpos
      · subst h0
        unfold countSymbols
        apply foldl_rel (fun (cnts : List Nat) (_ : Unit) => cnts.length = 0) _ (fun u _ => u) _ _ _ ()
        · exact List.length_replicate
        · intro cnts _ i _ hR
          apply foldl_rel (fun (cnts : List Nat) (_ : Unit) => cnts.length = 0) _ (fun u _ => u) _ _ _ () hR
          intro cnts _ j _ hR
          split
          · rw [List.length_set]; exact hR
          · exact hR
      · exact (countSymbols_getD K st 0 hpos).1
    rw [List.getElem?_eq_none (by omega), List.getElem?_eq_none (by simp; omega)]

end Striped
end LMV
