/-
  LMV.Lemmas.ScanAbstract — the scanner against the SPECIFICATION of its kernels.

  `KernelSpec` states what `next` / `max` need of the five operations of `Scanner.Kernels`
  (no SIMD detail): block scoring returns a matrix whose cells dominate `scale (score position)`,
  `max` bounds every cell, `threshold` lists exactly the cells `≥ t` once, `score_position` is the
  exact score, `scale` is monotone.  Everything here holds for every kernel record satisfying it.
-/
import LMV.Model.Scanner
import Mathlib.Data.List.Nodup
import Mathlib.Tactic.SplitIfs
import Mathlib.Tactic.Linarith

namespace LMV
namespace C02

open Scanner Disc ScanScalar

variable {α : Type} [ScanScalar α] {C : Nat}

/-- specification of the kernels for a sequence of `R` striped rows with `nPos = L + 1 − M`
    positions (`0` when `L < M`) whose exact scores are `score i` -/
structure KernelSpec (k : Kernels α C) (R nPos : Nat) (score : Nat → α) : Prop where
  hC : 0 < C
  seqRows : k.seqRows = R
  /-- the positions fit the striped matrix -/
  fits : nPos ≤ C * R
  /-- scoring a non-empty block of sequence rows does not panic; the cell of every position is at
      least the byte image of its exact score (C08) -/
  scoreRows : 0 < nPos → ∀ lo hi, lo < hi → hi ≤ R →
    ∃ ds, k.scoreRows lo hi = .ok ds ∧ ds.maxIndex = nPos ∧ ds.data.rows = hi - lo ∧
      ∀ r c, r < hi - lo → c < C → c * R + lo + r < nPos →
        k.scale (score (c * R + lo + r)) ≤ ds.data.get r c
  /-- a sequence shorter than the motif: empty scores, no panic -/
  scoreRowsShort : nPos = 0 → ∀ lo hi, ∃ ds, k.scoreRows lo hi = .ok ds ∧ ds.data.rows = 0
  /-- `max` is `None` only on empty scores and bounds every cell (C07) -/
  max_none : ∀ ds, k.max ds = none → ds.data.rows = 0
  max_ge : ∀ ds m, k.max ds = some m → ∀ r c, r < ds.data.rows → c < C → ds.data.get r c ≤ m
  /-- `threshold` returns exactly the cells `≥ t`, each once (C07) -/
  thr_nodup : ∀ ds t8, (k.threshold ds t8).Nodup
  thr_mem : ∀ ds t8 r c, (r, c) ∈ k.threshold ds t8 ↔ r < ds.data.rows ∧ c < C ∧ t8 ≤ ds.data.get r c
  /-- re-scoring a position of the sequence gives its exact score without a panic (C01/C04) -/
  scorePosition : ∀ i, i < nPos → k.scorePosition i = .ok (score i)
  /-- the score-to-byte mapping is monotone (C08) -/
  scale_mono : ∀ a b, ge b a = true → k.scale a ≤ k.scale b

/-- the hit of position `i` -/
def mkHit (score : Nat → α) (i : Nat) : Hit α := ⟨i, score i⟩

/-- positions scoring `≥ t` whose striped row `i mod R` lies in `[lo, hi)` -/
def rowsQual (score : Nat → α) (t : α) (nPos R lo hi : Nat) : List Nat :=
  (List.range nPos).filter fun i => decide (lo ≤ i % R) && decide (i % R < hi) && ge (score i) t

/-- all positions in `[0, nPos)` scoring `≥ t` -/
def allQual (score : Nat → α) (t : α) (nPos : Nat) : List Nat :=
  (List.range nPos).filter fun i => ge (score i) t

theorem mem_rowsQual {score : Nat → α} {t : α} {nPos R lo hi i : Nat} :
    i ∈ rowsQual score t nPos R lo hi ↔
      i < nPos ∧ lo ≤ i % R ∧ i % R < hi ∧ ge (score i) t = true := by
  simp [rowsQual, List.mem_filter, and_assoc]

theorem mem_allQual {score : Nat → α} {t : α} {nPos i : Nat} :
    i ∈ allQual score t nPos ↔ i < nPos ∧ ge (score i) t = true := by
  simp [allQual, List.mem_filter]

theorem rowsQual_nodup (score : Nat → α) (t : α) (nPos R lo hi : Nat) :
    (rowsQual score t nPos R lo hi).Nodup := List.Nodup.filter _ List.nodup_range

theorem allQual_nodup (score : Nat → α) (t : α) (nPos : Nat) : (allQual score t nPos).Nodup :=
  List.Nodup.filter _ List.nodup_range

/-- rows `[lo, hi)` split at `mid` -/
theorem rowsQual_split (score : Nat → α) (t : α) (nPos R lo mid hi : Nat) (h1 : lo ≤ mid)
    (h2 : mid ≤ hi) :
    (rowsQual score t nPos R lo hi).Perm
      (rowsQual score t nPos R lo mid ++ rowsQual score t nPos R mid hi) := by
  rw [List.perm_ext_iff_of_nodup (rowsQual_nodup ..)]
  · intro i
    simp only [List.mem_append, mem_rowsQual]
    constructor
    · rintro ⟨a, b, c, d⟩
      by_cases hm : i % R < mid
      · exact Or.inl ⟨a, b, hm, d⟩
      · exact Or.inr ⟨a, by omega, c, d⟩
    · rintro (⟨a, b, c, d⟩ | ⟨a, b, c, d⟩)
      · exact ⟨a, b, by omega, d⟩
      · exact ⟨a, by omega, c, d⟩
  · rw [List.nodup_append]
    refine ⟨rowsQual_nodup .., rowsQual_nodup .., ?_⟩
    intro a ha b hb hab
    subst hab
    rw [mem_rowsQual] at ha hb
    omega

theorem R_pos_of_pos {R nPos i : Nat} (hfit : nPos ≤ C * R) (hi : i < nPos) : 0 < R := by
  rcases Nat.eq_zero_or_pos R with h | h
  · subst h; omega
  · exact h

/-- all rows = all positions -/
theorem rowsQual_all (score : Nat → α) (t : α) (nPos R : Nat) (hfit : nPos ≤ C * R) :
    rowsQual score t nPos R 0 R = allQual score t nPos := by
  unfold rowsQual allQual
  apply List.filter_congr
  intro i hi
  have hR : 0 < R := R_pos_of_pos hfit (List.mem_range.mp hi)
  have := Nat.mod_lt i hR
  simp [this]

/-- no position lives in a row `≥ R` -/
theorem rowsQual_beyond (score : Nat → α) (t : α) (nPos R lo hi : Nat) (hfit : nPos ≤ C * R)
    (hlo : R ≤ lo) : rowsQual score t nPos R lo hi = [] := by
  unfold rowsQual
  rw [List.filter_eq_nil_iff]
  intro i hi
  have hR : 0 < R := R_pos_of_pos hfit (List.mem_range.mp hi)
  have := Nat.mod_lt i hR
  have : ¬ lo ≤ i % R := by omega
  simp [this]

/-! ### coordinates ↔ positions -/

theorem pos_mod (R c x : Nat) (hx : x < R) : (c * R + x) % R = x := by
  rw [Nat.add_comm, Nat.add_mul_mod_self_right]; exact Nat.mod_eq_of_lt hx

theorem pos_div (R c x : Nat) (hx : x < R) : (c * R + x) / R = c := by
  have hR : 0 < R := by omega
  rw [Nat.add_comm, Nat.add_mul_div_right _ _ hR, Nat.div_eq_of_lt hx]; simp

/-- position of the cell `(r, c)` of the block starting at `row` -/
def candPos (R row : Nat) (rc : Nat × Nat) : Nat := rc.2 * R + row + rc.1

theorem candPos_inj {R row : Nat} {a b : Nat × Nat} (ha : row + a.1 < R) (hb : row + b.1 < R)
    (h : candPos R row a = candPos R row b) : a = b := by
  unfold candPos at h
  rw [Nat.add_assoc, Nat.add_assoc] at h
  have h1 := congrArg (· % R) h
  have h2 := congrArg (· / R) h
  simp only [pos_mod R _ _ ha, pos_mod R _ _ hb, pos_div R _ _ ha, pos_div R _ _ hb] at h1 h2
  exact Prod.ext (by omega) h2

/-- the positions `next` keeps among the candidates, in candidate order -/
def keep (score : Nat → α) (t : α) (nPos R row : Nat) (cands : List (Nat × Nat)) : List Nat :=
  (cands.map (candPos R row)).filter fun i => decide (i < nPos) && ge (score i) t

/-- the candidate loop of `next` pushes exactly the kept positions, with their exact scores, and
    does not panic -/
theorem rescore_eq {k : Kernels α C} {R nPos : Nat} {score : Nat → α}
    (spec : KernelSpec k R nPos score) (t : α) (row : Nat) (cands : List (Nat × Nat))
    (hits : List (Hit α)) :
    rescore k t row nPos cands hits =
      .ok (((keep score t nPos R row cands).map (mkHit score)).reverse ++ hits) := by
  induction cands generalizing hits with
  | nil => simp [rescore, keep]
  | cons rc cs ih =>
    obtain ⟨r, c⟩ := rc
    simp only [rescore, spec.seqRows]
    by_cases hlt : c * R + row + r < nPos
    · rw [if_pos hlt, spec.scorePosition _ hlt]
      by_cases hge : ge (score (c * R + row + r)) t = true
      · simp only []
        rw [if_pos hge, ih]
        simp [keep, candPos, hlt, hge, mkHit]
      · simp only []
        rw [if_neg hge, ih]
        simp [keep, candPos, hge]
    · rw [if_neg hlt, ih]
      simp [keep, candPos, hlt]

/-- the kept positions of a scored block are exactly its qualifying positions -/
theorem keep_perm {k : Kernels α C} {R nPos : Nat} {score : Nat → α}
    (spec : KernelSpec k R nPos score) (t : α) (row e : Nat) (hre : row < e) (heR : e ≤ R)
    (ds : Scores C) (hrows : ds.data.rows = e - row)
    (hdom : ∀ r c, r < e - row → c < C → c * R + row + r < nPos →
      k.scale (score (c * R + row + r)) ≤ ds.data.get r c) :
    (keep score t nPos R row (k.threshold ds (k.scale t))).Perm (rowsQual score t nPos R row e) := by
  have hcand : ∀ rc ∈ k.threshold ds (k.scale t), row + rc.1 < R ∧ rc.2 < C := by
    intro rc hrc
    obtain ⟨r, c⟩ := rc
    have := (spec.thr_mem ds (k.scale t) r c).mp hrc
    exact ⟨by have := this.1; omega, this.2.1⟩
  have hnodup : (keep score t nPos R row (k.threshold ds (k.scale t))).Nodup := by
    unfold keep
    apply List.Nodup.filter
    apply List.Nodup.map_on _ (spec.thr_nodup ds (k.scale t))
    intro a ha b hb hab
    exact candPos_inj (hcand a ha).1 (hcand b hb).1 hab
  rw [List.perm_ext_iff_of_nodup hnodup (rowsQual_nodup ..)]
  intro i
  rw [mem_rowsQual]
  unfold keep
  simp only [List.mem_filter, List.mem_map, Bool.and_eq_true, decide_eq_true_eq]
  constructor
  · rintro ⟨⟨⟨r, c⟩, hmem, hi⟩, hlt, hge⟩
    have hc := hcand _ hmem
    have hm := (spec.thr_mem ds (k.scale t) r c).mp hmem
    simp only [candPos] at hi hc
    have hmod : i % R = row + r := by
      rw [← hi, Nat.add_assoc]; exact pos_mod R c _ hc.1
    refine ⟨hlt, by omega, ?_, hge⟩
    have := hm.1
    omega
  · rintro ⟨hlt, hlo, hhi, hge⟩
    have hR : 0 < R := R_pos_of_pos spec.fits hlt
    have hdm := Nat.div_add_mod i R
    have hcC : i / R < C := by
      apply Nat.div_lt_of_lt_mul
      calc i < nPos := hlt
        _ ≤ C * R := spec.fits
        _ = R * C := Nat.mul_comm _ _
    have hpos : i / R * R + row + (i % R - row) = i := by
      have : i / R * R = R * (i / R) := Nat.mul_comm _ _
      omega
    refine ⟨⟨(i % R - row, i / R), ?_, hpos⟩, hlt, hge⟩
    rw [spec.thr_mem]
    refine ⟨by omega, hcC, ?_⟩
    have h1 := hdom (i % R - row) (i / R) (by omega) hcC (by rw [hpos]; exact hlt)
    rw [hpos] at h1
    exact Nat.le_trans (spec.scale_mono t (score i) hge) h1

/-- cells of a block whose maximum is below the byte threshold: no position of the block meets the
    threshold -/
theorem no_qual_of_max_lt {k : Kernels α C} {R nPos : Nat} {score : Nat → α}
    (spec : KernelSpec k R nPos score) (row e : Nat)
    (ds : Scores C) (hrows : ds.data.rows = e - row)
    (hdom : ∀ r c, r < e - row → c < C → c * R + row + r < nPos →
      k.scale (score (c * R + row + r)) ≤ ds.data.get r c)
    (bound : UInt8) (hbound : ∀ r c, r < ds.data.rows → c < C → ds.data.get r c < bound)
    (i : Nat) (hlt : i < nPos) (hlo : row ≤ i % R) (hhi : i % R < e) :
    k.scale (score i) < bound := by
  have hR : 0 < R := R_pos_of_pos spec.fits hlt
  have hdm := Nat.div_add_mod i R
  have hcC : i / R < C := by
    apply Nat.div_lt_of_lt_mul
    calc i < nPos := hlt
      _ ≤ C * R := spec.fits
      _ = R * C := Nat.mul_comm _ _
  have hpos : i / R * R + row + (i % R - row) = i := by
    have : i / R * R = R * (i / R) := Nat.mul_comm _ _
    omega
  have h1 := hdom (i % R - row) (i / R) (by omega) hcC (by rw [hpos]; exact hlt)
  rw [hpos] at h1
  have h2 := hbound (i % R - row) (i / R) (by omega) hcC
  exact Nat.lt_of_le_of_lt h1 h2

end C02
end LMV
