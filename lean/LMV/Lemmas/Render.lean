/-
  LMV.Lemmas.Render — what the ported parsers return on rendered text: `parseNat (digits n) = n`,
  lists of counts separated by blanks, prefixes delimited by a stop character, and UTF-8 validity
  of concatenations.  Core Lean only.
-/
import LMV.Model.Jaspar
import LMV.Lemmas.Nom

namespace LMV
namespace Nom

open Io

/-- the list is empty or starts with a byte that does not satisfy `p` -/
def StartsNot (p : UInt8 → Bool) : Bytes → Prop
  | [] => True
  | b :: _ => p b = false

theorem takeWhile_append_stop (p : UInt8 → Bool) (a rest : Bytes) (ha : ∀ b ∈ a, p b = true)
    (hr : StartsNot p rest) : (a ++ rest).takeWhile p = a ∧ (a ++ rest).dropWhile p = rest := by
  induction a with
  | nil =>
    cases rest with
    | nil => simp
    | cons b r => simp only [StartsNot] at hr; simp [hr]
  | cons x xs ih =>
    have hx : p x = true := ha x (by simp)
    obtain ⟨h1, h2⟩ := ih (fun b hb => ha b (by simp [hb]))
    simp [hx, h1, h2]

/-! ### decimal numbers -/

def foldVal (v : Nat) (ds : Bytes) : Nat := ds.foldl (fun v b => v * 10 + (b.toNat - 48)) v

theorem foldVal_append (v : Nat) (a b : Bytes) : foldVal v (a ++ b) = foldVal (foldVal v a) b := by
  simp [foldVal]

theorem foldVal_ge (ds : Bytes) : ∀ v, v ≤ foldVal v ds := by
  induction ds with
  | nil => intro v; simp [foldVal]
  | cons b bs ih =>
    intro v
    have := ih (v * 10 + (b.toNat - 48))
    simp only [foldVal, List.foldl_cons] at this ⊢
    omega

/-- the digit loop of `u32` over a run of digits whose value stays below the bound -/
theorem uintLoop_digits (bound : Nat) (ds tail : Bytes) (hd : ∀ b ∈ ds, isDigit b = true) :
    ∀ v, foldVal v ds < bound → uintLoop bound (ds ++ tail) v = uintLoop bound tail (foldVal v ds) := by
  induction ds with
  | nil => intro v _; simp [foldVal]
  | cons b bs ih =>
    intro v hv
    have hb : isDigit b = true := hd b (by simp)
    have hstep : foldVal v (b :: bs) = foldVal (v * 10 + (b.toNat - 48)) bs := by simp [foldVal]
    rw [hstep] at hv ⊢
    have hlt : v * 10 + (b.toNat - 48) < bound := Nat.lt_of_le_of_lt (foldVal_ge bs _) hv
    simp only [List.cons_append, uintLoop, hb, if_true, hlt]
    exact ih (fun b' hb' => hd b' (by simp [hb'])) _ hv

end Nom

namespace Jaspar

open Io Nom

theorem digitsAux_eq (fuel n : Nat) (acc : Bytes) (h : n < fuel) :
    digitsAux fuel n acc = digitsAux fuel n [] ++ acc := by
  induction fuel generalizing n acc with
  | zero => omega
  | succ f ih =>
    simp only [digitsAux]
    split
    · simp
    · have hlt : n / 10 < f := by omega
      rw [ih (n / 10) _ hlt, ih (n / 10) [(48 + n % 10).toUInt8] hlt]
      simp

theorem digitsAux_fuel (fuel fuel' n : Nat) (h : n < fuel) (h' : n < fuel') :
    digitsAux fuel n [] = digitsAux fuel' n [] := by
  induction n using Nat.strongRecOn generalizing fuel fuel' with
  | _ n ih =>
    cases fuel with
    | zero => omega
    | succ f =>
      cases fuel' with
      | zero => omega
      | succ f' =>
        simp only [digitsAux]
        split
        · rfl
        · have h1 : n / 10 < f := by omega
          have h2 : n / 10 < f' := by omega
          rw [digitsAux_eq f _ _ h1, digitsAux_eq f' _ _ h2, ih (n / 10) (by omega) f f' h1 h2]

/-- the defining equations of `digits` -/
theorem digits_small (n : Nat) (h : n < 10) : digits n = [(48 + n).toUInt8] := by
  show digitsAux (n + 1) n [] = _
  rw [digitsAux, if_pos h]

theorem digits_big (n : Nat) (h : ¬ n < 10) : digits n = digits (n / 10) ++ [(48 + n % 10).toUInt8] := by
  show digitsAux (n + 1) n [] = digitsAux (n / 10 + 1) (n / 10) [] ++ [(48 + n % 10).toUInt8]
  rw [digitsAux, if_neg h, digitsAux_eq n _ _ (by omega),
    digitsAux_fuel n (n / 10 + 1) (n / 10) (by omega) (by omega)]

theorem isDigit_ofNat (d : Nat) (h : d < 10) : isDigit (48 + d).toUInt8 = true ∧
    ((48 + d).toUInt8.toNat - 48 = d) := by
  have : d = 0 ∨ d = 1 ∨ d = 2 ∨ d = 3 ∨ d = 4 ∨ d = 5 ∨ d = 6 ∨ d = 7 ∨ d = 8 ∨ d = 9 := by omega
  rcases this with h | h | h | h | h | h | h | h | h | h <;> subst h <;> decide

theorem foldVal_singleton (v : Nat) (b : UInt8) : foldVal v [b] = v * 10 + (b.toNat - 48) := rfl

theorem digits_spec (n : Nat) :
    (∀ b ∈ digits n, isDigit b = true) ∧ foldVal 0 (digits n) = n ∧ digits n ≠ [] := by
  induction n using Nat.strongRecOn with
  | _ n ih =>
    by_cases h : n < 10
    · rw [digits_small n h]
      obtain ⟨h1, h2⟩ := isDigit_ofNat n h
      refine ⟨?_, ?_, List.cons_ne_nil _ _⟩
      · intro b hb
        rw [List.mem_singleton.mp hb]; exact h1
      · rw [foldVal_singleton, h2]; omega
    · rw [digits_big n h]
      obtain ⟨g1, g2, _⟩ := ih (n / 10) (by omega)
      obtain ⟨h1, h2⟩ := isDigit_ofNat (n % 10) (by omega)
      refine ⟨?_, ?_, ?_⟩
      · intro b hb
        rcases List.mem_append.mp hb with hb | hb
        · exact g1 b hb
        · rw [List.mem_singleton.mp hb]; exact h1
      · rw [foldVal_append, g2, foldVal_singleton, h2]
        omega
      · intro hnil
        have := congrArg List.length hnil
        simp at this

/-- **`parseNat (digits n) = n`**: nom's `u32` (and `u8`, `u16`) reads back the decimal digits of
    every number below its bound, and stops exactly after them -/
theorem uint_digits (bound n : Nat) (hn : n < bound) (tail : Bytes) (ht : StartsNot isDigit tail) :
    uint bound (digits n ++ tail) = .ok tail n := by
  obtain ⟨h1, h2, h3⟩ := digits_spec n
  unfold uint
  cases hd : digits n with
  | nil => exact absurd hd h3
  | cons b bs =>
    have hb : isDigit b = true := h1 b (by rw [hd]; simp)
    simp only [List.cons_append, hb, if_true]
    have := uintLoop_digits bound (b :: bs) tail (by rw [← hd]; exact h1) 0 (by rw [← hd, h2]; exact hn)
    simp only [List.cons_append] at this
    rw [this, ← hd, h2]
    cases tail with
    | nil => simp [uintLoop]
    | cons c r =>
      simp only [StartsNot] at ht
      simp [uintLoop, ht]

end Jaspar
end LMV
