/-
  LMV.Lemmas.BuildSpec — what the column-filling loops of `build_matrix` compute, for any scalar
  type.  Core Lean only.
-/
import LMV.Lemmas.Build

namespace LMV
namespace Io

variable {α : Type} [Inhabited α] {K : Nat}

theorem fillColumn_getG (s : Nat) (xs : List α) :
    ∀ (m m' : Mat α K) (i : Nat), fillColumn m s i xs = some m' →
      m'.rows = m.rows ∧ ∀ r c, m'.get r c =
        if c = s ∧ i ≤ r ∧ r < i + xs.length then xs.getD (r - i) default else m.get r c := by
  induction xs with
  | nil =>
    intro m m' i h
    simp only [fillColumn, Option.some.injEq] at h
    subst h
    exact ⟨rfl, fun r c => by rw [if_neg (by simp)]⟩
  | cons x xs ih =>
    intro m m' i h
    simp only [fillColumn] at h
    split at h
    · rename_i hc
      obtain ⟨g1, g2⟩ := ih (m.set i s x) m' (i + 1) h
      refine ⟨by simpa using g1, ?_⟩
      intro r c
      rw [g2 r c, Mat.get_set]
      by_cases hcs : c = s
      · by_cases hr : r = i
        · subst hr; subst hcs
          rw [if_neg (by omega), if_pos ⟨rfl, rfl, hc.1, hc.2⟩,
            if_pos ⟨rfl, Nat.le_refl _, by simp⟩]
          simp
        · by_cases hlo : i + 1 ≤ r ∧ r < i + 1 + xs.length
          · have e1 : c = s ∧ i + 1 ≤ r ∧ r < i + 1 + xs.length := ⟨hcs, hlo⟩
            have e2 : c = s ∧ i ≤ r ∧ r < i + (x :: xs).length := ⟨hcs, by omega, by simp; omega⟩
            rw [if_pos e1, if_pos e2]
            have : r - i = (r - (i + 1)) + 1 := by omega
            rw [this]; simp
          · have e1 : ¬ (c = s ∧ i + 1 ≤ r ∧ r < i + 1 + xs.length) := fun e => hlo e.2
            have e2 : ¬ (c = s ∧ i ≤ r ∧ r < i + (x :: xs).length) := by
              intro e; simp at e; omega
            rw [if_neg e1, if_neg e2]
            have e3 : ¬ (r = i ∧ c = s ∧ i < m.rows ∧ s < K) := fun e => hr e.1
            rw [if_neg e3]
      · have e1 : ¬ (c = s ∧ i + 1 ≤ r ∧ r < i + 1 + xs.length) := fun e => hcs e.1
        have e2 : ¬ (c = s ∧ i ≤ r ∧ r < i + (x :: xs).length) := fun e => hcs e.1
        have e3 : ¬ (r = i ∧ c = s ∧ i < m.rows ∧ s < K) := fun e => hcs e.2.1
        rw [if_neg e1, if_neg e2, if_neg e3]
    · cases h

/-- the loop of `build_matrix` (jaspar16 / uniprobe) puts every column where its symbol says -/
theorem buildSymLoop_specG (cols : List (Nat × List α)) :
    ∀ (m : Mat α K) (done : List Nat),
      (∀ c ∈ cols, c.1 < K) → (∀ c ∈ cols, c.1 ∉ done) → (cols.map (·.1)).Nodup →
      (∀ c ∈ cols, c.2.length = m.rows) →
      ∃ m', buildSymLoop m done cols = .ok m' ∧ m'.rows = m.rows ∧
        ∀ r c, r < m.rows → m'.get r c =
          match cols.find? (·.1 == c) with
          | some col => col.2.getD r default
          | none => m.get r c := by
  induction cols with
  | nil => intro m done _ _ _ _; exact ⟨m, rfl, rfl, fun r c _ => rfl⟩
  | cons p rest ih =>
    intro m done hK hdone hnd hlen
    obtain ⟨s, cs⟩ := p
    have hs : s < K := hK (s, cs) (by simp)
    have hsd : s ∉ done := hdone (s, cs) (by simp)
    have hl : cs.length = m.rows := hlen (s, cs) (by simp)
    simp only [List.map_cons, List.nodup_cons] at hnd
    obtain ⟨m1, f1, r1⟩ := fillColumn_some s hs cs m 0 (by omega)
    obtain ⟨_, g1⟩ := fillColumn_getG s cs m m1 0 f1
    obtain ⟨m', b1, b2, b3⟩ := ih m1 (s :: done) (fun c hc => hK c (by simp [hc]))
      (fun c hc => by
        simp only [List.mem_cons, not_or]
        refine ⟨?_, hdone c (by simp [hc])⟩
        intro e
        exact hnd.1 (by rw [← e]; exact List.mem_map_of_mem hc))
      hnd.2 (fun c hc => by rw [r1]; exact hlen c (by simp [hc]))
    refine ⟨m', ?_, by omega, ?_⟩
    · have hcontains : done.contains s = false := by simpa using hsd
      simp only [buildSymLoop, Nat.not_le.mpr hs, if_false, hcontains, Bool.false_eq_true, hl, ne_eq,
        not_true_eq_false, f1]
      exact b1
    · intro r c hr
      rw [b3 r c (by omega)]
      by_cases hcs : s = c
      · subst hcs
        have hfind : rest.find? (·.1 == s) = none := by
          rw [List.find?_eq_none]
          intro x hx hxs
          exact hnd.1 (by
            have : x.1 = s := by simpa using hxs
            rw [← this]; exact List.mem_map_of_mem hx)
        simp only [hfind, List.find?_cons, beq_self_eq_true]
        rw [g1 r s, if_pos ⟨rfl, Nat.zero_le _, by omega⟩]
        simp
      · have hbeq : ((s, cs).1 == c) = false := by simpa using hcs
        simp only [List.find?_cons, hbeq]
        cases hfind : rest.find? (·.1 == c) with
        | some col => rfl
        | none =>
          simp only
          rw [g1 r c, if_neg (fun e => hcs e.1.symm)]

end Io
end LMV
