/-
  LMV.Lemmas.Maximum — helper lemmas for C07: total preorders given by Boolean comparisons, scans
  that keep a running best, lane-wise row loops, stores through index maps.
-/
import LMV.Model.Maximum

namespace LMV
namespace Maximum

open LMV.Gen.MaxK

/-- "no NaN": the comparisons form a total preorder, and `<` is the strict part of `<=` -/
structure Cmp.Total {α : Type} (o : Cmp α) : Prop where
  total : ∀ a b, o.le a b = true ∨ o.le b a = true
  trans : ∀ a b c, o.le a b = true → o.le b c = true → o.le a c = true
  lt_iff : ∀ a b, o.lt a b = !o.le b a

namespace Cmp.Total
variable {α : Type} {o : Cmp α}

theorem refl (h : o.Total) (a : α) : o.le a a = true := by
  cases h.total a a <;> assumption

theorem le_of_not_le (h : o.Total) {a b : α} (hab : o.le a b = false) : o.le b a = true := by
  cases h.total a b with
  | inl h1 => rw [h1] at hab; cases hab
  | inr h1 => exact h1

theorem le_of_lt (h : o.Total) {a b : α} (hab : o.lt a b = true) : o.le a b = true := by
  rw [h.lt_iff] at hab
  apply h.le_of_not_le
  cases hb : o.le b a <;> simp_all

theorem le_of_not_lt (h : o.Total) {a b : α} (hab : o.lt a b = false) : o.le b a = true := by
  rw [h.lt_iff] at hab
  cases hb : o.le b a <;> simp_all

end Cmp.Total

/-! ### Scans keeping a running best -/

section Scan
variable {α σ ι : Type}

/-- a left fold whose state has a key that never decreases and dominates every element seen -/
theorem foldl_best (o : Cmp α) (ht : o.Total) (key : σ → α) (val : ι → α) (step : σ → ι → σ)
    (h1 : ∀ s x, o.le (key s) (key (step s x)) = true)
    (h2 : ∀ s x, o.le (val x) (key (step s x)) = true) :
    ∀ (l : List ι) (s : σ), o.le (key s) (key (l.foldl step s)) = true ∧
      ∀ x ∈ l, o.le (val x) (key (l.foldl step s)) = true := by
  intro l
  induction l with
  | nil => intro s; exact ⟨ht.refl _, by simp⟩
  | cons x xs ih =>
    intro s
    obtain ⟨a, b⟩ := ih (step s x)
    refine ⟨ht.trans _ _ _ (h1 s x) a, ?_⟩
    intro y hy
    rcases List.mem_cons.1 hy with rfl | hy
    · exact ht.trans _ _ _ (h2 s y) a
    · exact b y hy

/-- invariants of a left fold -/
theorem foldl_inv (P : σ → Prop) (step : σ → ι → σ) :
    ∀ (l : List ι) (s : σ), (∀ s x, x ∈ l → P s → P (step s x)) → P s → P (l.foldl step s) := by
  intro l
  induction l with
  | nil => intro s _ h; exact h
  | cons x xs ih =>
    intro s hstep h
    exact ih (step s x) (fun s y hy hp => hstep s y (List.mem_cons_of_mem _ hy) hp)
      (hstep s x (List.mem_cons_self ..) h)

/-- a binary operation that returns one of its arguments, which dominates both -/
def MaxLike (o : Cmp α) (op : α → α → α) : Prop :=
  ∀ a b, (op a b = a ∨ op a b = b) ∧ o.le a (op a b) = true ∧ o.le b (op a b) = true

theorem foldl_maxLike (o : Cmp α) (ht : o.Total) (op : α → α → α) (hop : MaxLike o op) :
    ∀ (l : List α) (a : α), (l.foldl op a = a ∨ l.foldl op a ∈ l) ∧
      o.le a (l.foldl op a) = true ∧ ∀ x ∈ l, o.le x (l.foldl op a) = true := by
  intro l
  induction l with
  | nil => intro a; exact ⟨Or.inl rfl, ht.refl _, by simp⟩
  | cons x xs ih =>
    intro a
    obtain ⟨h1, h2, h3⟩ := ih (op a x)
    obtain ⟨g1, g2, g3⟩ := hop a x
    refine ⟨?_, ht.trans _ _ _ g2 h2, ?_⟩
    · simp only [List.foldl_cons, List.mem_cons]
      rcases h1 with h1 | h1
      · rcases g1 with g1 | g1
        · left; rw [h1, g1]
        · right; left; rw [h1, g1]
      · right; right; exact h1
    · intro y hy
      rcases List.mem_cons.1 hy with rfl | hy
      · exact ht.trans _ _ _ g3 h2
      · exact h3 y hy

theorem maxLike_flip (o : Cmp α) (op : α → α → α) (hop : MaxLike o op) :
    MaxLike o (fun a b => op b a) := by
  intro a b
  obtain ⟨g1, g2, g3⟩ := hop b a
  exact ⟨g1.symm, g3, g2⟩

theorem maxps_maxLike (o : Cmp α) (ht : o.Total) : MaxLike o (maxps o) := by
  intro a b
  unfold maxps
  split
  · next h => exact ⟨Or.inl rfl, ht.refl _, ht.le_of_lt h⟩
  · next h => exact ⟨Or.inr rfl, ht.le_of_not_lt (by simpa using h), ht.refl _⟩

theorem fmax_maxLike (o : Cmp α) (ht : o.Total) : MaxLike o (fmax o) := by
  intro a b
  unfold fmax
  split
  · next h => exact ⟨Or.inr rfl, ht.le_of_lt h, ht.refl _⟩
  · next h => exact ⟨Or.inl rfl, ht.refl _, ht.le_of_not_lt (by simpa using h)⟩

theorem maxepu8_maxLike (o : Cmp α) (ht : o.Total) : MaxLike o (maxepu8 o) :=
  fmax_maxLike o ht

theorem iterMaxOp_maxLike (o : Cmp α) (ht : o.Total) :
    MaxLike o (fun a b => if o.lt b a then a else b) := maxps_maxLike o ht

/-- `reduce1` of a max-like operation returns an element that dominates the list -/
theorem reduce1_maxLike (o : Cmp α) (ht : o.Total) (op : α → α → α) (hop : MaxLike o op)
    (l : List α) (v : α) (h : reduce1 op l = some v) : v ∈ l ∧ ∀ x ∈ l, o.le x v = true := by
  cases l with
  | nil => simp [reduce1] at h
  | cons a t =>
    simp only [reduce1, Option.some.injEq] at h
    obtain ⟨h1, h2, h3⟩ := foldl_maxLike o ht op hop t a
    rw [h] at h1 h2 h3
    refine ⟨?_, ?_⟩
    · rcases h1 with h1 | h1
      · rw [h1]; exact List.mem_cons_self ..
      · exact List.mem_cons_of_mem _ h1
    · intro x hx
      rcases List.mem_cons.1 hx with rfl | hx
      · exact h2
      · exact h3 x hx

theorem reduce1_eq_none {β : Type} (op : β → β → β) (l : List β) : reduce1 op l = none ↔ l = [] := by
  cases l <;> simp [reduce1]

end Scan

/-! ### The row loop, lane by lane -/

section Rows
variable {σ ρ : Type}

/-- what one slot holds after the row loop: the fold of the lane step down its own column -/
def laneFold (step : Nat → σ → ρ → σ) (g : Nat → ρ) (l : List Nat) (a : σ) : σ :=
  l.foldl (fun acc i => step i acc (g i)) a

theorem foldl_rowStep_getElem? (step : Nat → σ → ρ → σ) (rd : Nat → Nat → ρ) :
    ∀ (l : List Nat) (init : List σ) (s : Nat),
      (l.foldl (rowStep step rd) init)[s]? = init[s]?.map (laneFold step (fun i => rd i s) l) := by
  intro l
  induction l with
  | nil =>
    intro init s
    simp only [List.foldl_nil]
    cases init[s]? <;> rfl
  | cons i l ih =>
    intro init s
    simp only [List.foldl_cons]
    rw [ih]
    simp only [rowStep, List.getElem?_mapIdx, Option.map_map]
    cases init[s]? <;> rfl

theorem rowsRun_getElem? (step : Nat → σ → ρ → σ) (rd : Nat → Nat → ρ) (rows : Nat)
    (init : List σ) (s : Nat) :
    (rowsRun step rd rows init)[s]? =
      init[s]?.map (laneFold step (fun i => rd i s) (List.range rows)) :=
  foldl_rowStep_getElem? step rd _ _ _

theorem foldl_rowStep_length (step : Nat → σ → ρ → σ) (rd : Nat → Nat → ρ) :
    ∀ (l : List Nat) (init : List σ), (l.foldl (rowStep step rd) init).length = init.length := by
  intro l
  induction l with
  | nil => intro init; rfl
  | cons i l ih => intro init; simp only [List.foldl_cons]; rw [ih]; simp [rowStep]

theorem rowsRun_length (step : Nat → σ → ρ → σ) (rd : Nat → Nat → ρ) (rows : Nat) (init : List σ) :
    (rowsRun step rd rows init).length = init.length := foldl_rowStep_length step rd _ _

/-- The arg-max lane down one column.  `le` is a total preorder on what the lane reads, `R s v`
    says that the lane's score register `s` stands for the value `v` (`s = v` for floats,
    `s = v - 1` in the 16-bit lanes of the u8 kernel).  Provided the first row is taken, the lane
    ends with the index of a row holding the column maximum. -/
theorem laneFold_argmax (le : ρ → ρ → Bool)
    (htot : ∀ a b, le a b = true ∨ le b a = true)
    (htrans : ∀ a b c, le a b = true → le b c = true → le a c = true)
    (take : σ → ρ → Bool) (upd : ρ → σ) (idx : Nat → Nat) (R : σ → ρ → Prop)
    (hupd : ∀ r, R (upd r) r) (htake : ∀ s v r, R s v → take s r = le v r)
    (g : Nat → ρ) (p0 : Nat) (s0 : σ) (hinit : take s0 (g 0) = true) :
    ∀ n, (∀ i, i < n + 1 → idx i = i) →
      let r := laneFold (laneStep take upd idx) g (List.range (n + 1)) (p0, s0)
      r.1 < n + 1 ∧ R r.2 (g r.1) ∧ ∀ i, i < n + 1 → le (g i) (g r.1) = true := by
  have hrefl : ∀ a, le a a = true := fun a => by cases htot a a <;> assumption
  intro n
  induction n with
  | zero =>
    intro hidx
    simp only [laneFold, List.range_succ, List.range_zero, List.nil_append, List.foldl_cons,
      List.foldl_nil, laneStep, hinit, if_true, hidx 0 (by omega)]
    refine ⟨by omega, hupd _, ?_⟩
    intro i hi
    have : i = 0 := by omega
    subst this
    exact hrefl _
  | succ n ih =>
    intro hidx
    have ih' := ih (fun i hi => hidx i (by omega))
    simp only [laneFold] at ih' ⊢
    rw [List.range_succ, List.foldl_append]
    generalize (List.range (n + 1)).foldl (fun acc i => laneStep take upd idx i acc (g i)) (p0, s0) = st at ih' ⊢
    obtain ⟨h1, h2, h3⟩ := ih'
    simp only [List.foldl_cons, List.foldl_nil, laneStep]
    rw [htake _ _ _ h2]
    cases hc : le (g st.1) (g (n + 1))
    · simp only [Bool.false_eq_true, if_false]
      refine ⟨by omega, h2, ?_⟩
      intro i hi
      by_cases hi' : i < n + 1
      · exact h3 i hi'
      · have : i = n + 1 := by omega
        subst this
        cases htot (g st.1) (g (n + 1)) with
        | inl h => rw [h] at hc; cases hc
        | inr h => exact h
    · simp only [if_true, hidx (n + 1) (by omega)]
      refine ⟨by omega, hupd _, ?_⟩
      intro i hi
      by_cases hi' : i < n + 1
      · exact htrans _ _ _ (h3 i hi') hc
      · have : i = n + 1 := by omega
        subst this
        exact hrefl _

end Rows

/-! ### Stores through index maps -/

section Stores
variable {β γ : Type}

theorem regLanes_map (g : β → γ) (w : Nat) (p : List β) (k : Nat) :
    regLanes w (p.map g) k = (regLanes w p k).map g := by
  simp [regLanes, List.map_take, List.map_drop]

theorem half128_map (g : β → γ) (z : β) (w : Nat) (p : List β) (a b ctl : Nat) :
    half128 (g z) w (p.map g) a b ctl = (half128 z w p a b ctl).map g := by
  unfold half128
  split
  · simp
  · split <;> split <;> simp [regLanes_map]

theorem Src.lanes_map (g : β → γ) (z : β) (w : Nat) (p : List β) (s : Src) :
    Src.lanes (g z) w (p.map g) s = (Src.lanes z w p s).map g := by
  cases s with
  | reg k => simp [Src.lanes, regLanes_map]
  | perm a b imm => simp [Src.lanes, half128_map]

theorem writeAt_map (g : β → γ) (x : List β) (off : Nat) (v : List β) :
    writeAt (x.map g) off (v.map g) = (writeAt x off v).map g := by
  simp [writeAt, List.map_take, List.map_drop]

theorem storeAll_map (g : β → γ) (z : β) (n w : Nat) (stores : List (Nat × Src)) (p : List β) :
    storeAll (g z) n w stores (p.map g) = (storeAll z n w stores p).map g := by
  unfold storeAll
  have : ∀ (x : List β), stores.foldl (fun x st => writeAt x st.1 (Src.lanes (g z) w (p.map g) st.2)) (x.map g)
      = (stores.foldl (fun x st => writeAt x st.1 (Src.lanes z w p st.2)) x).map g := by
    induction stores with
    | nil => intro x; rfl
    | cons st rest ih =>
      intro x
      simp only [List.foldl_cons]
      rw [Src.lanes_map, writeAt_map, ih]
  rw [← this]
  simp

/-- a list of length `n` is the image of `0..n` under its own `getD` -/
theorem eq_map_range_getD (p : List β) (z : β) : p = (List.range p.length).map (fun i => p.getD i z) := by
  apply List.ext_getElem?
  intro i
  by_cases h : i < p.length
  · simp [h, List.getD_eq_getElem?_getD]
  · simp [h]

/-- stores act on the register file through an index map: with the slots labelled `0..n` (and the
    label `n` for "zero"), the stored array is the image of the stored labels -/
theorem storeAll_eq_map (z : β) (n w : Nat) (stores : List (Nat × Src)) (p : List β)
    (hp : p.length = n) :
    storeAll z n w stores p = (storeAll n n w stores (List.range n)).map (fun i => p.getD i z) := by
  have h1 : p.getD n z = z := by
    simp [List.getD_eq_getElem?_getD, List.getElem?_eq_none (Nat.le_of_eq hp)]
  have h2 := storeAll_map (fun i => p.getD i z) n n w stores (List.range n)
  simp only [h1] at h2
  rw [← h2]
  congr 1
  rw [← hp]
  exact eq_map_range_getD p z

theorem length_writeAt (x : List β) (off : Nat) (v : List β) (h : off + v.length ≤ x.length) :
    (writeAt x off v).length = x.length := by
  simp only [writeAt, List.length_append, List.length_take, List.length_drop]
  omega

theorem getElem?_writeAt (x : List β) (off : Nat) (v : List β) (h : off + v.length ≤ x.length)
    (i : Nat) :
    (writeAt x off v)[i]? =
      if i < off then x[i]? else if i < off + v.length then v[i - off]? else x[i]? := by
  unfold writeAt
  have h1 : (x.take off).length = off := by simp only [List.length_take]; omega
  by_cases hi : i < off
  · rw [List.append_assoc, List.getElem?_append_left (by omega)]
    simp [hi]
  · by_cases hi2 : i < off + v.length
    · rw [List.getElem?_append_left (by simp only [List.length_append, h1]; omega),
        List.getElem?_append_right (by omega)]
      simp [hi, hi2, h1]
    · rw [List.getElem?_append_right (by simp only [List.length_append, h1]; omega)]
      simp only [hi, hi2, if_false, List.length_append, h1, List.getElem?_drop]
      congr 1
      omega

end Stores

end Maximum
end LMV
