/-
  LMV.Lemmas.FoldPerm — a left fold of an associative-commutative operation over `0..n` does not
  change when the index is sent through an involution of `0..n` (the re-ordering of a sum that
  reverse complementation performs: column permutation by `complement`, row reversal).
-/
import Mathlib.Data.List.Nodup

namespace LMV
namespace FoldPerm

variable {α : Type}

/-- an involution of `0..n` permutes `List.range n` -/
theorem map_involution_perm (n : Nat) (σ : Nat → Nat)
    (hlt : ∀ j, j < n → σ j < n) (hinv : ∀ j, j < n → σ (σ j) = j) :
    ((List.range n).map σ).Perm (List.range n) := by
  have hinj : ∀ a, a ∈ List.range n → ∀ b, b ∈ List.range n → σ a = σ b → a = b := by
    intro a ha b hb h
    have := congrArg σ h
    rwa [hinv a (List.mem_range.mp ha), hinv b (List.mem_range.mp hb)] at this
  have hnd : ((List.range n).map σ).Nodup := List.Nodup.map_on hinj List.nodup_range
  rw [List.perm_ext_iff_of_nodup hnd List.nodup_range]
  intro a
  simp only [List.mem_map, List.mem_range]
  constructor
  · rintro ⟨b, hb, rfl⟩; exact hlt b hb
  · intro ha; exact ⟨σ a, hlt a ha, hinv a ha⟩

/-- the fold of `acc ↦ op acc (g j)` over `0..n` is invariant under an involution of the index,
    for an associative and commutative `op` (no neutral element is needed) -/
theorem foldl_involution (op : α → α → α)
    (assoc : ∀ a b c, op (op a b) c = op a (op b c)) (comm : ∀ a b, op a b = op b a)
    (n : Nat) (σ : Nat → Nat) (hlt : ∀ j, j < n → σ j < n) (hinv : ∀ j, j < n → σ (σ j) = j)
    (g : Nat → α) (init : α) :
    (List.range n).foldl (fun acc j => op acc (g (σ j))) init
      = (List.range n).foldl (fun acc j => op acc (g j)) init := by
  have h1 : (List.range n).foldl (fun acc j => op acc (g (σ j))) init
      = ((List.range n).map σ).foldl (fun acc j => op acc (g j)) init := by
    rw [List.foldl_map]
  rw [h1]
  apply List.Perm.foldl_eq' (map_involution_perm n σ hlt hinv)
  intro x _ y _ z
  rw [assoc, assoc, comm (g x) (g y)]

/-- the same with a fold that only agrees with `g ∘ σ` on `0..n` -/
theorem foldl_involution' (op : α → α → α)
    (assoc : ∀ a b c, op (op a b) c = op a (op b c)) (comm : ∀ a b, op a b = op b a)
    (n : Nat) (σ : Nat → Nat) (hlt : ∀ j, j < n → σ j < n) (hinv : ∀ j, j < n → σ (σ j) = j)
    (g h : Nat → α) (hg : ∀ j, j < n → h j = g (σ j)) (init : α) :
    (List.range n).foldl (fun acc j => op acc (h j)) init
      = (List.range n).foldl (fun acc j => op acc (g j)) init := by
  rw [← foldl_involution op assoc comm n σ hlt hinv g init]
  apply List.foldl_ext
  intro acc j hj
  rw [hg j (List.mem_range.mp hj)]

end FoldPerm
end LMV
