/-
  LMV.Lemmas.Stream — `read_until` / `read_line` over a chunked stream do not depend on the chunking.
-/
import LMV.Model.Stream

namespace LMV
namespace Io

theorem through_append_after (d : UInt8) (l : Bytes) : through d l ++ after d l = l := by
  induction l with
  | nil => rfl
  | cons b bs ih =>
    unfold through after
    by_cases h : b = d
    · simp [h]
    · simp [h, ih]

theorem drop_through (d : UInt8) (l : Bytes) : l.drop (through d l).length = after d l := by
  induction l with
  | nil => rfl
  | cons b bs ih =>
    unfold through after
    by_cases h : b = d
    · simp [h]
    · simp [h, ih]

theorem through_append (d : UInt8) (a b : Bytes) :
    through d (a ++ b) = if d ∈ a then through d a else a ++ through d b := by
  induction a with
  | nil => simp
  | cons x xs ih =>
    by_cases h : x = d
    · simp [through, h]
    · have hne : ¬ d = x := fun e => h e.symm
      by_cases hc : d ∈ xs
      · simp [through, h, ih, hc]
      · simp [through, h, ih, hc, hne]

theorem after_append (d : UInt8) (a b : Bytes) :
    after d (a ++ b) = if d ∈ a then after d a ++ b else after d b := by
  induction a with
  | nil => simp
  | cons x xs ih =>
    by_cases h : x = d
    · simp [after, h]
    · have hne : ¬ d = x := fun e => h e.symm
      by_cases hc : d ∈ xs
      · simp [after, h, ih, hc]
      · simp [after, h, ih, hc, hne]

theorem through_length_le (d : UInt8) (l : Bytes) : (through d l).length ≤ l.length := by
  have := congrArg List.length (through_append_after d l)
  simp at this; omega

theorem through_eq_self_of_not_mem (d : UInt8) (l : Bytes) (h : d ∉ l) :
    through d l = l := by
  induction l with
  | nil => rfl
  | cons b bs ih =>
    simp only [List.mem_cons, not_or] at h
    have hb : ¬ b = d := fun e => h.1 e.symm
    simp [through, hb, ih h.2]

theorem after_eq_nil_of_not_mem (d : UInt8) (l : Bytes) (h : d ∉ l) :
    after d l = [] := by
  induction l with
  | nil => rfl
  | cons b bs ih =>
    simp only [List.mem_cons, not_or] at h
    have hb : ¬ b = d := fun e => h.1 e.symm
    simp [after, hb, ih h.2]

/-- `through d l` ends with `d`, which occurs nowhere before, when `d` occurs in `l` -/
theorem through_of_mem (d : UInt8) (l : Bytes) (h : d ∈ l) :
    ∃ p, through d l = p ++ [d] ∧ d ∉ p := by
  induction l with
  | nil => simp at h
  | cons b bs ih =>
    by_cases hb : b = d
    · exact ⟨[], by simp [through, hb]⟩
    · have hb' : ¬ d = b := fun e => hb e.symm
      simp only [List.mem_cons, hb', false_or] at h
      obtain ⟨p, hp, hn⟩ := ih h
      exact ⟨b :: p, by simp [through, hb, hp], by simp [hb', hn]⟩

theorem memchrWithin_some (d : UInt8) (k : Nat) (data : Bytes) (i : Nat)
    (h : memchrWithin d k data = some i) :
    data.take (i + 1) = through d data ∧ data.drop (i + 1) = after d data ∧ i < k := by
  induction k generalizing data i with
  | zero => simp [memchrWithin] at h
  | succ k ih =>
    cases data with
    | nil => simp [memchrWithin] at h
    | cons b bs =>
      by_cases hb : b = d
      · simp only [memchrWithin, hb, if_true, Option.some.injEq] at h
        subst h
        simp [through, after, hb]
      · simp only [memchrWithin, hb, if_false, Option.map_eq_some_iff] at h
        obtain ⟨j, hj, rfl⟩ := h
        obtain ⟨h1, h2, h3⟩ := ih bs j hj
        simp [through, after, hb, h1, h2, h3]

theorem memchrWithin_none (d : UInt8) (k : Nat) (data : Bytes)
    (h : memchrWithin d k data = none) : d ∉ data.take k := by
  induction k generalizing data with
  | zero => simp
  | succ k ih =>
    cases data with
    | nil => simp
    | cons b bs =>
      by_cases hb : b = d
      · simp [memchrWithin, hb] at h
      · simp only [memchrWithin, hb, if_false, Option.map_eq_none_iff] at h
        have := ih bs h
        have hne : ¬ d = b := fun e => hb e.symm
        simp [hne, this]

/-- **Chunking independence of `read_until`.**  Whatever the schedule of chunk sizes, `read_until`
    appends exactly the bytes through the first delimiter (everything, if there is none) and leaves
    exactly what follows it in the stream. -/
theorem readUntil_eq (d : UInt8) (sched : List Nat) (data : Bytes) :
    (readUntil d sched data).1 = through d data ∧ (readUntil d sched data).2.1 = after d data := by
  induction sched generalizing data with
  | nil => simp [readUntil]
  | cons c cs ih =>
    cases data with
    | nil => simp [readUntil, through, after]
    | cons b bs =>
      simp only [readUntil]
      generalize b :: bs = data
      split
      · rename_i i hi
        obtain ⟨h1, h2, _⟩ := memchrWithin_some d _ data i hi
        exact ⟨h1, h2⟩
      · rename_i hn
        have hm := memchrWithin_none d _ data hn
        have hsplit : data = data.take (max c 1) ++ data.drop (max c 1) :=
          (List.take_append_drop _ _).symm
        obtain ⟨h1, h2⟩ := ih (data.drop (max c 1))
        constructor
        · conv => rhs; rw [hsplit, through_append, if_neg hm]
          simp only [h1]
        · conv => rhs; rw [hsplit, after_append, if_neg hm]
          simp only [h2]

theorem readUntil_fst (d : UInt8) (sched : List Nat) (data : Bytes) :
    (readUntil d sched data).1 = through d data := (readUntil_eq d sched data).1

theorem readUntil_snd (d : UInt8) (sched : List Nat) (data : Bytes) :
    (readUntil d sched data).2.1 = after d data := (readUntil_eq d sched data).2

/-- chunking independence of `read_line` -/
theorem readLine_eq (sched : List Nat) (data : Bytes) :
    (readLine sched data).1 = (if validUtf8 (through 10 data) then some (through 10 data) else none) ∧
    (readLine sched data).2.1 = after 10 data := by
  simp [readLine, readUntil_fst, readUntil_snd]

end Io
end LMV
