/-
  LMV.Lemmas.Discretise — arithmetic behind C08: rounding cells up and the threshold down,
  saturating `u8` sums, the `ERat` operations.
-/
import LMV.Model.Discrete
import Mathlib.Data.Rat.Floor
import Mathlib.Tactic.Linarith
import Mathlib.Tactic.Ring
import Mathlib.Tactic.SplitIfs
import Mathlib.Tactic.Positivity

namespace LMV
namespace C08

open Disc

/-- saturating cast of an integer to `0..255`, as a natural number -/
def clampNat (z : ℤ) : ℕ := if z < 0 then 0 else if 255 < z then 255 else z.toNat

theorem clampNat_le (z : ℤ) : clampNat z ≤ 255 := by
  unfold clampNat; split_ifs <;> omega

theorem clampNat_mono {a b : ℤ} (h : a ≤ b) : clampNat a ≤ clampNat b := by
  unfold clampNat; split_ifs <;> omega

theorem clampU8_toNat (z : ℤ) : (ERat.clampU8 z).toNat = clampNat z := by
  unfold ERat.clampU8 clampNat
  split_ifs with h1 h2
  · rfl
  · rfl
  · have : z.toNat < 256 := by omega
    simp [Nat.mod_eq_of_lt this]

/-- a cell below 255 is at least the real it was rounded up from -/
theorem le_clamp_ceil (a : ℚ) (h : clampNat a.ceil < 255) : a ≤ (clampNat a.ceil : ℚ) := by
  have h1 : a ≤ (a.ceil : ℚ) := Rat.le_ceil
  unfold clampNat at *
  split_ifs at h ⊢ with h2 h3
  · have : (a.ceil : ℚ) < 0 := by exact_mod_cast h2
    simp; linarith
  · omega
  · have : ((a.ceil.toNat : ℤ) : ℚ) = (a.ceil : ℚ) := by
      congr 1; omega
    calc a ≤ (a.ceil : ℚ) := h1
      _ = ((a.ceil.toNat : ℤ) : ℚ) := this.symm
      _ = (a.ceil.toNat : ℚ) := by push_cast; rfl

/-- THE rounding inequality: the saturated sum of the rounded-up, clamped cells is at least the
    rounded-down, clamped sum (`Σ⌈aⱼ⌉ ≥ ⌊Σ aⱼ⌋`, with saturation at 255 and at 0 on both sides) -/
theorem clamp_floor_sum_le (as : List ℚ) :
    clampNat as.sum.floor ≤ min 255 ((as.map fun a => clampNat a.ceil).sum) := by
  by_cases hsat : 255 ≤ (as.map fun a => clampNat a.ceil).sum
  · rw [Nat.min_eq_left hsat]; exact clampNat_le _
  · have hlt : (as.map fun a => clampNat a.ceil).sum < 255 := by omega
    rw [Nat.min_eq_right (by omega)]
    -- no cell saturates, so every cell dominates its real
    have hsum : as.sum ≤ (((as.map fun a => clampNat a.ceil).sum : ℕ) : ℚ) := by
      clear hsat
      induction as with
      | nil => simp
      | cons a t ih =>
        simp only [List.map_cons, List.sum_cons] at hlt ⊢
        have h1 : clampNat a.ceil < 255 := by omega
        have h2 := ih (by omega)
        have h3 := le_clamp_ceil a h1
        push_cast
        linarith
    have hfl : (as.sum.floor : ℚ) ≤ as.sum := Rat.floor_le _
    have hz : as.sum.floor ≤ (((as.map fun a => clampNat a.ceil).sum : ℕ) : ℤ) := by
      have : (as.sum.floor : ℚ) ≤ ((((as.map fun a => clampNat a.ceil).sum : ℕ) : ℤ) : ℚ) := by
        push_cast; linarith
      exact_mod_cast this
    generalize (as.map fun a => clampNat a.ceil).sum = S at hz hlt
    unfold clampNat
    split_ifs <;> omega

/-! ### saturating / wrapping / checked `u8` accumulation -/

theorem foldE_ok {β σ : Type} (f : σ → β → Except String σ) (g : σ → β → σ) (l : List β) (s : σ)
    (h : ∀ s b, b ∈ l → f s b = .ok (g s b)) : foldE f l s = .ok (l.foldl g s) := by
  induction l generalizing s with
  | nil => rfl
  | cons b bs ih =>
    simp only [foldE, List.foldl_cons]
    rw [h s b (by simp)]
    exact ih _ (fun s b' hb => h s b' (by simp [hb]))

theorem addU8_saturating (a b : UInt8) :
    ∃ v, addU8 .saturating a b = .ok v ∧ v.toNat = min 255 (a.toNat + b.toNat) := by
  have ha := a.toNat_lt
  have hb := b.toNat_lt
  unfold addU8
  by_cases h : 255 < a.toNat + b.toNat
  · refine ⟨255, by simp [h], ?_⟩
    have : (255 : UInt8).toNat = 255 := rfl
    omega
  · refine ⟨a + b, by simp [h], ?_⟩
    rw [UInt8.toNat_add]
    have : (a.toNat + b.toNat) % 2 ^ 8 = a.toNat + b.toNat := Nat.mod_eq_of_lt (by omega)
    omega

/-- the saturating accumulation of a list of cells is `min 255 (Σ cells)` -/
theorem foldE_saturating (cells : List UInt8) (s : UInt8) :
    ∃ v, foldE (fun s c => addU8 .saturating s c) cells s = .ok v ∧
      v.toNat = min 255 (s.toNat + (cells.map UInt8.toNat).sum) := by
  induction cells generalizing s with
  | nil =>
    refine ⟨s, rfl, ?_⟩
    have := s.toNat_lt
    simp; omega
  | cons c cs ih =>
    obtain ⟨v, hv, hvn⟩ := addU8_saturating s c
    obtain ⟨w, hw, hwn⟩ := ih v
    refine ⟨w, ?_, ?_⟩
    · simp only [foldE]; rw [hv]; exact hw
    · rw [hwn, hvn]; simp only [List.map_cons, List.sum_cons]; omega

/-- a non-saturating accumulation (wrapping or checked) is exact as long as the sum fits a byte -/
theorem foldE_exact (mode : AddMode) (cells : List UInt8) (s : UInt8)
    (h : s.toNat + (cells.map UInt8.toNat).sum ≤ 255) :
    ∃ v, foldE (fun s c => addU8 mode s c) cells s = .ok v ∧
      v.toNat = s.toNat + (cells.map UInt8.toNat).sum := by
  induction cells generalizing s with
  | nil => exact ⟨s, rfl, by simp⟩
  | cons c cs ih =>
    simp only [List.map_cons, List.sum_cons] at h
    have hsc : ¬ 255 < s.toNat + c.toNat := by omega
    have hadd : (s + c).toNat = s.toNat + c.toNat := by
      rw [UInt8.toNat_add]; exact Nat.mod_eq_of_lt (by omega)
    have hstep : addU8 mode s c = .ok (s + c) := by
      cases mode <;> simp [addU8, hsc]
    obtain ⟨w, hw, hwn⟩ := ih (s + c) (by rw [hadd]; omega)
    refine ⟨w, ?_, ?_⟩
    · simp only [foldE]; rw [hstep]; exact hw
    · rw [hwn, hadd]; simp only [List.map_cons, List.sum_cons]; omega

theorem foldE_map {β γ σ : Type} (f : σ → γ → Except String σ) (g : β → γ) (l : List β) (s : σ) :
    foldE (fun s b => f s (g b)) l s = foldE f (l.map g) s := by
  induction l generalizing s with
  | nil => rfl
  | cons b bs ih =>
    simp only [foldE, List.map_cons]
    cases f s (g b) with
    | error e => rfl
    | ok s' => exact ih s'

/-! ### the `ERat` instance, operation by operation -/

open ScanScalar

@[simp] theorem add_def (a b : ERat) : ScanScalar.add a b = ERat.add a b := rfl
@[simp] theorem sub_def (a b : ERat) : ScanScalar.sub a b = ERat.sub a b := rfl
@[simp] theorem mul_def (a b : ERat) : ScanScalar.mul a b = ERat.mul a b := rfl
@[simp] theorem div_def (a b : ERat) : ScanScalar.div a b = ERat.div a b := rfl
@[simp] theorem le_def (a b : ERat) : ScanScalar.le a b = ERat.le a b := rfl
@[simp] theorem lt_def (a b : ERat) : ScanScalar.lt a b = ERat.lt a b := rfl
@[simp] theorem isNaN_def (a : ERat) : ScanScalar.isNaN a = false := rfl
@[simp] theorem zero_def : (ScanScalar.zero : ERat) = .fin 0 := rfl
@[simp] theorem sumInit_def : (ScanScalar.sumInit : ERat) = .fin 0 := rfl
@[simp] theorem ofU8_def (b : UInt8) : (ScanScalar.ofU8 b : ERat) = .fin (b.toNat : ℚ) := rfl
@[simp] theorem floorU8_def (a : ERat) : ScanScalar.floorU8 a = ERat.floorU8 a := rfl
@[simp] theorem ceilU8_def (a : ERat) : ScanScalar.ceilU8 a = ERat.ceilU8 a := rfl

@[simp] theorem add_fin (a b : ℚ) : ERat.add (.fin a) (.fin b) = .fin (a + b) := rfl
@[simp] theorem add_bot_right (a : ERat) : ERat.add a .bot = .bot := by cases a <;> rfl
@[simp] theorem add_bot_left (a : ERat) : ERat.add .bot a = .bot := rfl
@[simp] theorem sub_fin (a b : ℚ) : ERat.sub (.fin a) (.fin b) = .fin (a - b) := rfl
@[simp] theorem sub_bot_left (a : ERat) : ERat.sub .bot a = .bot := rfl
@[simp] theorem div_fin (a b : ℚ) : ERat.div (.fin a) (.fin b) = .fin (a / b) := rfl
@[simp] theorem div_bot_left (a : ERat) : ERat.div .bot a = .bot := rfl
@[simp] theorem le_fin (a b : ℚ) : ERat.le (.fin a) (.fin b) = decide (a ≤ b) := rfl
@[simp] theorem lt_fin (a b : ℚ) : ERat.lt (.fin a) (.fin b) = decide (a < b) := rfl
@[simp] theorem le_bot_left (a : ERat) : ERat.le .bot a = true := rfl
@[simp] theorem le_fin_bot (a : ℚ) : ERat.le (.fin a) .bot = false := rfl
@[simp] theorem floorU8_bot : ERat.floorU8 .bot = 0 := rfl
@[simp] theorem ceilU8_bot : ERat.ceilU8 .bot = 0 := rfl
@[simp] theorem floorU8_fin (q : ℚ) : ERat.floorU8 (.fin q) = ERat.clampU8 q.floor := rfl
@[simp] theorem ceilU8_fin (q : ℚ) : ERat.ceilU8 (.fin q) = ERat.clampU8 q.ceil := rfl

/-- a left fold of `+` over finite values is the finite sum -/
theorem foldl_add_fin (qs : List ℚ) (s : ℚ) :
    (qs.map ERat.fin).foldl ERat.add (.fin s) = .fin (s + qs.sum) := by
  induction qs generalizing s with
  | nil => simp
  | cons q qs ih => simp only [List.map_cons, List.foldl_cons, add_fin, ih, List.sum_cons]; congr 1; ring

/-- …and `−∞` as soon as one term is -/
theorem foldl_add_bot (es : List ERat) : es.foldl ERat.add .bot = .bot := by
  induction es with
  | nil => rfl
  | cons e es ih => simpa using ih

theorem foldl_add_of_bot_mem (es : List ERat) (s : ERat) (h : ERat.bot ∈ es) :
    es.foldl ERat.add s = .bot := by
  induction es generalizing s with
  | nil => simp at h
  | cons e es ih =>
    simp only [List.foldl_cons]
    rcases List.mem_cons.mp h with h | h
    · rw [← h, add_bot_right, foldl_add_bot]
    · exact ih _ h

end C08
end LMV
