/-
  LMV.Lemmas.ScoreSse2 — the SSE2 scoring kernel, lane by lane.

  `IdentityTable` is the finite statement about the tables regenerated from sse2.rs: through the
  unpack chain `x → hi/lo → x1..x4`, lane `l` of the index vector of accumulator `q` is the
  zero-extended byte `c` of the 16 loaded symbols, and the store of that accumulator lane goes to
  column `c` of the block — for all 16 columns (`decide +kernel`).  The compare-and-mask
  accumulation over the `K` symbols equals ONE addition of the matching entry under the single law
  `add x zero = x`.
-/
import LMV.Lemmas.Score

namespace LMV
namespace Score
namespace Sse2

open Isa
open Striped (foldl_range_succ)

variable {α : Type} {C K : Nat}

/-! ### the index table -/

/-- the byte of `x` that dword lane `l` of register `r` holds (zero-extended): defined when the
    lane's four bytes are (byte `c` of `x`, zero, zero, zero) -/
def regCol (r l : Nat) : Option Nat :=
  match chainSrc chainRev r (4 * l), chainSrc chainRev r (4 * l + 1),
        chainSrc chainRev r (4 * l + 2), chainSrc chainRev r (4 * l + 3) with
  | some c, none, none, none => some c
  | _, _, _, _ => none

/-- for column `c` of a 16-column block: (accumulator, lane, byte of `x` selecting the symbol) -/
def colSrc (c : Nat) : Option (Nat × Nat × Nat) :=
  match lastStore 4 Gen.Sse2Score.stores c with
  | none => none
  | some (q, l) =>
    if q < 4 ∧ l < 4 then (regCol (Gen.Sse2Score.accReg.getD q 0) l).map fun c' => (q, l, c') else none

/-- the complete table of one 16-column pass -/
def IdentityTable : Prop :=
  Gen.Sse2Score.lanes = 16 ∧
  (∀ op ∈ Gen.Sse2Score.stores, op.1 + 4 ≤ 16) ∧
  ∀ c, c < 16 → (colSrc c).map (fun x => x.2.2) = some c

instance : Decidable IdentityTable := by unfold IdentityTable; infer_instance

theorem sse2_table : IdentityTable := by decide +kernel

/-! ### executing the unpack chain step by step = reading through the index map -/

/-- one `dst = _mm_unpack{lo,hi}_epi8(a, b)` on a register file over any carrier -/
def stepRun {β : Type} (zero : β) (st : Nat × Bool × Nat × Nat) (regs : Nat → Nat → β) : Nat → Nat → β :=
  fun r b => if r = st.1 then Isa.apply zero (mmUnpackEpi8 st.2.1) (regs st.2.2.1) (regs st.2.2.2) b
    else regs r b

/-- the chain in program order -/
def chainRun {β : Type} (zero : β) : List (Nat × Bool × Nat × Nat) → (Nat → Nat → β) → (Nat → Nat → β)
  | [], regs => regs
  | st :: rest, regs => chainRun zero rest (stepRun zero st regs)

/-- the initial register file: register 0 holds `x`, every other register (`zero`) zero bytes -/
def initRegs {β : Type} (zero : β) (x : Nat → β) : Nat → Nat → β := fun r b => if r = 0 then x b else zero

def readSrc {β : Type} (zero : β) (x : Nat → β) : Option Nat → β
  | some k => x k
  | none => zero

theorem chainRun_append {β : Type} (zero : β) (l1 l2 : List (Nat × Bool × Nat × Nat)) (regs : Nat → Nat → β) :
    chainRun zero (l1 ++ l2) regs = chainRun zero l2 (chainRun zero l1 regs) := by
  induction l1 generalizing regs with
  | nil => rfl
  | cons st rest ih => simp only [List.cons_append, chainRun]; rw [ih]

/-- running the extracted steps on data of ANY carrier reads the loaded bytes through `chainSrc` -/
theorem chainRun_eq_chainSrc {β : Type} (zero : β) (x : Nat → β) (chain : List (Nat × Bool × Nat × Nat))
    (r b : Nat) :
    chainRun zero chain (initRegs zero x) r b = readSrc zero x (chainSrc chain.reverse r b) := by
  induction chain using list_snoc_induction generalizing r b with
  | nil =>
    simp only [chainRun, List.reverse_nil, chainSrc, initRegs]
    split <;> rfl
  | snoc l st ih =>
    obtain ⟨d, hi, ra, rb⟩ := st
    rw [chainRun_append, List.reverse_append]
    simp only [List.reverse_cons, List.reverse_nil, List.nil_append, List.cons_append, chainRun,
      stepRun, chainSrc]
    by_cases hr : r = d
    · simp only [hr, if_true, Isa.apply]
      rcases hsrc : mmUnpackEpi8 hi b with ⟨side, k⟩
      cases side
      · simp only; rw [ih]
      · simp only; rw [ih]
      · simp only [readSrc]
    · simp only [hr, if_false]; rw [ih]

/-! ### lifting -/

theorem idxVec_of_regCol (q l c : Nat) (h : regCol (Gen.Sse2Score.accReg.getD q 0) l = some c)
    (x : Nat → Nat) : idxVec x q l = x c := by
  unfold regCol at h
  split at h
  · rename_i h0 h1 h2 h3
    cases h
    simp only [idxVec, dwordLE, regByte, h0, h1, h2, h3]
    omega
  · cases h

theorem colSrc_spec (hT : IdentityTable) (c : Nat) (hc : c < 16) :
    ∃ q l, lastStore 4 Gen.Sse2Score.stores c = some (q, l) ∧ q < 4 ∧ l < 4 ∧
      regCol (Gen.Sse2Score.accReg.getD q 0) l = some c := by
  have h := hT.2.2 c hc
  unfold colSrc at h
  rcases h1 : lastStore 4 Gen.Sse2Score.stores c with _ | ⟨q, l⟩
  · rw [h1] at h; simp at h
  · rw [h1] at h
    simp only at h
    by_cases h3 : q < 4 ∧ l < 4
    · rw [if_pos h3] at h
      rcases h4 : regCol (Gen.Sse2Score.accReg.getD q 0) l with _ | c'
      · rw [h4] at h; simp at h
      · rw [h4] at h
        simp at h
        exact ⟨q, l, rfl, h3.1, h3.2, by rw [h4, h]⟩
    · rw [if_neg h3] at h; simp at h

theorem lastStore_none (w : Nat) (stores : List (Nat × Nat)) (c : Nat)
    (h : ∀ op ∈ stores, ¬ (op.1 ≤ c ∧ c < op.1 + w)) : lastStore w stores c = none := by
  induction stores using list_snoc_induction with
  | nil => rfl
  | snoc l op ih =>
    have e : lastStore w (l ++ [op]) c =
        if op.1 ≤ c ∧ c < op.1 + w then some (op.2, c - op.1) else lastStore w l c := by
      unfold lastStore; rw [List.foldl_append]; rfl
    rw [e, if_neg (h op (by simp)), ih (fun o ho => h o (by simp [ho]))]

theorem lastStore_shift (w base : Nat) (stores : List (Nat × Nat)) (c : Nat) :
    lastStore w (stores.map fun op => (base + op.1, op.2)) c =
      if base ≤ c then lastStore w stores (c - base) else none := by
  induction stores using list_snoc_induction with
  | nil => unfold lastStore; simp
  | snoc l op ih =>
    have e1 : lastStore w ((l ++ [op]).map fun op => (base + op.1, op.2)) c =
        if base + op.1 ≤ c ∧ c < base + op.1 + w then some (op.2, c - (base + op.1))
        else lastStore w (l.map fun op => (base + op.1, op.2)) c := by
      unfold lastStore; rw [List.map_append, List.foldl_append]; rfl
    have e2 : lastStore w (l ++ [op]) (c - base) =
        if op.1 ≤ c - base ∧ c - base < op.1 + w then some (op.2, c - base - op.1)
        else lastStore w l (c - base) := by
      unfold lastStore; rw [List.foldl_append]; rfl
    rw [e1, e2, ih]
    by_cases hb : base ≤ c
    · rw [if_pos hb, if_pos hb]
      by_cases h1 : base + op.1 ≤ c ∧ c < base + op.1 + w
      · rw [if_pos h1, if_pos (by omega)]
        congr 2; omega
      · rw [if_neg h1, if_neg (by omega)]
    · rw [if_neg hb, if_neg hb, if_neg (by omega)]

/-- the compare-and-mask accumulation over the `K` symbols adds the matching entry once and `zero`
    `K − 1` times: ONE addition under the law `add x zero = x` -/
theorem mask_fold (zero : α) (add : α → α → α) (hz : ∀ x, add x zero = x) (f : Nat → α) (sym n : Nat)
    (v : α) :
    (List.range n).foldl (fun v k => add v (andPsMask zero (f k) (sym == k))) v =
      if sym < n then add v (f sym) else v := by
  induction n with
  | zero => rfl
  | succ n ih =>
    rw [foldl_range_succ, ih]
    by_cases h1 : sym < n
    · have hne : (sym == n) = false := by simp; omega
      rw [if_pos h1, if_pos (by omega), hne]
      simp only [andPsMask, Bool.false_eq_true, if_false, hz]
    · rw [if_neg h1]
      by_cases h2 : sym = n
      · have he : (sym == n) = true := by simp [h2]
        rw [if_pos (by omega), he]
        simp only [andPsMask, if_true, h2]
      · have hne : (sym == n) = false := by simp; omega
        rw [if_neg (by omega), hne]
        simp only [andPsMask, Bool.false_eq_true, if_false, hz]

/-- lane `l` of accumulator `q` after the motif loop -/
theorem accRow_rd (zero : α) (add : α → α → α) (pssm : Mat α K) (seq : Mat Nat C) (offset i q l : Nat)
    (hq : q < 4) (hl : l < 4) :
    rd zero (accRow zero add pssm seq offset i) q l =
      (List.range pssm.rows).foldl (fun v j =>
        (List.range K).foldl (fun v k =>
          add v (andPsMask zero (pssm.getD j k zero)
            (idxVec (fun b => seq.getD (i + j) (offset + b) 0) q l == k))) v) zero := by
  unfold accRow
  rw [rd_foldl zero _
    (fun j v => (List.range K).foldl (fun v k =>
      add v (andPsMask zero (pssm.getD j k zero)
        (idxVec (fun b => seq.getD (i + j) (offset + b) 0) q l == k))) v) q l]
  · rw [rd_tab zero 4 4 _ q l hq hl]
  · intro j s
    simp only
    rw [rd_foldl zero _
      (fun k v => add v (andPsMask zero (pssm.getD j k zero)
        (idxVec (fun b => seq.getD (i + j) (offset + b) 0) q l == k))) q l]
    intro k s
    rw [rd_tab zero 4 4 _ q l hq hl]
    simp only [cmpeqEpi32]
    rw [rd_tab 0 4 4 _ q l hq hl]

/-- the four stores of result row `k` of the pass at column `offset` -/
theorem rowStore_getD (hT : IdentityTable) (zero : α) (add : α → α → α) (hz : ∀ x, add x zero = x)
    (pssm : Mat α K) (seq : Mat Nat C) (offset i k : Nat) (d : Mat α C) (r c : Nat)
    (hsym : ∀ j col, j < pssm.rows → col < C → seq.getD (i + j) col 0 < K) :
    (Gen.Sse2Score.stores.foldl (fun d op =>
      (List.range 4).foldl (fun d l => d.set k (offset + op.1 + l)
        (rd zero (accRow zero add pssm seq offset i) op.2 l)) d) d).getD r c zero =
      if r = k ∧ k < d.rows ∧ decide (offset ≤ c ∧ c < offset + 16 ∧ c < C) = true
      then cellSum zero add pssm fun j => seq.getD (i + j) c 0
      else d.getD r c zero := by
  have e : (Gen.Sse2Score.stores.foldl (fun d op =>
      (List.range 4).foldl (fun d l => d.set k (offset + op.1 + l)
        (rd zero (accRow zero add pssm seq offset i) op.2 l)) d) d) =
      storesWrite 4 k (Gen.Sse2Score.stores.map fun op => (offset + op.1, op.2))
        (rd zero (accRow zero add pssm seq offset i)) d := by
    unfold storesWrite segWrite
    rw [List.foldl_map]
  rw [e, storesWrite_getD, lastStore_shift]
  by_cases hin : offset ≤ c ∧ c < offset + 16 ∧ c < C
  · obtain ⟨q, l, h1, hq, hl, h2⟩ := colSrc_spec hT (c - offset) (by omega)
    rw [if_pos hin.1, h1]
    simp only []
    have hd : decide (offset ≤ c ∧ c < offset + 16 ∧ c < C) = true := decide_eq_true hin
    rw [hd]
    by_cases h : r = k ∧ k < d.rows
    · rw [if_pos ⟨h.1, h.2, hin.2.2⟩, if_pos ⟨h.1, h.2, rfl⟩,
        accRow_rd zero add pssm seq offset i q l hq hl]
      unfold cellSum
      apply foldl_ext_mem'
      intro v j hj
      have hj := List.mem_range.mp hj
      rw [idxVec_of_regCol q l (c - offset) h2, mask_fold zero add hz]
      have hcol : offset + (c - offset) = c := by omega
      rw [hcol, if_pos (hsym j c hj hin.2.2)]
    · rw [if_neg (fun h' => h ⟨h'.1, h'.2.1⟩), if_neg (fun h' => h ⟨h'.1, h'.2.1⟩)]
  · have hne : ¬ (r = k ∧ k < d.rows ∧ decide (offset ≤ c ∧ c < offset + 16 ∧ c < C) = true) := by
      intro h; exact hin (by simpa using h.2.2)
    rw [if_neg hne]
    by_cases hoff : offset ≤ c
    · rw [if_pos hoff]
      by_cases hC : c < C
      · -- beyond the 16 columns of the pass: no store reaches
        rw [lastStore_none 4 _ (c - offset) (fun op hop => by have := hT.2.1 op hop; omega)]
      · cases lastStore 4 Gen.Sse2Score.stores (c - offset) with
        | none => rfl
        | some pl => obtain ⟨p, l⟩ := pl; simp only; rw [if_neg (fun h => hC h.2.2)]
    · rw [if_neg hoff]

/-- a loop over column blocks whose pass `blk` rewrites columns `16·blk .. 16·blk + 16` of the rows
    `< n` -/
theorem blockLoop_getD (F : Nat → Mat α C → Mat α C) (v : Nat → Nat → α) (n : Nat) (e : α)
    (hrows : ∀ blk d, (F blk d).rows = d.rows)
    (hget : ∀ blk d r c, (F blk d).getD r c e =
      if r < n ∧ r < d.rows ∧ decide (blk * 16 ≤ c ∧ c < blk * 16 + 16 ∧ c < C) = true then v r c
      else d.getD r c e)
    (nb : Nat) (d : Mat α C) (r c : Nat) :
    ((List.range nb).foldl (fun d blk => F blk d) d).rows = d.rows ∧
    ((List.range nb).foldl (fun d blk => F blk d) d).getD r c e =
      if r < n ∧ r < d.rows ∧ c < nb * 16 ∧ c < C then v r c else d.getD r c e := by
  induction nb with
  | zero =>
    refine ⟨rfl, ?_⟩
    simp only [List.range_zero, List.foldl_nil]
    rw [if_neg]; omega
  | succ nb ih =>
    rw [foldl_range_succ]
    refine ⟨by rw [hrows, ih.1], ?_⟩
    rw [hget, ih.1, ih.2]
    simp only [decide_eq_true_eq]
    by_cases h1 : r < n ∧ r < d.rows ∧ (nb * 16 ≤ c ∧ c < nb * 16 + 16 ∧ c < C)
    · rw [if_pos h1, if_pos ⟨h1.1, h1.2.1, by omega, h1.2.2.2.2⟩]
    · rw [if_neg h1]
      by_cases h2 : r < n ∧ r < d.rows ∧ c < nb * 16 ∧ c < C
      · rw [if_pos h2, if_pos ⟨h2.1, h2.2.1, by omega, h2.2.2.2⟩]
      · rw [if_neg h2, if_neg]
        intro h3
        by_cases hc : c < nb * 16
        · exact h2 ⟨h3.1, h3.2.1, hc, h3.2.2.2⟩
        · exact h1 ⟨h3.1, h3.2.1, by omega, by omega, h3.2.2.2⟩

/-- one pass of the outer loop: columns `16·blk .. 16·blk + 16` of the result rows `< n` -/
def pass (zero : α) (add : α → α → α) (pssm : Mat α K) (seq : Mat Nat C) (a n blk : Nat)
    (d : Mat α C) : Mat α C :=
  (List.range n).foldl (fun d k =>
    Gen.Sse2Score.stores.foldl (fun d op =>
      (List.range 4).foldl (fun d l => d.set k (blk * 16 + op.1 + l)
        (rd zero (accRow zero add pssm seq (blk * 16) (a + k)) op.2 l)) d) d) d

theorem pass_spec (hT : IdentityTable) (zero : α) (add : α → α → α) (hz : ∀ x, add x zero = x)
    (pssm : Mat α K) (seq : Mat Nat C) (a n blk : Nat) (d : Mat α C) (r c : Nat)
    (hsym : ∀ k j col, k < n → j < pssm.rows → col < C → seq.getD (a + k + j) col 0 < K) :
    (pass zero add pssm seq a n blk d).rows = d.rows ∧
    (pass zero add pssm seq a n blk d).getD r c zero =
      if r < n ∧ r < d.rows ∧ decide (blk * 16 ≤ c ∧ c < blk * 16 + 16 ∧ c < C) = true
      then cellSum zero add pssm fun j => seq.getD (a + r + j) c 0
      else d.getD r c zero := by
  unfold pass
  apply rowLoop_getD
    (F := fun k d => Gen.Sse2Score.stores.foldl (fun d op =>
      (List.range 4).foldl (fun d l => d.set k (blk * 16 + op.1 + l)
        (rd zero (accRow zero add pssm seq (blk * 16) (a + k)) op.2 l)) d) d)
    (v := fun r c => cellSum zero add pssm fun j => seq.getD (a + r + j) c 0)
    (P := fun c => decide (blk * 16 ≤ c ∧ c < blk * 16 + 16 ∧ c < C))
  · intro k d
    have := storesWrite_rows 4 k (Gen.Sse2Score.stores.map fun op => (blk * 16 + op.1, op.2))
      (rd zero (accRow zero add pssm seq (blk * 16) (a + k))) d
    unfold storesWrite segWrite at this
    rw [List.foldl_map] at this
    exact this
  · intro k hk d r c
    exact rowStore_getD hT zero add hz pssm seq (blk * 16) (a + k) k d r c
      (fun j col hj hcol => hsym k j col hk hj hcol)

/-- closed form of every cell the SSE2 kernel writes -/
theorem kernel_spec (hT : IdentityTable) (zero : α) (add : α → α → α) (hz : ∀ x, add x zero = x)
    (pssm : Mat α K) (seq : Mat Nat C) (a n : Nat) (d : Mat α C) (r c : Nat)
    (hsym : ∀ k j col, k < n → j < pssm.rows → col < C → seq.getD (a + k + j) col 0 < K) :
    (kernel zero add pssm seq a n d).rows = d.rows ∧
    (kernel zero add pssm seq a n d).getD r c zero =
      if r < n ∧ r < d.rows ∧ c < C / 16 * 16 ∧ c < C
      then cellSum zero add pssm fun j => seq.getD (a + r + j) c 0
      else d.getD r c zero := by
  have e : kernel zero add pssm seq a n d =
      (List.range (C / 16)).foldl (fun d blk => pass zero add pssm seq a n blk d) d := by
    unfold kernel pass
    rw [hT.1]
  rw [e]
  apply blockLoop_getD (F := fun blk d => pass zero add pssm seq a n blk d)
    (v := fun r c => cellSum zero add pssm fun j => seq.getD (a + r + j) c 0)
  · intro blk d
    exact (pass_spec hT zero add hz pssm seq a n blk d 0 0 hsym).1
  · intro blk d r c
    exact (pass_spec hT zero add hz pssm seq a n blk d r c hsym).2

/-- **the SSE2 kernel writes exactly the matrix the generic loops write**, for every column count
    that is a multiple of 16, under the single law `add x zero = x` -/
theorem kernel_eq_genericRows (zero : α) (add : α → α → α) (hz : ∀ x, add x zero = x)
    (pssm : Mat α K) (hC : 16 ∣ C) (seq : Mat Nat C) (a n : Nat) (d : Mat α C)
    (hsym : ∀ k j col, k < n → j < pssm.rows → col < C → seq.getD (a + k + j) col 0 < K) :
    kernel zero add pssm seq a n d = genericRows zero add pssm seq a n d := by
  have hcov : C / 16 * 16 = C := Nat.div_mul_cancel hC
  apply mat_ext zero
  · rw [(kernel_spec sse2_table zero add hz pssm seq a n d 0 0 hsym).1,
      (genericRows_spec zero add pssm seq a n d 0 0).1]
  · intro r c _ _
    rw [(kernel_spec sse2_table zero add hz pssm seq a n d r c hsym).2,
      (genericRows_spec zero add pssm seq a n d r c).2, hcov]
    by_cases h : r < n ∧ r < d.rows ∧ c < C
    · rw [if_pos ⟨h.1, h.2.1, h.2.2, h.2.2⟩, if_pos ⟨h.1, h.2.1, by simpa using h.2.2⟩]
    · rw [if_neg (fun h' => h ⟨h'.1, h'.2.1, h'.2.2.2⟩),
        if_neg (fun h' => h ⟨h'.1, h'.2.1, by simpa using h'.2.2⟩)]

end Sse2
end Score
end LMV
