/-
  LMV.Lemmas.ScanKernels — specifications of the block maximum (generic `>=` scan, AVX2 lane maxima)
  and of the candidate list, as used by the scanner proofs.
-/
import LMV.Model.Scanner
import Mathlib.Data.List.Nodup
import Mathlib.Tactic.SplitIfs

namespace LMV
namespace C02

open Scanner Disc

variable {C : Nat}

/-! ### running maximum of bytes -/

/-- `if x >= m { x } else { m }` folded over a list dominates the start value and every element -/
theorem foldl_max_ge (l : List UInt8) (init : UInt8) :
    init ≤ l.foldl (fun m x => if x ≥ m then x else m) init ∧
      ∀ x ∈ l, x ≤ l.foldl (fun m x => if x ≥ m then x else m) init := by
  induction l generalizing init with
  | nil => exact ⟨UInt8.le_refl _, by simp⟩
  | cons a t ih =>
    simp only [List.foldl_cons, List.mem_cons]
    obtain ⟨h1, h2⟩ := ih (if a ≥ init then a else init)
    have hstep : init ≤ (if a ≥ init then a else init) ∧ a ≤ (if a ≥ init then a else init) := by
      split_ifs with h
      · exact ⟨h, UInt8.le_refl _⟩
      · refine ⟨UInt8.le_refl _, ?_⟩
        rw [ge_iff_le, UInt8.le_iff_toNat_le] at h
        rw [UInt8.le_iff_toNat_le]; omega
    refine ⟨UInt8.le_trans hstep.1 h1, ?_⟩
    rintro x (rfl | hx)
    · exact UInt8.le_trans hstep.2 h1
    · exact h2 x hx

theorem foldl_max_map_ge {β : Type} (l : List β) (f : β → UInt8) (init : UInt8) :
    init ≤ l.foldl (fun m b => if f b ≥ m then f b else m) init ∧
      ∀ b ∈ l, f b ≤ l.foldl (fun m b => if f b ≥ m then f b else m) init := by
  have := foldl_max_ge (l.map f) init
  rw [List.foldl_map] at this
  refine ⟨this.1, fun b hb => this.2 (f b) (List.mem_map_of_mem hb)⟩

/-- `max_u8_avx2` -/
theorem maxAvx2_none (sc : Scores C) : maxAvx2 sc = none → sc.data.rows = 0 := by
  unfold maxAvx2
  split_ifs with h
  · intro _; exact h
  · intro h'; cases h'

theorem maxAvx2_ge (sc : Scores C) (m : UInt8) (hm : maxAvx2 sc = some m) (r c : Nat)
    (hr : r < sc.data.rows) (hc : c < C) : sc.data.get r c ≤ m := by
  unfold maxAvx2 at hm
  split_ifs at hm with h
  cases hm
  have hlane := (foldl_max_map_ge (List.range sc.data.rows) (fun r => sc.data.get r c) 0).2 r
    (List.mem_range.mpr hr)
  have htot := (foldl_max_ge ((List.range C).map fun c =>
      (List.range sc.data.rows).foldl (fun m r => if sc.data.get r c ≥ m then sc.data.get r c else m) 0) 0).2
    _ (List.mem_map_of_mem (List.mem_range.mpr hc))
  exact UInt8.le_trans hlane htot

/-! ### the generic `>=` scan -/

/-- the accumulator `(best_row, best_col, best_score)` is consistent and dominates the cells in `Q` -/
def GoodAcc (sc : Scores C) (acc : Nat × Nat × UInt8) (Q : Nat → Nat → Prop) : Prop :=
  acc.2.2 = sc.data.get acc.1 acc.2.1 ∧ ∀ i j, Q i j → sc.data.get i j ≤ acc.2.2

theorem goodAcc_step (sc : Scores C) (acc : Nat × Nat × UInt8) (Q : Nat → Nat → Prop) (i j : Nat)
    (h : GoodAcc sc acc Q) :
    GoodAcc sc (if sc.data.get i j ≥ acc.2.2 then (i, j, sc.data.get i j) else acc)
      (fun a b => Q a b ∨ (a = i ∧ b = j)) := by
  obtain ⟨h1, h2⟩ := h
  split_ifs with hge
  · refine ⟨rfl, ?_⟩
    rintro a b (hq | ⟨rfl, rfl⟩)
    · exact UInt8.le_trans (h2 a b hq) hge
    · exact UInt8.le_refl _
  · refine ⟨h1, ?_⟩
    rintro a b (hq | ⟨rfl, rfl⟩)
    · exact h2 a b hq
    · rw [ge_iff_le, UInt8.le_iff_toNat_le] at hge
      rw [UInt8.le_iff_toNat_le]; omega

theorem goodAcc_row (sc : Scores C) (i n : Nat) (acc : Nat × Nat × UInt8) (Q : Nat → Nat → Prop)
    (h : GoodAcc sc acc Q) :
    GoodAcc sc ((List.range n).foldl (fun (acc : Nat × Nat × UInt8) j =>
        if sc.data.get i j ≥ acc.2.2 then (i, j, sc.data.get i j) else acc) acc)
      (fun a b => Q a b ∨ (a = i ∧ b < n)) := by
  induction n with
  | zero =>
    simp only [List.range_zero, List.foldl_nil]
    exact ⟨h.1, fun a b hq => by
      rcases hq with hq | ⟨_, hb⟩
      · exact h.2 a b hq
      · omega⟩
  | succ n ih =>
    rw [List.range_succ, List.foldl_append]
    simp only [List.foldl_cons, List.foldl_nil]
    have := goodAcc_step sc _ _ i n ih
    refine ⟨this.1, fun a b hq => this.2 a b ?_⟩
    rcases hq with hq | ⟨ha, hb⟩
    · exact Or.inl (Or.inl hq)
    · by_cases hbn : b = n
      · exact Or.inr ⟨ha, hbn⟩
      · exact Or.inl (Or.inr ⟨ha, by omega⟩)

theorem goodAcc_rows (sc : Scores C) (m : Nat) (acc : Nat × Nat × UInt8) (Q : Nat → Nat → Prop)
    (h : GoodAcc sc acc Q) :
    GoodAcc sc ((List.range m).foldl (fun acc i =>
        (List.range C).foldl (fun (acc : Nat × Nat × UInt8) j =>
          if sc.data.get i j ≥ acc.2.2 then (i, j, sc.data.get i j) else acc) acc) acc)
      (fun a b => Q a b ∨ (a < m ∧ b < C)) := by
  induction m with
  | zero =>
    simp only [List.range_zero, List.foldl_nil]
    exact ⟨h.1, fun a b hq => by
      rcases hq with hq | ⟨ha, _⟩
      · exact h.2 a b hq
      · omega⟩
  | succ m ih =>
    rw [List.range_succ, List.foldl_append]
    simp only [List.foldl_cons, List.foldl_nil]
    have := goodAcc_row sc m C _ _ ih
    refine ⟨this.1, fun a b hq => this.2 a b ?_⟩
    rcases hq with hq | ⟨ha, hb⟩
    · exact Or.inl (Or.inl hq)
    · by_cases ham : a = m
      · exact Or.inr ⟨ham, hb⟩
      · exact Or.inl (Or.inr ⟨by omega, hb⟩)

theorem maxGeneric_none (sc : Scores C) : maxGeneric sc = none → sc.data.rows = 0 := by
  unfold maxGeneric
  split_ifs with h
  · intro _; exact h
  · intro h'; cases h'

theorem maxGeneric_ge (sc : Scores C) (m : UInt8) (hm : maxGeneric sc = some m) (r c : Nat)
    (hr : r < sc.data.rows) (hc : c < C) : sc.data.get r c ≤ m := by
  unfold maxGeneric at hm
  split_ifs at hm with h
  simp only [Option.some.injEq] at hm
  have hgood := goodAcc_rows sc sc.data.rows (0, 0, sc.data.get 0 0) (fun _ _ => False)
    ⟨rfl, fun _ _ hf => hf.elim⟩
  rw [← hm, ← hgood.1]
  exact hgood.2 r c (Or.inr ⟨hr, hc⟩)

theorem maxDispatch_none (arm : Arm) (sc : Scores C) : maxDispatch arm sc = none → sc.data.rows = 0 := by
  cases arm <;> simp only [maxDispatch]
  · exact maxGeneric_none sc
  · exact maxGeneric_none sc
  · exact maxAvx2_none sc

theorem maxDispatch_ge (arm : Arm) (sc : Scores C) (m : UInt8) (hm : maxDispatch arm sc = some m)
    (r c : Nat) (hr : r < sc.data.rows) (hc : c < C) : sc.data.get r c ≤ m := by
  cases arm <;> simp only [maxDispatch] at hm
  · exact maxGeneric_ge sc m hm r c hr hc
  · exact maxGeneric_ge sc m hm r c hr hc
  · exact maxAvx2_ge sc m hm r c hr hc

/-! ### the block maximum is attained (used by the bridge to C07, `Props/Bridge/B2`) -/

/-- the running maximum is its start value or one of the elements -/
theorem foldl_max_mem (l : List UInt8) (init : UInt8) :
    l.foldl (fun m x => if x ≥ m then x else m) init = init ∨
      l.foldl (fun m x => if x ≥ m then x else m) init ∈ l := by
  induction l generalizing init with
  | nil => exact Or.inl rfl
  | cons a t ih =>
    simp only [List.foldl_cons, List.mem_cons]
    rcases ih (if a ≥ init then a else init) with h | h
    · rw [h]
      split_ifs
      · exact Or.inr (Or.inl rfl)
      · exact Or.inl rfl
    · exact Or.inr (Or.inr h)

theorem foldl_max_map_mem {β : Type} (l : List β) (f : β → UInt8) (init : UInt8) :
    l.foldl (fun m b => if f b ≥ m then f b else m) init = init ∨
      ∃ b ∈ l, f b = l.foldl (fun m b => if f b ≥ m then f b else m) init := by
  have := foldl_max_mem (l.map f) init
  rw [List.foldl_map] at this
  rcases this with h | h
  · exact Or.inl h
  · obtain ⟨b, hb, hfb⟩ := List.mem_map.1 h
    exact Or.inr ⟨b, hb, hfb⟩

/-- an invariant kept by every step on an element of the list is kept by the fold -/
theorem foldl_inv {β γ : Type} (P : β → Prop) (f : β → γ → β) (l : List γ) (init : β) (h0 : P init)
    (hstep : ∀ acc x, x ∈ l → P acc → P (f acc x)) : P (l.foldl f init) := by
  induction l generalizing init with
  | nil => exact h0
  | cons a t ih =>
    simp only [List.foldl_cons]
    exact ih _ (hstep init a (List.mem_cons_self ..) h0)
      (fun acc x hx => hstep acc x (List.mem_cons_of_mem _ hx))

/-- `max_u8_avx2` returns the content of a cell: the lane maxima start from zero, and a zero result
    is attained as soon as there is a cell, every cell being `≤` it -/
theorem maxAvx2_attained (hC : 0 < C) (sc : Scores C) (m : UInt8) (hm : maxAvx2 sc = some m) :
    ∃ r c, r < sc.data.rows ∧ c < C ∧ sc.data.get r c = m := by
  have hge := maxAvx2_ge sc m hm
  have hrows : sc.data.rows ≠ 0 := by
    intro h0; unfold maxAvx2 at hm; rw [if_pos h0] at hm; cases hm
  have hzero : m = 0 → ∃ r c, r < sc.data.rows ∧ c < C ∧ sc.data.get r c = m := by
    intro h0
    refine ⟨0, 0, by omega, hC, ?_⟩
    have h := hge 0 0 (by omega) hC
    rw [h0] at h ⊢
    rw [UInt8.le_iff_toNat_le] at h
    exact UInt8.toNat_inj.1 (by simpa using h)
  unfold maxAvx2 at hm
  rw [if_neg hrows] at hm
  simp only [Option.some.injEq] at hm
  rcases foldl_max_mem ((List.range C).map fun c =>
      (List.range sc.data.rows).foldl (fun m r => if sc.data.get r c ≥ m then sc.data.get r c else m) 0) 0
    with h1 | h1
  · exact hzero (hm ▸ h1)
  · rw [hm] at h1
    obtain ⟨c, hc, hcm⟩ := List.mem_map.1 h1
    rcases foldl_max_map_mem (List.range sc.data.rows) (fun r => sc.data.get r c) 0 with h2 | ⟨r, hr, h2⟩
    · exact hzero (by rw [← hcm]; exact h2)
    · exact ⟨r, c, List.mem_range.1 hr, List.mem_range.1 hc, by rw [h2]; exact hcm⟩

/-- the trait-default `max` reads the cell `argmax` designates, which lies inside the matrix -/
theorem maxGeneric_attained (hC : 0 < C) (sc : Scores C) (m : UInt8) (hm : maxGeneric sc = some m) :
    ∃ r c, r < sc.data.rows ∧ c < C ∧ sc.data.get r c = m := by
  unfold maxGeneric at hm
  split_ifs at hm with h
  simp only [Option.some.injEq] at hm
  have hin := foldl_inv (fun acc : Nat × Nat × UInt8 => acc.1 < sc.data.rows ∧ acc.2.1 < C)
    (fun acc i => (List.range C).foldl (fun (acc : Nat × Nat × UInt8) j =>
      if sc.data.get i j ≥ acc.2.2 then (i, j, sc.data.get i j) else acc) acc)
    (List.range sc.data.rows) (0, 0, sc.data.get 0 0) ⟨by omega, hC⟩
    (fun acc i hi hacc => foldl_inv (fun acc : Nat × Nat × UInt8 => acc.1 < sc.data.rows ∧ acc.2.1 < C)
      (fun (acc : Nat × Nat × UInt8) j =>
        if sc.data.get i j ≥ acc.2.2 then (i, j, sc.data.get i j) else acc)
      (List.range C) acc hacc (fun acc j hj hacc => by
        show (if sc.data.get i j ≥ acc.2.2 then (i, j, sc.data.get i j) else acc).1 < sc.data.rows ∧
          (if sc.data.get i j ≥ acc.2.2 then (i, j, sc.data.get i j) else acc).2.1 < C
        split_ifs
        · exact ⟨List.mem_range.1 hi, List.mem_range.1 hj⟩
        · exact hacc))
  exact ⟨_, _, hin.1, hin.2, hm⟩

theorem maxDispatch_attained (hC : 0 < C) (arm : Arm) (sc : Scores C) (m : UInt8)
    (hm : maxDispatch arm sc = some m) : ∃ r c, r < sc.data.rows ∧ c < C ∧ sc.data.get r c = m := by
  cases arm <;> simp only [maxDispatch] at hm
  · exact maxGeneric_attained hC sc m hm
  · exact maxGeneric_attained hC sc m hm
  · exact maxAvx2_attained hC sc m hm

/-! ### the candidate list -/

theorem threshold_mem (sc : Scores C) (t : UInt8) (r c : Nat) :
    (r, c) ∈ threshold sc t ↔ r < sc.data.rows ∧ c < C ∧ t ≤ sc.data.get r c := by
  unfold threshold
  simp only [List.mem_flatMap, List.mem_range, List.mem_map, List.mem_filter, decide_eq_true_eq,
    Prod.mk.injEq, ge_iff_le]
  constructor
  · rintro ⟨i, hi, j, ⟨hj, hge⟩, rfl, rfl⟩
    exact ⟨hi, hj, hge⟩
  · rintro ⟨hr, hc, hge⟩
    exact ⟨r, hr, c, ⟨hc, hge⟩, rfl, rfl⟩

theorem threshold_nodup (sc : Scores C) (t : UInt8) : (threshold sc t).Nodup := by
  unfold threshold
  rw [List.nodup_flatMap]
  constructor
  · intro i _
    apply List.Nodup.map
    · intro a b h; exact (Prod.mk.injEq _ _ _ _ ▸ h).2
    · exact List.Nodup.filter _ List.nodup_range
  · have hnd : (List.range sc.data.rows).Nodup := List.nodup_range
    apply List.Pairwise.imp _ hnd
    intro a b hab
    simp only [Function.onFun]
    intro x hx1 hx2
    simp only [List.mem_map] at hx1 hx2
    obtain ⟨_, _, rfl⟩ := hx1
    obtain ⟨_, _, h⟩ := hx2
    exact hab (Prod.mk.injEq _ _ _ _ ▸ h).1.symm

end C02
end LMV
