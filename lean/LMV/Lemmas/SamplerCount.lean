/-
  LMV.Lemmas.SamplerCount — `count_symbols` on the striped walk counts every symbol exactly once:
  `SamplerData::new` caches the true symbol counts (`mkData_wf`).
-/
import LMV.Lemmas.SamplerInv

namespace LMV
namespace Sampler

/-! ### re-indexing a double sum -/

theorem sumTo_append (a b : Nat) (g : Nat → Nat) :
    sumTo (a + b) g = sumTo a g + sumTo b (fun i => g (a + i)) := by
  induction b with
  | zero => rfl
  | succ b ih => rw [← Nat.add_assoc, sumTo_succ, sumTo_succ, ih]; omega

theorem sumTo_swap (R C : Nat) (f : Nat → Nat → Nat) :
    sumTo R (fun i => sumTo C (fun j => f i j)) = sumTo C (fun j => sumTo R (fun i => f i j)) := by
  induction R with
  | zero => rw [sumTo_zero_n]; symm; rw [sumTo_eq_zero]; intro _ _; rfl
  | succ R ih =>
    rw [sumTo_succ, ih, ← sumTo_add]
    apply sumTo_congr
    intro j _
    rw [sumTo_succ]

/-- column-major enumeration of a `C × R` grid: `Σ_{j<C} Σ_{i<R} g (j*R + i) = Σ_{k<C*R} g k` -/
theorem sumTo_grid (C R : Nat) (g : Nat → Nat) :
    sumTo C (fun j => sumTo R (fun i => g (j * R + i))) = sumTo (C * R) g := by
  induction C with
  | zero => rw [Nat.zero_mul]; rfl
  | succ C ih => rw [sumTo_succ, ih, Nat.succ_mul, sumTo_append]

theorem sumTo_extend {l m : Nat} (g : Nat → Nat) (h : l ≤ m) (hz : ∀ k, l ≤ k → g k = 0) :
    sumTo m g = sumTo l g := by
  obtain ⟨d, rfl⟩ := Nat.exists_eq_add_of_le h
  rw [sumTo_append]
  have : sumTo d (fun i => g (l + i)) = 0 := by
    rw [sumTo_eq_zero]; intro i _; exact hz _ (by omega)
  omega

/-! ### `count_symbols` -/

theorem countSymbols_ok (K C : Nat) (seq : Array Nat) (hC : 0 < C)
    (hsym : ∀ k, k < seq.size → seq.getD k 0 < K) :
    ∃ cnt, countSymbols K C seq = .ok cnt ∧ cnt.size = K ∧
      ∀ c, c < K → cnt.getD c 0 = symCount seq c := by
  unfold countSymbols
  dsimp only
  generalize hrows : (seq.size + (C - 1)) / C = rows
  -- the striped matrix covers the sequence
  have hcover : seq.size ≤ C * rows := by
    have h := Nat.lt_mul_div_succ (seq.size + (C - 1)) hC
    rw [hrows, Nat.mul_succ] at h
    omega
  -- indicator of "position k holds symbol c"
  let g : Nat → Nat → Nat := fun c k => if k < seq.size ∧ seq.getD k 0 = c then 1 else 0
  have inner : ∀ i (t : Array Nat), t.size = K →
      ∃ t', forUp C (fun j cnt =>
          if j * rows + i < seq.size then addAt cnt (seq.getD (j * rows + i) 0) 1 else .ok cnt) t = .ok t' ∧
        t'.size = K ∧ ∀ c, t'.getD c 0 = t.getD c 0 + sumTo C (fun j => g c (j * rows + i)) := by
    intro i t ht
    apply forUp_inv (fun j (u : Array Nat) => u.size = K ∧
        ∀ c, u.getD c 0 = t.getD c 0 + sumTo j (fun j => g c (j * rows + i)))
    · exact ⟨ht, fun c => rfl⟩
    · intro j u _ ⟨hu, hc⟩
      by_cases hlt : j * rows + i < seq.size
      · rw [if_pos hlt]
        obtain ⟨a', h1, h2, h3⟩ := addAt_ok u (seq.getD (j * rows + i) 0) 1 (by rw [hu]; exact hsym _ hlt)
        refine ⟨a', h1, by omega, ?_⟩
        intro c
        rw [h3, hc, sumTo_succ]
        show _ = _ + (_ + if j * rows + i < seq.size ∧ seq.getD (j * rows + i) 0 = c then 1 else 0)
        by_cases e : c = seq.getD (j * rows + i) 0
        · rw [if_pos e, if_pos ⟨hlt, e.symm⟩]; omega
        · rw [if_neg e, if_neg (fun hh => e hh.2.symm)]; omega
      · rw [if_neg hlt]
        refine ⟨u, rfl, hu, ?_⟩
        intro c
        rw [hc, sumTo_succ]
        show _ = _ + (_ + if j * rows + i < seq.size ∧ seq.getD (j * rows + i) 0 = c then 1 else 0)
        rw [if_neg (fun hh => hlt hh.1)]; rfl
  have outer := forUp_inv (fun i (t : Array Nat) => t.size = K ∧
      ∀ c, t.getD c 0 = sumTo i (fun i => sumTo C (fun j => g c (j * rows + i))))
    rows (fun i cnt => forUp C (fun j cnt =>
        if j * rows + i < seq.size then addAt cnt (seq.getD (j * rows + i) 0) 1 else .ok cnt) cnt)
    (Array.replicate K 0)
    ⟨by simp, fun c => by
      rw [sumTo_zero_n, Array.getD_eq_getD_getElem?, Array.getElem?_replicate]
      split <;> rfl⟩
    (by
      intro i t _ ⟨ht, hc⟩
      obtain ⟨t', h1, h2, h3⟩ := inner i t ht
      refine ⟨t', h1, h2, ?_⟩
      intro c
      rw [h3, hc, sumTo_succ])
  obtain ⟨cnt, h1, h2, h3⟩ := outer
  refine ⟨cnt, h1, h2, ?_⟩
  intro c _
  rw [h3, sumTo_swap, sumTo_grid, sumTo_extend (g c) hcover (fun k hk => if_neg (fun hh => by omega))]
  unfold symCount
  apply sumTo_congr
  intro k hk
  show (if k < seq.size ∧ seq.getD k 0 = c then 1 else 0) = _
  by_cases e : seq.getD k 0 = c
  · rw [if_pos ⟨hk, e⟩, if_pos e]
  · rw [if_neg (fun hh => e hh.2), if_neg e]

/-! ### `SamplerData::new` -/

theorem countAll_ok (K C : Nat) (hC : 0 < C) : ∀ (l : List (Array Nat)),
    (∀ q, q ∈ l → ∀ k, k < q.size → q.getD k 0 < K) →
    ∃ cs, countAll K C l = .ok cs ∧ cs.length = l.length ∧
      ∀ i, i < l.length → ((cs[i]?).getD #[]).size = K ∧
        ∀ c, c < K → ((cs[i]?).getD #[]).getD c 0 = symCount ((l[i]?).getD #[]) c := by
  intro l
  induction l with
  | nil => intro _; exact ⟨[], rfl, rfl, fun i hi => by cases hi⟩
  | cons q l ih =>
    intro h
    obtain ⟨cnt, h1, h2, h3⟩ := countSymbols_ok K C q hC (h q (List.mem_cons_self ..))
    obtain ⟨cs, h4, h5, h6⟩ := ih (fun q' hq' => h q' (List.mem_cons_of_mem _ hq'))
    refine ⟨cnt :: cs, ?_, by simp [h5], ?_⟩
    · unfold countAll; rw [h1]; dsimp only; rw [h4]
    · intro i hi
      cases i with
      | zero => exact ⟨by simpa using h2, fun c hc => by simpa using h3 c hc⟩
      | succ i =>
        have := h6 i (by simpa using hi)
        simpa using this

/-- `SamplerData::new` on sequences over the alphabet (`C > 0` columns) succeeds and caches the true
    symbol counts: the data it returns is well formed. -/
theorem mkData_wf (K C : Nat) (seqs : Array (Array Nat)) (wraps : Array Nat) (hC : 0 < C)
    (hsym : ∀ i, i < seqs.size → ∀ k, k < (seqs.getD i #[]).size → (seqs.getD i #[]).getD k 0 < K) :
    ∃ D, mkData K C seqs wraps = .ok D ∧ D.seqs = seqs ∧ D.wraps = wraps ∧ D.WF K := by
  have hl : ∀ q, q ∈ seqs.toList → ∀ k, k < q.size → q.getD k 0 < K := by
    intro q hq k hk
    rw [Array.mem_toList_iff, Array.mem_iff_getElem] at hq
    obtain ⟨i, hi, rfl⟩ := hq
    have := hsym i hi k (by simpa [Array.getD_eq_getD_getElem?, hi] using hk)
    simpa [Array.getD_eq_getD_getElem?, hi] using this
  obtain ⟨cs, h1, h2, h3⟩ := countAll_ok K C hC seqs.toList hl
  refine ⟨⟨seqs, cs.toArray, wraps⟩, by unfold mkData; rw [h1], rfl, rfl, ?_⟩
  have hn : cs.length = seqs.size := by simpa using h2
  constructor
  · show cs.toArray.size = seqs.size
    simpa using hn
  · intro i hi k hk
    exact hsym i hi k hk
  · intro i hi
    have hi' : i < seqs.size := hi
    have := (h3 i (by simpa using hi')).1
    simpa [Data.cnt, Array.getD_eq_getD_getElem?] using this
  · intro i hi c hc
    have hi' : i < seqs.size := hi
    have := (h3 i (by simpa using hi')).2 c hc
    simpa [Data.cnt, Data.seq, Array.getD_eq_getD_getElem?] using this

end Sampler
end LMV
