/-
  LMV.Lemmas.Uniprobe — the UniPROBE reader never panics, and a successful `next` strictly
  decreases `|stream| + |pending line|`.  Core Lean only.
-/
import LMV.Model.Uniprobe
import LMV.Lemmas.Build
import LMV.Lemmas.Jaspar

namespace LMV
namespace Uniprobe

open Io Nom

variable {α : Type}

theorem good_frequencies (conv : Bytes → Option α) : Good (frequencies conv) :=
  good_many1 (good_preceded (good_char _) (good_float conv))

theorem good_matrixColumn (A : Alphabet) (conv : Bytes → Option α) : Good (matrixColumn A conv) :=
  good_terminated (good_separatedPair (good_symbol A) (good_char _) (good_frequencies conv))
    good_lineEnding

theorem good_idLine : Good idLine := good_pmap (good_terminated good_notLineEnding good_lineEnding) _

theorem strict_idLine : Strict idLine :=
  strict_pmap (strict_pmap (strict_pair_right good_notLineEnding strict_lineEnding) _) _

theorem matrixColumn_lt {A : Alphabet} (hA : A.IndexOK) {conv : Bytes → Option α} {i r : Bytes}
    {v : Nat × List α} (h : matrixColumn A conv i = .ok r v) : v.1 < A.K := by
  obtain ⟨w, hw, hv⟩ := Jaspar.pmap_ok h
  obtain ⟨r1, h1, _⟩ := pair_ok hw
  obtain ⟨r2, h2, _⟩ := pair_ok h1
  rw [hv]
  exact symbol_lt hA h2

theorem buildMatrix_noPanic {A : Alphabet} (zero : α) (input : List (Nat × List α))
    (hl : ∀ p ∈ input, p.1 < A.K) (site : String) : buildMatrix A zero input ≠ .panic site := by
  unfold buildMatrix
  cases input with
  | nil => simp
  | cons p rest => exact buildSymLoop_noPanic _ hl _ _ _

/-- what `advance` leaves: it never returns more than it was given -/
theorem advance_found (buffer : Bytes) (sched : List Nat) (data : Bytes) :
    ∀ b d s, advance buffer sched data = .found b d s →
      b.length + d.length ≤ buffer.length + data.length ∧ d.length < data.length := by
  induction h : data.length using Nat.strongRecOn generalizing buffer sched data with
  | _ n ih =>
    subst h
    have hcons : (readLine sched data).2.1.length + (through 10 data).length = data.length := by
      obtain ⟨_, h2⟩ := readLine_eq sched data
      have := congrArg List.length (through_append_after 10 data)
      simp at this
      rw [h2]; omega
    intro b d s hf
    unfold advance at hf
    split at hf
    · cases hf
    · rename_i l hl
      have hl' : l = through 10 data := by
        have h1 := (readLine_eq sched data).1
        rw [h1] at hl
        split at hl
        · exact (Option.some.inj hl).symm
        · cases hl
      by_cases hnil : l = []
      · simp only [hnil, dite_true] at hf
        cases hf
      · simp only [hnil, dite_false] at hf
        have hlt := readLine_lt sched data l hl hnil
        split at hf
        · cases hf
          simp only [List.length_append]
          rw [hl'] at *
          omega
        · obtain ⟨h1, h2⟩ := ih _ hlt [] (readLine sched data).2.2 (readLine sched data).2.1 rfl b d s hf
          simp at h1
          omega

/-- the collected columns carry column indices; what is left (stream + pending line) is no more
    than what was there -/
theorem columnsLoop_stop {A : Alphabet} (hA : A.IndexOK) (conv : Bytes → Option α)
    (sched : List Nat) (data : Bytes) :
    ∀ acc : List (Nat × List α), (∀ p ∈ acc, p.1 < A.K) →
      ∀ cols b line d s, columnsLoop A conv acc sched data = .stop cols b line d s →
        (∀ p ∈ cols, p.1 < A.K) ∧ d.length + (if line then b.length else 0) ≤ data.length := by
  induction h : data.length using Nat.strongRecOn generalizing sched data with
  | _ n ih =>
    subst h
    intro acc hacc cols b line d s hs
    rw [columnsLoop] at hs
    split at hs
    · cases hs
    · rename_i b' d' s' ha
      cases hs
      have := (advance_le [] sched data).1
      rw [ha] at this
      simp [Adv.data] at this
      exact ⟨hacc, by simp; exact this⟩
    · rename_i b' d' s' ha
      obtain ⟨h1, h2⟩ := advance_found [] sched data b' d' s' ha
      split at hs
      · rename_i r col hc
        have hcol := matrixColumn_lt hA hc
        obtain ⟨g1, g2⟩ := ih _ h2 s' d' rfl (acc ++ [col]) (by
          intro p hp
          simp only [List.mem_append, List.mem_singleton] at hp
          rcases hp with hp | hp
          · exact hacc p hp
          · rw [hp]; exact hcol) cols b line d s hs
        exact ⟨g1, by omega⟩
      · cases hs
        simp at h1
        exact ⟨hacc, by simp; omega⟩

/-- `|stream| + |pending line|` -/
def measure (s : State) : Nat := s.data.length + (if s.line then s.buffer.length else 0)

/-- **`next` never panics** (repaired code), for every scalar type, conversion and frequency test -/
theorem next_noPanic {A : Alphabet} (hA : A.IndexOK) (conv : Bytes → Option α) (zero : α)
    (freqOk : Mat α A.K → Bool) (s : State) (site : String) :
    (next A conv zero freqOk s).1 ≠ .panic site := by
  unfold next
  simp only
  split
  · simp
  · simp
  · rename_i b d sc _
    have hinc := good_idLine.noInc b
    split
    · rename_i r id hid
      split
      · simp
      · rename_i cols b' line' d' sc' hcl
        have hcols := (columnsLoop_stop hA conv sc d [] (by simp) cols b' line' d' sc' hcl).1
        split
        · rename_i site' hb
          exact absurd hb (buildMatrix_noPanic zero cols hcols site')
        · simp
        · split <;> simp
    · rename_i e hne
      cases he : idLine b with
      | ok r v => exact absurd he (hne r v)
      | err => simp [ofNomErr]
      | fail => simp [ofNomErr]
      | incomplete => exact absurd he hinc

/-- **a successful `next` strictly decreases `|stream| + |pending line|`** -/
theorem next_record_decreases {A : Alphabet} (hA : A.IndexOK) (conv : Bytes → Option α) (zero : α)
    (freqOk : Mat α A.K → Bool) (s : State) (r : URecord α A.K)
    (h : (next A conv zero freqOk s).1 = .record r) :
    measure (next A conv zero freqOk s).2 < measure s := by
  unfold next at h ⊢
  simp only at h ⊢
  split at h
  · cases h
  · cases h
  · rename_i b d sc hpend
    -- what the pending line costs
    have hp : d.length + 1 ≤ measure s ∨ (d.length ≤ s.data.length ∧ s.line = true ∧ b = s.buffer) := by
      by_cases hline : s.line = true
      · simp only [hline, if_true] at hpend
        cases hpend
        exact Or.inr ⟨Nat.le_refl _, hline, rfl⟩
      · simp only [hline] at hpend
        have := (advance_found s.buffer s.sched s.data b d sc hpend).2
        left
        simp [measure, hline]; omega
    split at h
    · rename_i rest id hid
      have hb1 : 0 < b.length := by
        have := strict_idLine _ _ _ hid
        omega
      split at h
      · cases h
      · rename_i cols b' line' d' sc' hcl
        have hleft := (columnsLoop_stop hA conv sc d [] (by simp) cols b' line' d' sc' hcl).2
        split at h
        · cases h
        · cases h
        · split at h
          · rename_i hfreq
            simp only [hfreq, if_true, measure]
            rcases hp with hp | ⟨hp1, hp2, hp3⟩
            · simp only [measure] at hp; omega
            · simp only [hp2, if_true, ← hp3]; omega
          · cases h
    · rename_i e hne
      cases he : idLine b with
      | ok r' v => exact absurd he (hne r' v)
      | err => rw [he] at h; simp [ofNomErr] at h
      | fail => rw [he] at h; simp [ofNomErr] at h
      | incomplete => rw [he] at h; simp [ofNomErr] at h

end Uniprobe
end LMV
