/-
  LMV.Lemmas.Jaspar — the two JASPAR parsers are `Good`, consume input, never reach an index
  panic; the shared `Reader` keeps `start ≤ buffer.len()`, never panics, and a successful `next`
  strictly decreases `|stream| + |buffer| − start`.  Core Lean only.
-/
import LMV.Model.Jaspar16
import LMV.Lemmas.Build
import LMV.Lemmas.Stream

namespace LMV

open Io Nom

namespace Jaspar

theorem good_counts : Good counts := good_preceded (good_opt good_space1) (good_sepList0 good_space1 (good_uint _))

theorem good_matrixColumn : Good matrixColumn := good_terminated good_counts good_lineEnding

theorem strict_matrixColumn : Strict matrixColumn :=
  strict_pmap (strict_pair_right good_counts strict_lineEnding) _

theorem good_header : Good header :=
  good_pmap (good_pair (good_preceded (good_tag _) (good_takeWhile _))
    (good_pair (good_takeUntilByte _) good_lineEnding)) _

theorem strict_header : Strict header :=
  strict_pmap (strict_pair_left
    (strict_pmap (strict_pair_left (strict_tag _ (by simp)) (good_takeWhile _)) _)
    (good_pair (good_takeUntilByte _) good_lineEnding)) _

theorem good_matrix : Good matrix :=
  good_built (good_pair good_matrixColumn (good_pair good_matrixColumn
    (good_pair good_matrixColumn good_matrixColumn))) _

theorem good_record : Good record := good_pmap (good_pair good_header good_matrix) _

theorem strict_record : Strict record := strict_pmap (strict_pair_left strict_header good_matrix) _

theorem buildLoop_noPanic {K : Nat} (l : List (List Nat × Nat)) (hl : ∀ p ∈ l, p.2 < K) :
    ∀ (m : Mat Nat K) (site : String), buildLoop m l ≠ .panic site := by
  induction l with
  | nil => intro m site; simp [buildLoop]
  | cons p rest ih =>
    intro m site
    obtain ⟨cs, s⟩ := p
    have hs : s < K := hl (cs, s) (by simp)
    have hrest : ∀ p ∈ rest, p.2 < K := fun p hp => hl p (by simp [hp])
    simp only [buildLoop]
    split
    · simp
    · rename_i hlen
      have hlen' : cs.length = m.rows := by simpa using hlen
      obtain ⟨m', h1, _⟩ := fillColumn_some s hs cs m 0 (by omega)
      rw [h1]
      exact ih hrest m' site

theorem symbols_eq : symbols = [0, 1, 3, 2] := by decide

theorem buildMatrix_noPanic (a c g t : List Nat) (site : String) :
    buildMatrix [a, c, g, t] ≠ .panic site := by
  unfold buildMatrix
  simp only
  apply buildLoop_noPanic
  rw [symbols_eq]
  intro p hp
  simp only [List.zip_cons_cons, List.zip_nil_right, List.mem_cons, List.not_mem_nil, or_false] at hp
  have : dna.K = 5 := rfl
  rcases hp with h | h | h | h <;> (rw [h]; simp [this])

/-- the raw parser never yields an index panic -/
theorem matrix_noPanic {i r : Bytes} {e : Except String (Mat Nat dna.K)}
    (h : matrix i = .ok r e) : ∃ m, e = .ok m :=
  built_noPanic (fun _ _ v _ site => buildMatrix_noPanic v.1 v.2.1 v.2.2.1 v.2.2.2 site) h

theorem pmap_ok {α β : Type} {f : Parser α} {g : α → β} {i r : Bytes} {w : β}
    (h : pmap f g i = .ok r w) : ∃ v, f i = .ok r v ∧ w = g v := by
  unfold pmap at h
  cases h' : f i with
  | ok r' v' =>
    rw [h'] at h; simp only [PRes.map, PRes.ok.injEq] at h
    exact ⟨v', by rw [h.1], h.2.symm⟩
  | _ => rw [h'] at h; simp [PRes.map] at h

theorem record_noPanic {i r : Bytes} {e : Except String (CRecord dna.K)}
    (h : record i = .ok r e) : ∃ v, e = .ok v := by
  obtain ⟨v, hv, he⟩ := pmap_ok h
  obtain ⟨r1, _, h2⟩ := pair_ok hv
  obtain ⟨m, hm⟩ := matrix_noPanic h2
  rw [he, hm]
  exact ⟨_, rfl⟩

/-! ### the reader -/

/-- the reader's invariant: the offset of the next unparsed record lies within the buffer -/
def Inv (s : State) : Prop := s.start ≤ s.buffer.length

/-- `|stream| + |buffer| − start` -/
def measure (s : State) : Nat := s.data.length + (s.buffer.length - s.start)

theorem new_inv (grow : Nat → Nat → Nat → Nat) (sched : List Nat) (data : Bytes) :
    Inv (new grow sched data) := by
  simp [Inv, new]

theorem readUntil_length (d : UInt8) (sched : List Nat) (data : Bytes) :
    (readUntil d sched data).1.length + (readUntil d sched data).2.1.length = data.length := by
  rw [readUntil_fst, readUntil_snd]
  have := congrArg List.length (through_append_after d data)
  simpa using this

/-- **`next` never panics and keeps the invariant**, for every record parser that is `Good` and
    free of index panics, every capacity policy, every chunk schedule. -/
theorem next_safe {ρ : Type} (parse : Parser (Except String ρ)) (hgood : Good parse)
    (hnp : ∀ i r e, parse i = .ok r e → ∃ v, e = .ok v)
    (grow : Nat → Nat → Nat → Nat) (s : State) (hinv : Inv s) :
    (∀ site, (next parse grow s).1 ≠ .panic site) ∧ Inv (next parse grow s).2 := by
  unfold Inv at hinv
  unfold next
  simp only
  have hle : ¬ (s.buffer ++ (readUntil 0x3E s.sched s.data).1).length < s.start := by
    simp; omega
  rw [if_neg hle]
  split
  · exact ⟨by intro site; simp, by simp [Inv]; omega⟩
  · split
    · exact ⟨by intro site; simp, by simp [Inv]; omega⟩
    · split
      · rename_i rest site hp
        obtain ⟨v, hv⟩ := hnp _ _ _ hp
        cases hv
      · rename_i rest rec hp
        have hrest := hgood.le _ _ _ hp
        rw [if_neg (by omega)]
        split
        · split
          · rename_i hlt
            exfalso
            simp only [List.length_drop, List.length_append] at hrest hlt
            omega
          · exact ⟨by intro site; simp, by simp [Inv]⟩
        · refine ⟨by intro site; simp, ?_⟩
          simp only [Inv, List.length_drop, List.length_append] at hrest ⊢
          omega
      · rename_i e h1 h2
        refine ⟨?_, by simp [Inv]; omega⟩
        intro site
        have hinc := hgood.noInc ((s.buffer ++ (readUntil 0x3E s.sched s.data).1).drop s.start)
        cases he : parse ((s.buffer ++ (readUntil 0x3E s.sched s.data).1).drop s.start) with
        | ok r v =>
          exfalso
          cases v with
          | ok rec => exact h2 r rec he
          | error site => exact h1 r site he
        | err => simp [ofNomErr]
        | fail => simp [ofNomErr]
        | incomplete => exact absurd he hinc

/-- **a successful `next` strictly decreases `|stream| + |buffer| − start`** (the record parser
    consumes at least the `>`), whatever the capacity policy and the chunk schedule -/
theorem next_record_decreases {ρ : Type} (parse : Parser (Except String ρ)) (hgood : Good parse)
    (hstrict : Strict parse) (grow : Nat → Nat → Nat → Nat) (s : State) (hinv : Inv s) (r : ρ)
    (h : (next parse grow s).1 = .record r) :
    measure (next parse grow s).2 < measure s := by
  unfold Inv at hinv
  have hlen := readUntil_length 0x3E s.sched s.data
  unfold next at h ⊢
  simp only at h ⊢
  have hle : ¬ (s.buffer ++ (readUntil 0x3E s.sched s.data).1).length < s.start := by
    simp; omega
  rw [if_neg hle] at h ⊢
  split at h
  · cases h
  · rename_i hv
    rw [if_neg hv]
    split at h
    · cases h
    · rename_i hb
      rw [if_neg hb]
      split at h
      · cases h
      · rename_i rest rec hp
        have hrest := hgood.le _ _ _ hp
        have hst := hstrict _ _ _ hp
        rw [if_neg (by omega)] at h ⊢
        simp only [List.length_drop, List.length_append] at hrest hst
        split
        · split
          · rename_i hlt
            exfalso
            simp only [List.length_drop, List.length_append] at hlt
            omega
          · simp only [measure, List.length_drop, List.length_append]
            omega
        · simp only [measure, List.length_drop, List.length_append]
          omega
      · rename_i e h1 h2
        cases he : parse ((s.buffer ++ (readUntil 0x3E s.sched s.data).1).drop s.start) with
        | ok r' v =>
          exfalso
          cases v with
          | ok rec => exact h2 r' rec he
          | error site => exact h1 r' site he
        | err => rw [he] at h; simp [ofNomErr] at h
        | fail => rw [he] at h; simp [ofNomErr] at h
        | incomplete => rw [he] at h; simp [ofNomErr] at h

end Jaspar

namespace Jaspar16

theorem good_counts : Good counts :=
  good_delimited (good_delimited good_space0 (good_tag _) good_space0)
    (good_sepList0 good_space1 (good_uint _)) (good_delimited good_space0 (good_tag _) good_space0)

theorem good_matrixColumn (A : Alphabet) : Good (matrixColumn A) :=
  good_terminated (good_separatedPair (good_symbol A) good_space1 good_counts) good_lineEnding

theorem strict_matrixColumn (A : Alphabet) : Strict (matrixColumn A) :=
  strict_pmap (strict_pair_right (good_separatedPair (good_symbol A) good_space1 good_counts)
    strict_lineEnding) _

theorem good_matrix (A : Alphabet) : Good (matrix A) := good_built (good_many1 (good_matrixColumn A)) _

theorem good_record (A : Alphabet) : Good (record A) :=
  good_pmap (good_pair Jaspar.good_header (good_matrix A)) _

theorem strict_record (A : Alphabet) : Strict (record A) :=
  strict_pmap (strict_pair_left Jaspar.strict_header (good_matrix A)) _

theorem matrixColumn_lt {A : Alphabet} (hA : A.IndexOK) {i r : Bytes} {v : Nat × List Nat}
    (h : matrixColumn A i = .ok r v) : v.1 < A.K := by
  obtain ⟨w, hw, hv⟩ := Jaspar.pmap_ok h
  obtain ⟨r1, h1, _⟩ := pair_ok hw
  obtain ⟨r2, h2, _⟩ := pair_ok h1
  rw [hv]
  exact symbol_lt hA h2

theorem buildMatrix_noPanic {A : Alphabet} (input : List (Nat × List Nat))
    (hne : input ≠ []) (hl : ∀ p ∈ input, p.1 < A.K) (site : String) :
    buildMatrix A input ≠ .panic site := by
  unfold buildMatrix
  cases input with
  | nil => exact absurd rfl hne
  | cons p rest => exact buildSymLoop_noPanic _ hl _ _ _

theorem many1_ne_nil {α : Type} {f : Parser α} {i r : Bytes} {vs : List α}
    (h : many1 f i = .ok r vs) : vs ≠ [] := by
  intro hnil
  unfold many1 at h
  cases h1 : f i with
  | ok i1 o =>
    rw [h1] at h
    -- the accumulator is never empty
    have key : ∀ (j : Bytes) (acc : List α), acc ≠ [] → ∀ r vs, manyLoop f j acc = .ok r vs → vs ≠ [] := by
      intro j
      induction hn : j.length using Nat.strongRecOn generalizing j with
      | _ n ih =>
        subst hn
        intro acc hacc r vs hm
        rw [manyLoop] at hm
        cases h2 : f j with
        | ok j1 o' =>
          rw [h2] at hm; simp only at hm
          split at hm
          · rename_i hlt
            exact ih _ hlt j1 rfl (o' :: acc) (by simp) r vs hm
          · cases hm
        | err =>
          rw [h2] at hm; simp only [PRes.ok.injEq] at hm
          rw [← hm.2]; simpa using hacc
        | fail => rw [h2] at hm; cases hm
        | incomplete => rw [h2] at hm; cases hm
    exact key i1 [o] (by simp) r vs h hnil
  | _ => rw [h1] at h; simp at h

theorem matrix_noPanic {A : Alphabet} (hA : A.IndexOK) {i r : Bytes}
    {e : Except String (Mat Nat A.K)} (h : matrix A i = .ok r e) : ∃ m, e = .ok m :=
  built_noPanic (fun _ _ v hv site =>
    buildMatrix_noPanic v (many1_ne_nil hv)
      (many1_mem (fun p => p.1 < A.K) (fun _ _ _ hp => matrixColumn_lt hA hp) hv) site) h

theorem record_noPanic {A : Alphabet} (hA : A.IndexOK) {i r : Bytes}
    {e : Except String (CRecord A.K)} (h : record A i = .ok r e) : ∃ v, e = .ok v := by
  obtain ⟨v, hv, he⟩ := Jaspar.pmap_ok h
  obtain ⟨r1, _, h2⟩ := pair_ok hv
  obtain ⟨m, hm⟩ := matrix_noPanic hA h2
  rw [he, hm]
  exact ⟨_, rfl⟩

end Jaspar16
end LMV
