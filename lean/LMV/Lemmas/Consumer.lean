/-
  LMV.Lemmas.Consumer — what a consumer of a reader observes.  Core Lean only.
-/
import LMV.Model.ReaderCommon

namespace LMV
namespace Io

variable {σ ρ : Type}

/-- the outcomes of the first `n` calls of `next` -/
def outcomes (step : σ → Outcome ρ × σ) : Nat → σ → List (Outcome ρ)
  | 0, _ => []
  | n + 1, s => (step s).1 :: outcomes step n (step s).2

end Io
end LMV
