/-
  LMV.Lemmas.DistPvalue — `pvalue s` is the tail of the integer score at the rounded scaled score,
  in all three branches (below the minimum, inside the table, past its end, with the `i32` cast
  saturating or not).
-/
import LMV.Lemmas.DistBuild

namespace LMV.Dist

variable {R : Nat} {syms : List Nat} {bg : List Rat} {m : List (List (Option Rat))} {d : Dist Rat}

/-- no mass below `min_score`: the tail is constant there -/
theorem tail_below_min (_hyp : Hyp R syms bg m) (F : Facts R syms bg m d) {k : Int} (hk : k ≤ d.minScore) :
    prob syms bg m.length (dGe d.data k) = prob syms bg m.length (dGe d.data d.minScore) := by
  -- natural indices first
  have hnat : ∀ n j : Nat, (j : Int) + n = d.minScore →
      prob syms bg m.length (dGe d.data (j : Int)) = prob syms bg m.length (dGe d.data d.minScore) := by
    intro n
    induction n with
    | zero => intro j hj; rw [← hj]; simp
    | succ n ih =>
      intro j hj
      rw [prob_dGe_succ, F.min_mass j (by omega), zero_add]
      exact ih (j + 1) (by push_cast; omega)
  by_cases hk0 : k ≤ 0
  · rw [prob_dGe_of_nonpos hk0]
    have := hnat d.minScore.toNat 0 (by have := F.min_nonneg; omega)
    simpa using this
  · have hkn : ((k.toNat : Nat) : Int) = k := by omega
    have := hnat (d.minScore - k).toNat k.toNat (by omega)
    rw [hkn] at this
    exact this

/-- `pvalue s = P(D ≥ round((s − M·offset)·scale))` -/
theorem pvalue_eq (hyp : Hyp R syms bg m) (F : Facts R syms bg m d) (s : Rat) :
    d.pvalue s =
      prob syms bg m.length (dGe d.data (ratRound ((s - m.length * d.offset) * d.scale))) := by
  have hx : (s - Scalar.ofInt (Int.ofNat d.rows * d.offset)) * d.scale =
      (s - m.length * d.offset) * d.scale := by
    rw [F.rows, ofInt_rat]; push_cast; rfl
  unfold Dist.pvalue Dist.scaleScore
  simp only [roundI32_rat, hx]
  generalize ratRound ((s - m.length * d.offset) * d.scale) = k0
  have hsz := F.size
  have hmin0 := F.min_nonneg
  have hminlt := F.min_lt
  have hi32 := hyp.i32_size
  have hsfG : ∀ k : Int, 0 ≤ k → k.toNat < d.sf.size →
      vget d.sf k.toNat = prob syms bg m.length (dGe d.data k) := by
    intro k hk0 hk
    rw [F.sf k.toNat hk]
    have : ((k.toNat : Nat) : Int) = k := by omega
    rw [this]
  have hlarge : ∀ k : Int, (d.sf.size : Int) ≤ k → prob syms bg m.length (dGe d.data k) = 0 := by
    intro k hk
    apply prob_dGe_of_large F.wordBound
    rw [hsz] at hk; push_cast at hk ⊢; omega
  have hsfmin : vget d.sf d.minScore.toNat = prob syms bg m.length (dGe d.data d.minScore) :=
    hsfG d.minScore hmin0 (by omega)
  rw [hsz] at hminlt
  unfold clampI32
  by_cases h1 : k0 < I32_MIN
  · -- the cast saturates at i32::MIN
    rw [if_pos h1]
    have : I32_MIN < d.minScore := by unfold I32_MIN; omega
    rw [if_pos this, hsfmin]
    exact (tail_below_min hyp F (by unfold I32_MIN at h1; omega)).symm
  · rw [if_neg h1]
    by_cases h2 : I32_MAX < k0
    · -- the cast saturates at i32::MAX, past the end of the table
      rw [if_pos h2]
      have hsz' : (d.sf.size : Int) ≤ I32_MAX := by rw [hsz]; exact hi32
      rw [if_neg (by omega), if_neg (by unfold I32_MAX; omega),
        if_pos (by unfold I32_MAX at hsz' ⊢; omega)]
      rw [hlarge k0 (by omega)]; rfl
    · rw [if_neg h2]
      by_cases h3 : k0 < d.minScore
      · rw [if_pos h3, hsfmin]
        exact (tail_below_min hyp F (le_of_lt h3)).symm
      · rw [if_neg h3, if_neg (by omega)]
        by_cases h4 : d.sf.size ≤ k0.toNat
        · rw [if_pos h4, hlarge k0 (by omega)]; rfl
        · rw [if_neg h4]
          exact hsfG k0 (by omega) (by omega)

end LMV.Dist
